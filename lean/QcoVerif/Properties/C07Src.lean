import QcoVerif.Properties.C07
import QcoVerif.Lemmas.ScanSrc
import QcoVerif.Lemmas.FacadeSrc
/-
  C07 — tie to the SOURCE TEXT (DESIGN.md §2.3b).  Kept in a file of its own that nothing imports: a change of the translated
  source functions breaks THESE obligations only, not the build of the property files that import Properties/C07.lean.
-/
namespace Qco.C07
open Qco

/-! ### tie to the SOURCE TEXT (DESIGN.md §2.3b)

`Gen.PySrc.AcquisitionRegistry_get_registry_at` is the mini-Python syntax of `AcquisitionRegistry.get_registry_at`, regenerated
from the source text on every run.  Running the interpreter on it — for EVERY listing, measurement and qubit — gives the model's
`acqScan`, the function all theorems above are about. -/

section SourceTie
open Qco.Py Qco.Gen.PySrc Qco.TimingSrc Qco.ScanSrc

/-- **the source text of `get_registry_at` computes the model's two-counter scan** over the measurements of the listing
    (`ops`: the decomposed operations, `none` = not an acquisition operation), `(-1, -1)` (the default) if not found. -/
theorem registry_scan_matches_source (ops : List (Option (Nat × Int))) (m : Nat) (q : Int) :
    callFn scanEnv AcquisitionRegistry_get_registry_at [regSelf ops, identVal m q] =
      infoVal (acqScan (ops.filterMap id) m q) := by
  have hbodyEq : AcquisitionRegistry_get_registry_at.body =
      [.assign "qubit_level_acquisition_index" (.int 0), .assign "circuit_level_acquisition_index" (.int 0),
       .for_ "operation" (.mcall (.attr (.name "self") "reference_circuit") "decomposed_operations" []) loopBody,
       .ret (.attr (.name "self") "_default")] := rfl
  have harity : (AcquisitionRegistry_get_registry_at.params.length != [regSelf ops, identVal m q].length) = false := rfl
  unfold callFn
  rw [harity, hbodyEq]
  let vs0 : Vars := bindParams AcquisitionRegistry_get_registry_at.params [regSelf ops, identVal m q] []
  let vs2 : Vars := (vs0.set "qubit_level_acquisition_index" (.int 0)).set "circuit_level_acquisition_index" (.int 0)
  have hself0 : vs0.get "self" = regSelf ops := by simp [vs0, AcquisitionRegistry_get_registry_at, bindParams, Vars.get, Vars.set]
  have hkey0 : vs0.get "key" = identVal m q := by simp [vs0, AcquisitionRegistry_get_registry_at, bindParams, Vars.get, Vars.set]
  have hself2 : vs2.get "self" = regSelf ops := by simp [vs2, get_set_ne, hself0]
  have h12 : execBlock scanEnv vs0 [.assign "qubit_level_acquisition_index" (.int 0), .assign "circuit_level_acquisition_index" (.int 0),
       .for_ "operation" (.mcall (.attr (.name "self") "reference_circuit") "decomposed_operations" []) loopBody,
       .ret (.attr (.name "self") "_default")] =
      execBlock scanEnv vs2 [.for_ "operation" (.mcall (.attr (.name "self") "reference_circuit") "decomposed_operations" []) loopBody,
       .ret (.attr (.name "self") "_default")] := by
    simp [vs2, execBlock, exec, eval, Val.isErr]
  have hiter : (eval scanEnv vs2 (.mcall (.attr (.name "self") "reference_circuit") "decomposed_operations" [])).elems? =
      some (ops.map opVal) := by
    simp [eval, evalList, hself2, regSelf, getAttr, lookupField, scanEnv, Val.elems?]
  have hv2 : ScanVars vs2 m q 0 0 :=
    ⟨by simp [vs2, get_set_ne, hkey0], by simp [vs2, vars_get_set_same, get_set_ne], by simp [vs2, vars_get_set_same]⟩
  show (match execBlock scanEnv vs0 _ with | .ret v => v | .cont _ => Val.none | .raised what => _) = _
  rw [h12, execBlock_for _ _ _ _ _ _ _ hiter]
  have L := scan_loop m q ops vs2 0 0 hv2
  unfold acqScan
  split at L
  · rw [L]
  · obtain ⟨⟨vs', h1, h2⟩, h3⟩ := L
    rw [h1, h3]
    simp [execBlock, exec, eval, h2, hself2, regSelf, getAttr, lookupField]

end SourceTie



/-! ### the facade `DeclarativeCircuit` as written (Lemmas/FacadeSrc.lean; DESIGN.md §2.3b) -/

section Facade
open Qco.Py Qco.Gen.PySrc Qco.BuilderSrc Qco.FacadeSrc

/-- the transfer table `add_sub_circuit` hands to `copy`: one pair, sub-circuit ↦ own structure. -/
theorem facade_add_sub_circuit_lookup (sub st : Val) :
    eval builderEnv (Vars.set (Vars.set [] "self" (declObj 1 st addedObj regObj)) "operation" sub)
      (.call "dict_of" [.name "operation", .attr (.name "self") "_structure"]) = .list [.tuple [sub, st]] :=
  FacadeSrc.add_sub_circuit_lookup sub st

end Facade

end Qco.C07
