import QcoVerif.Lemmas.DefinedUnrollD
import QcoVerif.Lemmas.TreeBuild
/-
  C01, definedness after unrolling — part E: API-built heaps meet the hypotheses of `applyModifiers_certified`.

  * `addLeaf_certified`   — `add` of a freshly created leaf operation created WITHOUT an explicit relation (it shares the
    default link `0`) keeps `Defined.Certified` (closed, acyclic, no group link);
  * `singleUnder_of_certified` — a certified heap has no group link below anything;
  * `exG_certified`       — the example heap `exG` of Lemmas/TreeBuild.lean (nesting depth 2, counts 2 and 3), built with
    `newCircuit / newOp / add / addSub`, is certified.
-/
namespace Qco.DefinedUnroll

open Qco Qco.Defined

theorem default_link : (default : Op).link = 0 := rfl

/-- in a closed heap the default link `0` exists and refers to existing objects. -/
theorem closed_link0 {w : World} (hc : Closed w) : 0 < w.links.size ∧ ∀ r ∈ (w.lnk 0).refs, r < w.ops.size := by
  have h1 := hc.link w.ops.size
  have h2 := hc.ref w.ops.size
  rw [op_of_ge w (Nat.le_refl _)] at h1 h2
  exact ⟨h1, h2⟩

/-- **`add` of a fresh leaf operation without explicit relation keeps the certificate** (no group link). -/
theorem addLeaf_certified {w : World} (h : Certified w) (op : Op) (c : Nat) (hl : op.link = 0) (hg : op.graph = [])
    (hcl : c < w.ops.size) (hcomp : (w.op c).isComp = true) :
    Certified ((w.newOp op).1.add c w.ops.size) := by
  obtain ⟨hl0, hr0⟩ := closed_link0 h.closed
  have h1 : ∀ r ∈ (w.lnk op.link).refs, r < w.ops.size := by rw [hl]; exact hr0
  have h2 : ∀ e ∈ op.graph, e.node < w.ops.size := by intro e he; rw [hg] at he; cases he
  have hc2 : Closed (w.newOp op).1 := newOp_closed h.closed op (by rw [hl]; exact hl0) h1 h2
  have ha2 : Acyclic (w.newOp op).1 := newOp_acyclic h.closed h.acyclic op h1 h2
  have hs2 : SingleLinks (w.newOp op).1 := singleLinks_congr rfl h.single
  have hsz2 : (w.newOp op).1.ops.size = w.ops.size + 1 := Defined.newOp_size w op
  have hu : Unref (w.newOp op).1 w.ops.size := by
    intro y hy
    rcases dep_newOp _ op hy with hd | ⟨_, hr | ⟨_, e, he, _⟩⟩
    · rcases hd with hd | ⟨_, e, he, hen⟩
      · exact Nat.lt_irrefl _ (h.closed.ref y _ hd)
      · have := h.closed.node y e he; rw [hen] at this; exact Nat.lt_irrefl _ this
    · exact Nat.lt_irrefl _ (h1 _ hr)
    · rw [hg] at he; cases he
  have hopc : (w.newOp op).1.op c = w.op c := by
    rw [op_newOp, if_neg (by omega)]
  have hopo : (w.newOp op).1.op w.ops.size = op := by
    rw [op_newOp, if_pos rfl]
  have hcomp2 : ((w.newOp op).1.op c).isComp = true := by rw [hopc]; exact hcomp
  refine ⟨add_closed hc2 c _ (by rw [hsz2]; omega), ?_, add_singleLinks hc2 hs2 c _⟩
  apply add_acyclic_single hc2 ha2 c _ (by rw [hsz2]; omega) hcomp2 (hs2 _) (by omega)
  · rintro y ⟨_, e, he, _⟩
    rw [hopo, hg] at he; cases he
  · intro e he hr
    have : e.node = w.ops.size := reach_unref hu hr
    exact hu c (Or.inr ⟨hcomp2, e, he, this⟩)

theorem singleUnder_of_certified {w : World} (h : Certified w) (f o : Nat) : SingleUnder w f o :=
  fun _ _ _ => h.single _

/-- **the example heap `exG` is certified**: every build step (`newCircuit`, `add` of a fresh leaf, `addSub`) keeps the
    certificate. -/
theorem exG_certified : Certified exG.1 := by
  -- inner = DeclarativeCircuit(3); inner.add(Rx180)
  have nA := newCircuit_tree ({} : World) (.fixed 3) 1
  have certA : Certified exA.1 := newCircuit_certified certified_empty _
  have sA : exA.1.ops.size = 1 := nA.2.2.1
  have cA : (exA.1.op exA.2).isComp = true := nA.2.2.2.2.1
  have iA : exA.2 = 0 := rfl
  have certB : Certified exB := addLeaf_certified certA exX exA.2 rfl rfl (by rw [sA, iA]; omega) cA
  obtain ⟨sB, _, _, _, _⟩ := exB_facts
  -- mid = DeclarativeCircuit(2); mid.add(measure)
  have nC := newCircuit_tree exB (.fixed 2) 2
  have certC : Certified exC.1 := newCircuit_certified certB _
  have iC : exC.2 = exB.ops.size := rfl
  have sC : exC.1.ops.size = exB.ops.size + 1 := nC.2.2.1
  have cC : (exC.1.op exC.2).isComp = true := nC.2.2.2.2.1
  have certD : Certified exD := addLeaf_certified certC exM exC.2 rfl rfl (by rw [iC, sC]; omega) cC
  obtain ⟨sD, iC2, _, _, tD, cD, _, _, _, _, _⟩ := exD_facts
  -- mid.add_sub_circuit(inner)
  have certE : Certified exE.1 :=
    addSub_certified' certD exC.2 exA.2 (by rw [sD, iC2]; omega) (by rw [sD, iA]; omega) cD
  -- top = DeclarativeCircuit(); top.add_sub_circuit(mid)
  have nF := newCircuit_tree exE.1 (.fixed 1) 3
  have certF : Certified exF.1 := newCircuit_certified certE _
  have iF : exF.2 = exE.1.ops.size := rfl
  have sF : exF.1.ops.size = exE.1.ops.size + 1 := nF.2.2.1
  have cF : (exF.1.op exF.2).isComp = true := nF.2.2.2.2.1
  have hfD : 2 ≤ exD.depthFuel := by unfold World.depthFuel; omega
  have sE : exD.ops.size ≤ exE.1.ops.size := (addSub_tree exD 2 exC.2 exA.2 tD cD exD_facts.2.2.1 hfD).2.1
  exact addSub_certified' certF exF.2 exC.2 (by rw [iF, sF]; omega) (by rw [sF, iC2]; omega) cF

end Qco.DefinedUnroll
