import QcoVerif.Lemmas.RepChainDesc
/-
  C09, all chain lengths: the effect of one QEC round of the chain on an arbitrary register of
  Z-eigenstates — ancilla 2j+1 picks up the forms of its neighbours 2j and 2j+2 and is measured.
-/
namespace Qco.RepChain
open Qco.StimSem Qco.RepCode

/-- ancilla qubits in basis `b` holding form `g`, the others as in `F` -/
def ancSet (m : Nat) (F : Nat → Q) (b : Basis) (g : Nat → Nat) : Nat → Q :=
  fun x => if x ∈ ancL m then ⟨b, g x⟩ else F x

theorem ancSet_anc {m : Nat} (F : Nat → Q) (b : Basis) (g : Nat → Nat) {x : Nat} (h : x ∈ ancL m) :
    ancSet m F b g x = ⟨b, g x⟩ := by simp [ancSet, h]

theorem ancSet_other {m : Nat} (F : Nat → Q) (b : Basis) (g : Nat → Nat) {x : Nat} (h : ¬ x ∈ ancL m) :
    ancSet m F b g x = F x := by simp [ancSet, h]

theorem anc_lt {m t : Nat} (h : t ∈ ancL m) : t < 2 * m + 1 := by have := mem_ancL.mp h; omega
theorem anc_pred_not {m t : Nat} (h : t ∈ ancL m) : ¬ (t - 1) ∈ ancL m := by
  intro hh; have := mem_ancL.mp h; have := mem_ancL.mp hh; omega
theorem anc_succ_not {m t : Nat} (h : t ∈ ancL m) : ¬ (t + 1) ∈ ancL m := by
  intro hh; have := mem_ancL.mp h; have := mem_ancL.mp hh; omega

theorem run_SY_anc (m : Nat) (F : Nat → Q) (g : Nat → Nat) (T D : List Nat) (o : Nat) :
    run ((ancL m).map .SY) ⟨mk (2 * m + 1) (ancSet m F .Z g), T, D, o⟩ =
      some ⟨mk (2 * m + 1) (ancSet m F .X g), T, D, o⟩ := by
  rw [run_act1_layer .SY (.X, 0) (.Z, 1) (.Y, 0) (fun _ _ => rfl) _ _ (fun q hq => anc_lt hq) (ancL_nodup m)]
  congr 2
  apply mk_congr
  intro x _
  by_cases hx : x ∈ ancL m <;> simp [ancSet, hx, loc]

theorem run_SYd_anc (m : Nat) (F : Nat → Q) (g : Nat → Nat) (T D : List Nat) (o : Nat) :
    run ((ancL m).map .SYd) ⟨mk (2 * m + 1) (ancSet m F .X g), T, D, o⟩ =
      some ⟨mk (2 * m + 1) (ancSet m F .Z g), T, D, o⟩ := by
  rw [run_act1_layer .SYd (.X, 1) (.Z, 0) (.Y, 0) (fun _ _ => rfl) _ _ (fun q hq => anc_lt hq) (ancL_nodup m)]
  congr 2
  apply mk_congr
  intro x _
  by_cases hx : x ∈ ancL m <;> simp [ancSet, hx, loc]

theorem run_CZ_even (m : Nat) (F : Nat → Q) (hZ : ∀ q, q < 2 * m + 1 → (F q).b = .Z)
    (g : Nat → Nat) (T D : List Nat) (o : Nat) :
    run ((ancL m).map fun t => .CZ (t - 1) t) ⟨mk (2 * m + 1) (ancSet m F .X g), T, D, o⟩ =
      some ⟨mk (2 * m + 1) (ancSet m F .X fun t => g t ^^^ (F (t - 1)).f), T, D, o⟩ := by
  rw [run_cz_layer (2 * m + 1) (fun t => t - 1) (fun t => .CZ (t - 1) t) (fun t => Or.inl rfl) (ancL m) (ancL_nodup m)]
  · congr 2
    apply mk_congr
    intro x _
    by_cases hx : x ∈ ancL m
    · simp [ancSet, hx, anc_pred_not hx]
    · simp [ancSet, hx]
  · intro t ht
    have := mem_ancL.mp ht
    refine ⟨by omega, by omega, ?_, ?_⟩
    · rw [ancSet_other _ _ _ (anc_pred_not ht)]; exact hZ _ (by omega)
    · rw [ancSet_anc _ _ _ ht]
  · intro t ht; exact anc_pred_not ht

theorem run_CZ_odd (m : Nat) (F : Nat → Q) (hZ : ∀ q, q < 2 * m + 1 → (F q).b = .Z)
    (g : Nat → Nat) (T D : List Nat) (o : Nat) :
    run ((ancL m).map fun t => .CZ t (t + 1)) ⟨mk (2 * m + 1) (ancSet m F .X g), T, D, o⟩ =
      some ⟨mk (2 * m + 1) (ancSet m F .X fun t => g t ^^^ (F (t + 1)).f), T, D, o⟩ := by
  rw [run_cz_layer (2 * m + 1) (fun t => t + 1) (fun t => .CZ t (t + 1)) (fun t => Or.inr rfl) (ancL m) (ancL_nodup m)]
  · congr 2
    apply mk_congr
    intro x _
    by_cases hx : x ∈ ancL m
    · simp [ancSet, hx, anc_succ_not hx]
    · simp [ancSet, hx]
  · intro t ht
    have := mem_ancL.mp ht
    refine ⟨by omega, by omega, ?_, ?_⟩
    · rw [ancSet_other _ _ _ (anc_succ_not ht)]; exact hZ _ (by omega)
    · rw [ancSet_anc _ _ _ ht]
  · intro t ht; exact anc_succ_not ht

theorem run_M_anc (m : Nat) (F : Nat → Q) (g : Nat → Nat) (T D : List Nat) (o : Nat) :
    run ((ancL m).map .M) ⟨mk (2 * m + 1) (ancSet m F .Z g), T, D, o⟩ =
      some ⟨mk (2 * m + 1) (ancSet m F .Z g), ((ancL m).map g).reverse ++ T, D, o⟩ := by
  rw [run_M_layer]
  · congr 4
    apply List.map_congr_left
    intro t ht
    rw [ancSet_anc _ _ _ ht]
  · intro t ht
    rw [ancSet_anc _ _ _ ht]
    exact ⟨anc_lt ht, rfl⟩

/-- form of ancilla `t` after a round -/
def roundForm (F : Nat → Q) (t : Nat) : Nat := (F t).f ^^^ (F (t - 1)).f ^^^ (F (t + 1)).f

/-- One round (`get_circuit_qec_round`) on a register of Z-eigenstates. -/
theorem run_roundIns (m : Nat) (F : Nat → Q) (hZ : ∀ q, q < 2 * m + 1 → (F q).b = .Z)
    (T D : List Nat) (o : Nat) :
    run (roundIns m) ⟨mk (2 * m + 1) F, T, D, o⟩ =
      some ⟨mk (2 * m + 1) (ancSet m F .Z (roundForm F)), ((ancL m).map (roundForm F)).reverse ++ T, D, o⟩ := by
  have h0 : mk (2 * m + 1) F = mk (2 * m + 1) (ancSet m F .Z fun t => (F t).f) := by
    apply mk_congr
    intro x hx
    by_cases hxa : x ∈ ancL m
    · rw [ancSet_anc _ _ _ hxa]
      have := hZ x hx
      rcases hF : F x with ⟨b, f⟩
      rw [hF] at this
      simp only at this
      subst this; rfl
    · rw [ancSet_other _ _ _ hxa]
  unfold roundIns
  rw [h0]
  simp only [List.append_assoc]
  rw [run_append_some (run_SY_anc m F _ T D o), run_append_some (run_TICK _),
    run_append_some (run_CZ_even m F hZ _ T D o), run_append_some (s' := ⟨mk (2 * m + 1) (ancSet m F .X fun t => (F t).f ^^^ (F (t - 1)).f), T, D, o⟩) rfl,
    run_append_some (run_CZ_odd m F hZ _ T D o),
    run_append_some (s' := ⟨mk (2 * m + 1) (ancSet m F .X fun t => (F t).f ^^^ (F (t - 1)).f ^^^ (F (t + 1)).f), T, D, o⟩) rfl,
    run_append_some (run_SYd_anc m F _ T D o), run_append_some (run_TICK _), run_M_anc]
  rfl

end Qco.RepChain
