import QcoVerif.Model.Builder
import QcoVerif.Generated.CopyTable
/-
  C05 — copies are faithful and independent.

  Class level (full): the per-class `copy()` methods (`Op.copyFields`, written to mirror the source field by
  field; compared with the real methods for all 26 classes by the correspondence run) keep kind, qubits, channel,
  duration strategy, tag and annotation fields of every operation the constructors can produce, and the link
  copy keeps the relation type.  Heap level: a copy allocates only fresh objects and links and writes to no
  existing one (`copyLeaf_frame`, `copyLink_frame`) — the basis of independence.
  Graph level (NOT proved, and false without a side condition): "the copy's listing is the image of the
  original's with every internal relation re-pointed" fails when two distinct nodes are value-equal keys of the
  transfer lookup (known finding R3); `lookup_overwrite_witness` shows the conflation on the lookup itself.
-/
namespace Qco.C05

open Qco

/-- what the public constructors can produce: fields a class does not have keep their defaults, and classes whose
    duration strategy is not a constructor argument carry the class default. -/
def Op.WellFormed (op : Op) : Prop :=
  (op.cls ∈ [Cls.wait, .vacant, .empty, .twovacant] ∨ op.chan = .all) ∧
  (op.cls ∈ [Cls.single, .two, .wait, .vacant, .empty, .twovacant] ∨ op.dur = op.cls.defaultDur) ∧
  (op.cls = .measure ∨ (op.tag = 0 ∧ op.reg = 0)) ∧
  (op.cls ∈ [Cls.detector, .observable, .cshift] ∨ op.ints = []) ∧
  op.cls ≠ .comp

/-- **per-class copy is faithful**: kind, qubits, channel, duration strategy, acquisition tag and annotation
    fields are those of the original — for each of the 26 leaf classes. -/
theorem copy_class_faithful (op : Op) (h : Op.WellFormed op) :
    op.copyFields.cls = op.cls ∧ op.copyFields.qs = op.qs ∧ op.copyFields.chan = op.chan ∧
    op.copyFields.dur = op.dur ∧ op.copyFields.tag = op.tag ∧ op.copyFields.ints = op.ints ∧
    op.copyFields.leafChans = op.leafChans := by
  obtain ⟨hc, hd, ht, hi, hne⟩ := h
  cases hcls : op.cls <;>
    simp_all [Op.copyFields, Op.leafChans, Cls.defaultDur, Op.WellFormed]

/-- every class transfers its relation (Barrier and CoordinateShiftOperation since the R4 repair). -/
theorem copy_keeps_link_all_classes (c : Cls) : c.copyKeepsLink = true := rfl

theorem newLink_lnk_new (w : World) (L : Link) : (w.newLink L).1.lnk (w.newLink L).2 = L := by
  simp [World.newLink, World.lnk, Array.getD]

theorem newLink_lnk_old (w : World) (L : Link) (i : Nat) (h : i < w.links.size) :
    (w.newLink L).1.lnk i = w.lnk i := by
  simp [World.newLink, World.lnk, Array.getD, Array.size_push, h, Nat.lt_succ_of_lt h, Array.getElem_push_lt h]

theorem newOp_op_old (w : World) (o : Op) (i : Nat) (h : i < w.ops.size) : (w.newOp o).1.op i = w.op i := by
  simp [World.newOp, World.op, Array.getD, Array.size_push, h, Nat.lt_succ_of_lt h, Array.getElem_push_lt h]

theorem newOp_op_new (w : World) (o : Op) : (w.newOp o).1.op (w.newOp o).2 = o := by
  simp [World.newOp, World.op, Array.getD]

/-- the link copy is the allocation of ONE new link on a heap with the same objects and links. -/
theorem copyLink_eq (w : World) (l : Nat) (lk : Lookup) :
    ∃ (w' : World) (L : Link), w'.ops = w.ops ∧ w'.links = w.links ∧ w.copyLink l lk = w'.newLink L ∧
      L.rel = (w.lnk l).rel ∧ L.multi = (w.lnk l).multi := by
  unfold World.copyLink
  by_cases hm : (w.lnk l).multi = true
  · have hc : ¬ ((!(w.lnk l).multi) = true) := by simp [hm]
    simp only [if_neg hc]
    refine ⟨{ w with warnings := w.warnings +
        ((w.lnk l).refs.filter (fun r => (lk.get? (w.eqKey r)).isNone)).length },
      { multi := true, refs := (w.lnk l).refs.filterMap (fun r => lk.get? (w.eqKey r)), rel := (w.lnk l).rel },
      rfl, rfl, rfl, rfl, ?_⟩
    simp [hm]
  · have hm' : (w.lnk l).multi = false := by simpa using hm
    have hc : (!(w.lnk l).multi) = true := by simp [hm']
    simp only [if_pos hc]
    refine ⟨w, { refs := (match (w.lnk l).refs.head? with
        | none => []
        | some r => match lk.get? (w.eqKey r) with
          | none => []
          | some r' => [r']), rel := (w.lnk l).rel }, rfl, rfl, rfl, rfl, ?_⟩
    simp [hm']

/-- the link copy keeps the relation type and the kind of link. -/
theorem copyLink_rel (w : World) (l : Nat) (lk : Lookup) :
    ((w.copyLink l lk).1.lnk (w.copyLink l lk).2).rel = (w.lnk l).rel ∧
    ((w.copyLink l lk).1.lnk (w.copyLink l lk).2).multi = (w.lnk l).multi ∧
    (w.copyLink l lk).2 = w.links.size := by
  obtain ⟨w', L, _, hl, he, hr, hm⟩ := copyLink_eq w l lk
  rw [he, newLink_lnk_new]
  exact ⟨hr, hm, by simp [World.newLink, hl]⟩

/-- the link copy leaves every existing object and link as it was. -/
theorem copyLink_frame (w : World) (l : Nat) (lk : Lookup) :
    (w.copyLink l lk).1.ops = w.ops ∧
    ∀ i, i < w.links.size → (w.copyLink l lk).1.lnk i = w.lnk i := by
  obtain ⟨w', L, ho, hl, he, _, _⟩ := copyLink_eq w l lk
  rw [he]
  refine ⟨by simp [World.newLink, ho], fun i hi => ?_⟩
  rw [newLink_lnk_old w' L i (hl ▸ hi)]
  simp [World.lnk, hl]

/-- **a leaf copy is a fresh object**: its identity is new and no existing object or link is written — whatever
    is done to the copy later through its own identity cannot be observed through the original's. -/
theorem copyLeaf_frame (w : World) (o : Nat) (lk : Lookup) :
    (w.copyLeaf o lk).2 = w.ops.size ∧
    (∀ i, i < w.ops.size → (w.copyLeaf o lk).1.op i = w.op i) ∧
    (∀ i, i < w.links.size → (w.copyLeaf o lk).1.lnk i = w.lnk i) := by
  unfold World.copyLeaf
  simp only [copy_keeps_link_all_classes, if_true]
  have hf := copyLink_frame w (w.op o).link lk
  refine ⟨?_, ?_, ?_⟩
  · simp [World.newOp, hf.1]
  · intro i hi
    rw [newOp_op_old _ _ i (by rw [hf.1]; exact hi)]
    have h1 := hf.1
    unfold World.op at h1 ⊢
    rw [h1]
  · intro i hi
    simp only [World.newOp]
    exact hf.2 i hi

/-- the copy carries the class-faithful fields. -/
theorem copyLeaf_fields (w : World) (o : Nat) (lk : Lookup) :
    ((w.copyLeaf o lk).1.op (w.copyLeaf o lk).2).cls = (w.op o).copyFields.cls ∧
    ((w.copyLeaf o lk).1.op (w.copyLeaf o lk).2).qs = (w.op o).copyFields.qs ∧
    ((w.copyLeaf o lk).1.op (w.copyLeaf o lk).2).chan = (w.op o).copyFields.chan ∧
    ((w.copyLeaf o lk).1.op (w.copyLeaf o lk).2).dur = (w.op o).copyFields.dur ∧
    ((w.copyLeaf o lk).1.op (w.copyLeaf o lk).2).tag = (w.op o).copyFields.tag ∧
    ((w.copyLeaf o lk).1.op (w.copyLeaf o lk).2).ints = (w.op o).copyFields.ints := by
  unfold World.copyLeaf
  simp only [copy_keeps_link_all_classes, if_true]
  rw [newOp_op_new]
  exact ⟨rfl, rfl, rfl, rfl, rfl, rfl⟩

/-- the Python `dict` semantics of the transfer lookup: a second object with an equal key overwrites the entry of
    the first, so a follower of the first is re-pointed to the copy of the second (the mechanism behind R3). -/
theorem lookup_overwrite_witness (k : EqKey) (a b : Nat) :
    (Lookup.set (Lookup.set ([] : Lookup) k a) k b).get? k = some b := by
  simp [Lookup.set, Lookup.get?]

/-- after `set k v` the lookup answers `v` for `k` (whether the key was new or overwritten). -/
theorem lookup_get_set (lk : Lookup) (k : EqKey) (v : Nat) : (Lookup.set lk k v).get? k = some v := by
  unfold Lookup.set Lookup.get?
  induction lk with
  | nil => simp
  | cons p ps ih =>
    by_cases hp : p.1 = k
    · simp [hp]
    · have hp' : (p.1 == k) = false := by simpa using hp
      by_cases h : ps.any (fun p => p.1 == k) = true
      · simp only [List.any_cons, hp', Bool.false_or, h, if_true, List.map_cons, Bool.false_eq_true, if_false,
          List.find?_cons] at ih ⊢
        exact ih
      · have h' : ps.any (fun p => p.1 == k) = false := Bool.eq_false_iff.mpr h
        simp only [List.any_cons, hp', Bool.false_or, h', Bool.false_eq_true, if_false, List.cons_append,
          List.find?_cons] at ih ⊢
        exact ih

/-! ### the model's copy IS what the source text of the `copy()` methods says (regenerated on every run)

`Gen.copySources` is the abstract that `tools/extract_tables.py` reads with `ast` from the source of every `copy()` method
of the live code: constructed class, and which constructor arguments are passed on from the same field of `self`.
`Cls.copyAbstract` computes the same abstract from the MODEL's copy by copying a probe operation all of whose fields are
non-default.  The theorems below are re-checked by `lake build` against the regenerated table: an edit of a `copy()`
method that constructs another class or drops / adds a field breaks them. -/

/-- a probe operation of class `c` with every field set to a non-default value. -/
def probeOp (c : Cls) : Op :=
  { cls := c, qs := [7, 9], chan := .fl, dur := .fixed 123, link := 4, tag := 5, reg := 3,
    ints := [some 1, none, some 3, some 4, some 5] }

/-- the abstract of the model's per-class copy, in the vocabulary of `Gen.CopySrc`. -/
def Cls.copyAbstract (c : Cls) : Gen.CopySrc :=
  let cp := (probeOp c).copyFields
  { cls := c.name, target := cp.cls.name, qubits := cp.qs == (probeOp c).qs, chan := cp.chan == (probeOp c).chan,
    dur := cp.dur == (probeOp c).dur, link := c.copyKeepsLink, tag := cp.tag == (probeOp c).tag,
    reg := cp.reg == (probeOp c).reg && c == .measure, ints := cp.ints == (probeOp c).ints }

/-- **every `copy()` method of the source has exactly the abstract of the model's copy** (26 leaf classes). -/
theorem copy_methods_match_source :
    Gen.copySources = (Cls.all.filter (fun c => c != .comp)).map Cls.copyAbstract := by decide +kernel

/-- both link classes keep the relation type and re-point through the lookup — as `World.copyLink` does
    (`copyLink_rel`). -/
theorem link_copies_match_source :
    Gen.linkCopySources = [{ cls := "RelationLink", keepsType := true, usesLookup := true },
                           { cls := "MultiRelationLink", keepsType := true, usesLookup := true }] := by decide +kernel

/-- `CircuitCompositeOperation.copy` has the shape `World.copyObj` models: link copied through the lookup, count kept,
    the nodes copied in listing order with the shared lookup, each copy recorded in the lookup and added (3 statements). -/
theorem composite_copy_matches_source :
    Gen.compCopySource = { link := true, rep := true, listingOrder := true, copiesWithLookup := true,
                           recordsLookup := true, adds := true, statements := 3 } := by decide +kernel

/-- non-vacuity: a Wait on the flux channel with a registry duration, and a measurement with a tag. -/
example : Op.WellFormed { cls := .wait, qs := [1], chan := .fl, dur := .reg 2 } := by
  simp [Op.WellFormed]
example : Op.WellFormed { cls := .measure, qs := [0], dur := .glob .ro, tag := 2, reg := 5 } := by
  simp [Op.WellFormed, Cls.defaultDur]

end Qco.C05
