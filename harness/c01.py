"""C01 — relation-based timing."""
from . import common, progs, streamcheck

PROP = 'C01'


def nontrivial(prog, f):
    return len(f['rel']) >= 2 or f['sub'] >= 2 or (f['apply'] >= 1 and f['rep_gt1'] >= 1)


SPEC = streamcheck.StreamSpec(
    PROP, probes=['C01'],
    cfg=progs.GenConfig(n_cmds=(4, 36), p_list=0.10, p_huge=0.04, p_newrel=0.15, allow_zero_gdur=True),
    n_quick=1200, n_thorough=40000,
    nontrivial=nontrivial,
    evalcheck=True,
    extra_check=lambda oc, tier, seed: common.pysem_stage(oc, PROP, ['timing'], seed, tier),
    rule='random build programs over all 26 operation classes (relation to an earlier handle p=0.45, foreign handle '
         'p=0.05, nesting, counts 1-3 fixed/registry, global-duration overrides, registry durations incl. 0); '
         'listing/times/duration observed at random points and at the end; non-trivial = explicit relations of >= 2 '
         'types, or >= 2 nestings, or an unrolled count > 1; distinct = distinct program text',
    assumptions=['times are exact multiples of 1/8 (a non-dyadic float is reported as a disagreement)',
                 'Python recursion limit / MAX_GRAPH_DEPTH not modelled; programs stay below depth 150'])


def run(tier, seed):
    return streamcheck.run(SPEC, tier, seed)
