/-
  Product-state semantics of the Stim gate set the exporter emits (C09).

  Every qubit is an eigenstate of Z, X or Y.  Its eigenvalue is (-1)^f where `f` is a GF(2)-affine
  form over symbolic initial-state variables, stored as a bitmask (`Nat`): bit 0 is the constant 1,
  bit `v+1` is variable `v`.  Addition of forms is `^^^`.  A concrete run is the special case in which
  every form is 0 or 1.

  R, M, X, Y, I, H, SQRT_X(_DAG), SQRT_Y(_DAG) act locally (conjugation tables taken from
  `stim.Tableau.from_named_gate`, re-validated against the tableau simulator by harness/c09.py);
  CZ between a Z-eigenstate and an X/Y-eigenstate adds the Z form to the other one, between two
  Z-eigenstates it is the identity, anything else makes the run undefined; measuring a qubit that is not a
  Z-eigenstate makes the run undefined (the outcome would be random).  TICK and SHIFT_COORDS do nothing;
  DETECTOR and OBSERVABLE_INCLUDE are evaluated against the measurement record (`rec[-k]`).
  A defined run therefore has only deterministic measurement outcomes, each equal to its form.

  `XV q v` ("X to the power of variable v") is NOT an exported instruction: it is the symbolic stand-in for
  the preparation gate of a computational state, `instIns` turns it into `I q` or `X q`.

  Core Lean only (the driver links this file).
-/
namespace Qco.StimSem

inductive Basis | Z | X | Y
deriving DecidableEq, Repr, Inhabited

structure Q where
  b : Basis
  f : Nat
deriving DecidableEq, Repr, Inhabited

inductive Ins
  | R (q : Nat) | M (q : Nat) | X (q : Nat) | Y (q : Nat) | I (q : Nat) | H (q : Nat)
  | SX (q : Nat) | SXd (q : Nat) | SY (q : Nat) | SYd (q : Nat)
  | CZ (a b : Nat)
  | TICK
  | SHIFT (space time : Int)
  | DET (c0 c1 : Int) (targets : List Int)
  | OBS (idx : Nat) (targets : List Int)
  | XV (q v : Nat)
deriving DecidableEq, Repr, Inhabited

/-- machine state: qubits by index, measurement record MOST RECENT FIRST, detector values most recent
    first, accumulated logical observable 0. -/
structure St where
  q : List Q
  mrec : List Nat
  det : List Nat
  obs : Nat
deriving DecidableEq, Repr, Inhabited

def var (v : Nat) : Nat := 2 ^ (v + 1)

/-- parity of a round counter -/
def par (r : Nat) : Bool := r % 2 == 1

/-- all qubits |0>, nothing measured -/
def start (n : Nat) : St := ⟨List.replicate n ⟨.Z, 0⟩, [], [], 0⟩

/-- `rec[t]` for a negative lookback `t` -/
def lookback (rec : List Nat) (t : Int) : Option Nat :=
  if t < 0 then rec[(-t).toNat - 1]? else none

def sumLookbacks (rec : List Nat) : List Int → Option Nat
  | [] => some 0
  | t :: ts => match lookback rec t, sumLookbacks rec ts with
      | some a, some b => some (a ^^^ b)
      | _, _ => none

/-- local Clifford action: image basis and sign for an eigenstate of each Pauli (Z, X, Y) -/
def act1 (onZ onX onY : Basis × Nat) (s : St) (q : Nat) : Option St :=
  match s.q[q]? with
  | some ⟨.Z, f⟩ => some { s with q := s.q.set q ⟨onZ.1, f ^^^ onZ.2⟩ }
  | some ⟨.X, f⟩ => some { s with q := s.q.set q ⟨onX.1, f ^^^ onX.2⟩ }
  | some ⟨.Y, f⟩ => some { s with q := s.q.set q ⟨onY.1, f ^^^ onY.2⟩ }
  | none => none

def step (s : St) : Ins → Option St
  | .R q => if q < s.q.length then some { s with q := s.q.set q ⟨.Z, 0⟩ } else none
  | .M q => match s.q[q]? with
      | some ⟨.Z, f⟩ => some { s with mrec := f :: s.mrec }
      | _ => none
  | .I q => if q < s.q.length then some s else none
  --                 Z ↦          X ↦          Y ↦
  | .X q   => act1 (.Z, 1) (.X, 0) (.Y, 1) s q
  | .Y q   => act1 (.Z, 1) (.X, 1) (.Y, 0) s q
  | .H q   => act1 (.X, 0) (.Z, 0) (.Y, 1) s q
  | .SX q  => act1 (.Y, 1) (.X, 0) (.Z, 0) s q
  | .SXd q => act1 (.Y, 0) (.X, 0) (.Z, 1) s q
  | .SY q  => act1 (.X, 0) (.Z, 1) (.Y, 0) s q
  | .SYd q => act1 (.X, 1) (.Z, 0) (.Y, 0) s q
  | .XV q v => match s.q[q]? with
      | some ⟨.Z, f⟩ => some { s with q := s.q.set q ⟨.Z, f ^^^ var v⟩ }
      | some ⟨.X, f⟩ => some { s with q := s.q.set q ⟨.X, f⟩ }
      | some ⟨.Y, f⟩ => some { s with q := s.q.set q ⟨.Y, f ^^^ var v⟩ }
      | none => none
  | .CZ a b =>
      if a = b then none else
      match s.q[a]?, s.q[b]? with
      | some ⟨.Z, _⟩, some ⟨.Z, _⟩ => some s
      | some ⟨.Z, f⟩, some ⟨.X, g⟩ => some { s with q := s.q.set b ⟨.X, g ^^^ f⟩ }
      | some ⟨.X, g⟩, some ⟨.Z, f⟩ => some { s with q := s.q.set a ⟨.X, g ^^^ f⟩ }
      | some ⟨.Z, f⟩, some ⟨.Y, g⟩ => some { s with q := s.q.set b ⟨.Y, g ^^^ f⟩ }
      | some ⟨.Y, g⟩, some ⟨.Z, f⟩ => some { s with q := s.q.set a ⟨.Y, g ^^^ f⟩ }
      | _, _ => none
  | .TICK => some s
  | .SHIFT _ _ => some s
  | .DET _ _ ts => match sumLookbacks s.mrec ts with
      | some v => some { s with det := v :: s.det }
      | none => none
  | .OBS idx ts =>
      if idx ≠ 0 then none else
      match sumLookbacks s.mrec ts with
      | some v => some { s with obs := s.obs ^^^ v }
      | none => none

def run : List Ins → St → Option St
  | [], s => some s
  | i :: is, s => match step s i with
      | some s' => run is s'
      | none => none

/-! ### instantiation of the symbolic variables -/

/-- value of a form under the assignment `σ` of the variables, looking at the bits below `nb` -/
def evalBounded (σ : Nat → Bool) (nb : Nat) (f : Nat) : Bool :=
  (List.range nb).foldl (fun acc i => acc ^^ (f.testBit i && (i == 0 || σ (i - 1)))) false

/-- value of a form under the assignment `σ` (all its bits) -/
def evalForm (σ : Nat → Bool) (f : Nat) : Bool := evalBounded σ (f.log2 + 1) f

def evalNat (σ : Nat → Bool) (f : Nat) : Nat := (evalForm σ f).toNat

def mapQ (h : Nat → Nat) (x : Q) : Q := ⟨x.b, h x.f⟩

def mapSt (h : Nat → Nat) (s : St) : St :=
  ⟨s.q.map (mapQ h), s.mrec.map h, s.det.map h, h s.obs⟩

/-- the concrete instruction a symbolic one stands for -/
def instIns (σ : Nat → Bool) : Ins → Ins
  | .XV q v => if σ v then .X q else .I q
  | i => i

def isXV : Ins → Bool
  | .XV _ _ => true
  | _ => false

def isShift : Ins → Bool
  | .SHIFT _ _ => true
  | _ => false

def isDet : Ins → Bool
  | .DET _ _ _ => true
  | _ => false

def isM : Ins → Bool
  | .M _ => true
  | _ => false

/-! ### what `stim.Circuit.flattened()` does to the annotations: coordinate shifts are applied to the
    detector coordinates and removed -/
def applyShifts : List Ins → Int → Int → List Ins
  | [], _, _ => []
  | .SHIFT a b :: is, s0, s1 => applyShifts is (s0 + a) (s1 + b)
  | .DET c0 c1 ts :: is, s0, s1 => .DET (c0 + s0) (c1 + s1) ts :: applyShifts is s0 s1
  | i :: is, s0, s1 => i :: applyShifts is s0 s1

/-! ### canonical text (one instruction per target / pair) -/
def recText (ts : List Int) : String := String.join (ts.map fun t => s!" rec[{t}]")

def Ins.text : Ins → String
  | .R q => s!"R {q}" | .M q => s!"M {q}" | .X q => s!"X {q}" | .Y q => s!"Y {q}" | .I q => s!"I {q}"
  | .H q => s!"H {q}" | .SX q => s!"SQRT_X {q}" | .SXd q => s!"SQRT_X_DAG {q}"
  | .SY q => s!"SQRT_Y {q}" | .SYd q => s!"SQRT_Y_DAG {q}"
  | .CZ a b => s!"CZ {a} {b}"
  | .TICK => "TICK"
  | .SHIFT a b => s!"SHIFT_COORDS({a}, {b})"
  | .DET a b ts => s!"DETECTOR({a}, {b})" ++ recText ts
  | .OBS i ts => s!"OBSERVABLE_INCLUDE({i})" ++ recText ts
  | .XV q v => s!"XV {q} {v}"

def progText (p : List Ins) : String := ";".intercalate (p.map Ins.text)

end Qco.StimSem
