import QcoVerif.Lemmas.TreeDepth
import QcoVerif.Lemmas.Draw
import QcoVerif.Lemmas.GraphBuilt
/-
  C03 — the mutating listing (`decomposed_operations`) commutes with `add`.

  Part A  the listing as a fold of a world-only step (`wstep`); it changes no field but `ops`.
  Part B  which objects a listing can touch at all (`reach`, `cone`), the frame lemma.
  Part C  a generic simulation lemma: two heaps that agree on a region closed under `reach` are listed in lockstep.
  Part D  on a tree-shaped heap the heap left by a listing is `settled` (so a second listing is the identity).
  Part E  the listing of `attach g p o` is the listing of `g` with `o` inserted (graphs built by `attach`).
  Part F  `add` after a listing takes the same decisions as `add` before it; listing after `add`.
  Core Lean only.
-/
namespace Qco.Commute

open Qco

/-! ### Part A: the listing as a fold over worlds -/

/-- one step of the listing, world component only. -/
def pre (cl : Nat) (y : World) (n : Nat) : World := if !y.hasRel n then y.setLink n cl else y

/-- one step of the listing, world component only. -/
def wstep (g cl : Nat) (y : World) (n : Nat) : World :=
  if ((pre cl y n).op n).isComp then ((pre cl y n).decomposed g n).1 else pre cl y n

theorem decompStep_fst (g cl : Nat) (acc : World × List Nat) (n : Nat) :
    (Draw.decompStep g cl acc n).1 = wstep g cl acc.1 n := by
  show (if ((pre cl acc.1 n).op n).isComp then
      (((pre cl acc.1 n).decomposed g n).1, acc.2 ++ ((pre cl acc.1 n).decomposed g n).2)
    else (pre cl acc.1 n, acc.2 ++ [n])).1 = wstep g cl acc.1 n
  unfold wstep
  split <;> rfl

theorem pre_opsOnly (cl : Nat) (y : World) (n : Nat) : pre cl y n = { y with ops := (pre cl y n).ops } := by
  unfold pre
  split <;> rfl

theorem pre_shape (cl : Nat) {y y0 : World} (h : Shape y y0) (n : Nat) : Shape (pre cl y n) y0 := by
  unfold pre
  split
  · exact h.setLink _ _
  · exact h

theorem pre_size (cl : Nat) (y : World) (n : Nat) : (pre cl y n).ops.size = y.ops.size := by
  unfold pre
  split
  · exact setLink_size _ _ _
  · rfl

theorem pre_op_other (cl : Nat) (y : World) (n j : Nat) (h : j ≠ n) : (pre cl y n).op j = y.op j := by
  unfold pre
  split
  · exact setLink_op_other _ _ _ _ h
  · rfl

theorem foldl_decompStep_fst (g cl : Nat) : ∀ (L : List Nat) (acc : World × List Nat),
    (L.foldl (Draw.decompStep g cl) acc).1 = L.foldl (wstep g cl) acc.1 := by
  intro L
  induction L with
  | nil => intro acc; rfl
  | cons n ns ih =>
    intro acc
    simp only [List.foldl_cons]
    rw [ih, decompStep_fst]

theorem decomposed_fst (y : World) (g c : Nat) :
    (y.decomposed (g + 1) c).1 = (listing (y.op c).graph).foldl (wstep g (y.op c).link) y := by
  rw [Draw.decomposed_succ, foldl_decompStep_fst]

/-- `y'` differs from `y` in the object array only. -/
def OpsOnly (y y' : World) : Prop := y' = { y with ops := y'.ops }

theorem OpsOnly.refl (y : World) : OpsOnly y y := rfl

theorem OpsOnly.trans {a b c : World} (h1 : OpsOnly a b) (h2 : OpsOnly b c) : OpsOnly a c := by
  unfold OpsOnly at *
  rw [h2, h1]

theorem OpsOnly.setLink (y : World) (n l : Nat) : OpsOnly y (y.setLink n l) := rfl

theorem OpsOnly.links {a b : World} (h : OpsOnly a b) : b.links = a.links := by
  rw [h]

theorem wstep_opsOnly (g cl : Nat) (ih : ∀ (c : Nat) (y : World), OpsOnly y (y.decomposed g c).1)
    (y : World) (n : Nat) : OpsOnly y (wstep g cl y n) := by
  unfold wstep
  have h1 : OpsOnly y (pre cl y n) := pre_opsOnly cl y n
  split
  · exact h1.trans (ih _ _)
  · exact h1

theorem foldl_opsOnly (g cl : Nat) (ih : ∀ (c : Nat) (y : World), OpsOnly y (y.decomposed g c).1) :
    ∀ (L : List Nat) (y : World), OpsOnly y (L.foldl (wstep g cl) y) := by
  intro L
  induction L with
  | nil => intro y; exact OpsOnly.refl y
  | cons n ns ihL =>
    intro y
    simp only [List.foldl_cons]
    exact (wstep_opsOnly g cl ih y n).trans (ihL _)

/-- the listing changes no field of the heap but the object array. -/
theorem decomposed_opsOnly : ∀ (g c : Nat) (y : World), OpsOnly y (y.decomposed g c).1 := by
  intro g
  induction g with
  | zero => intro c y; exact OpsOnly.refl y
  | succ g ih =>
    intro c y
    rw [decomposed_fst]
    exact foldl_opsOnly g _ ih _ y

theorem ops_ext {a b : World} (hs : a.ops.size = b.ops.size) (h : ∀ j, a.op j = b.op j) : a.ops = b.ops := by
  apply Array.ext hs
  intro i h1 h2
  have := h i
  simpa [World.op, Array.getD, h1, h2] using this

theorem wstep_shape (g cl : Nat) {y y0 : World} (h : Shape y y0) (n : Nat) : Shape (wstep g cl y n) y0 := by
  unfold wstep
  have h1 : Shape (pre cl y n) y0 := pre_shape cl h n
  split
  · exact (decomposed_spec y0 g n _ h1).1
  · exact h1

theorem foldl_shape (g cl : Nat) {y0 : World} : ∀ (L : List Nat) (y : World), Shape y y0 →
    Shape (L.foldl (wstep g cl) y) y0 := by
  intro L
  induction L with
  | nil => intro y h; exact h
  | cons n ns ih =>
    intro y h
    simp only [List.foldl_cons]
    exact ih _ (wstep_shape g cl h n)

theorem wstep_size (g cl : Nat) (y : World) (n : Nat) : (wstep g cl y n).ops.size = y.ops.size := by
  unfold wstep
  have h1 : (pre cl y n).ops.size = y.ops.size := pre_size cl y n
  split
  · rw [(decomposed_sizes g n _).1, h1]
  · exact h1

theorem foldl_size (g cl : Nat) : ∀ (L : List Nat) (y : World), (L.foldl (wstep g cl) y).ops.size = y.ops.size := by
  intro L
  induction L with
  | nil => intro y; rfl
  | cons n ns ih =>
    intro y
    simp only [List.foldl_cons]
    rw [ih, wstep_size]

/-! ### Part B: the objects a listing can touch -/

/-- the objects strictly below `c` that `decomposed g c` visits. -/
def reach (w : World) : Nat → Nat → List Nat
  | 0, _ => []
  | g+1, c => (listing (w.op c).graph).flatMap (fun n => n :: (if (w.op n).isComp then reach w g n else []))

/-- a node together with what the listing visits below it. -/
def cone (w : World) (g n : Nat) : List Nat := n :: (if (w.op n).isComp then reach w g n else [])

theorem reach_succ (w : World) (g c : Nat) : reach w (g + 1) c = (listing (w.op c).graph).flatMap (cone w g) := rfl

theorem reach_shape {y y0 : World} (h : Shape y y0) : ∀ (g c : Nat), reach y g c = reach y0 g c := by
  intro g
  induction g with
  | zero => intro c; rfl
  | succ g ih =>
    intro c
    unfold reach
    rw [h.graph c]
    apply flatMap_congr'
    intro n _
    rw [h.isComp n, ih n]

theorem cone_shape {y y0 : World} (h : Shape y y0) (g n : Nat) : cone y g n = cone y0 g n := by
  unfold cone
  rw [h.isComp n, reach_shape h]

theorem self_mem_cone (w : World) (g n : Nat) : n ∈ cone w g n := List.mem_cons_self

theorem reach_sub_cone (w : World) (g n : Nat) (hc : (w.op n).isComp = true) {j : Nat} (hj : j ∈ reach w g n) :
    j ∈ cone w g n := by
  unfold cone
  simp only [hc, if_true]
  exact List.mem_cons_of_mem _ hj

theorem wstep_frame (g cl : Nat) (ih : ∀ (c : Nat) (y : World) (j : Nat), j ∉ reach y g c → (y.decomposed g c).1.op j = y.op j)
    {y y0 : World} (h : Shape y y0) (n j : Nat) (hj : j ∉ cone y0 g n) : (wstep g cl y n).op j = y.op j := by
  have hjn : j ≠ n := fun e => hj (e ▸ self_mem_cone y0 g n)
  have h1s : Shape (pre cl y n) y0 := pre_shape cl h n
  have h1 : (pre cl y n).op j = y.op j := pre_op_other cl y n j hjn
  unfold wstep
  split
  · rename_i hc
    rw [h1s.isComp n] at hc
    rw [ih n _ j, h1]
    rw [reach_shape h1s]
    intro hm
    exact hj (reach_sub_cone y0 g n hc hm)
  · exact h1

theorem foldl_frame (g cl : Nat) (ih : ∀ (c : Nat) (y : World) (j : Nat), j ∉ reach y g c → (y.decomposed g c).1.op j = y.op j)
    (y0 : World) : ∀ (L : List Nat) (y : World) (j : Nat), Shape y y0 → j ∉ L.flatMap (cone y0 g) →
      (L.foldl (wstep g cl) y).op j = y.op j := by
  intro L
  induction L with
  | nil => intro y j _ _; rfl
  | cons n ns ihL =>
    intro y j h hj
    simp only [List.flatMap_cons, List.mem_append, not_or] at hj
    simp only [List.foldl_cons]
    rw [ihL _ j (wstep_shape g cl h n) hj.2]
    exact wstep_frame g cl ih h n j hj.1

/-- **frame**: a listing writes to no object outside `reach`. -/
theorem decomposed_frame : ∀ (g c : Nat) (y : World) (j : Nat), j ∉ reach y g c → (y.decomposed g c).1.op j = y.op j := by
  intro g
  induction g with
  | zero => intro c y j _; rfl
  | succ g ih =>
    intro c y j hj
    rw [decomposed_fst]
    rw [reach_succ] at hj
    exact foldl_frame g _ ih y _ y j (Shape.refl y) hj

theorem wstep_frame' (g cl : Nat) {y y0 : World} (h : Shape y y0) (n j : Nat) (hj : j ∉ cone y0 g n) :
    (wstep g cl y n).op j = y.op j := wstep_frame g cl (decomposed_frame g) h n j hj

theorem foldl_frame' (g cl : Nat) (y0 : World) (L : List Nat) (y : World) (j : Nat) (h : Shape y y0)
    (hj : j ∉ L.flatMap (cone y0 g)) : (L.foldl (wstep g cl) y).op j = y.op j :=
  foldl_frame g cl (decomposed_frame g) y0 L y j h hj

/-! ### Part C: listing two heaps in lockstep -/

/-- a relation between heaps that is kept by assigning the same link to the same object of the region `R`, and that
    makes the two heaps agree on what the listing reads of the objects of `R`. -/
structure SimSpec (R : Nat → Prop) (P : Nat → Prop) (Sim : World → World → Prop) : Prop where
  set : ∀ y y' n k, Sim y y' → R n → P k → Sim (y.setLink n k) (y'.setLink n k)
  rel : ∀ y y' n, Sim y y' → R n → y'.hasRel n = y.hasRel n
  op : ∀ y y' n, Sim y y' → R n → y'.op n = y.op n
  lk : ∀ y y' n, Sim y y' → R n → P (y.op n).link

theorem wstep_sim {R P : Nat → Prop} {Sim : World → World → Prop} (S : SimSpec R P Sim) (g cl : Nat)
    (ih : ∀ (n : Nat) (y y' : World), Sim y y' → R n → (∀ j ∈ reach y g n, R j) →
      Sim (y.decomposed g n).1 (y'.decomposed g n).1)
    {y y' y0 : World} (h : Sim y y') (hs : Shape y y0) (n : Nat) (hR : ∀ j ∈ cone y0 g n, R j) (hcl : P cl) :
    Sim (wstep g cl y n) (wstep g cl y' n) := by
  have hn : R n := hR n (self_mem_cone y0 g n)
  have hrel := S.rel y y' n h hn
  have h1 : Sim (pre cl y n) (pre cl y' n) := by
    unfold pre
    rw [hrel]
    split
    · exact S.set y y' n cl h hn hcl
    · exact h
  have h1s : Shape (pre cl y n) y0 := pre_shape cl hs n
  have hop := S.op _ _ n h1 hn
  unfold wstep
  rw [hop]
  split
  · rename_i hc
    apply ih n _ _ h1 hn
    intro j hj
    rw [reach_shape h1s] at hj
    rw [h1s.isComp n] at hc
    exact hR j (reach_sub_cone y0 g n hc hj)
  · exact h1

theorem foldl_sim {R P : Nat → Prop} {Sim : World → World → Prop} (S : SimSpec R P Sim) (g cl : Nat)
    (ih : ∀ (n : Nat) (y y' : World), Sim y y' → R n → (∀ j ∈ reach y g n, R j) →
      Sim (y.decomposed g n).1 (y'.decomposed g n).1)
    (y0 : World) (hcl : P cl) : ∀ (L : List Nat) (y y' : World), Sim y y' → Shape y y0 →
      (∀ j ∈ L.flatMap (cone y0 g), R j) → Sim (L.foldl (wstep g cl) y) (L.foldl (wstep g cl) y') := by
  intro L
  induction L with
  | nil => intro y y' h _ _; exact h
  | cons n ns ihL =>
    intro y y' h hs hR
    simp only [List.foldl_cons]
    simp only [List.flatMap_cons, List.mem_append] at hR
    exact ihL _ _ (wstep_sim S g cl ih h hs n (fun j hj => hR j (Or.inl hj)) hcl) (wstep_shape g cl hs n)
      (fun j hj => hR j (Or.inr hj))

/-- **lockstep**: heaps related by `Sim` stay related when an object of the region is listed. -/
theorem decomposed_sim {R P : Nat → Prop} {Sim : World → World → Prop} (S : SimSpec R P Sim) :
    ∀ (g n : Nat) (y y' : World), Sim y y' → R n → (∀ j ∈ reach y g n, R j) →
      Sim (y.decomposed g n).1 (y'.decomposed g n).1 := by
  intro g
  induction g with
  | zero => intro n y y' h _ _; exact h
  | succ g ih =>
    intro n y y' h hn hR
    rw [decomposed_fst, decomposed_fst, S.op y y' n h hn]
    rw [reach_succ] at hR
    exact foldl_sim S g _ ih y (S.lk y y' n h hn) _ y y' h (Shape.refl y) hR

theorem foldl_sim' {R P : Nat → Prop} {Sim : World → World → Prop} (S : SimSpec R P Sim) (g cl : Nat)
    (y0 : World) (hcl : P cl) (L : List Nat) (y y' : World) (h : Sim y y') (hs : Shape y y0)
    (hR : ∀ j ∈ L.flatMap (cone y0 g), R j) : Sim (L.foldl (wstep g cl) y) (L.foldl (wstep g cl) y') :=
  foldl_sim S g cl (decomposed_sim S g) y0 hcl L y y' h hs hR

/-! ### Part D: on a tree-shaped heap a listing leaves a settled heap -/

theorem mem_listing_kids (w : World) (c n : Nat) : n ∈ listing (w.op c).graph ↔ n ∈ w.kids c := by
  rw [mem_listing_iff]
  unfold World.kids
  simp [List.mem_map]

/-- on a tree the objects a listing visits at and below `n` are the objects of `World.below`. -/
theorem mem_cone_iff_below (y : World) : ∀ (f n : Nat), TreeBelow y f n → ∀ g, f ≤ g →
    ∀ j, (j ∈ cone y g n ↔ j ∈ y.below f n) := by
  intro f
  induction f with
  | zero => intro n h; exact h.elim
  | succ f ih =>
    intro n ht g hg j
    cases g with
    | zero => omega
    | succ g =>
      by_cases hc : (y.op n).isComp = true
      · rw [below_comp y f n hc]
        unfold cone
        simp only [hc, if_true, reach_succ, List.mem_cons, List.mem_flatMap]
        constructor
        · rintro (h | ⟨m, hm, hj⟩)
          · exact Or.inl h
          · have hm' := (mem_listing_kids y n m).mp hm
            exact Or.inr ⟨m, hm', (ih m (ht.kid hc hm') g (by omega) j).mp hj⟩
        · rintro (h | ⟨m, hm, hj⟩)
          · exact Or.inl h
          · exact Or.inr ⟨m, (mem_listing_kids y n m).mpr hm, (ih m (ht.kid hc hm) g (by omega) j).mpr hj⟩
      · have hc' : (y.op n).isComp = false := by simpa using hc
        rw [below_leaf y f n hc']
        unfold cone
        simp [hc']

theorem not_mem_reach_self (y : World) (f g m : Nat) (ht : TreeBelow y f m) (hg : f ≤ g)
    (hc : (y.op m).isComp = true) : m ∉ reach y g m := by
  cases f with
  | zero => exact ht.elim
  | succ f =>
    cases g with
    | zero => omega
    | succ g =>
      intro hm
      rw [reach_succ, List.mem_flatMap] at hm
      obtain ⟨k, hk, hmk⟩ := hm
      have hk' := (mem_listing_kids y m k).mp hk
      have := (mem_cone_iff_below y f k (ht.kid hc hk') g (by omega) m).mp hmk
      exact ht.not_below_kid hc hk' this

/-- `settled` only reads the object itself, the objects a listing visits below it, and the links. -/
theorem settled_congr : ∀ (g c : Nat) (y y' : World), y'.links = y.links → y'.op c = y.op c →
    (∀ j ∈ reach y g c, y'.op j = y.op j) → Draw.settled y' g c = Draw.settled y g c := by
  intro g
  induction g with
  | zero => intro c y y' _ _ _; rfl
  | succ g ih =>
    intro c y y' hl hc h
    simp only [Draw.settled]
    rw [hc]
    apply all_congr'
    intro n hn
    have hn1 : n ∈ reach y (g + 1) c := by
      rw [reach_succ, List.mem_flatMap]
      exact ⟨n, hn, self_mem_cone y g n⟩
    have hn' : y'.op n = y.op n := h n hn1
    have hr : y'.hasRel n = y.hasRel n := by
      unfold World.hasRel
      rw [hn', Flat.lnk_of_links_eq hl]
    rw [hr, hn']
    by_cases hcn : (y.op n).isComp = true
    · rw [ih n y y' hl hn' (fun j hj => h j (by
        rw [reach_succ, List.mem_flatMap]
        exact ⟨n, hn, reach_sub_cone y g n hcn hj⟩))]
    · have : (y.op n).isComp = false := by simpa using hcn
      simp [this]

/-- "node `n` of a block with link `cl` is settled in `z`". -/
def NS (g cl : Nat) (z : World) (n : Nat) : Prop :=
  (z.hasRel n = true ∨ (z.op n).link = cl) ∧ ((z.op n).isComp = true → Draw.settled z g n = true)

theorem NS_congr (g cl : Nat) {y z z1 : World} (hs : Shape z y) (n : Nat) (hl : z1.links = z.links)
    (h : ∀ j ∈ cone y g n, z1.op j = z.op j) (hns : NS g cl z n) : NS g cl z1 n := by
  have hn : z1.op n = z.op n := h n (self_mem_cone y g n)
  have hr : z1.hasRel n = z.hasRel n := by
    unfold World.hasRel
    rw [hn, Flat.lnk_of_links_eq hl]
  refine ⟨by rw [hr, hn]; exact hns.1, ?_⟩
  intro hc
  rw [hn] at hc
  rw [settled_congr g n z z1 hl hn (fun j hj => h j (by
    rw [reach_shape hs] at hj
    exact reach_sub_cone y g n (by rw [← hs.isComp n]; exact hc) hj))]
  exact hns.2 hc

theorem setLink_op_self (w : World) (n l : Nat) (h : n < w.ops.size) :
    (w.setLink n l).op n = { w.op n with link := l } := by
  unfold World.setLink
  rw [op_setOp]
  simp [h]

theorem pre_rel_or_link (cl : Nat) (z : World) (m : Nat) (hm : m < z.ops.size) :
    (pre cl z m).hasRel m = true ∨ ((pre cl z m).op m).link = cl := by
  unfold pre
  by_cases hr : z.hasRel m = true
  · simp only [hr, Bool.not_true, Bool.false_eq_true, if_false]
    exact Or.inl trivial
  · have hr' : z.hasRel m = false := by simpa using hr
    simp only [hr', Bool.not_false, if_true]
    right
    rw [setLink_op_self z m cl hm]

theorem pre_links (cl : Nat) (z : World) (m : Nat) : (pre cl z m).links = z.links := by
  rw [pre_opsOnly cl z m]

theorem wstep_links (g cl : Nat) (z : World) (m : Nat) : (wstep g cl z m).links = z.links :=
  (wstep_opsOnly g cl (decomposed_opsOnly g) z m).links

/-- the step of the listing at a node that is the root of a tree leaves that node settled. -/
theorem wstep_NS (f g cl : Nat)
    (ih : ∀ (c : Nat) (y : World), TreeBelow y f c → f ≤ g → (y.op c).isComp = true →
      Draw.settled (y.decomposed g c).1 g c = true)
    {y z : World} (hs : Shape z y) (hsz : z.ops.size = y.ops.size) (m : Nat) (ht : TreeBelow y f m) (hg : f ≤ g) :
    NS g cl (wstep g cl z m) m := by
  have hm : m < z.ops.size := by rw [hsz]; exact ht.lt
  have h1 := pre_rel_or_link cl z m hm
  have h1s : Shape (pre cl z m) y := pre_shape cl hs m
  unfold wstep
  split
  · rename_i hc
    have hcy : (y.op m).isComp = true := by rw [← h1s.isComp m]; exact hc
    have ht1 : TreeBelow (pre cl z m) f m :=
      tree_congr y (pre cl z m) (by rw [pre_size, hsz]; exact Nat.le_refl _) f m ht (fun j _ => h1s.2 j)
    have hfr : ((pre cl z m).decomposed g m).1.op m = (pre cl z m).op m :=
      decomposed_frame g m _ m (by rw [reach_shape h1s]; exact not_mem_reach_self y f g m ht hg hcy)
    have hlk : ((pre cl z m).decomposed g m).1.links = (pre cl z m).links := (decomposed_sizes g m _).2
    refine ⟨?_, fun _ => ih m _ ht1 hg hc⟩
    rw [hfr]
    unfold World.hasRel
    rw [hfr, Flat.lnk_of_links_eq hlk]
    exact h1
  · rename_i hc
    exact ⟨h1, fun h => absurd h hc⟩

theorem foldl_NS (f g cl : Nat)
    (ih : ∀ (c : Nat) (y : World), TreeBelow y f c → f ≤ g → (y.op c).isComp = true →
      Draw.settled (y.decomposed g c).1 g c = true)
    (y : World) (hg : f ≤ g) (L : List Nat) (hL : ∀ n ∈ L, TreeBelow y f n)
    (hdisj : ∀ a ∈ L, ∀ b ∈ L, a ≠ b → ∀ j, j ∈ cone y g a → j ∉ cone y g b) :
    ∀ (L2 L1 : List Nat) (z : World), Shape z y → z.ops.size = y.ops.size → (∀ n ∈ L1 ++ L2, n ∈ L) →
      (L1 ++ L2).Nodup → (∀ n ∈ L1, NS g cl z n) → ∀ n ∈ L1 ++ L2, NS g cl (L2.foldl (wstep g cl) z) n := by
  intro L2
  induction L2 with
  | nil => intro L1 z _ _ _ _ h n hn; exact h n (by simpa using hn)
  | cons m L2 ihL =>
    intro L1 z hs hsz hsub hnd h n hn
    simp only [List.foldl_cons]
    have hmL : m ∈ L := hsub m (by simp)
    have e : L1 ++ m :: L2 = (L1 ++ [m]) ++ L2 := by simp
    rw [e] at hsub hnd hn
    refine ihL (L1 ++ [m]) (wstep g cl z m) (wstep_shape g cl hs m) (by rw [wstep_size, hsz]) hsub hnd ?_ n hn
    intro k hk
    rcases List.mem_append.mp hk with hk1 | hk2
    · have hkL : k ∈ L := hsub k (by simp [hk1])
      have hkm : k ≠ m := by
        intro e
        have h3 := (List.nodup_append.mp hnd).1
        rw [List.nodup_append] at h3
        exact h3.2.2 k hk1 m (by simp) e
      apply NS_congr g cl hs k (wstep_links g cl z m) _ (h k hk1)
      intro j hj
      exact wstep_frame' g cl hs m j (fun hjm => hdisj k hkL m hmL hkm j hj hjm)
    · simp only [List.mem_singleton] at hk2
      rw [hk2]
      exact wstep_NS f g cl ih hs hsz m (hL m hmL) hg

/-- **after a listing of a tree-shaped circuit the heap is settled.** -/
theorem settled_after : ∀ (f g c : Nat) (y : World), TreeBelow y f c → f ≤ g → (y.op c).isComp = true →
    Draw.settled (y.decomposed g c).1 g c = true := by
  intro f
  induction f with
  | zero => intro g c y h; exact h.elim
  | succ f ih =>
    intro g c y ht hg hc
    cases g with
    | zero => omega
    | succ g =>
      have hg' : f ≤ g := by omega
      have hkid : ∀ n ∈ listing (y.op c).graph, TreeBelow y f n :=
        fun n hn => ht.kid hc ((mem_listing_kids y c n).mp hn)
      have hcone : ∀ n ∈ listing (y.op c).graph, ∀ j, (j ∈ cone y g n ↔ j ∈ y.below f n) :=
        fun n hn j => mem_cone_iff_below y f n (hkid n hn) g hg' j
      have hdisj : ∀ a ∈ listing (y.op c).graph, ∀ b ∈ listing (y.op c).graph, a ≠ b →
          ∀ j, j ∈ cone y g a → j ∉ cone y g b := by
        intro a ha b hb hab j hja hjb
        exact ht.disj hc ((mem_listing_kids y c a).mp ha) ((mem_listing_kids y c b).mp hb) hab j
          ((hcone a ha j).mp hja) ((hcone b hb j).mp hjb)
      have hnd : (listing (y.op c).graph).Nodup := listing_nodup (ht.kids_nodup hc)
      have hcn : c ∉ (listing (y.op c).graph).flatMap (cone y g) := by
        intro hm
        obtain ⟨n, hn, hcn⟩ := List.mem_flatMap.mp hm
        exact ht.not_below_kid hc ((mem_listing_kids y c n).mp hn) ((hcone n hn c).mp hcn)
      have hfold := foldl_NS f g (y.op c).link (fun c y => ih g c y) y hg' (listing (y.op c).graph) hkid hdisj
        (listing (y.op c).graph) [] y (Shape.refl y) rfl (fun n hn => by simpa using hn) (by simpa using hnd)
        (fun n hn => by cases hn)
      have hopc : (y.decomposed (g + 1) c).1.op c = y.op c := by
        rw [decomposed_fst]
        exact foldl_frame' g _ y _ y c (Shape.refl y) hcn
      simp only [Draw.settled]
      rw [hopc, List.all_eq_true]
      intro n hn
      have := hfold n (by simpa using hn)
      rw [← decomposed_fst] at this
      obtain ⟨h1, h2⟩ := this
      simp only [Bool.and_eq_true, Bool.or_eq_true, beq_iff_eq, Bool.not_eq_eq_eq_not, Bool.not_true]
      refine ⟨h1, ?_⟩
      by_cases hcn : ((y.decomposed (g + 1) c).1.op n).isComp = true
      · exact Or.inr (h2 hcn)
      · exact Or.inl (by simpa using hcn)

/-- **a second listing changes nothing** (fuel form). -/
theorem decomposed_idem (y : World) (f g c : Nat) (ht : TreeBelow y f c) (hg : f ≤ g) (hc : (y.op c).isComp = true) :
    ((y.decomposed g c).1.decomposed g c).1 = (y.decomposed g c).1 := by
  rw [Draw.decomposed_of_settled g _ c (settled_after f g c y ht hg hc)]

/-! ### Part E: the listing of `attach g p o` is the listing of `g` with `o` inserted -/

theorem inj_of_nodup_map {α β} (f : α → β) : ∀ (l : List α), (l.map f).Nodup →
    ∀ a ∈ l, ∀ b ∈ l, f a = f b → a = b := by
  intro l
  induction l with
  | nil => intro _ a ha; cases ha
  | cons x xs ih =>
    intro hnd a ha b hb hab
    simp only [List.map_cons, List.nodup_cons, List.mem_map, not_exists, not_and] at hnd
    rcases List.mem_cons.mp ha with rfl | ha' <;> rcases List.mem_cons.mp hb with rfl | hb'
    · rfl
    · exact absurd hab.symm (hnd.1 b hb')
    · exact absurd hab (hnd.1 a ha')
    · exact ih hnd.2 a ha' b hb' hab

/-- siblings of a built graph have different keys. -/
theorem built_sib_inj {g : List Entry} (hb : Built g) {a b : Entry} (ha : a ∈ g) (hb' : b ∈ g)
    (hp : a.parent = b.parent) (hk : a.key = b.key) : a = b := by
  have hs := hb.sibKeys a.parent
  have hnd : ((g.filter (fun e => e.parent == a.parent)).map (·.key)).Nodup := by
    rw [hs]
    unfold List.Nodup
    rw [List.pairwise_map]
    refine (List.nodup_range (n := sibCount g a.parent)).imp ?_
    intro i j hij h
    apply hij
    have := List.append_inj' h rfl
    simpa using this.2
  exact inj_of_nodup_map (·.key) _ hnd a (List.mem_filter.mpr ⟨ha, by simp⟩) b
    (List.mem_filter.mpr ⟨hb', by simp [hp]⟩) hk

/-- the path keys of a built graph are pairwise different. -/
theorem built_key_inj {g : List Entry} (hb : Built g) : ∀ (n : Nat), ∀ a ∈ g, ∀ b ∈ g, a.key.length = n →
    a.key = b.key → a = b := by
  intro n
  induction n using Nat.strongRecOn with
  | _ n ih =>
    intro a ha b hb' hn hk
    have hp : a.parent = b.parent := by
      cases hpa : a.parent with
      | none =>
        have h1 := (hb.root_iff ha).mp hpa
        rw [hk] at h1
        exact ((hb.root_iff hb').mpr h1).symm
      | some q =>
        cases hpb : b.parent with
        | none =>
          have h1 := (hb.root_iff hb').mp hpb
          rw [← hk] at h1
          have := (hb.root_iff ha).mpr h1
          rw [hpa] at this; cases this
        | some q' =>
          obtain ⟨pe, hpe, hq, hka, hlt⟩ := hb.parent_mem ha hpa
          obtain ⟨pe', hpe', hq', hkb, _⟩ := hb.parent_mem hb' hpb
          have h2 : pe.key ++ [a.key.getLast?.getD 0] = pe'.key ++ [b.key.getLast?.getD 0] := by
            rw [← hka, ← hkb]; exact hk
          have h3 := (List.append_inj' h2 rfl).1
          have := ih pe.key.length (by omega) pe hpe pe' hpe' rfl h3
          rw [← hq, ← hq', this]
    exact built_sib_inj hb ha hb' hp hk

theorem sortedEntries_insert {g : List Entry} {e : Entry}
    (hk : ∀ a ∈ g ++ [e], ∀ b ∈ g ++ [e], a.key = b.key → a = b) :
    ∃ A B, sortedEntries (g ++ [e]) = A ++ e :: B ∧ sortedEntries g = A ++ B := by
  obtain ⟨l₁, l₂, h1, h2, _⟩ := List.mergeSort_cons (le := entryLe) (fun a b c => entryLe_trans a b c)
    (fun a b => entryLe_total a b) e g
  refine ⟨l₁, l₂, ?_, h2⟩
  rw [← h1]
  apply sortedEntries_eq_of_perm _ (sortedEntries_pairwise (e :: g)) hk
  refine (sortedEntries_perm (e :: g)).trans ?_
  exact (List.perm_append_comm (l₁ := [e]) (l₂ := g))

/-- in a graph built by `attach`, attaching a new node inserts it into the listing. -/
theorem listing_attach_insert {g : List Entry} (hb : Built g) (p : Option Nat) (o : Nat)
    (hp : ∀ q, p = some q → inGraph g q = true) (hn : inGraph g o = false) :
    ∃ A B, listing (attach g p o) = A ++ o :: B ∧ listing g = A ++ B := by
  have hb' : Built (attach g p o) := built_attach hb p o hp hn
  rw [attach_def] at hb' ⊢
  obtain ⟨A, B, h1, h2⟩ := sortedEntries_insert (g := g)
    (e := { node := o, parent := p, key := baseKey g p ++ [sibCount g p] })
    (fun a ha b hb'' h => built_key_inj hb' _ a ha b hb'' rfl h)
  refine ⟨A.map (·.node), B.map (·.node), ?_, ?_⟩
  · unfold listing; rw [h1]; simp
  · unfold listing; rw [h2]; simp

/-! ### Part F: `add` as an explicit heap transformation chosen by three tests -/

/-- count a warning / note an undefined reference. -/
def bump (a : Nat) (b : Bool) (y : World) : World := { y with warnings := y.warnings + a, undef := b || y.undef }

/-- the `relink` branch of `add_to_graph`: a new link `L` is allocated and given to `o`. -/
def relinkW (a : Nat) (b : Bool) (L : Link) (o : Nat) (y : World) : World :=
  ((bump a b y).newLink L).1.setLink o y.links.size

/-- what `add_to_graph` does to the heap: nothing, or relink. -/
def modW (k : Option (Nat × Bool × Link)) (o : Nat) (y : World) : World :=
  match k with
  | none => y
  | some (a, b, L) => relinkW a b L o y

def relinkDec (a : Nat) (b : Bool) (leaf : Option Nat) : Option (Nat × Bool × Link) × Option Nat :=
  match leaf with
  | none => (some (a, b, {}), none)
  | some lf => (some (a, b, { refs := [lf] }), some lf)

/-- the decision of `add_to_graph` as a function of its three tests (`has_relation`, `get_leaf_at_any`, the reference
    node) and of the graph. -/
def addDec (hr : Bool) (leaf : Option Nat) (ref : Option (Option Nat)) (g : List Entry) :
    Option (Nat × Bool × Link) × Option Nat :=
  if !hr then
    match leaf with
    | none => (none, none)
    | some _ => relinkDec 0 false leaf
  else
    match ref with
    | some (some r) => if inGraph g r then (none, some r) else relinkDec 1 false leaf
    | _ => relinkDec 1 true leaf

theorem addToGraph_eq (y : World) (g : List Entry) (o : Nat) :
    y.addToGraph g o =
      (modW (addDec (y.hasRel o) (y.leafAtAny g (y.chansOf o)) (y.refOf (y.op o).link) g).1 o y,
       attach g (addDec (y.hasRel o) (y.leafAtAny g (y.chansOf o)) (y.refOf (y.op o).link) g).2 o) := by
  unfold World.addToGraph
  simp only
  generalize y.leafAtAny g (y.chansOf o) = leaf
  generalize y.refOf (y.op o).link = ref
  cases y.hasRel o with
  | false => cases leaf <;> rfl
  | true =>
    cases ref with
    | none => cases leaf <;> rfl
    | some r =>
      cases r with
      | none => cases leaf <;> rfl
      | some r =>
        cases hin : inGraph g r with
        | true => simp [addDec, hin, modW]
        | false => cases leaf <;> simp [addDec, hin, modW, relinkDec, relinkW, bump, World.newLink]

theorem add_eq (y : World) (c o : Nat) :
    y.add c o =
      (modW (addDec (y.hasRel o) (y.leafAtAny (y.op c).graph (y.chansOf o)) (y.refOf (y.op o).link)
        (y.op c).graph).1 o y).setGraph c
      (attach (y.op c).graph (addDec (y.hasRel o) (y.leafAtAny (y.op c).graph (y.chansOf o))
        (y.refOf (y.op o).link) (y.op c).graph).2 o) := by
  unfold World.add
  rw [addToGraph_eq]

/-- the parent chosen by `add_to_graph` is a node of the graph. -/
theorem addDec_parent (hr : Bool) (leaf : Option Nat) (ref : Option (Option Nat)) (g : List Entry)
    (hleaf : ∀ lf, leaf = some lf → inGraph g lf = true) :
    ∀ q, (addDec hr leaf ref g).2 = some q → inGraph g q = true := by
  have hrl : ∀ a b q, (relinkDec a b leaf).2 = some q → inGraph g q = true := by
    intro a b q h
    unfold relinkDec at h
    cases leaf with
    | none => cases h
    | some lf => simp only [Option.some.injEq] at h; rw [← h]; exact hleaf lf rfl
  intro q h
  unfold addDec at h
  split at h
  · split at h
    · cases h
    · exact hrl _ _ q h
  · split at h
    · split at h
      · rename_i hin
        simp only [Option.some.injEq] at h
        rw [← h]; exact hin
      · exact hrl _ _ q h
    · exact hrl _ _ q h

/-! #### what `modW` and `setGraph` do to one object -/

theorem modW_size (k : Option (Nat × Bool × Link)) (o : Nat) (y : World) : (modW k o y).ops.size = y.ops.size := by
  cases k with
  | none => rfl
  | some k => exact setLink_size _ _ _

theorem modW_op (k : Option (Nat × Bool × Link)) (o : Nat) (y : World) (j : Nat) :
    (modW k o y).op j = if k.isSome ∧ o = j ∧ o < y.ops.size then { y.op o with link := y.links.size } else y.op j := by
  cases k with
  | none => simp [modW]
  | some k =>
    obtain ⟨a, b, L⟩ := k
    show (World.setLink _ o y.links.size).op j = _
    unfold World.setLink
    rw [op_setOp]
    simp only [Option.isSome_some, true_and]
    rfl

theorem modW_lnk (k : Option (Nat × Bool × Link)) (o : Nat) (y : World) (l : Nat) (hl : l < y.links.size) :
    (modW k o y).lnk l = y.lnk l := by
  cases k with
  | none => rfl
  | some k =>
    obtain ⟨a, b, L⟩ := k
    show World.lnk (World.setLink _ o y.links.size) l = _
    unfold World.lnk
    rw [setLink_links]
    show (y.links.push L).getD l default = _
    rw [Array.getD_eq_getD_getElem?, Array.getD_eq_getD_getElem?, Array.getElem?_push_lt hl]
    simp [hl]

theorem modW_shape' (k : Option (Nat × Bool × Link)) (o : Nat) (y : World) (j : Nat) :
    ((modW k o y).op j).noLink = (y.op j).noLink := by
  rw [modW_op]
  split
  · rename_i h; rw [← h.2.1]; rfl
  · rfl

theorem modW_opsOnly (k : Option (Nat × Bool × Link)) (o : Nat) {y y' : World} (h : OpsOnly y y') :
    OpsOnly (modW k o y) (modW k o y') := by
  unfold OpsOnly at h
  generalize y'.ops = O at h
  subst h
  cases k with
  | none => rfl
  | some k => rfl

theorem setGraph_opsOnly (c : Nat) (G : List Entry) {y y' : World} (h : OpsOnly y y') :
    OpsOnly (y.setGraph c G) (y'.setGraph c G) := by
  unfold OpsOnly at h
  generalize y'.ops = O at h
  subst h
  rfl

/-- the heap after `add`, given the decision `(k, p)`. -/
def addW (k : Option (Nat × Bool × Link)) (G : List Entry) (c o : Nat) (y : World) : World :=
  (modW k o y).setGraph c G

theorem addW_size (k : Option (Nat × Bool × Link)) (G : List Entry) (c o : Nat) (y : World) :
    (addW k G c o y).ops.size = y.ops.size := by
  unfold addW
  rw [C11.setGraph_size, modW_size]

theorem addW_op (k : Option (Nat × Bool × Link)) (G : List Entry) (c o : Nat) (y : World) (j : Nat) :
    (addW k G c o y).op j =
      if c = j ∧ c < y.ops.size then { (modW k o y).op c with graph := G } else (modW k o y).op j := by
  unfold addW World.setGraph
  rw [op_setOp, modW_size]

theorem addW_opsOnly (k : Option (Nat × Bool × Link)) (G : List Entry) (c o : Nat) {y y' : World} (h : OpsOnly y y') :
    OpsOnly (addW k G c o y) (addW k G c o y') := setGraph_opsOnly c G (modW_opsOnly k o h)

theorem addW_lnk (k : Option (Nat × Bool × Link)) (G : List Entry) (c o : Nat) (y : World) (l : Nat)
    (hl : l < y.links.size) : (addW k G c o y).lnk l = y.lnk l := modW_lnk k o y l hl

/-- `addW` acts object by object: heaps of the same size and the same number of links that agree on `j` agree on `j`
    afterwards. -/
theorem addW_op_congr (k : Option (Nat × Bool × Link)) (G : List Entry) (c o : Nat) {y y' : World}
    (hs : y'.ops.size = y.ops.size) (hl : y'.links.size = y.links.size) (j : Nat)
    (ho : y'.op o = y.op o) (hc : y'.op c = y.op c) (hj : y'.op j = y.op j) :
    (addW k G c o y').op j = (addW k G c o y).op j := by
  rw [addW_op, addW_op, modW_op, modW_op, modW_op, modW_op, hs, hl, ho, hc, hj]

/-! #### listing a heap after `add`, in lockstep with listing it before -/

theorem reach_congr (y u : World) : ∀ (g c : Nat), (u.op c).noLink = (y.op c).noLink →
    (∀ j ∈ reach y g c, (u.op j).noLink = (y.op j).noLink) → reach u g c = reach y g c := by
  intro g
  induction g with
  | zero => intro c _ _; rfl
  | succ g ih =>
    intro c hc h
    rw [reach_succ, reach_succ, noLink_graph hc]
    apply flatMap_congr'
    intro n hn
    have hn1 : n ∈ reach y (g + 1) c := by
      rw [reach_succ, List.mem_flatMap]; exact ⟨n, hn, self_mem_cone y g n⟩
    have hnn := h n hn1
    unfold cone
    rw [noLink_isComp hnn]
    by_cases hcn : (y.op n).isComp = true
    · simp only [hcn, if_true]
      rw [ih n hnn (fun j hj => h j (by
        rw [reach_succ, List.mem_flatMap]; exact ⟨n, hn, reach_sub_cone y g n hcn hj⟩))]
    · simp [hcn]

theorem cone_congr (y u : World) (g n : Nat) (h : ∀ j ∈ cone y g n, (u.op j).noLink = (y.op j).noLink) :
    cone u g n = cone y g n := by
  have hn := h n (self_mem_cone y g n)
  unfold cone
  rw [noLink_isComp hn]
  by_cases hc : (y.op n).isComp = true
  · simp only [hc, if_true]
    rw [reach_congr y u g n hn (fun j hj => h j (reach_sub_cone y g n hc hj))]
  · simp [hc]

/-- two heaps with the same links that agree on the objects of `X`. -/
def SimLoc (X : List Nat) (y z : World) : Prop :=
  z.ops.size = y.ops.size ∧ z.links = y.links ∧ ∀ j ∈ X, z.op j = y.op j

theorem simLoc_spec (X : List Nat) : SimSpec (fun n => n ∈ X) (fun _ => True) (SimLoc X) := by
  refine ⟨?_, ?_, ?_, ?_⟩
  · intro y z n k h hn _
    obtain ⟨h1, h2, h3⟩ := h
    refine ⟨by rw [setLink_size, setLink_size, h1], by rw [setLink_links, setLink_links, h2], ?_⟩
    intro j hj
    unfold World.setLink
    rw [op_setOp, op_setOp, h1, h3 n hn, h3 j hj]
  · intro y z n h hn
    unfold World.hasRel
    rw [h.2.2 n hn, Flat.lnk_of_links_eq h.2.1]
  · intro y z n h hn
    exact h.2.2 n hn
  · intro _ _ _ _ _
    trivial

/-- **locality**: the step of the listing at `n` reads and writes only the objects it visits (and reads the links). -/
theorem wstep_local (g cl : Nat) (X : List Nat) {y z : World} (h : SimLoc X y z) (n : Nat)
    (hn : ∀ j ∈ cone y g n, j ∈ X) : SimLoc X (wstep g cl y n) (wstep g cl z n) :=
  wstep_sim (simLoc_spec X) g cl (decomposed_sim (simLoc_spec X) g) h (Shape.refl y) n hn trivial

/-- the lockstep relation between the listing of `y` and the listing of `addW … y`: the heaps agree on everything but
    the objects `X` at and below the added object and the composite `c`; on `X` the second heap agrees with a recorded
    heap `Z`, and its `c` is the recorded object `C`. -/
def SimAdd (c K : Nat) (X : List Nat) (Z : World) (C : Op) (y z : World) : Prop :=
  z.ops.size = y.ops.size ∧ (∀ j, j ∉ X → j ≠ c → z.op j = y.op j) ∧ (∀ l, l < K → z.lnk l = y.lnk l) ∧
  (∀ j, (y.op j).link < K) ∧ (∀ j ∈ X, z.op j = Z.op j) ∧ z.op c = C

theorem simAdd_spec (c K : Nat) (X : List Nat) (Z : World) (C : Op) :
    SimSpec (fun n => n ∉ X ∧ n ≠ c) (fun k => k < K) (SimAdd c K X Z C) := by
  refine ⟨?_, ?_, ?_, ?_⟩
  · intro y z n k h hn hk
    obtain ⟨h1, h2, h3, h4, h5, h6⟩ := h
    refine ⟨by rw [setLink_size, setLink_size, h1], ?_, ?_, ?_, ?_, ?_⟩
    · intro j hjo hjc
      unfold World.setLink
      rw [op_setOp, op_setOp, h1, h2 n hn.1 hn.2, h2 j hjo hjc]
    · intro l hl
      unfold World.lnk
      rw [setLink_links, setLink_links]
      exact h3 l hl
    · intro j
      unfold World.setLink
      rw [op_setOp]
      split
      · exact hk
      · exact h4 j
    · intro j hj
      rw [setLink_op_other _ _ _ _ (fun e => hn.1 (by rw [← e]; exact hj))]; exact h5 j hj
    · rw [setLink_op_other _ _ _ _ (Ne.symm hn.2)]; exact h6
  · intro y z n h hn
    unfold World.hasRel
    rw [h.2.1 n hn.1 hn.2, h.2.2.1 _ (h.2.2.2.1 n)]
  · intro y z n h hn
    exact h.2.1 n hn.1 hn.2
  · intro y z n h _
    exact h.2.2.2.1 n

theorem addW_op_c (k : Option (Nat × Bool × Link)) (G : List Entry) (c o : Nat) (y : World) (hc : c < y.ops.size)
    (hoc : o ≠ c) : (addW k G c o y).op c = { y.op c with graph := G } := by
  rw [addW_op, modW_op]
  have : ¬ (k.isSome ∧ o = c ∧ o < y.ops.size) := fun h => hoc h.2.1
  simp [hc, this]

theorem addW_op_other (k : Option (Nat × Bool × Link)) (G : List Entry) (c o : Nat) (y : World) (j : Nat)
    (hjo : j ≠ o) (hjc : j ≠ c) : (addW k G c o y).op j = y.op j := by
  rw [addW_op]
  have h1 : ¬ (c = j ∧ c < y.ops.size) := fun h => hjc h.1.symm
  have h2 : ¬ (k.isSome ∧ o = j ∧ o < y.ops.size) := fun h => hjo h.2.1.symm
  simp only [h1, if_false]
  rw [modW_op]
  simp only [h2, if_false]

theorem addW_noLink (k : Option (Nat × Bool × Link)) (G : List Entry) (c o : Nat) (y : World) (j : Nat)
    (hjc : j ≠ c) : ((addW k G c o y).op j).noLink = (y.op j).noLink := by
  rw [addW_op]
  have h1 : ¬ (c = j ∧ c < y.ops.size) := fun h => hjc h.1.symm
  simp only [h1, if_false]
  exact (modW_shape' k o y j)

/-- **listing after `add`**, object by object: the objects of the old tree end as in a listing of the heap before the
    `add`; the composite keeps what `add` gave it; the objects at and below the new node `o` end as the step of the
    listing at `o` leaves them when run on the heap right after the `add`. -/
theorem add_listing_char (y : World) (k : Option (Nat × Bool × Link)) (G : List Entry) (c o F : Nat) (A B : List Nat)
    (hc : c < y.ops.size) (hoc : o ≠ c)
    (hrange : ∀ j, (y.op j).link < y.links.size)
    (hXr : ∀ j ∈ cone y F o, j ∉ reach y (F + 1) c) (hXc : c ∉ cone y F o) (hcr : c ∉ reach y (F + 1) c)
    (hG : listing G = A ++ o :: B) (hg : listing (y.op c).graph = A ++ B) :
    ((addW k G c o y).decomposed (F + 1) c).1.ops.size = y.ops.size ∧
    (∀ j, j ∉ cone y F o → j ≠ c →
      ((addW k G c o y).decomposed (F + 1) c).1.op j = (y.decomposed (F + 1) c).1.op j) ∧
    ((addW k G c o y).decomposed (F + 1) c).1.op c = (addW k G c o y).op c ∧
    (∀ j ∈ cone y F o, ((addW k G c o y).decomposed (F + 1) c).1.op j =
      (wstep F (y.op c).link (addW k G c o y) o).op j) := by
  have huc := addW_op_c k G c o y hc hoc
  have hother : ∀ j, j ∉ cone y F o → j ≠ c → (addW k G c o y).op j = y.op j := fun j hj hjc =>
    addW_op_other k G c o y j (fun e => hj (e ▸ self_mem_cone y F o)) hjc
  have hnl : ∀ j ∈ cone y F o, ((addW k G c o y).op j).noLink = (y.op j).noLink := fun j hj =>
    addW_noLink k G c o y j (fun e => hXc (e ▸ hj))
  have hlnk : ∀ l, l < y.links.size → (addW k G c o y).lnk l = y.lnk l := fun l hl => addW_lnk k G c o y l hl
  have hus : (addW k G c o y).ops.size = y.ops.size := addW_size k G c o y
  generalize addW k G c o y = u at huc hother hnl hlnk hus
  have hcone : cone u F o = cone y F o := cone_congr y u F o hnl
  have hcl : (y.op c).link < y.links.size := hrange c
  -- the initial relation
  have h0 : SimAdd c y.links.size (cone y F o) u (u.op c) y u := ⟨hus, hother, hlnk, hrange, fun _ _ => rfl, rfl⟩
  -- the two folds
  rw [decomposed_fst, decomposed_fst, huc, hg]
  show (((listing G).foldl (wstep F (y.op c).link) u).ops.size = y.ops.size) ∧ _
  rw [hG, List.foldl_append, List.foldl_cons, List.foldl_append]
  have hreach : ∀ j, j ∈ (A ++ B).flatMap (cone y F) → j ∉ cone y F o ∧ j ≠ c := by
    intro j hj
    rw [← hg, ← reach_succ] at hj
    exact ⟨fun hx => hXr j hx hj, fun e => hcr (e ▸ hj)⟩
  have hRA : ∀ j ∈ A.flatMap (cone y F), j ∉ cone y F o ∧ j ≠ c := fun j hj =>
    hreach j (by rw [List.flatMap_append]; exact List.mem_append_left _ hj)
  have hRB : ∀ j ∈ B.flatMap (cone y F), j ∉ cone y F o ∧ j ≠ c := fun j hj =>
    hreach j (by rw [List.flatMap_append]; exact List.mem_append_right _ hj)
  have hA := foldl_sim' (simAdd_spec c y.links.size (cone y F o) u (u.op c)) F (y.op c).link y hcl A y u h0
    (Shape.refl y) hRA
  have hsAu : Shape (A.foldl (wstep F (y.op c).link) u) u := foldl_shape F _ A u (Shape.refl u)
  have hzAl : (A.foldl (wstep F (y.op c).link) u).links = u.links :=
    (foldl_opsOnly F _ (decomposed_opsOnly F) A u).links
  have hzAs : (A.foldl (wstep F (y.op c).link) u).ops.size = u.ops.size := foldl_size F _ A u
  generalize A.foldl (wstep F (y.op c).link) u = zA at hA hsAu hzAl hzAs
  have hsA : Shape (A.foldl (wstep F (y.op c).link) y) y := foldl_shape F _ A y (Shape.refl y)
  have hyAs : (A.foldl (wstep F (y.op c).link) y).ops.size = y.ops.size := foldl_size F _ A y
  generalize A.foldl (wstep F (y.op c).link) y = yA at hA hsA hyAs
  obtain ⟨a1, a2, a3, a4, a5, a6⟩ := hA
  -- the step at `o`
  have hloc : SimLoc (cone y F o) (wstep F (y.op c).link u o) (wstep F (y.op c).link zA o) :=
    wstep_local F _ (cone y F o) ⟨hzAs, hzAl, a5⟩ o (fun j hj => hcone ▸ hj)
  have hfr : ∀ j, j ∉ cone y F o → (wstep F (y.op c).link zA o).op j = zA.op j := fun j hj =>
    wstep_frame' F _ hsAu o j (by rw [hcone]; exact hj)
  have h1 : SimAdd c y.links.size (cone y F o) (wstep F (y.op c).link u o) (u.op c) yA
      (wstep F (y.op c).link zA o) := by
    refine ⟨by rw [wstep_size]; exact a1, ?_, ?_, a4, hloc.2.2, ?_⟩
    · intro j hjo hjc
      rw [hfr j hjo]; exact a2 j hjo hjc
    · intro l hl
      unfold World.lnk
      rw [wstep_links]
      exact a3 l hl
    · rw [hfr c hXc]; exact a6
  have hB := foldl_sim' (simAdd_spec c y.links.size (cone y F o) (wstep F (y.op c).link u o) (u.op c)) F
    (y.op c).link y hcl B yA _ h1 hsA hRB
  obtain ⟨b1, b2, _, _, b5, b6⟩ := hB
  refine ⟨?_, b2, by rw [← huc]; exact b6, b5⟩
  rw [b1, foldl_size, hyAs]

/-! ### Part G: `add` after a listing = `add` before it, up to the listing -/

theorem chans_shape {y y0 : World} (h : Shape y y0) : ∀ (f o : Nat), y.chans f o = y0.chans f o := by
  intro f
  induction f with
  | zero => intro o; rfl
  | succ f ih =>
    intro o
    simp only [World.chans]
    rw [h.isComp o, h.graph o, Flat.leafChans_noLink (h.2 o)]
    congr 1
    congr 1
    apply flatMap_congr'
    intro n _
    exact ih n

theorem chansOf_shape {y y0 : World} (h : Shape y y0) (hs : y.ops.size = y0.ops.size) (o : Nat) :
    y.chansOf o = y0.chansOf o := by
  unfold World.chansOf World.depthFuel
  rw [hs, chans_shape h]

theorem leafAtAny_shape {y y0 : World} (h : Shape y y0) (hs : y.ops.size = y0.ops.size) (g : List Entry)
    (chs : List ChId) : y.leafAtAny g chs = y0.leafAtAny g chs := by
  unfold World.leafAtAny
  have : (fun n => chs.any (fun a => (y.chansOf n).any (fun b => a.matches b))) =
      (fun n => chs.any (fun a => (y0.chansOf n).any (fun b => a.matches b))) := by
    funext n; rw [chansOf_shape h hs]
  rw [this]

theorem modW_shape (k : Option (Nat × Bool × Link)) (o : Nat) (y : World) : Shape (modW k o y) y := by
  refine ⟨?_, ?_⟩
  · cases k with
    | none => rfl
    | some k => rfl
  · intro j
    rw [modW_op]
    split
    · rename_i h; rw [← h.2.1]; rfl
    · rfl

theorem shape_setGraph {a b : World} (h : Shape a b) (hs : a.ops.size = b.ops.size) (c : Nat) (G : List Entry) :
    Shape (a.setGraph c G) (b.setGraph c G) := by
  refine ⟨h.1, ?_⟩
  intro j
  unfold World.setGraph
  rw [op_setOp, op_setOp, hs]
  split
  · show ({ (a.op c).noLink with graph := G } : Op) = { (b.op c).noLink with graph := G }
    rw [h.2 c]
  · exact h.2 j

theorem addW_shape (k : Option (Nat × Bool × Link)) (G : List Entry) (c o : Nat) {y' y : World} (h : Shape y' y)
    (hs : y'.ops.size = y.ops.size) : Shape (addW k G c o y') (addW k G c o y) := by
  unfold addW
  apply shape_setGraph _ (by rw [modW_size, modW_size, hs])
  have h1 := modW_shape k o y'
  have h2 := modW_shape k o y
  exact ⟨h1.1.trans (h.1.trans h2.1.symm), fun j => (h1.2 j).trans ((h.2 j).trans (h2.2 j).symm)⟩

theorem depthFuel_eq (w : World) : w.depthFuel = (w.ops.size + 1) + 1 := rfl

/-- the hypotheses of the commutation theorem: `c` is a composite whose content is a tree (no object hangs in two
    graphs, ids in range, depth within the fuel of the driver) built by `attach`; every object's link is an existing
    link; `o` is an object — a leaf operation or a whole sub-circuit — none of whose objects (`cone`: `o` and what a listing
    visits below it) is an object of that tree, and its link is not a group link. -/
structure AddOk (w : World) (f c o : Nat) : Prop where
  tree : TreeBelow w f c
  fuel : f ≤ w.depthFuel
  comp : (w.op c).isComp = true
  apart : ∀ j ∈ cone w (w.ops.size + 1) o, j ∉ w.below f c
  range : ∀ j, (w.op j).link < w.links.size
  built : Built (w.op c).graph
  single : (w.lnk (w.op o).link).multi = false

/-- the leaf case: `o` is a leaf operation that is not an object of the tree below `c`. -/
theorem AddOk.of_leaf {w : World} {f c o : Nat} (tree : TreeBelow w f c) (fuel : f ≤ w.depthFuel)
    (comp : (w.op c).isComp = true) (leaf : (w.op o).isComp = false) (fresh : o ∉ w.below f c)
    (range : ∀ j, (w.op j).link < w.links.size) (built : Built (w.op c).graph)
    (single : (w.lnk (w.op o).link).multi = false) : AddOk w f c o := by
  refine ⟨tree, fuel, comp, ?_, range, built, single⟩
  intro j hj
  unfold cone at hj
  simp only [leaf, Bool.false_eq_true, if_false, List.mem_singleton] at hj
  rw [hj]; exact fresh

/-- the sub-circuit case: `o` is the root of a tree sharing no object with the tree below `c`. -/
theorem AddOk.of_tree {w : World} {f f' c o : Nat} (tree : TreeBelow w f c) (fuel : f ≤ w.depthFuel)
    (comp : (w.op c).isComp = true) (otree : TreeBelow w f' o) (ofuel : f' < w.depthFuel)
    (apart : ∀ j ∈ w.below f' o, j ∉ w.below f c)
    (range : ∀ j, (w.op j).link < w.links.size) (built : Built (w.op c).graph)
    (single : (w.lnk (w.op o).link).multi = false) : AddOk w f c o := by
  refine ⟨tree, fuel, comp, ?_, range, built, single⟩
  intro j hj
  exact apart j ((mem_cone_iff_below w f' o otree (w.ops.size + 1) (by unfold World.depthFuel at ofuel; omega) j).mp hj)

/-- what the hypotheses give about the heap left by the listing: the objects at and below `o`, and `c` itself, are not
    visited, so they keep their state, and the three tests of `add_to_graph` (own relation, reference node, last node
    sharing a channel) are answered as before the listing. -/
theorem addOk_facts (w : World) (f c o : Nat) (H : AddOk w f c o) :
    o ≠ c ∧ (∀ j ∈ cone w (w.ops.size + 1) o, j ∉ reach w ((w.ops.size + 1) + 1) c) ∧
    c ∉ cone w (w.ops.size + 1) o ∧ c ∉ reach w ((w.ops.size + 1) + 1) c ∧
    (∀ j ∈ cone w (w.ops.size + 1) o, (w.operations c).1.op j = w.op j) ∧ (w.operations c).1.op c = w.op c ∧
    (w.operations c).1.hasRel o = w.hasRel o ∧
    (w.operations c).1.refOf ((w.operations c).1.op o).link = w.refOf (w.op o).link ∧
    (w.operations c).1.leafAtAny ((w.operations c).1.op c).graph ((w.operations c).1.chansOf o) =
      w.leafAtAny (w.op c).graph (w.chansOf o) := by
  obtain ⟨ht, hfuel, hcomp, hapart, hrange, hbuilt, hsingle⟩ := H
  have hs1 : Shape (w.operations c).1 w := operations_shape w c
  have hsz1 : (w.operations c).1.ops.size = w.ops.size := operations_ops_size w c
  have hl1 : (w.operations c).1.links = w.links := operations_links w c
  have hdec : (w.operations c).1 = (w.decomposed ((w.ops.size + 1) + 1) c).1 := rfl
  generalize (w.operations c).1 = w1 at hs1 hsz1 hl1 hdec
  have hcone : ∀ j, j ∈ cone w ((w.ops.size + 1) + 1) c ↔ j ∈ w.below f c :=
    mem_cone_iff_below w f c ht _ hfuel
  have hconeq : cone w ((w.ops.size + 1) + 1) c = c :: reach w ((w.ops.size + 1) + 1) c := by
    unfold cone; simp [hcomp]
  have hoc : o ≠ c := fun e => hapart o (self_mem_cone w _ o) (e ▸ ht.self_mem)
  have hXr : ∀ j ∈ cone w (w.ops.size + 1) o, j ∉ reach w ((w.ops.size + 1) + 1) c := fun j hj h =>
    hapart j hj ((hcone j).mp (by rw [hconeq]; exact List.mem_cons_of_mem _ h))
  have hXc : c ∉ cone w (w.ops.size + 1) o := fun h => hapart c h ht.self_mem
  have hcr : c ∉ reach w ((w.ops.size + 1) + 1) c := not_mem_reach_self w f _ c ht hfuel hcomp
  have hopX : ∀ j ∈ cone w (w.ops.size + 1) o, w1.op j = w.op j := fun j hj => by
    rw [hdec]; exact decomposed_frame _ c w j (hXr j hj)
  have hopo : w1.op o = w.op o := hopX o (self_mem_cone w _ o)
  have hopc : w1.op c = w.op c := by rw [hdec]; exact decomposed_frame _ c w c hcr
  refine ⟨hoc, hXr, hXc, hcr, hopX, hopc, ?_, ?_, ?_⟩
  · unfold World.hasRel; rw [hopo, Flat.lnk_of_links_eq hl1]
  · rw [hopo, Flat.refOf_single w _ hsingle,
      Flat.refOf_single w1 _ (by rw [Flat.lnk_of_links_eq hl1]; exact hsingle), Flat.lnk_of_links_eq hl1]
  · rw [hopc, chansOf_shape hs1 hsz1, leafAtAny_shape hs1 hsz1]

/-- **`add` after a listing takes the decision `add` takes without it**: both are the same explicit transformation
    `addW k G c o` (same new link or none, same warning, same new graph `G` of `c`) of their respective heaps. -/
theorem add_after_listing (w : World) (f c o : Nat) (H : AddOk w f c o) :
    ∃ (k : Option (Nat × Bool × Link)) (G : List Entry),
      (w.operations c).1.add c o = addW k G c o (w.operations c).1 ∧ w.add c o = addW k G c o w := by
  obtain ⟨_, _, _, _, _, hopc, hrel, href, hlf⟩ := addOk_facts w f c o H
  refine ⟨_, _, ?_, add_eq w c o⟩
  rw [add_eq, hrel, href, hlf, hopc]
  rfl

/-- **a listing before `add` does not change what `add` and a later listing produce**: heaps and sequences agree. -/
theorem listing_then_add (w : World) (f c o : Nat) (H : AddOk w f c o) :
    ((w.operations c).1.add c o).operations c = (w.add c o).operations c := by
  obtain ⟨hoc, hXr, hXc, hcr, hopX, hopc, hrel, href, hlf⟩ := addOk_facts w f c o H
  obtain ⟨ht, hfuel, hcomp, hapart, hrange, hbuilt, hsingle⟩ := H
  have hc : c < w.ops.size := ht.lt
  have hfresh : o ∉ w.below f c := hapart o (self_mem_cone w _ o)
  -- the heap after the first listing
  have hs1 : Shape (w.operations c).1 w := operations_shape w c
  have hsz1 : (w.operations c).1.ops.size = w.ops.size := operations_ops_size w c
  have hl1 : (w.operations c).1.links = w.links := operations_links w c
  have hO1 : OpsOnly w (w.operations c).1 := decomposed_opsOnly _ c w
  have hdec : (w.operations c).1 = (w.decomposed ((w.ops.size + 1) + 1) c).1 := rfl
  generalize hw1 : (w.operations c).1 = w1 at hs1 hsz1 hl1 hO1 hdec hopX hopc hrel href hlf
  have hopo : w1.op o = w.op o := hopX o (self_mem_cone w _ o)
  rw [add_eq w1 c o, add_eq w c o, hrel, href, hlf, hopc]
  generalize hdecn : addDec (w.hasRel o) (w.leafAtAny (w.op c).graph (w.chansOf o)) (w.refOf (w.op o).link)
    (w.op c).graph = dec
  -- the new graph lists `o` somewhere inside the old listing
  have hpar : ∀ q, dec.2 = some q → inGraph (w.op c).graph q = true := by
    rw [← hdecn]
    apply addDec_parent
    intro lf hlf'
    exact inGraph_iff.mpr (Flat.leafAtAny_some_inGraph hlf')
  have hnew : inGraph (w.op c).graph o = false := by
    rw [inGraph_false_iff]
    intro e he heo
    apply hfresh
    cases f with
    | zero => exact ht.elim
    | succ f =>
      rw [mem_below_comp w f c o hcomp]
      right
      have hk : o ∈ w.kids c := by
        unfold World.kids; exact List.mem_map.mpr ⟨e, he, heo⟩
      exact ⟨o, hk, (ht.kid hcomp hk).self_mem⟩
  obtain ⟨A, B, hG, hg⟩ := listing_attach_insert hbuilt dec.2 o hpar hnew
  -- listing after `add`, object by object, in both heaps
  have hrange1 : ∀ j, (w1.op j).link < w1.links.size := by
    intro j
    obtain ⟨k, hk⟩ := (Flat.operations_dinv w c).used j
    rw [hw1] at hk
    rw [hk, hl1]; exact hrange k
  have hcone1 : cone w1 (w.ops.size + 1) o = cone w (w.ops.size + 1) o := cone_shape hs1 _ o
  have ch := add_listing_char w dec.1 (attach (w.op c).graph dec.2 o) c o (w.ops.size + 1) A B hc hoc hrange hXr hXc
    hcr hG hg
  have ch1 := add_listing_char w1 dec.1 (attach (w.op c).graph dec.2 o) c o (w.ops.size + 1) A B
    (by rw [hsz1]; exact hc) hoc hrange1 (by rw [hcone1, reach_shape hs1]; exact hXr) (by rw [hcone1]; exact hXc)
    (by rw [reach_shape hs1]; exact hcr) hG (by rw [hopc]; exact hg)
  rw [hcone1, hopc] at ch1
  -- a second listing of the listed heap is the identity
  have hidem : (w1.decomposed ((w.ops.size + 1) + 1) c).1 = w1 := by
    rw [hdec]; exact decomposed_idem w f _ c ht hfuel hcomp
  show (addW dec.1 (attach (w.op c).graph dec.2 o) c o w1).operations c =
    (addW dec.1 (attach (w.op c).graph dec.2 o) c o w).operations c
  generalize hG' : attach (w.op c).graph dec.2 o = G at *
  have hUs : (addW dec.1 G c o w1).ops.size = (addW dec.1 G c o w).ops.size := by
    rw [addW_size, addW_size, hsz1]
  have hUO : OpsOnly (addW dec.1 G c o w) (addW dec.1 G c o w1) := addW_opsOnly dec.1 G c o hO1
  have hUsh : Shape (addW dec.1 G c o w1) (addW dec.1 G c o w) := addW_shape dec.1 G c o hs1 hsz1
  have hlsz : w1.links.size = w.links.size := by rw [hl1]
  have hUX : ∀ j ∈ cone w (w.ops.size + 1) o, (addW dec.1 G c o w1).op j = (addW dec.1 G c o w).op j := fun j hj =>
    addW_op_congr dec.1 G c o hsz1 hlsz j hopo hopc (hopX j hj)
  have hUc : (addW dec.1 G c o w1).op c = (addW dec.1 G c o w).op c :=
    addW_op_congr dec.1 G c o hsz1 hlsz c hopo hopc hopc
  have hUl : (addW dec.1 G c o w1).links = (addW dec.1 G c o w).links := hUO.links
  -- the step at `o` does the same in both heaps
  have hconeU : cone (addW dec.1 G c o w) (w.ops.size + 1) o = cone w (w.ops.size + 1) o :=
    cone_congr w _ _ o (fun j hj => addW_noLink dec.1 G c o w j (fun e => hXc (e ▸ hj)))
  have hstep := wstep_local (w.ops.size + 1) (w.op c).link (cone w (w.ops.size + 1) o)
    (y := addW dec.1 G c o w) (z := addW dec.1 G c o w1) ⟨hUs, hUl, hUX⟩ o (fun j hj => hconeU ▸ hj)
  unfold World.operations
  rw [depthFuel_eq, depthFuel_eq, hUs, addW_size]
  apply Prod.ext
  · -- heaps
    obtain ⟨c1, c2, c3, c4⟩ := ch
    obtain ⟨d1, d2, d3, d4⟩ := ch1
    rw [hsz1] at d1
    rw [hidem] at d2
    rw [← hdec] at c2
    have hops : ((addW dec.1 G c o w1).decomposed ((w.ops.size + 1) + 1) c).1.ops =
        ((addW dec.1 G c o w).decomposed ((w.ops.size + 1) + 1) c).1.ops := by
      apply ops_ext (by rw [d1, c1])
      intro j
      by_cases hjX : j ∈ cone w (w.ops.size + 1) o
      · rw [d4 j hjX, c4 j hjX]
        exact hstep.2.2 j hjX
      · by_cases hjc : j = c
        · rw [hjc, d3, c3, hUc]
        · rw [d2 j hjX hjc, c2 j hjX hjc]
    have e1 := hUO.trans (decomposed_opsOnly ((w.ops.size + 1) + 1) c (addW dec.1 G c o w1))
    have e2 := decomposed_opsOnly ((w.ops.size + 1) + 1) c (addW dec.1 G c o w)
    unfold OpsOnly at e1 e2
    rw [e1, e2, hops]
  · -- sequences
    rw [(decomposed_spec (addW dec.1 G c o w) _ c _ hUsh).2,
      (decomposed_spec (addW dec.1 G c o w) _ c _ (Shape.refl _)).2]

end Qco.Commute
