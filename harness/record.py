"""Recorder: turns what a library constructor does to the builder API into a build program (harness/progs.py).

While `fn(*args, **kw)` runs, `DeclarativeCircuit.__init__/add_operation/add_sub_circuit/apply_modifiers/flatten`
and every *top-level* `CircuitCompositeOperation.decomposed_operations()` call (the mutating listing — `.operations`,
`get_last_acquisition_operation`, and the registry scan behind every `acquisition_index`) are wrapped from the
harness (nothing in /repo is edited) and logged as commands of the build-program language:

    new <rep> | op c cls qs chan dur tag reg ints rel | sub a b | apply c | flatten c | list c

    record(fn, *args, **kw) -> (program, result_circuit_index, real_result)

`progs.run_impl(program + [['list', idx]])` replays the program through the public API, `stream.run_model_many`
through the Lean heap model; both final listings must equal the canonical listing of `real_result`
(`real_listing(real_result)`; format of `progs.show_op`).

Listing commands.  The real constructors only *list* (and ask single acquisition indices); the language's observer
`list c` additionally evaluates times and the acquisition index of every measurement (= further listings of the
registry circuits).  `listing='list'` uses the existing command (no change of shared files needed; ~12x slower to replay);
`listing='ops'` emits the pure listing `['ops', c]`, which needs the small extension of progs.py /
Driver/Heap.lean described in `EXTENSION` below.  Default: 'ops' iff this tree's progs.OBSERVERS knows it.

Anything the program language cannot express raises `Unsupported` (with the exact feature named).

Self-test:  python -m harness.record [--thorough] [--listing ops]
"""
from __future__ import annotations
import contextlib
import io
import sys
import time
import warnings

from . import progs

EXTENSION = """
progs.py      : OBSERVERS |= {'ops'};  ImplRun.step: 'ops' -> str(len(self.circs[c].operations))
Driver/Heap   : | ["ops", c] => let (w, ops) := s.w.operations s.circs[c]!; ({ s with w := w }, toString ops.length)
"""

TAGS = {'heralded': 0, 'final': 1, 'parity': 2}   # fixed small alphabet; unknown tags get the next numbers


class Unsupported(Exception):
    """The constructor used an API feature the build-program language cannot express."""


class Recorder:
    def __init__(self, listing: str = 'list'):
        assert listing in ('list', 'ops')
        self.listing = listing
        self.prog: list = []
        self.circ_of_struct: dict = {}     # id(CircuitCompositeOperation) -> circuit index
        self.circ_of_decl: dict = {}       # id(DeclarativeCircuit) -> circuit index
        self.handle_of: dict = {}          # id(operation) -> handle index
        self.keep: list = []               # keeps every recorded object alive (ids must not be reused)
        self.tags = dict(TAGS)
        self.n_handles = 0
        self.n_circs = 0
        self.list_depth = 0
        self.mute_new = 0
        self.mute_list = 0
        self.shared_links: dict = {}       # id(link) -> number of operations created with that link object
        self.stats = {'new': 0, 'op': 0, 'sub': 0, 'apply': 0, 'flatten': 0, 'list': 0}

    # ------------------------------------------------------------------ encoders
    def tag_no(self, tag: str) -> int:
        if tag.startswith('t') and tag[1:].isdigit():
            return int(tag[1:])
        if tag not in self.tags:
            self.tags[tag] = max(self.tags.values(), default=-1) + 1
        return self.tags[tag]

    def rep_spec(self, strat) -> str:
        n = type(strat).__name__
        if n == 'FixedRepetitionStrategy':
            return f'f{strat.repetitions}'
        if n == 'RegistryRepetitionStrategy':
            key = str(getattr(strat, 'registry_key', getattr(strat, 'unique_key', '')))
            if key.isdigit():
                return f'r{key}'
        raise Unsupported(f'repetition strategy {n}')

    def dur_spec(self, op):
        a = progs.api()
        cls = type(op).__name__
        strat = op.duration_strategy
        n = type(strat).__name__
        default = type(op).__dataclass_fields__['duration_strategy'].default
        if n == 'FixedDurationStrategy':
            spec = f'f{progs.to_units(strat.duration)}'
        elif n == 'GlobalDurationStrategy':
            spec = 'g' + {v: k for k, v in a.GK.items()}[strat.key]
        elif n == 'GlobalDecouplingWaitDurationStrategy':
            spec = 'd'
        elif n == 'RegistryDurationStrategy' and str(strat.registry_key).isdigit():
            spec = f'r{strat.registry_key}'
        else:
            raise Unsupported(f'duration strategy {n} on {cls}')
        if cls in progs.DUR_SETTABLE:
            return spec
        if strat == default:
            return None
        raise Unsupported(f'{cls} created with non-default duration strategy {spec}')

    def rel_spec(self, op):
        a = progs.api()
        link = op.relation_link
        if isinstance(link, a.MultiRelationLink):
            raise Unsupported('operation created with a MultiRelationLink')
        ref = link.reference_node
        if ref is None:
            return None
        if type(op).__name__ in progs.NO_RELATION_ARG:
            raise Unsupported(f'{type(op).__name__} with a hand-assigned relation')
        h = self.handle_of.get(id(ref))
        if h is None:
            raise Unsupported(f'relation to an operation that was never added through the API ({type(ref).__name__})')
        inv = {v: k for k, v in a.RT.items()}
        self.shared_links[id(link)] = self.shared_links.get(id(link), 0) + 1
        self.keep.append(link)
        return [h, inv[link.relation_type]]

    def op_cmd(self, c: int, op):
        a = progs.api()
        cls = type(op).__name__
        if cls not in progs.ALL_LEAF:
            raise Unsupported(f'operation class {cls}')
        qs = [int(q) for q in progs.qubits_of(op)]
        chan = a.QC_INV[op.qubit_channel] if hasattr(op, 'qubit_channel') else 'A'
        tag, reg = 0, 0
        if cls == 'DispersiveMeasure':
            tag = self.tag_no(op.acquisition_tag)
            strat = op.acquisition_strategy
            if type(strat).__name__ != 'RegistryAcquisitionStrategy':
                raise Unsupported(f'acquisition strategy {type(strat).__name__}')
            reg = self.circ_of_struct.get(id(strat.registry.reference_circuit))
            if reg is None:
                raise Unsupported('acquisition registry of a structure that is not a recorded circuit')
        ints = progs.ints_of(op)
        return ['op', c, cls, qs, chan, self.dur_spec(op), tag, reg, ints, self.rel_spec(op)]

    def circ_index(self, decl) -> int:
        c = self.circ_of_decl.get(id(decl))
        if c is None:
            c = self.circ_of_struct.get(id(decl.circuit_structure))
        if c is None:
            raise Unsupported('DeclarativeCircuit created outside the recording')
        return c

    def emit(self, cmd):
        self.prog.append(cmd)
        self.stats[cmd[0] if cmd[0] != 'ops' else 'list'] += 1


@contextlib.contextmanager
def recording(rec: Recorder):
    """Installs the wrappers for the duration of the block."""
    a = progs.api()
    DC = a.DeclarativeCircuit
    CC = a.CircuitCompositeOperation
    o_init, o_addop, o_addsub = DC.__init__, DC.add_operation, DC.add_sub_circuit
    o_apply, o_flatten, o_list = DC.apply_modifiers, DC.flatten, CC.decomposed_operations
    default_relation = o_init.__defaults__[1]

    def w_init(self, *args, **kw):
        o_init(self, *args, **kw)
        if rec.mute_new:
            return
        rel = kw.get('relation', args[1] if len(args) > 1 else default_relation)
        if rel is not default_relation:
            raise Unsupported('DeclarativeCircuit created with an explicit relation')
        idx = rec.n_circs
        rec.n_circs += 1
        rec.circ_of_decl[id(self)] = idx
        rec.circ_of_struct[id(self._structure)] = idx
        rec.keep += [self, self._structure]
        rec.emit(['new', rec.rep_spec(self._structure.repetition_strategy)])

    def w_addop(self, operation):
        c = rec.circ_index(self)
        if id(operation) in rec.handle_of:
            raise Unsupported('the same operation object added twice')
        rec.emit(rec.op_cmd(c, operation))
        rec.handle_of[id(operation)] = rec.n_handles
        rec.n_handles += 1
        rec.keep.append(operation)
        return o_addop(self, operation)

    def w_addsub(self, operation):
        c = rec.circ_index(self)
        b = rec.circ_of_struct.get(id(operation))
        if b is None:
            raise Unsupported('add_sub_circuit of a structure that is not a recorded circuit')
        rec.emit(['sub', c, b])
        ret = o_addsub(self, operation)
        rec.handle_of[id(ret)] = rec.n_handles
        rec.n_handles += 1
        rec.keep.append(ret)
        return ret

    def w_apply(self):
        c = rec.circ_index(self)
        rec.emit(['apply', c])
        rec.mute_new += 1
        try:
            ret = o_apply(self)
        finally:
            rec.mute_new -= 1
        rec.circ_of_decl[id(ret)] = c
        rec.circ_of_struct[id(ret._structure)] = c
        rec.keep += [ret, ret._structure]
        return ret

    def w_flatten(self):
        c = rec.circ_index(self)
        rec.emit(['flatten', c])
        rec.mute_new += 1
        rec.mute_list += 1
        try:
            ret = o_flatten(self)
        finally:
            rec.mute_new -= 1
            rec.mute_list -= 1
        rec.circ_of_decl[id(ret)] = c
        rec.circ_of_struct[id(ret._structure)] = c
        rec.keep += [ret, ret._structure]
        return ret

    def w_list(self):
        if rec.list_depth == 0 and not rec.mute_list:
            c = rec.circ_of_struct.get(id(self))
            if c is None:
                h = rec.handle_of.get(id(self))
                what = f'the nested copy with handle {h}' if h is not None else 'an unrecorded structure'
                raise Unsupported(f'listing of {what} (only circuits can be listed)')
            rec.emit([rec.listing, c])
        rec.list_depth += 1
        try:
            return o_list(self)
        finally:
            rec.list_depth -= 1

    DC.__init__, DC.add_operation, DC.add_sub_circuit = w_init, w_addop, w_addsub
    DC.apply_modifiers, DC.flatten, CC.decomposed_operations = w_apply, w_flatten, w_list
    try:
        yield rec
    finally:
        DC.__init__, DC.add_operation, DC.add_sub_circuit = o_init, o_addop, o_addsub
        DC.apply_modifiers, DC.flatten, CC.decomposed_operations = o_apply, o_flatten, o_list


last_recorder: Recorder | None = None


def default_listing() -> str:
    """'ops' when this tree's progs.py knows the pure listing command, else 'list'."""
    return 'ops' if 'ops' in progs.OBSERVERS else 'list'


def record(fn, *args, listing: str | None = None, **kw):
    """Runs `fn(*args, **kw)` under the recorder. Returns (program, result_circuit_index, real_result)."""
    global last_recorder
    listing = listing or default_listing()
    rec = Recorder(listing=listing)
    last_recorder = rec
    with contextlib.redirect_stderr(io.StringIO()), warnings.catch_warnings():
        warnings.simplefilter('ignore')
        with recording(rec):
            result = fn(*args, **kw)
    return rec.prog, rec.circ_index(result), result


def real_listing(circuit, rec: Recorder | None = None, with_acq: bool = True) -> str:
    """Canonical listing (progs.ImplRun.observe_list format) of a circuit built by the real constructor; acquisition
    tags are mapped through the recorder's tag alphabet. `with_acq=False` leaves the acquisition indices out ('-'):
    every index costs one more listing of the registry circuit."""
    rec = rec or last_recorder
    rows = []
    with contextlib.redirect_stderr(io.StringIO()), warnings.catch_warnings():
        warnings.simplefilter('ignore')
        for o in circuit.operations:
            row = progs.show_op(o, with_acq=with_acq).split(' ')
            if type(o).__name__ == 'DispersiveMeasure':
                row[6] = str(rec.tag_no(o.acquisition_tag))
            rows.append(' '.join(row))
        return ';'.join(rows) + f' # {progs.to_units(circuit.duration)}'


# ----------------------------------------------------------------------------- constructor inputs (shared with c10)

def lib():
    """Lazy import of the library constructors and description types."""
    import types
    with contextlib.redirect_stderr(io.StringIO()):
        from qce_circuit.library.repetition_code import circuit_constructors as cc
        from qce_circuit.library.repetition_code import circuit_components as comp
        from qce_circuit.library.repetition_code import repetition_code_connectivity as conn
        from qce_circuit.library.state_calibration import circuit_constructors as scc
        from qce_circuit.library.state_calibration import circuit_components as scomp
        from qce_circuit.language import InitialStateContainer, InitialStateEnum
        from qce_circuit.connectivity.intrf_channel_identifier import QubitIDObj, EdgeIDObj
    return types.SimpleNamespace(cc=cc, comp=comp, conn=conn, scc=scc, scomp=scomp, ISC=InitialStateContainer,
                                 ISE=InitialStateEnum, QubitIDObj=QubitIDObj, EdgeIDObj=EdgeIDObj)


LAYOUTS = ['Repetition9Code', 'Repetition9Round6Code', 'Repetition5Round4Code']


def layout_chain(layout_name: str) -> list:
    """Qubit names along the chain of a Surface-17 repetition layout (data, ancilla, data, …), from its parity groups."""
    L = lib()
    layout = getattr(L.conn, layout_name)()
    groups = list(layout.parity_group_x) + list(layout.parity_group_z)
    adj = {}
    for g in groups:
        a = g.ancilla_id.id
        for d in g.data_ids:
            adj.setdefault(a, []).append(d.id)
            adj.setdefault(d.id, []).append(a)
    ends = sorted(q for q, n in adj.items() if len(n) == 1)
    chain = [ends[0]]
    while True:
        nxt = [q for q in adj[chain[-1]] if q not in chain]
        if not nxt:
            break
        chain.append(nxt[0])
    return chain


def make_description(spec):
    """spec = ['chain', length, refocus] | ['layout', name, start, length, refocus] | None (constructor default)."""
    L = lib()
    if spec is None:
        return None
    if spec[0] == 'chain':
        return L.comp.RepetitionCodeDescription.from_chain(length=spec[1], qubit_refocusing=bool(spec[2]))
    if spec[0] == 'layout':
        _, name, start, length, refocus = spec
        chain = layout_chain(name)[start:start + length]
        return L.comp.RepetitionCodeDescription.from_connectivity(
            involved_qubit_ids=[L.QubitIDObj(q) for q in chain], connectivity=getattr(L.conn, name)(),
            qubit_refocusing=bool(refocus))
    if spec[0] == 'composite':
        # ['composite', base spec, [i, …]]: CompositeRepetitionCodeDescription over the base description with the gates between
        # qubit_ids[i] and qubit_ids[i+1] excluded (C10-m3: an excluded last-layer gate moves the ancilla's closing rotation)
        _, base_spec, excluded = spec
        base = make_description(base_spec)
        if base is None:
            raise ValueError(spec)
        qids = base.qubit_ids
        return L.comp.CompositeRepetitionCodeDescription(
            _base_description=base, _qubit_index_map={q: i for i, q in enumerate(qids)}, _connectivity=base.to_sequence(),
            _exclude_gate_edge_ids=[L.EdgeIDObj(qids[i], qids[i + 1]) for i in excluded])
    raise ValueError(spec)


def make_state(data: str, ancilla: str = ''):
    """'01+-ij' per data qubit (and per ancilla qubit)."""
    L = lib()
    m = {'0': L.ISE.ZERO, '1': L.ISE.ONE, '+': L.ISE.PLUS, '-': L.ISE.MINUS, 'i': L.ISE.PLUS_I, 'j': L.ISE.MINUS_I}
    return L.ISC.from_ordered_list([m[x] for x in data], [m[x] for x in ancilla] if ancilla else None)


def warm_up_composites(d) -> None:
    """Before a circuit is built from a plain description, the description serves as the base of composite descriptions — one per
    single excluded gate — and each composite's layers are read (what a script comparing "all gates" with "one gate left out" does).
    What the plain description says afterwards must not depend on it (seeded changes C10-m7 / C17-m7: the parks an exclusion makes
    necessary are appended in place to the list the base layer hands out).  Nothing the composites answer is judged here."""
    L = lib()
    try:
        if d is None or isinstance(d, L.comp.CompositeRepetitionCodeDescription):
            return
        qids = d.qubit_ids
        for i in range(len(qids) - 1):
            comp = L.comp.CompositeRepetitionCodeDescription(
                _base_description=d, _qubit_index_map={q: k for k, q in enumerate(qids)}, _connectivity=d.to_sequence(),
                _exclude_gate_edge_ids=[L.EdgeIDObj(qids[i], qids[i + 1])])
            _ = comp.gate_sequences
    except Exception:   # noqa — the warm-up is not what is judged
        pass


def build_case(case):
    """case = dict(kind=…, …) → (fn, kwargs) for `record`.
       kinds: full | simplified  (cycles, desc, data, ancilla) ; multi (rounds, desc, data, ancilla) ;
              calib (type, n)."""
    L = lib()
    k = case['kind']
    if k in ('full', 'simplified'):
        fn = L.cc.construct_repetition_code_circuit if k == 'full' else L.cc.construct_repetition_code_circuit_simplified
        kw = dict(qec_cycles=case['cycles'], initial_state=make_state(case.get('data', ''), case.get('ancilla', '')))
        d = make_description(case.get('desc'))
        if d is not None:
            warm_up_composites(d)
            kw['description'] = d
        return fn, kw
    if k == 'multi':
        return L.cc.construct_repetition_code_multi_round_circuit, dict(
            qec_cycles=list(case['rounds']), description=make_description(case['desc']),
            initial_state=make_state(case.get('data', ''), case.get('ancilla', '')))
    if k == 'calib':
        qids = [L.QubitIDObj(f'D{i}') for i in range(case['n'])]
        desc = L.scomp.CalibrationDescription(_qubit_ids=qids, _qubit_index_map={q: i for i, q in enumerate(qids)},
                                              _type=getattr(L.scomp.CalibrateType, case['type']))
        return L.scc.construct_calibration_circuit, dict(description=desc)
    raise ValueError(case)


def n_data(desc_spec, data_default=3):
    if desc_spec is None:
        return data_default
    if desc_spec[0] == 'chain':
        return (desc_spec[1] + 1) // 2
    if desc_spec[0] == 'composite':
        return n_data(desc_spec[1], data_default)
    return (desc_spec[3] + 1) // 2


def grid(thorough: bool = False) -> list:
    """Constructor inputs of the self-test."""
    cases = []
    dmax, cmax = (6, 6) if thorough else (5, 4)
    # default description from the initial state: distances 2..dmax, cycles 0..cmax, a few states
    for d in range(2, dmax + 1):
        states = ['0' * d, '1' * d, ('01' * d)[:d], ('+-ij01' * d)[:d]]
        for cyc in range(0, cmax + 1):
            for kind in ('full', 'simplified'):
                for st in (states if cyc in (0, 2) else states[:2]):
                    cases.append({'kind': kind, 'cycles': cyc, 'desc': None, 'data': st})
    # explicit chain descriptions, with and without refocusing, ancilla states
    for length in (1, 3, 5, 7) + ((9,) if thorough else ()):
        nd = (length + 1) // 2
        for cyc in range(0, cmax + 1):
            for refocus in (1, 0):
                for kind in ('full', 'simplified'):
                    cases.append({'kind': kind, 'cycles': cyc, 'desc': ['chain', length, refocus],
                                  'data': ('10' * nd)[:nd], 'ancilla': ('01' * nd)[:nd - 1] if cyc % 2 else ''})
    # contiguous sub-chains of the three Surface-17 layouts (start on a data qubit, odd length)
    for name in LAYOUTS:
        n = len(layout_chain(name))
        for length in (3, 5, 7) + ((9, n) if thorough else ()):
            for start in range(0, n - length + 1, 2):
                for cyc in ((0, 1, 2, 3, 4, 5) if thorough else (0, 1, 2, 4)):
                    kinds = ('full', 'simplified')
                    for kind in kinds:
                        nd = (length + 1) // 2
                        cases.append({'kind': kind, 'cycles': cyc, 'desc': ['layout', name, start, length, 1],
                                      'data': ('01' * nd)[:nd]})
    # calibration circuits
    for t in ('QUBIT', 'QUTRIT', 'QUQUAD'):
        for n in (1, 2, 3, 5):
            cases.append({'kind': 'calib', 'type': t, 'n': n})
    # multi-round circuits
    for rounds in ([0], [1], [0, 1, 3], [2, 2], [4, 1], [3, 5] if thorough else [3]):
        for desc in (['chain', 3, 1], ['chain', 5, 1], ['layout', 'Repetition9Code', 0, 5, 1]):
            nd = n_data(desc)
            cases.append({'kind': 'multi', 'rounds': rounds, 'desc': desc, 'data': ('10' * nd)[:nd]})
    return cases


def check_case(case, listing=None):
    """Records one constructor call, replays it through the API. Returns dict(prog, idx, real, recorded, error)."""
    out = {'case': case}
    try:
        fn, kw = build_case(case)
    except Exception as e:  # noqa  (the description itself cannot be built: not a constructor input)
        out['error'] = f'description:{type(e).__name__}:{e}'
        return out
    try:
        prog, idx, real = record(fn, listing=listing, **kw)
    except Unsupported as e:
        out['error'] = f'unsupported:{e}'
        return out
    except Exception as e:  # noqa
        # the constructor itself failed: it must fail in the same way without the recorder
        try:
            with contextlib.redirect_stderr(io.StringIO()), warnings.catch_warnings():
                warnings.simplefilter('ignore')
                fn(**kw)
            same = False
        except Exception as e2:  # noqa
            same = type(e2) is type(e)
        out['error'] = f'{"constructor-raises" if same else "RECORDER-BROKE-CONSTRUCTOR"}:{type(e).__name__}:{str(e)[:100]}'
        return out
    rec = last_recorder
    out['stats'] = dict(rec.stats)
    out['shared_links'] = sum(1 for v in rec.shared_links.values() if v > 1)
    out['real'] = real_listing(real, rec)
    full = prog + [['list', idx]]
    out['prog'] = full
    out['idx'] = idx
    out['recorded'] = progs.run_impl(full)[-1]
    return out


def _worker(args):
    case, listing = args
    return check_case(case, listing)


def selftest(thorough=False, listing=None, jobs=None) -> int:
    listing = listing or default_listing()
    import multiprocessing as mp
    import os
    from . import common, stream
    t0 = time.time()
    cases = grid(thorough)
    progs.api()
    lib()
    jobs = jobs or min(16, os.cpu_count() or 1)
    with mp.get_context('fork').Pool(jobs) as pool:
        res = pool.map(_worker, [(c, listing) for c in cases], chunksize=4)
    t1 = time.time()
    ok = [r for r in res if 'prog' in r]
    if not common.driver_available():
        common.lake_build(['qcodriver'])
    ambient = progs.ambient_durations()
    model = stream.run_model_many([r['prog'] for r in ok], ambient)
    t2 = time.time()
    n_rec = n_mod = 0
    bad = []
    for r, m in zip(ok, model):
        r['model'] = m[-1] if m else '<none>'
        e1 = r['recorded'] == r['real']
        e2 = r['model'] == r['real']
        n_rec += e1
        n_mod += e2
        if not (e1 and e2):
            bad.append(r)
    errs = {}
    for r in res:
        if 'error' in r:
            errs.setdefault(r['error'], []).append(r['case'])
    kinds = {}
    for r in ok:
        kinds[r['case']['kind']] = kinds.get(r['case']['kind'], 0) + 1
    print(f'cases={len(cases)} recorded={len(ok)} by-kind={kinds} listing={listing}')
    print(f'recorded==real {n_rec}/{len(ok)}   model==real {n_mod}/{len(ok)}')
    print(f'program sizes: max {max(len(r["prog"]) for r in ok)} commands, '
          f'max listing {max(r["real"].count(";") + 1 for r in ok)} operations; '
          f'programs with a link object shared by several operations: {sum(1 for r in ok if r["shared_links"])}')
    for e, cs in errs.items():
        print(f'NOT RECORDED ({len(cs)}): {e}   e.g. {cs[0]}')
    for r in bad[:5]:
        print('MISMATCH', r['case'])
        for name in ('recorded', 'model'):
            if r[name] != r['real']:
                x, y = r['real'].split(';'), r[name].split(';')
                k = next((i for i in range(min(len(x), len(y))) if x[i] != y[i]), min(len(x), len(y)))
                print(f'  {name}: first difference at entry {k}: real={x[k:k + 1]} {name}={y[k:k + 1]} '
                      f'(lengths {len(x)}/{len(y)})')
    print(f'wall: record+replay {t1 - t0:.1f}s, model {t2 - t1:.1f}s')
    unexpected = [e for e in errs if not e.startswith(('description:', 'constructor-raises:'))]
    return 0 if (not bad and not unexpected) else 1


if __name__ == '__main__':
    th = '--thorough' in sys.argv
    lst = sys.argv[sys.argv.index('--listing') + 1] if '--listing' in sys.argv else None
    sys.exit(selftest(thorough=th, listing=lst))
