import QcoVerif.Lemmas.TreeBuild
/-
  The depth of a tree-shaped heap is bounded by the number of its objects, so the fuel the driver uses
  (`World.depthFuel = ops.size + 2`) always suffices: the nested unrolling theorem needs NO fuel hypothesis
  (`applyModifiers_tree_any`, `applyModifiers_ones_any`).  Core Lean only.
-/
namespace Qco

/-! ### the height of the tree below an object -/

def maxList : List Nat → Nat
  | [] => 0
  | x :: xs => max x (maxList xs)

theorem le_maxList {l : List Nat} {x : Nat} (h : x ∈ l) : x ≤ maxList l := by
  induction l with
  | nil => cases h
  | cons y ys ih =>
    simp only [maxList]
    rcases List.mem_cons.mp h with rfl | h
    · omega
    · have := ih h; omega

theorem maxList_le {l : List Nat} {b : Nat} (h : ∀ x ∈ l, x ≤ b) : maxList l ≤ b := by
  induction l with
  | nil => simp [maxList]
  | cons y ys ih =>
    simp only [maxList]
    have h1 := h y List.mem_cons_self
    have h2 := ih (fun x hx => h x (List.mem_cons_of_mem _ hx))
    omega

/-- number of levels of the tree below `o` (fuel-bounded). -/
def World.height (w : World) : Nat → Nat → Nat
  | 0, _ => 0
  | f+1, o => (if (w.op o).isComp then maxList ((w.kids o).map (w.height f)) else 0) + 1

theorem height_le (w : World) : ∀ (f o : Nat), w.height f o ≤ f := by
  intro f
  induction f with
  | zero => intro o; exact Nat.le_refl _
  | succ f ih =>
    intro o
    simp only [World.height]
    split
    · have : maxList ((w.kids o).map (w.height f)) ≤ f := by
        apply maxList_le
        intro x hx
        obtain ⟨n, _, rfl⟩ := List.mem_map.mp hx
        exact ih n
      omega
    · omega

theorem maxList_le_length_flatMap {α} (K : List Nat) (h : Nat → Nat) (b : Nat → List α)
    (hk : ∀ k ∈ K, h k ≤ (b k).length) : maxList (K.map h) ≤ (K.flatMap b).length := by
  induction K with
  | nil => simp [maxList]
  | cons k ks ih =>
    simp only [List.map_cons, maxList, List.flatMap_cons, List.length_append]
    have h1 := hk k List.mem_cons_self
    have h2 := ih (fun x hx => hk x (List.mem_cons_of_mem _ hx))
    omega

/-- a tree has at least as many objects as levels. -/
theorem height_le_length (w : World) : ∀ (f o : Nat), w.height f o ≤ (w.below f o).length := by
  intro f
  induction f with
  | zero => intro o; exact Nat.le_refl _
  | succ f ih =>
    intro o
    simp only [World.height, World.below]
    split
    · have := maxList_le_length_flatMap (w.kids o) (w.height f) (w.below f) (fun k _ => ih k)
      simp only [List.length_cons]
      omega
    · simp

theorem nodup_flatMap {α} (K : List Nat) (b : Nat → List α) (hK : K.Nodup) (h1 : ∀ k ∈ K, (b k).Nodup)
    (h2 : ∀ x ∈ K, ∀ y ∈ K, x ≠ y → ∀ j, j ∈ b x → j ∉ b y) : (K.flatMap b).Nodup := by
  induction K with
  | nil => simp
  | cons k ks ih =>
    rw [List.nodup_cons] at hK
    simp only [List.flatMap_cons]
    rw [List.nodup_append]
    refine ⟨h1 k List.mem_cons_self, ?_, ?_⟩
    · exact ih hK.2 (fun x hx => h1 x (List.mem_cons_of_mem _ hx))
        (fun x hx y hy => h2 x (List.mem_cons_of_mem _ hx) y (List.mem_cons_of_mem _ hy))
    · intro a ha c hc hac
      subst hac
      obtain ⟨y, hy, hay⟩ := List.mem_flatMap.mp hc
      have hky : k ≠ y := fun e => hK.1 (e ▸ hy)
      exact h2 k List.mem_cons_self y (List.mem_cons_of_mem _ hy) hky a ha hay

/-- the objects below a tree root are pairwise distinct. -/
theorem below_nodup (w : World) : ∀ (f o : Nat), TreeBelow w f o → (w.below f o).Nodup := by
  intro f
  induction f with
  | zero => intro o h; exact h.elim
  | succ f ih =>
    intro o h
    by_cases hc : (w.op o).isComp = true
    · rw [below_comp w f o hc, List.nodup_cons]
      refine ⟨?_, ?_⟩
      · intro hmem
        obtain ⟨n, hn, hj⟩ := List.mem_flatMap.mp hmem
        exact h.not_below_kid hc hn hj
      · exact nodup_flatMap _ _ (h.kids_nodup hc) (fun k hk => ih k (h.kid hc hk))
          (fun x hx y hy hxy => h.disj hc hx hy hxy)
    · have hl : (w.op o).isComp = false := by simpa using hc
      rw [below_leaf w f o hl]
      simp

/-- **pigeonhole**: a tree has at most as many levels as the heap has objects. -/
theorem height_le_size (w : World) (f o : Nat) (h : TreeBelow w f o) : w.height f o ≤ w.ops.size := by
  have h1 := height_le_length w f o
  have h2 : (w.below f o).length ≤ (List.range w.ops.size).length := by
    apply List.Nodup.length_le_of_subset (below_nodup w f o h)
    intro j hj
    exact List.mem_range.mpr (below_lt w f o h j hj)
  rw [List.length_range] at h2
  omega

theorem TreeBelow.mono_le {w : World} {f f' o : Nat} (h : TreeBelow w f o) (hle : f ≤ f') :
    TreeBelow w f' o ∧ w.below f' o = w.below f o ∧ w.expand f' o = w.expand f o := by
  have := h.mono (f' - f)
  rw [show f + (f' - f) = f' by omega] at this
  exact this

/-- the depth bound of a tree can be trimmed to its height. -/
theorem tree_trim (w : World) : ∀ (f o : Nat), TreeBelow w f o → TreeBelow w (w.height f o) o := by
  intro f
  induction f with
  | zero => intro o h; exact h.elim
  | succ f ih =>
    intro o h
    by_cases hc : (w.op o).isComp = true
    · simp only [World.height, hc, if_true]
      have hkid : ∀ k ∈ w.kids o, TreeBelow w (maxList ((w.kids o).map (w.height f))) k ∧
          w.below (maxList ((w.kids o).map (w.height f))) k = w.below f k := by
        intro k hk
        have t0 := ih k (h.kid hc hk)
        have hle : w.height f k ≤ maxList ((w.kids o).map (w.height f)) :=
          le_maxList (List.mem_map.mpr ⟨k, hk, rfl⟩)
        obtain ⟨t1, b1, _⟩ := t0.mono_le hle
        obtain ⟨_, b2, _⟩ := t0.mono_le (height_le w f k)
        exact ⟨t1, b1.trans b2.symm⟩
      refine TreeBelow.comp_intro h.lt hc (h.kids_nodup hc) (fun k hk => (hkid k hk).1) ?_ ?_
      · intro k hk
        rw [(hkid k hk).2]
        exact h.not_below_kid hc hk
      · intro a ha b hb hab
        rw [(hkid a ha).2, (hkid b hb).2]
        exact h.disj hc ha hb hab
    · have hl : (w.op o).isComp = false := by simpa using hc
      simp only [World.height, hl, Bool.false_eq_true, if_false]
      exact TreeBelow.leaf_intro h.lt hl (h.stable hl)

/-- every tree has a depth bound that is at most the number of objects of the heap (and at most the given one). -/
theorem tree_depth_le_size (w : World) (f o : Nat) (h : TreeBelow w f o) :
    ∃ f0, f0 ≤ f ∧ f0 ≤ w.ops.size ∧ TreeBelow w f0 o :=
  ⟨w.height f o, height_le w f o, height_le_size w f o h, tree_trim w f o h⟩

theorem allOnes_succ (w : World) : ∀ (f o : Nat), TreeBelow w f o → AllOnes w f o → AllOnes w (f + 1) o := by
  intro f
  induction f with
  | zero => intro o h _; exact h.elim
  | succ f ih =>
    intro o h ha hc
    obtain ⟨h1, h2⟩ := ha hc
    exact ⟨h1, fun n hn => ih n (h.kid hc hn) (h2 n hn)⟩

theorem allOnes_mono_le (w : World) (f f' o : Nat) (h : TreeBelow w f o) (ha : AllOnes w f o) (hle : f ≤ f') :
    AllOnes w f' o := by
  obtain ⟨d, rfl⟩ : ∃ d, f' = f + d := ⟨f' - f, by omega⟩
  induction d with
  | zero => exact ha
  | succ d ih => exact allOnes_succ w (f + d) o (h.mono d).1 (ih (by omega))

/-- `AllOnes` at a smaller bound looks at fewer levels. -/
theorem allOnes_anti (w : World) : ∀ (a b o : Nat), a ≤ b → AllOnes w b o → AllOnes w a o := by
  intro a
  induction a with
  | zero => intro b o _ _; trivial
  | succ a ih =>
    intro b o hab hb hc
    cases b with
    | zero => omega
    | succ b =>
      obtain ⟨k1, k2⟩ := hb hc
      exact ⟨k1, fun n hn => ih b n (by omega) (k2 n hn)⟩

/-- with all counts 1 the expansion is the plain operation listing at the driver's fuel, whatever the depth bound. -/
theorem expand_ones_leafListing_driver (w : World) (f c : Nat) (h : TreeBelow w f c) (ha : AllOnes w f c)
    (hc : (w.op c).isComp = true) :
    (w.expand f c).Perm ((w.leafListing w.depthFuel c).map (fun n => (w.op n).sig)) := by
  obtain ⟨f0, h1, h2, t0⟩ := tree_depth_le_size w f c h
  obtain ⟨_, _, x0⟩ := t0.mono_le h1
  rw [x0]
  exact expand_ones_leafListing w f0 c w.depthFuel (by unfold World.depthFuel; omega) t0
    (allOnes_anti w f0 f c h1 ha) hc

/-! ### the main theorems without fuel hypothesis on the copies -/

/-- `applyModifiers_tree` for ANY depth bound `f ≤ g`: the fuel of the copies (`depthFuel`) always suffices. -/
theorem applyModifiers_tree_any (w : World) (f c g : Nat) (h : TreeBelow w f c) (hg : f ≤ g) :
    UnrollSpec w f c (w.applyModifiers g c) := by
  obtain ⟨f0, h1, h2, t0⟩ := tree_depth_le_size w f c h
  have s := applyModifiers_tree f0 w c g t0 (by omega) (by unfold World.depthFuel; omega)
  obtain ⟨_, b0, x0⟩ := t0.mono_le h1
  obtain ⟨t1, b1, x1⟩ := s.tree.mono_le h1
  refine ⟨s.size, s.rreg, ?_, t1, ?_, ?_, allOnes_mono_le _ f0 f c s.tree s.ones h1, s.kind⟩
  · intro j hj hout
    rw [b0] at hout
    exact s.frame j hj hout
  · intro j hj
    rw [b1] at hj
    rw [b0]
    exact s.sub j hj
  · rw [x1, x0]; exact s.expand

/-- the driver's call `applyModifiers depthFuel`: no fuel hypothesis at all. -/
theorem applyModifiers_tree_driver (w : World) (f c : Nat) (h : TreeBelow w f c) :
    UnrollSpec w f c (w.applyModifiers w.depthFuel c) := by
  obtain ⟨f0, h1, h2, t0⟩ := tree_depth_le_size w f c h
  have s := applyModifiers_tree f0 w c w.depthFuel t0 (by unfold World.depthFuel; omega)
    (by unfold World.depthFuel; omega)
  obtain ⟨_, b0, x0⟩ := t0.mono_le h1
  obtain ⟨t1, b1, x1⟩ := s.tree.mono_le h1
  refine ⟨s.size, s.rreg, ?_, t1, ?_, ?_, allOnes_mono_le _ f0 f c s.tree s.ones h1, s.kind⟩
  · intro j hj hout
    rw [b0] at hout
    exact s.frame j hj hout
  · intro j hj
    rw [b1] at hj
    rw [b0]
    exact s.sub j hj
  · rw [x1, x0]; exact s.expand

/-- `applyModifiers_ones` with recursion fuel `g ≥` the height of the tree (e.g. `g ≥ f`, or `g = depthFuel`). -/
theorem applyModifiers_ones_any (w : World) (f c g : Nat) (h : TreeBelow w f c) (ha : AllOnes w f c)
    (hg : f ≤ g ∨ w.ops.size ≤ g) : NoWrite w (w.applyModifiers g c) := by
  obtain ⟨f0, h1, h2, t0⟩ := tree_depth_le_size w f c h
  have a0 : AllOnes w f0 c := allOnes_anti w f0 f c h1 ha
  exact applyModifiers_ones f0 w c g t0 a0 (by omega) (by unfold World.depthFuel; omega)

/-! ### counting occurrences: the counts multiply -/

theorem count_repeatList (s : Sig) (n : Nat) (l : List Sig) : (repeatList n l).count s = n * l.count s := by
  induction n with
  | zero => simp
  | succ n ih => rw [repeatList_succ, List.count_append, ih, Nat.succ_mul, Nat.add_comm]

/-- **counts multiply**: a signature occurs in the expansion of a composite `max 1 count` times as often as in the
    expansions of its nodes together. -/
theorem expand_count (w : World) (f c : Nat) (s : Sig) (hc : (w.op c).isComp = true) :
    (w.expand (f + 1) c).count s =
      max 1 (w.repCount (w.op c).rep) * ((w.kids c).map (fun n => (w.expand f n).count s)).sum := by
  rw [expand_comp w f c hc, count_repeatList]
  unfold World.content
  rw [List.count_flatMap]
  rfl

end Qco
