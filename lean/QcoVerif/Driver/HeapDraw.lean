import QcoVerif.Driver.Heap
/-
  Extension of the `heap` session protocol (Draw). `step` returns `none` for commands it does not know.
-/
namespace Qco.Driver.HeapDraw

open Qco Qco.Driver

def step (_s : Sess) (_toks : List String) : Option (Sess × String) := none

end Qco.Driver.HeapDraw
