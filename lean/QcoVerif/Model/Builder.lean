import QcoVerif.Model.Timing
/-
  Builder: channels, implicit linking (`add_to_graph`), copy with a value-keyed lookup, the mutating
  listing (`decomposed_operations`), `extend/repeat/apply_modifiers`, `flatten`, acquisition scan.
  A port of the validated Python prototype (DESIGN.md §1).
-/
namespace Qco

/-- order preserving de-duplication (`unique_in_order`). -/
def uniqueInOrder {α} [BEq α] : List α → List α
  | [] => []
  | x :: xs => x :: (uniqueInOrder xs).filter (fun y => !(y == x))

/-- exact-equality de-duplication of channel identifiers (set membership is by hash of
    (qubit, channel), so `ALL` does not absorb the others). -/
def dedupChans (cs : List ChId) : List ChId := uniqueInOrder cs

/-- `channel_identifiers` of any object (composite = union of its content, listing order). -/
def World.chans (w : World) : Nat → Nat → List ChId
  | 0, _ => []
  | f+1, o =>
    let op := w.op o
    if op.isComp then
      dedupChans ((listing op.graph).flatMap (fun n => w.chans f n))
    else op.leafChans

def World.depthFuel (w : World) : Nat := w.ops.size + 2

def World.chansOf (w : World) (o : Nat) : List ChId := w.chans w.depthFuel o

/-- `get_leaf_at_any`: last node in listing order sharing a channel with `chs`. -/
def World.leafAtAny (w : World) (g : List Entry) (chs : List ChId) : Option Nat :=
  (listing g).reverse.find? (fun n => chs.any (fun a => (w.chansOf n).any (fun b => a.matches b)))

/-- `CircuitGraphBranch.add_to_graph` on an explicit graph value. -/
def World.addToGraph (w : World) (g : List Entry) (o : Nat) : World × List Entry :=
  let leaf := w.leafAtAny g (w.chansOf o)
  let relink (w : World) : World × List Entry :=
    match leaf with
    | none =>
      let (w, l) := w.newLink {}
      (w.setLink o l, attach g none o)
    | some lf =>
      let (w, l) := w.newLink { refs := [lf] }
      (w.setLink o l, attach g (some lf) o)
  if !w.hasRel o then
    match leaf with
    | none => (w, attach g none o)
    | some _ => relink w
  else
    match w.refOf (w.op o).link with
    | some (some r) =>
      if inGraph g r then (w, attach g (some r) o)
      else relink { w with warnings := w.warnings + 1 }
    | _ => relink { w with warnings := w.warnings + 1, undef := true }   -- undefined reference (cyclic world): RecursionError in the code

/-- `CircuitCompositeOperation.add`. -/
def World.add (w : World) (c o : Nat) : World :=
  let (w, g) := w.addToGraph (w.op c).graph o
  w.setGraph c g

/-! ### value equality of heap objects (keys of `relation_transfer_lookup`) -/

inductive EqKey
  | ident (o : Nat)
  | comp (link : Nat) (rep : Rep)
  | val (cls : Cls) (qs : List Int) (chan : Chan) (dur : Dur) (link : Nat) (ints : List (Option Int))
  deriving DecidableEq, Repr

def World.eqKey (w : World) (o : Nat) : EqKey :=
  let op := w.op o
  if w.identKeys then .ident o else
  match op.cls with
  | .comp => .comp op.link op.rep
  | .barrier | .cshift | .measure => .ident o
  | c => .val c op.qs op.chan op.dur op.link op.ints

abbrev Lookup := List (EqKey × Nat)

def Lookup.get? (lk : Lookup) (k : EqKey) : Option Nat := (lk.find? (fun p => p.1 == k)).map (·.2)

/-- Python `dict.__setitem__`: first key object kept, value overwritten. -/
def Lookup.set (lk : Lookup) (k : EqKey) (v : Nat) : Lookup :=
  if lk.any (fun p => p.1 == k) then lk.map (fun p => if p.1 == k then (p.1, v) else p)
  else lk ++ [(k, v)]

/-- `RelationLink.copy` / `MultiRelationLink.copy`. -/
def World.copyLink (w : World) (l : Nat) (lk : Lookup) : World × Nat :=
  let L := w.lnk l
  if !L.multi then
    let ref : List Nat := match L.refs.head? with
      | none => []
      | some r => match lk.get? (w.eqKey r) with
        | none => []
        | some r' => [r']
    w.newLink { refs := ref, rel := L.rel }
  else
    let refs := L.refs.filterMap (fun r => lk.get? (w.eqKey r))
    let missing := (L.refs.filter (fun r => (lk.get? (w.eqKey r)).isNone)).length
    ({ w with warnings := w.warnings + missing }).newLink { multi := true, refs := refs, rel := L.rel }

/-- Which classes transfer their relation link on `copy()` — all of them since the R4 repair; kept as a
    per-class table so that `copy_class_faithful` (C05) states it class by class. -/
def Cls.copyKeepsLink : Cls → Bool
  | _ => true

/-- fields of the copy of a leaf operation (link and registry are filled in by `copyLeaf`). -/
def Op.copyFields (op : Op) : Op :=
  match op.cls with
  -- classes whose copy passes qubit_channel and duration_strategy on
  | .wait | .vacant | .empty | .twovacant =>
    { cls := op.cls, qs := op.qs, chan := op.chan, dur := op.dur }
  | .single | .two =>
    { cls := op.cls, qs := op.qs, dur := op.dur }
  | .measure =>
    { cls := op.cls, qs := op.qs, dur := Cls.defaultDur .measure, tag := op.tag, reg := op.reg }
  | .detector | .observable | .cshift =>
    { cls := op.cls, qs := op.qs, dur := Cls.defaultDur op.cls, ints := op.ints }
  | c =>
    { cls := c, qs := op.qs, dur := Cls.defaultDur c }

def World.copyLeaf (w : World) (o : Nat) (lk : Lookup) : World × Nat :=
  let op := w.op o
  let base := op.copyFields
  let (w, l) := if op.cls.copyKeepsLink then w.copyLink op.link lk else w.newLink {}
  let reg := if op.cls == .measure then (lk.get? (w.eqKey op.reg)).getD op.reg else base.reg
  w.newOp { base with link := l, reg := reg }

/-- `copy` of any object. `lk` is threaded (the Python dict is shared and mutated). -/
def World.copyObj (w : World) : Nat → Nat → Lookup → World × Nat × Lookup
  | 0, o, lk => (w, o, lk)
  | f+1, o, lk =>
    let op := w.op o
    if !op.isComp then
      let (w, n) := w.copyLeaf o lk
      (w, n, lk)
    else
      let (w, l) := w.copyLink op.link lk
      let (w, res) := w.newOp { cls := .comp, link := l, rep := op.rep }
      let step := fun (acc : World × Lookup) (n : Nat) =>
        let (w, lk) := acc
        let key := w.eqKey n
        let (w, cp, lk) := w.copyObj f n lk
        let w := if lk.any (fun p => p.1 == key) then { w with collisions := w.collisions + 1 } else w
        let lk := lk.set key cp
        (w.add res cp, lk)
      let (w, lk) := (listing op.graph).foldl step (w, lk)
      (w, res, lk)

/-- `copy(relation_transfer_lookup=None)`. -/
def World.copy (w : World) (o : Nat) : World × Nat :=
  let (w, n, _) := w.copyObj w.depthFuel o []
  (w, n)

/-- `DeclarativeCircuit.add_sub_circuit`. -/
def World.addSub (w : World) (c sub : Nat) : World × Nat :=
  let (w, cp, _) := w.copyObj w.depthFuel sub [(w.eqKey sub, c)]
  (w.add c cp, cp)

/-- `decomposed_operations` — the listing, which also hands the enclosing link to relation-less nodes. -/
def World.decomposed (w : World) : Nat → Nat → World × List Nat
  | 0, _ => (w, [])
  | f+1, c =>
    let cl := (w.op c).link
    (listing (w.op c).graph).foldl (fun (acc : World × List Nat) n =>
      let (w, out) := acc
      let w := if !w.hasRel n then w.setLink n cl else w
      if (w.op n).isComp then
        let (w, sub) := w.decomposed f n
        (w, out ++ sub)
      else (w, out ++ [n])) (w, [])

def World.operations (w : World) (c : Nat) : World × List Nat := w.decomposed w.depthFuel c

/-- `extend(other)`. -/
def World.extend (w : World) (c other : Nat) : World :=
  let lv := leaves (w.op c).graph
  let (w, rel) := if lv.isEmpty then w.newLink {} else w.newLink { multi := true, refs := lv }
  (listing (w.op other).graph).foldl (fun w n =>
    let w := if !w.hasRel n then w.setLink n rel else w
    w.add c n) w

/-- `apply_modifiers_to_self` (repeat, reset the count, recurse into the nodes). -/
def World.applyModifiers (w : World) : Nat → Nat → World
  | 0, _ => w
  | f+1, c =>
    if !(w.op c).isComp then w else
    let times := w.repCount (w.op c).rep
    let (w, orig) := w.copy c
    let w := (List.range (times - 1)).foldl (fun w _ =>
      let (w, cp) := w.copy orig
      w.extend c cp) w
    let w := w.setOp c { w.op c with rep := .fixed 1 }
    (listing (w.op c).graph).foldl (fun w n => w.applyModifiers f n) w

/-- `apply_flatten_to_self`: rebuild the graph from the listing (the old graph stays in place while
    the new one is filled, as in the code). -/
def World.flatten (w : World) (c : Nat) : World :=
  let (w, ops) := w.operations c
  let (w, g) := ops.foldl (fun (acc : World × List Entry) o =>
    let (w, g) := acc
    w.addToGraph g o) (w, [])
  w.setGraph c g

/-- `AcquisitionRegistry.get_registry_at`: two-counter scan over a listing of measurement
    descriptors `(id, qubit)`. -/
def acqScan (ms : List (Nat × Int)) (m : Nat) (q : Int) : Int × Int :=
  let rec go : List (Nat × Int) → Int → Int → Int × Int
    | [], _, _ => (-1, -1)
    | (o, oq) :: rest, ql, cl =>
      if o == m then (ql, cl)
      else go rest (if oq == q then ql + 1 else ql) (cl + 1)
  go ms 0 0

/-- acquisition indices (qubit level, circuit level) of measurement `m`. -/
def World.acq (w : World) (m : Nat) : World × (Int × Int) :=
  let op := w.op m
  let (w, ops) := w.operations op.reg
  let ms := (ops.filter (fun o => (w.op o).cls == .measure)).map (fun o => (o, (w.op o).qs.headD 0))
  (w, acqScan ms m (op.qs.headD 0))

/-- a fresh composite (`DeclarativeCircuit()` shares link `0`). -/
def World.newCircuit (w : World) (rep : Rep) : World × Nat :=
  w.newOp { cls := .comp, link := 0, rep := rep }

/-- `DeclarativeCircuit(relation=RelationLink(ref, rel), repetition_strategy=rep)`: a composite scheduled relative to an
    operation that exists already (typically one of the circuit it is going to be added to). -/
def World.newCircuitRel (w : World) (rep : Rep) (ref : Nat) (rel : Rel) : World × Nat :=
  let (w, l) := w.newLink { refs := [ref], rel := rel }
  w.newOp { cls := .comp, link := l, rep := rep }

end Qco
