import QcoVerif.Model.Builder
namespace Qco.C07
end Qco.C07
