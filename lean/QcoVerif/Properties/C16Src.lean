import QcoVerif.Properties.C16
import QcoVerif.Lemmas.ConnSrc
import QcoVerif.Lemmas.FreqSrc
import QcoVerif.Lemmas.ParkSrc
/-
  C16 — tie to the SOURCE TEXT (DESIGN.md §2.3b).  Kept in a file of its own that nothing imports.
-/
namespace Qco.C16
open Qco Qco.Py Qco.Gen.PySrc Qco.ConnSrc

/-- **`get_mutually_allowed`: the source text accepts a step iff every operation of the step is among the operations allowed by
    EVERY operation of the step** (all ordered pairs, the operation itself included) — the shape of the model's
    `Conn.mutuallyAllowed = ops.all (fun t => ops.all (fun s => okPair t s))`; `allowed t` stands for what
    `construct_operation_constraints(t).get_allowed_operations()` answers (operations compare by value: identifiers). -/
theorem mutually_allowed_matches_source (allowed : Nat → List Nat) (ops : List Nat) (conn : Val) (hc : conn = .obj "Layer" 0 []) :
    callFn (connEnv allowed) Gen_get_mutually_allowed [nats ops, conn] =
      .bool (ops.all (fun t => ops.all (fun s => decide (s ∈ allowed t)))) :=
  ConnSrc.mutually_allowed_matches_source allowed ops conn hc

theorem mutually_allowed_is_static : Gen_get_mutually_allowed.decorators = ["staticmethod"] := by decide

/-! ### frequency ordering and the moving side of a gate, as written

`is_higher_than` calls `self.is_equal_to(other)`, `is_lower_than` calls both, `on_moving_side` calls `is_higher_than`, the two
selectors call `on_moving_side`: every such call RUNS the translated source of the callee (`FreqSrc.env1/env2/connEnv/connEnv2`), so
the chain from the selectors down to the enum comparison is source text all the way.  The edge methods `contains`,
`get_connected_qubit_id` are answered by the model's `Edge.has`, `Edge.other` (their own source ties: C19). -/

theorem freq_is_equal_to_matches_source (a b : Conn.Freq) :
    callFn {} Freq_is_equal_to [FreqSrc.freqObj a, FreqSrc.freqObj b] = .bool (a == b) :=
  FreqSrc.is_equal_to_matches_source a b

theorem freq_is_higher_than_matches_source (a b : Conn.Freq) :
    callFn FreqSrc.env1 Freq_is_higher_than [FreqSrc.freqObj a, FreqSrc.freqObj b] = .bool (a.isHigher b) :=
  FreqSrc.is_higher_than_matches_source a b

theorem freq_is_lower_than_matches_source (a b : Conn.Freq) :
    callFn FreqSrc.env2 Freq_is_lower_than [FreqSrc.freqObj a, FreqSrc.freqObj b] = .bool (a.isLower b) :=
  FreqSrc.is_lower_than_matches_source a b

/-- **`on_moving_side` as written = the model's `onMovingSide`**, for every qubit, every edge (either orientation, on the device
    or not) and every frequency table `freqOf`. -/
theorem on_moving_side_matches_source (q : Conn.Qubit) (e : Conn.Edge) (conn : Val) :
    callFn FreqSrc.connEnv Conn_on_moving_side [.int q, FreqSrc.edgeVal e, conn] = .bool (Conn.onMovingSide q e) :=
  FreqSrc.on_moving_side_matches_source q e conn

theorem get_higher_frequency_matches_source (e : Conn.Edge) (conn : Val) :
    callFn FreqSrc.connEnv2 Conn_get_higher_frequency_qubit_id [FreqSrc.edgeVal e, conn] =
      .int (if Conn.onMovingSide e.1 e then e.1 else e.other e.1) :=
  FreqSrc.get_higher_matches_source e conn

theorem get_lower_frequency_matches_source (e : Conn.Edge) (conn : Val) :
    callFn FreqSrc.connEnv2 Conn_get_lower_frequency_qubit_id [FreqSrc.edgeVal e, conn] =
      .int (if !Conn.onMovingSide e.1 e then e.1 else e.other e.1) :=
  FreqSrc.get_lower_matches_source e conn

/-- **`get_requires_parking` as written = the model's `requiresParking`**, for every qubit and EVERY list of edges (any length, either
    orientation, on the device or not): the two `np.any` guards, the nested loops pairing every neighbour with every edge it is part of,
    the `zip` of the three lists and the final `any` (Lemmas/ParkSrc.lean).  `get_neighbors` (module function on an edge, method on the
    layer) is answered by the model's `edgeNeighbors` / `neighbors`; `on_moving_side` and `is_higher_than` RUN their translated source. -/
theorem requires_parking_matches_source (q : Nat) (es : List (Nat × Nat)) (cls : String) (i : Nat) (fs : List (String × Val)) :
    callFn ParkSrc.parkEnv Conn_get_requires_parking [.int q, .list (es.map FreqSrc.edgeVal), .obj cls i fs] =
      .bool (Conn.requiresParking q es) :=
  ParkSrc.requires_parking_matches_source_obj q es cls i fs

/-- the ordering the source implements is a strict total order on the three groups (what "lower-frequency member" needs). -/
theorem freq_order_strict_total (a b : Conn.Freq) :
    (a.isHigher b = true ∨ a.isLower b = true ∨ a = b) ∧ ¬ (a.isHigher b = true ∧ a.isLower b = true) ∧
    (a.isHigher b = b.isLower a) := by
  cases a <;> cases b <;> decide

/-- non-vacuity: a device edge whose first qubit is the moving one, and one whose first qubit is not. -/
example : ∃ e ∈ Conn.deviceEdges, Conn.onMovingSide e.1 e = true := by decide
example : ∃ e ∈ Conn.deviceEdges, Conn.onMovingSide e.1 e = false := by decide

end Qco.C16
