import QcoVerif.Lemmas.KernelCircuit
import QcoVerif.Lemmas.RepLift
/-
  C13: from the PROGRAM model of `construct_repetition_code_circuit` (Model/RepCode.lean, `RepCode.programWith` /
  `RepCode.program`, the model C09 validates against the real `to_stim` text) to the per-qubit TAG SEQUENCE
  model of Model/KernelCircuit.lean.

  Part 1: the measurement targets of the program, in program order, for EVERY description and EVERY cycle count
          (`measured_programWith`): heralding measurement of all qubits, then `max 1 cycles` times the ancillas,
          then the data qubits.
  Part 2: the same record with the acquisition tag each `DispersiveMeasure` carries in the constructor
          (`acqRecord`): the three parts of the program are the three sub-circuits of the constructor
          (`parts_flatten`: their concatenation IS `programWith`), and inside one part all measurements carry one tag.
  Part 3: per qubit (`tagsOf`): an ancilla's tags are `Circuit.ancillaBlock cycles`, a data qubit's are
          `Circuit.dataBlock cycles` — for every description whose qubit indices are distinct.
  Part 4: the concatenation of the blocks of a rounds list, followed by the calibration record, gives
          `Circuit.ancillaTags rounds` / `Circuit.dataTags rounds`.
  Core Lean only.
-/
namespace Qco.KernelProgram

open Qco.StimSem Qco.RepCode Qco.Kernel.Circuit

/-! ### Part 0: list helpers -/

theorem sum_replicate (n k : Nat) : (List.replicate n k).sum = n * k := by
  induction n with
  | zero => simp
  | succ m ih => rw [List.replicate_succ, List.sum_cons, ih, Nat.succ_mul]; omega

theorem count_flatten_replicate (q n : Nat) (l : List Nat) :
    (List.replicate n l).flatten.count q = n * l.count q := by
  rw [List.count_flatten, List.map_replicate, sum_replicate]

theorem mem_interleave {x : Nat} : ∀ a b : List Nat, x ∈ interleave a b ↔ x ∈ a ∨ x ∈ b
  | [], b => by simp [interleave]
  | a :: as, [] => by simp [interleave]
  | a :: as, b :: bs => by
    simp only [interleave, List.mem_cons, mem_interleave as bs]
    constructor
    · rintro (h | h | h | h) <;> simp [h]
    · rintro ((h | h) | (h | h)) <;> simp [h]

theorem interleave_perm : ∀ a b : List Nat, (interleave a b).Perm (a ++ b)
  | [], b => by simp [interleave]
  | a :: as, [] => by simp [interleave]
  | a :: as, b :: bs => by
    simp only [interleave, List.cons_append]
    refine List.Perm.cons a ?_
    refine ((interleave_perm as bs).cons b).trans ?_
    exact (List.perm_middle (a := b) (l₁ := as) (l₂ := bs)).symm

theorem count_eq_one_of_mem {l : List Nat} (h : l.Nodup) {q : Nat} (hq : q ∈ l) : l.count q = 1 := by
  rw [h.count, if_pos hq]

/-- distinct qubit indices: data and ancilla lists are disjoint -/
theorem disjoint_of_nodup {d : Desc} (h : d.allIdx.Nodup) {q : Nat} (hd : q ∈ d.dataIdx) (ha : q ∈ d.ancIdx) :
    False := by
  have h2 : (d.dataIdx ++ d.ancIdx).Nodup := (interleave_perm d.dataIdx d.ancIdx).nodup_iff.mp h
  exact (List.nodup_append.mp h2).2.2 q hd q ha rfl

theorem count_allIdx {d : Desc} (h : d.allIdx.Nodup) {q : Nat} (hq : q ∈ d.dataIdx ∨ q ∈ d.ancIdx) :
    d.allIdx.count q = 1 :=
  count_eq_one_of_mem h ((mem_interleave _ _).mpr hq)

theorem count_measAnc_anc {d : Desc} (h : d.allIdx.Nodup) {q : Nat} (hq : q ∈ d.ancIdx) :
    d.measAnc.count q = 1 := by
  rw [Desc.measAnc, List.count_filter (by simpa using hq)]
  exact count_allIdx h (Or.inr hq)

theorem count_measAnc_data {d : Desc} (h : d.allIdx.Nodup) {q : Nat} (hq : q ∈ d.dataIdx) :
    d.measAnc.count q = 0 := by
  rw [Desc.measAnc, List.count_eq_zero]
  intro hm
  have := (List.mem_filter.mp hm).2
  exact disjoint_of_nodup h hq (by simpa using this)

theorem count_measData_data {d : Desc} (h : d.allIdx.Nodup) {q : Nat} (hq : q ∈ d.dataIdx) :
    d.measData.count q = 1 := by
  rw [Desc.measData, List.count_filter (by simpa using hq)]
  exact count_allIdx h (Or.inl hq)

theorem count_measData_anc {d : Desc} (h : d.allIdx.Nodup) {q : Nat} (hq : q ∈ d.ancIdx) :
    d.measData.count q = 0 := by
  rw [Desc.measData, List.count_eq_zero]
  intro hm
  have := (List.mem_filter.mp hm).2
  exact disjoint_of_nodup h (by simpa using this) hq

/-! ### Part 1: the measurement targets of the program, in program order -/

theorem measured_append (a b : List Ins) : measured (a ++ b) = measured a ++ measured b := by
  simp [measured, List.filterMap_append]

theorem measured_nil : measured [] = [] := rfl

theorem measured_map_M (l : List Nat) : measured (l.map Ins.M) = l := by
  induction l with
  | nil => rfl
  | cons x xs ih =>
    simp only [measured, List.map_cons, List.filterMap_cons] at ih ⊢
    rw [ih]

/-- a family of instructions none of which is a measurement -/
theorem measured_map_other {α : Type} (f : α → Ins) (hf : ∀ x, isM (f x) = false) (l : List α) :
    measured (l.map f) = [] := by
  induction l with
  | nil => rfl
  | cons x xs ih =>
    have hx := hf x
    simp only [measured, List.map_cons, List.filterMap_cons] at ih ⊢
    rw [ih]
    cases hfx : f x <;> simp_all [isM]

theorem measured_of_noM (l : List Ins) (h : ∀ i ∈ l, isM i = false) : measured l = [] := by
  induction l with
  | nil => rfl
  | cons x xs ih =>
    have hx := h x (by simp)
    have := ih (fun i hi => h i (by simp [hi]))
    simp only [measured, List.filterMap_cons] at this ⊢
    rw [this]
    cases x <;> simp_all [isM]

theorem measured_TICK : measured [Ins.TICK] = [] := rfl

theorem measured_ite_TICK (c : Prop) [Decidable c] : measured (if c then [] else [Ins.TICK]) = [] := by
  split <;> rfl

theorem measured_flatten_replicate (n : Nat) (l : List Ins) :
    measured (List.replicate n l).flatten = (List.replicate n (measured l)).flatten := by
  induction n with
  | zero => rfl
  | succ m ih => simp only [List.replicate_succ, List.flatten_cons, measured_append, ih]

/-- the gate layers of one QEC round contain no measurement -/
theorem measured_roundLayers (d : Desc) (ls : List Layer) (cur : List Nat) :
    measured (roundLayers d ls cur) = [] := by
  induction ls generalizing cur with
  | nil => rfl
  | cons l rest ih =>
    unfold roundLayers
    simp only [measured_append, ih, measured_ite_TICK, List.append_nil]
    rw [measured_map_other _ (fun _ => rfl), measured_map_other _ (fun _ => rfl),
      measured_map_other _ (fun _ => rfl)]
    rfl

/-- `get_circuit_qec_round`: every ancilla (in `measure_ancilla_qubit_indices` order) is measured once -/
theorem measured_roundPlain (d : Desc) : measured (roundPlain d) = d.measAnc := by
  simp only [roundPlain, measured_append, measured_roundLayers, measured_TICK, measured_map_M, List.nil_append]

theorem measured_roundDD (d : Desc) : measured (roundDD d) = d.measAnc := by
  have hx : measured (if d.refocus then d.measData.map Ins.X else []) = [] := by
    split
    · exact measured_map_other _ (fun _ => rfl) _
    · rfl
  simp only [roundDD, measured_append, measured_roundPlain, measured_TICK, hx, List.append_nil]

theorem measured_blockDets (d : Desc) (body : List Ins) (ref : Option Int) :
    measured (blockDets d body ref) = [] :=
  measured_map_other _ (fun _ => rfl) _

theorem measured_block1 (d : Desc) : measured (block1 d) = d.measAnc := by
  simp only [block1, measured_append, measured_roundDD, measured_blockDets, List.append_nil]
  exact List.append_nil _

theorem measured_block2 (d : Desc) : measured (block2 d) = d.measAnc := by
  simp only [block2, measured_append, measured_roundDD, measured_blockDets, List.append_nil]
  exact List.append_nil _

theorem measured_block3 (d : Desc) (b : Bool) : measured (block3 d b) = d.measAnc := by
  simp only [block3, measured_append, measured_roundPlain, measured_blockDets, List.append_nil]
  exact List.append_nil _

/-- number of times the ancillas are measured inside `get_circuit_qec_with_detectors(qec_cycles = c)`:
    once per cycle, and ONCE when there is no cycle at all (the documented 0-round difference) -/
def qecMeasurements (c : Nat) : Nat := if c = 0 then 1 else c

/-- `get_circuit_qec_with_detectors`, REPEAT blocks unrolled: the ancillas, `qecMeasurements c` times — for every
    cycle count (0, 1, 2, 3 and the period-2 tail `k + 4`). -/
theorem measured_qec (d : Desc) (c : Nat) :
    measured (unroll (qecBlocks d c)) = (List.replicate (qecMeasurements c) d.measAnc).flatten := by
  match c with
  | 0 => simp [qecBlocks, unroll, qecMeasurements, measured_map_M]
  | 1 => simp [qecBlocks, unroll, qecMeasurements, measured_block3]
  | 2 =>
    simp [qecBlocks, unroll, qecMeasurements, measured_append, measured_block1, measured_block3,
      List.replicate_succ]
  | 3 =>
    simp [qecBlocks, unroll, qecMeasurements, measured_append, measured_block1, measured_block3,
      List.replicate_succ]
  | k + 4 =>
    rw [qecBlocks_ge4]
    have hq : qecMeasurements (k + 4) = 2 + ((k + 1) + 1) := by simp [qecMeasurements]; omega
    rw [hq, ← List.replicate_append_replicate, ← List.replicate_append_replicate, List.flatten_append,
      List.flatten_append]
    simp only [unroll, List.flatMap_cons, List.flatMap_nil, measured_append, measured_flatten_replicate,
      measured_block1, measured_block2, measured_block3, List.append_nil]

/-- `get_circuit_final_measurement` + detectors + observable: every data qubit once -/
theorem measured_finalPart (d : Desc) (p m : Bool) (l ql : List Ins) :
    measured (finalPart d p m l ql) = d.measData := by
  simp only [finalPart, measured_append, measured_map_M]
  rw [measured_map_other _ (fun _ => rfl), measured_map_other _ (fun _ => rfl)]
  simp

/-- `get_circuit_initialize_with_heralded`: the heralding measurement of every qubit, then the preparation -/
theorem measured_initPart (d : Desc) (prep : List Ins) :
    measured (initPart d prep) = d.allIdx ++ measured prep := by
  simp only [initPart, measured_append, measured_map_M, measured_TICK, List.append_nil]
  rw [measured_map_other _ (fun _ => rfl)]
  simp

theorem measured_body (d : Desc) (c : Nat) :
    measured (body d c) = (List.replicate (qecMeasurements c) d.measAnc).flatten ++ d.measData := by
  simp only [body, measured_append, measured_qec, measured_finalPart]

/-- THE MEASUREMENT TARGETS OF THE PROGRAM, in program order, for every description, every cycle count and every
    preparation layer: all qubits (heralding), the preparation's own measurements (none for the constructor's
    preparation, `measured_prepConc`), `qecMeasurements c` times the ancillas, the data qubits. -/
theorem measured_programWith (d : Desc) (c : Nat) (prep : List Ins) :
    measured (programWith d c prep) =
      d.allIdx ++ measured prep ++ (List.replicate (qecMeasurements c) d.measAnc).flatten ++ d.measData := by
  simp only [programWith, measured_append, measured_initPart, measured_body, List.append_assoc]

/-- the preparation layer of the constructor (`I` / `X` per given state) measures nothing -/
theorem measured_prepWith (mk : Nat → Nat → Bool → Ins) (hmk : ∀ q p b, isM (mk q p b) = false)
    (d : Desc) (nD nA : Nat) (prep : List Ins) (h : prepWith mk d nD nA = some prep) : measured prep = [] := by
  unfold prepWith at h
  split at h
  · cases h
    rw [measured_append, measured_map_other _ (fun _ => hmk _ _ _), measured_map_other _ (fun _ => hmk _ _ _)]
    rfl
  · cases h

theorem measured_prepConc {d : Desc} {ds as : List Bool} {prep : List Ins} (h : prepConc d ds as = some prep) :
    measured prep = [] := by
  refine measured_prepWith _ ?_ d _ _ prep h
  intro q p b
  simp only [mkConc]
  split <;> split <;> rfl

theorem measured_prepSym {d : Desc} {nD nA : Nat} {prep : List Ins} (h : prepSym d nD nA = some prep) :
    measured prep = [] :=
  measured_prepWith _ (fun _ _ _ => rfl) d _ _ prep h

theorem program_eq {d : Desc} {c : Nat} {ds as : List Bool} {p : List Ins} (h : program d c ds as = some p) :
    ∃ prep, prepConc d ds as = some prep ∧ p = programWith d c prep := by
  unfold program at h
  cases hp : prepConc d ds as with
  | none => simp [hp] at h
  | some prep => exact ⟨prep, rfl, by simpa [hp] using h.symm⟩

/-- the same for the exported program of concrete computational initial states -/
theorem measured_program {d : Desc} {c : Nat} {ds as : List Bool} {p : List Ins} (h : program d c ds as = some p) :
    measured p = d.allIdx ++ (List.replicate (qecMeasurements c) d.measAnc).flatten ++ d.measData := by
  obtain ⟨prep, hp, rfl⟩ := program_eq h
  rw [measured_programWith, measured_prepConc hp, List.append_nil]

/-- number of measurement instructions on qubit `q` -/
def measCount (q : Nat) (p : List Ins) : Nat := (measured p).count q

theorem measCount_eq_countP (q : Nat) (p : List Ins) : measCount q p = p.countP (· == Ins.M q) := by
  induction p with
  | nil => rfl
  | cons i is ih =>
    simp only [measCount, measured, List.filterMap_cons, List.countP_cons] at ih ⊢
    cases i <;> simp_all [List.count_cons] <;> (congr 1)

/-! ### Part 2: the acquisition record (qubit, tag) -/

/-- one acquisition: measured qubit (circuit channel index) and the `acquisition_tag` of its `DispersiveMeasure` -/
abbrev Acq := Nat × Tag

/-- all measurements of a program part carry tag `t` -/
def tagAll (t : Tag) (l : List Ins) : List Acq := (measured l).map fun q => (q, t)

/-- tag of the measurements inside `get_circuit_qec_with_detectors`: `'parity'`, but `'final'` in the 0-cycle branch -/
def qecTag (c : Nat) : Tag := if c = 0 then .final else .parity

/-- The three sub-circuits `construct_repetition_code_circuit` adds, each with the tag its constructor gives to
    every `DispersiveMeasure` it creates: `get_circuit_initialize_with_heralded` ('heralded'),
    `get_circuit_qec_with_detectors` ('parity'; 'final' for 0 cycles), `get_circuit_final_measurement` ('final');
    detectors and observable (no measurement) are kept with the last part. -/
def parts (d : Desc) (c : Nat) (prep : List Ins) : List (Tag × List Ins) :=
  let bs := qecBlocks d c
  [(.heralded, initPart d prep),
   (qecTag c, unroll bs),
   (.final, finalPart d (decide (c > 0)) (decide (c > 1)) (initPart d [] ++ once bs) (once bs))]

/-- the parts, concatenated, ARE the program -/
theorem parts_flatten (d : Desc) (c : Nat) (prep : List Ins) :
    (parts d c prep).flatMap (·.2) = programWith d c prep := by
  simp [parts, programWith, body]

/-- the acquisition record of one experiment block, in program order -/
def acqRecord (d : Desc) (c : Nat) (prep : List Ins) : List Acq :=
  (parts d c prep).flatMap fun p => tagAll p.1 p.2

/-- forgetting the tags gives back the measurement targets of the program -/
theorem acqRecord_qubits (d : Desc) (c : Nat) (prep : List Ins) :
    (acqRecord d c prep).map (·.1) = measured (programWith d c prep) := by
  rw [← parts_flatten]
  simp [acqRecord, parts, tagAll, measured_append, List.map_map, Function.comp_def]

/-- the record spelled out -/
theorem acqRecord_eq (d : Desc) (c : Nat) (prep : List Ins) :
    acqRecord d c prep =
      (d.allIdx ++ measured prep).map (fun q => (q, Tag.heralded)) ++
      ((List.replicate (qecMeasurements c) d.measAnc).flatten.map (fun q => (q, qecTag c)) ++
       d.measData.map (fun q => (q, Tag.final))) := by
  simp [acqRecord, parts, tagAll, measured_initPart, measured_qec, measured_finalPart]

/-! ### Part 3: per qubit -/

/-- the tags of the acquisitions of qubit `q`, in order: position `i` of this list is the measurement with
    per-qubit acquisition index `i` (the registry counts per qubit) -/
def tagsOf (q : Nat) (r : List Acq) : List Tag := (r.filter (·.1 == q)).map (·.2)

theorem tagsOf_append (q : Nat) (r s : List Acq) : tagsOf q (r ++ s) = tagsOf q r ++ tagsOf q s := by
  simp [tagsOf, List.filter_append]

theorem tagsOf_nil (q : Nat) : tagsOf q [] = [] := rfl

theorem tagsOf_map_tag (q : Nat) (t : Tag) (l : List Nat) :
    tagsOf q (l.map fun x => (x, t)) = List.replicate (l.count q) t := by
  induction l with
  | nil => rfl
  | cons x xs ih =>
    simp only [tagsOf, List.map_cons, List.filter_cons, List.count_cons] at ih ⊢
    by_cases hx : x = q
    · subst hx; simp [ih, List.replicate_succ]
    · have : (x == q) = false := by simpa using hx
      simp [this, ih]

theorem tagsOf_flatMap {α : Type} (q : Nat) (f : α → List Acq) (l : List α) :
    tagsOf q (l.flatMap f) = l.flatMap fun x => tagsOf q (f x) := by
  induction l with
  | nil => rfl
  | cons x xs ih => simp only [List.flatMap_cons, tagsOf_append, ih]

/-- the tags of ANY qubit, by the number of its occurrences in the index lists -/
theorem tagsOf_acqRecord (d : Desc) (c : Nat) (prep : List Ins) (q : Nat) :
    tagsOf q (acqRecord d c prep) =
      List.replicate ((d.allIdx ++ measured prep).count q) Tag.heralded ++
      (List.replicate (qecMeasurements c * d.measAnc.count q) (qecTag c) ++
       List.replicate (d.measData.count q) Tag.final) := by
  rw [acqRecord_eq, tagsOf_append, tagsOf_append, tagsOf_map_tag, tagsOf_map_tag, tagsOf_map_tag,
    count_flatten_replicate]

theorem qecBlock_eq (c : Nat) :
    List.replicate (qecMeasurements c) (qecTag c) = if c = 0 then [Tag.final] else List.replicate c Tag.parity := by
  unfold qecMeasurements qecTag
  split <;> rfl

/-- (a), ANCILLA: in the program of a block of `c` cycles an ancilla is measured `heralded`, then `c` × `parity`
    — and for `c = 0` once, tagged `final`. -/
theorem ancilla_tags {d : Desc} (hwf : d.allIdx.Nodup) {q : Nat} (hq : q ∈ d.ancIdx) (c : Nat)
    {prep : List Ins} (hprep : measured prep = []) :
    tagsOf q (acqRecord d c prep) = ancillaBlock c := by
  rw [tagsOf_acqRecord, hprep, List.append_nil, count_allIdx hwf (Or.inr hq), count_measAnc_anc hwf hq,
    count_measData_anc hwf hq, Nat.mul_one, qecBlock_eq]
  simp [ancillaBlock]

/-- (a), DATA qubit: `heralded`, `final`, whatever the cycle count. -/
theorem data_tags {d : Desc} (hwf : d.allIdx.Nodup) {q : Nat} (hq : q ∈ d.dataIdx) (c : Nat)
    {prep : List Ins} (hprep : measured prep = []) :
    tagsOf q (acqRecord d c prep) = dataBlock c := by
  rw [tagsOf_acqRecord, hprep, List.append_nil, count_allIdx hwf (Or.inl hq), count_measAnc_data hwf hq,
    count_measData_data hwf hq, Nat.mul_zero]
  simp [dataBlock]

/-- a qubit that is in neither list is never measured -/
theorem other_tags {d : Desc} {q : Nat} (hd : q ∉ d.dataIdx) (ha : q ∉ d.ancIdx) (c : Nat)
    {prep : List Ins} (hprep : measured prep = []) :
    tagsOf q (acqRecord d c prep) = [] := by
  have h1 : d.allIdx.count q = 0 := List.count_eq_zero.mpr (by rw [Desc.allIdx, mem_interleave]; simp [hd, ha])
  have h2 : d.measAnc.count q = 0 :=
    List.count_eq_zero.mpr (fun hm => ha (by simpa using (List.mem_filter.mp hm).2))
  have h3 : d.measData.count q = 0 :=
    List.count_eq_zero.mpr (fun hm => hd (by simpa using (List.mem_filter.mp hm).2))
  rw [tagsOf_acqRecord, hprep, List.append_nil, h1, h2, h3]
  simp

/-- (a) as a COUNT of `M q` instructions of the program -/
theorem measCount_ancilla {d : Desc} (hwf : d.allIdx.Nodup) {q : Nat} (hq : q ∈ d.ancIdx) (c : Nat)
    {prep : List Ins} (hprep : measured prep = []) :
    measCount q (programWith d c prep) = 1 + qecMeasurements c := by
  rw [measCount, measured_programWith, hprep]
  simp only [List.append_nil, List.count_append, count_flatten_replicate, count_allIdx hwf (Or.inr hq),
    count_measAnc_anc hwf hq, count_measData_anc hwf hq]
  omega

theorem measCount_data {d : Desc} (hwf : d.allIdx.Nodup) {q : Nat} (hq : q ∈ d.dataIdx) (c : Nat)
    {prep : List Ins} (hprep : measured prep = []) :
    measCount q (programWith d c prep) = 2 := by
  rw [measCount, measured_programWith, hprep]
  simp only [List.append_nil, List.count_append, count_flatten_replicate, count_allIdx hwf (Or.inl hq),
    count_measAnc_data hwf hq, count_measData_data hwf hq, Nat.mul_zero]

theorem allIdx_nodup_of_wellFormed {d : Desc} (h : d.wellFormed = true) : d.allIdx.Nodup := by
  simp only [Desc.wellFormed, Bool.and_eq_true, decide_eq_true_eq] at h
  exact h.1.1.1

/-! ### Part 4: the rounds list -/

/-- the acquisition record of the rounds part of `construct_repetition_code_multi_round_circuit`: one block per
    rounds entry, same description and same initial state (hence the same preparation layer) for every block.
    (`apply_modifiers` / `flatten` / the `Barrier` between blocks add and remove no measurement.) -/
def roundsRecord (d : Desc) (rounds : List Nat) (prep : List Ins) : List Acq :=
  rounds.flatMap fun r => acqRecord d r prep

/-- the block programs one after the other, each followed by the `Barrier` (exported as `TICK`) -/
def roundsProgram (d : Desc) (rounds : List Nat) (prep : List Ins) : List Ins :=
  rounds.flatMap fun r => programWith d r prep ++ [Ins.TICK]

theorem roundsRecord_qubits (d : Desc) (rounds : List Nat) (prep : List Ins) :
    (roundsRecord d rounds prep).map (·.1) = measured (roundsProgram d rounds prep) := by
  induction rounds with
  | nil => rfl
  | cons r rs ih =>
    simp only [roundsRecord, roundsProgram, List.flatMap_cons, List.map_append, measured_append] at ih ⊢
    rw [ih, acqRecord_qubits, measured_TICK, List.append_nil]

/-- `construct_calibration_circuit(QUTRIT)` on the channel indices `qs`: for state 0, 1, 2 one
    `get_circuit_calibrate_with_heralded` = heralding measurement of every qubit, preparation, final measurement of
    every qubit. (The calibration circuit is NOT part of `RepCode.program`; this is its acquisition record only.) -/
def calRecord (qs : List Nat) : List Acq :=
  [0, 1, 2].flatMap fun (_ : Nat) => qs.map (fun q => (q, Tag.heralded)) ++ qs.map (fun q => (q, Tag.final))

/-- acquisition record of the multi-round experiment: rounds part, then calibration -/
def experimentRecord (d : Desc) (rounds : List Nat) (prep : List Ins) (calQubits : List Nat) : List Acq :=
  roundsRecord d rounds prep ++ calRecord calQubits

theorem tagsOf_roundsRecord_anc {d : Desc} (hwf : d.allIdx.Nodup) {q : Nat} (hq : q ∈ d.ancIdx)
    (rounds : List Nat) {prep : List Ins} (hprep : measured prep = []) :
    tagsOf q (roundsRecord d rounds prep) = blocksTags rounds := by
  rw [roundsRecord, tagsOf_flatMap, blocksTags, List.flatMap_def]
  congr 1
  apply List.map_congr_left
  intro r _
  exact ancilla_tags hwf hq r hprep

theorem tagsOf_roundsRecord_data {d : Desc} (hwf : d.allIdx.Nodup) {q : Nat} (hq : q ∈ d.dataIdx)
    (rounds : List Nat) {prep : List Ins} (hprep : measured prep = []) :
    tagsOf q (roundsRecord d rounds prep) = (rounds.map dataBlock).flatten := by
  rw [roundsRecord, tagsOf_flatMap, List.flatMap_def]
  congr 1
  apply List.map_congr_left
  intro r _
  exact data_tags hwf hq r hprep

theorem tagsOf_calRecord {qs : List Nat} (hn : qs.Nodup) {q : Nat} (hq : q ∈ qs) :
    tagsOf q (calRecord qs) = calibrationBlock := by
  have h1 : qs.count q = 1 := count_eq_one_of_mem hn hq
  simp only [calRecord, List.flatMap_cons, List.flatMap_nil, tagsOf_append, tagsOf_map_tag, h1, tagsOf_nil]
  rfl

/-- (b), ANCILLA: the per-ancilla tag sequence of the experiment record = the tag-sequence model -/
theorem experiment_tags_anc {d : Desc} (hwf : d.allIdx.Nodup) {q : Nat} (hq : q ∈ d.ancIdx)
    (rounds : List Nat) {prep : List Ins} (hprep : measured prep = [])
    {cal : List Nat} (hn : cal.Nodup) (hc : q ∈ cal) :
    tagsOf q (experimentRecord d rounds prep cal) = ancillaTags rounds := by
  rw [experimentRecord, tagsOf_append, tagsOf_roundsRecord_anc hwf hq rounds hprep, tagsOf_calRecord hn hc]
  rfl

/-- (b), DATA qubit -/
theorem experiment_tags_data {d : Desc} (hwf : d.allIdx.Nodup) {q : Nat} (hq : q ∈ d.dataIdx)
    (rounds : List Nat) {prep : List Ins} (hprep : measured prep = [])
    {cal : List Nat} (hn : cal.Nodup) (hc : q ∈ cal) :
    tagsOf q (experimentRecord d rounds prep cal) = dataTags rounds := by
  rw [experimentRecord, tagsOf_append, tagsOf_roundsRecord_data hwf hq rounds hprep, tagsOf_calRecord hn hc]
  rfl

/-- `DeclarativeCircuit.get_acquisition_indices(AcquisitionTag(q, t))` on a record: the per-qubit running indices
    of the acquisitions of `q` that carry tag `t` -/
def acqIndices (q : Nat) (t : Tag) (r : List Acq) : List Nat := positions t (tagsOf q r)

end Qco.KernelProgram

