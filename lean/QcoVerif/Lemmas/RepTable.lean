import QcoVerif.Lemmas.RepLift
import QcoVerif.Lemmas.RepFactsA
import QcoVerif.Lemmas.RepFactsB
import QcoVerif.Lemmas.RepFactsC
import QcoVerif.Lemmas.RepFactsD
/-
  C09: the table of descriptions covered by the `_partial` theorems and small helper lemmas.
-/
namespace Qco.RepCode
open Qco.StimSem

/-- the descriptions (with container shape) the `_partial` theorems cover -/
def allEntries : List (Desc × Nat × Nat) :=
  entries chainTable ++ entries Qco.Generated.RepLayouts.repetition9Code ++
  entries Qco.Generated.RepLayouts.repetition9Round6Code ++ entries Qco.Generated.RepLayouts.repetition5Round4Code

theorem facts_of_mem {e : Desc × Nat × Nat} (he : e ∈ allEntries) : Facts e.1 e.2.1 e.2.2 := by
  simp only [allEntries, List.mem_append] at he
  rcases he with ((h | h) | h) | h
  · exact facts_of_checkAll factsD h
  · exact facts_of_checkAll factsA h
  · exact facts_of_checkAll factsB h
  · exact facts_of_checkAll factsC h

/-- a defined run has consumed every instruction: one detector value per DETECTOR, one record entry per M -/
theorem run_counts (p : List Ins) (s s' : St) (h : run p s = some s') :
    s'.det.length = s.det.length + p.countP isDet ∧ s'.mrec.length = s.mrec.length + p.countP isM := by
  induction p generalizing s with
  | nil => simp only [run] at h; cases h; simp
  | cons i is ih =>
    simp only [run] at h
    cases hs : step s i with
    | none => simp [hs] at h
    | some s1 =>
      simp only [hs] at h
      have := ih s1 h
      have h1 : s1.det.length = s.det.length + (if isDet i then 1 else 0) ∧
                s1.mrec.length = s.mrec.length + (if isM i then 1 else 0) := by
        cases i <;> simp only [step, act1] at hs <;> simp only [isDet, isM] <;>
          (try split at hs) <;> (try split at hs) <;> (try split at hs) <;> simp_all <;>
          (try (cases hs; simp)) <;> (try (subst hs; simp))
      rw [List.countP_cons, List.countP_cons]
      omega

theorem expectedDetectors_length (d : Desc) (c nD nA : Nat) :
    (expectedDetectors d c nD nA).length = d.ancIdx.length * (c + 1) := by
  unfold expectedDetectors
  by_cases h0 : c = 0
  · simp [h0]
  · by_cases h1 : c = 1
    · simp [h1]; omega
    · simp only [h0, h1, if_false, List.length_append, List.length_map, List.length_replicate]
      have : c = (c - 1) + 1 := by omega
      generalize c - 1 = m at this ⊢
      subst this
      rw [Nat.mul_comm m, Nat.mul_add, Nat.mul_add]
      omega

theorem assign_data (ds as : List Bool) (i : Nat) (hi : i < ds.length) :
    assign ds as (dataVar i) = ds.getD i false := by
  simp [assign, dataVar, hi]

theorem assign_anc (ds as : List Bool) (j : Nat) :
    assign ds as (ancVar ds.length j) = as.getD j false := by
  have h1 : ¬ (ds.length + j < ds.length) := by omega
  have h2 : ds.length + j - ds.length = j := by omega
  simp [assign, ancVar, h1, h2]

end Qco.RepCode
