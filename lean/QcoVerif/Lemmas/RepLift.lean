import QcoVerif.Lemmas.RepCode
/-
  C09: from the per-description facts to every number of QEC cycles and every concrete initial state.
-/
namespace Qco.RepCode
open Qco.StimSem

/-! ### the program for more than three cycles -/

theorem qecBlocks_ge4 (d : Desc) (k : Nat) :
    qecBlocks d (k + 4) = [⟨2, block1 d⟩, ⟨k + 1, block2 d⟩, ⟨1, block3 d true⟩] := by
  unfold qecBlocks
  have h0 : ¬ (k + 4 = 0) := by omega
  have h1 : k + 4 > 1 := by omega
  have h2 : k + 4 > 3 := by omega
  have h3 : k + 4 > 2 := by omega
  have h4 : min 2 (k + 4 - 1) = 2 := by omega
  have h5 : k + 4 - 2 - 1 = k + 1 := by omega
  simp [h0, h1, h2, h3, h4, h5]

theorem body_ge4 (d : Desc) (k : Nat) :
    body d (k + 4) = (block1 d ++ block1 d) ++ (repeatBlock (k + 1) (block2 d) ++ (block3 d true ++ finalPart4 d)) := by
  have h1 : decide (k + 4 > 0) = true := by simp
  have h2 : decide (k + 4 > 1) = true := by simp
  simp only [body, qecBlocks_ge4, h1, h2]
  simp [unroll, once, finalPart4, qecListing4, repeatBlock, List.replicate, List.append_assoc]

/-! ### closed forms, most recent first -/

theorem par_add_two (r : Nat) : par (r + 2) = par r := by
  rw [par_succ, par_succ]; simp

theorem rounds_reverse (d : Desc) (nD nA c : Nat) :
    ((List.range c).flatMap fun i => d.measAnc.map (cycleForm d nD nA (i + 1))).reverse =
      revRounds (cB d nD nA) c := by
  induction c with
  | zero => rfl
  | succ c ih =>
    rw [List.range_succ, List.flatMap_append, List.reverse_append, ih]
    simp [revRounds, cB, cycleForm]

theorem expectedRecord_reverse (d : Desc) (nD nA c : Nat) (hc : c ≠ 0) :
    (expectedRecord d c nD nA).reverse =
      finB d nD (par (c - 1)) ++ (revRounds (cB d nD nA) c ++ zeros d) := by
  unfold expectedRecord
  simp only [hc, if_false, List.reverse_append, rounds_reverse]
  simp [finB, finalForm, zeros, List.append_assoc]

theorem expectedDetectors_reverse (d : Desc) (nD nA c : Nat) (hc : 2 ≤ c) :
    (expectedDetectors d c nD nA).reverse =
      List.replicate ((c - 1) * d.ancIdx.length) 0 ++
        (d.ancIdx.map (cycleForm d nD nA 1) ++ d.ancIdx.map (cycleForm d nD nA 2)).reverse := by
  unfold expectedDetectors
  have h0 : ¬ c = 0 := by omega
  have h1 : ¬ c = 1 := by omega
  simp only [h0, h1, if_false]
  rw [List.reverse_append, List.reverse_replicate]

/-! ### all cycle counts, symbolic initial state -/

theorem view_some {o : Option St} {v : List Nat × List Nat × Nat} (h : view o = some v) :
    ∃ s, o = some s ∧ (s.mrec, s.det, s.obs) = v := by
  cases o with
  | none => simp [view] at h
  | some s => exact ⟨s, rfl, by simpa [view] using h⟩

theorem facts_mid {d : Desc} {nD nA : Nat} (F : Facts d nD nA) (b : Bool) :
    run (block2 d) ⟨stateB d nD nA b, cB d nD nA b ++ cB d nD nA (!b), [], 0⟩ =
      some ⟨stateB d nD nA (!b), cB d nD nA (!b) ++ (cB d nD nA b ++ cB d nD nA (!b)),
            List.replicate d.ancIdx.length 0, 0⟩ := by
  cases b
  · exact F.mid0
  · exact F.mid1

theorem facts_post {d : Desc} {nD nA : Nat} (F : Facts d nD nA) (b : Bool) :
    view (run (block3 d true ++ finalPart4 d) ⟨stateB d nD nA b, cB d nD nA b ++ cB d nD nA (!b), [], 0⟩) =
      some (finB d nD b ++ (cB d nD nA (!b) ++ (cB d nD nA b ++ cB d nD nA (!b))),
            List.replicate (2 * d.ancIdx.length) 0, expectedObservableB d nD b) := by
  cases b
  · exact F.post0
  · exact F.post1

/-- The body (everything after the preparation layer) for ANY number of cycles, run from the prepared
    symbolic state, yields exactly the closed-form record, detector values and observable. -/
theorem facts_body_run {d : Desc} {nD nA : Nat} (F : Facts d nD nA) (c : Nat) :
    view (run (body d c) ⟨stateB d nD nA false, zeros d, [], 0⟩) = some (expectedView d c nD nA) := by
  match c with
  | 0 => exact F.small0
  | 1 => exact F.small1
  | 2 => exact F.small2
  | 3 => exact F.small3
  | k + 4 =>
    let n := d.ancIdx.length
    let dpre := (d.ancIdx.map (cycleForm d nD nA 1) ++ d.ancIdx.map (cycleForm d nD nA 2)).reverse
    rw [body_ge4]
    -- the first two cycles
    have hpre := run_frame (zeros d) [] 0 F.pre
    have e0 : extend ⟨stateB d nD nA false, [], [], 0⟩ (zeros d) [] 0 = ⟨stateB d nD nA false, zeros d, [], 0⟩ := by
      simp [extend]
    have e1 : extend ⟨stateB d nD nA false, cB d nD nA false ++ cB d nD nA true, dpre, 0⟩ (zeros d) [] 0
        = ⟨stateB d nD nA (par (0 + 2)), revRounds (cB d nD nA) (0 + 2) ++ zeros d, dpre, 0⟩ := by
      simp [extend, revRounds, par, List.append_assoc]
    rw [e0] at hpre
    rw [run_append_some hpre, e1]
    -- the repeated middle block
    have hmid := run_repeat (block2 d) (stateB d nD nA) (cB d nD nA) n (facts_mid F) (k + 1) 0 (zeros d) dpre 0
    rw [run_append_some hmid]
    -- the last cycle and the final part
    obtain ⟨sf, hsf, hview⟩ := view_some (facts_post F (par (k + 3)))
    have hpost := run_frame (revRounds (cB d nD nA) (k + 1) ++ zeros d) (List.replicate ((k + 1) * n) 0 ++ dpre) 0 hsf
    have hk3 : 0 + 2 + (k + 1) = k + 3 := by omega
    have e2 : extend ⟨stateB d nD nA (par (k + 3)), cB d nD nA (par (k + 3)) ++ cB d nD nA (!par (k + 3)), [], 0⟩
          (revRounds (cB d nD nA) (k + 1) ++ zeros d) (List.replicate ((k + 1) * n) 0 ++ dpre) 0
        = ⟨stateB d nD nA (par (0 + 2 + (k + 1))), revRounds (cB d nD nA) (0 + 2 + (k + 1)) ++ zeros d,
            List.replicate ((k + 1) * n) 0 ++ dpre, 0⟩ := by
      rw [hk3]
      simp [extend, revRounds, par_succ, List.append_assoc]
    rw [e2] at hpost
    rw [hpost]
    -- compare with the closed form
    simp only [view, Option.map_some, extend, expectedView]
    have hm : sf.mrec = finB d nD (par (k + 3)) ++ (cB d nD nA (!par (k + 3)) ++ (cB d nD nA (par (k + 3)) ++ cB d nD nA (!par (k + 3)))) :=
      congrArg (·.1) hview
    have hd : sf.det = List.replicate (2 * n) 0 := congrArg (·.2.1) hview
    have ho : sf.obs = expectedObservableB d nD (par (k + 3)) := congrArg (·.2.2) hview
    rw [hm, hd, ho, expectedRecord_reverse d nD nA (k + 4) (by omega), expectedDetectors_reverse d nD nA (k + 4) (by omega)]
    have hk : k + 4 - 1 = k + 3 := by omega
    have hrep : List.replicate (2 * n) 0 ++ (List.replicate ((k + 1) * n) 0 ++ dpre)
        = List.replicate ((k + 3) * n) 0 ++ dpre := by
      rw [← List.append_assoc, List.replicate_append_replicate]
      have h23 : 2 + (k + 1) = k + 3 := by omega
      have : 2 * n + (k + 1) * n = (k + 3) * n := by
        have hh := Nat.add_mul 2 (k + 1) n
        rw [h23] at hh
        exact hh.symm
      rw [this]
    rw [hk, hrep]
    simp [expectedObservable, hk, revRounds, par_succ, List.append_assoc]
    simp only [dpre, n, List.reverse_append]

theorem all_repeatBlock (f : Ins → Bool) (k : Nat) (B : List Ins) (h : B.all f = true) :
    (repeatBlock k B).all f = true := by
  induction k with
  | zero => simp [repeatBlock]
  | succ k ih => rw [repeatBlock_succ, List.all_append, h, ih]; rfl

theorem facts_body_noXV {d : Desc} {nD nA : Nat} (F : Facts d nD nA) (c : Nat) :
    notXV (body d c) = true := by
  have h := F.noXV
  simp only [notXV, List.all_append, Bool.and_eq_true] at h
  obtain ⟨⟨⟨⟨⟨⟨⟨⟨_, b0⟩, b1⟩, b2⟩, b3⟩, k1⟩, k2⟩, k3⟩, k4⟩ := h
  match c with
  | 0 => exact b0
  | 1 => exact b1
  | 2 => exact b2
  | 3 => exact b3
  | k + 4 =>
    rw [body_ge4]
    simp only [notXV, List.all_append, Bool.and_eq_true]
    exact ⟨⟨k1, k1⟩, all_repeatBlock _ _ _ k2, k3, k4⟩

/-! ### concrete computational initial states -/

theorem map_inst_initPart (σ : Nat → Bool) (d : Desc) (prep : List Ins) :
    (initPart d prep).map (instIns σ) = initPart d (prep.map (instIns σ)) := by
  simp [initPart, List.map_append, List.map_map, Function.comp_def, instIns]

theorem mkConc_eq (ds as : List Bool) (q pos : Nat) (isAnc : Bool) (hpos : isAnc = false → pos < ds.length) :
    mkConc ds as q pos isAnc = instIns (assign ds as) (mkSym ds.length q pos isAnc) := by
  cases isAnc with
  | false =>
    have hp := hpos rfl
    simp [mkConc, mkSym, instIns, assign, dataVar, hp]
  | true =>
    simp only [mkConc, mkSym, instIns, assign, ancVar, if_true]
    have h1 : ¬ (ds.length + pos < ds.length) := by omega
    have h2 : ds.length + pos - ds.length = pos := by omega
    simp only [h1, if_false, h2]

theorem prepConc_eq (d : Desc) (ds as : List Bool) :
    prepConc d ds as = (prepSym d ds.length as.length).map (List.map (instIns (assign ds as))) := by
  unfold prepConc prepSym prepWith
  split
  · simp only [Option.map_some, List.map_append, List.map_map]
    congr 2
    · apply List.map_congr_left
      intro i hi
      simp only [Function.comp]
      exact mkConc_eq ds as _ i false (fun _ => by simpa using hi)
    · apply List.map_congr_left
      intro j _
      simp only [Function.comp]
      exact mkConc_eq ds as _ j true (fun h => by cases h)
  · rfl

theorem mapSt_start (h : Nat → Nat) (h0 : h 0 = 0) (n : Nat) : mapSt h (start n) = start n := by
  simp [mapSt, start, mapQ, h0]

/-- For every number of cycles and all concrete states: the exported program exists, its run is defined
    (every measurement deterministic), the state after the preparation layer and the record / detector
    values / observable are the closed forms instantiated with the given states. -/
theorem facts_concrete {d : Desc} {nD nA : Nat} (F : Facts d nD nA) (c : Nat) (ds as : List Bool)
    (hD : ds.length = nD) (hA : as.length = nA) :
    ∃ prep sf,
      prepConc d ds as = some prep ∧
      program d c ds as = some (initPart d prep ++ body d c) ∧
      run (initPart d prep) (start d.size) =
        some (mapSt (evalNat (assign ds as)) ⟨stateB d nD nA false, zeros d, [], 0⟩) ∧
      run (initPart d prep ++ body d c) (start d.size) = some sf ∧
      sf.mrec.reverse = (expectedRecord d c nD nA).map (evalNat (assign ds as)) ∧
      sf.det.reverse = (expectedDetectors d c nD nA).map (evalNat (assign ds as)) ∧
      sf.obs = evalNat (assign ds as) (expectedObservable d c nD) := by
  subst hD; subst hA
  have H := evalNat_formHom (assign ds as)
  cases hp : prepSym d ds.length as.length with
  | none => have := F.init; simp [hp] at this
  | some prepS =>
    have hinit : run (initPart d prepS) (start d.size) = some ⟨stateB d ds.length as.length false, zeros d, [], 0⟩ := by
      have := F.init; simpa [hp] using this
    have hprepC : prepConc d ds as = some (prepS.map (instIns (assign ds as))) := by
      rw [prepConc_eq, hp]; rfl
    -- preparation layer
    have hrunInit : run (initPart d (prepS.map (instIns (assign ds as)))) (start d.size) =
        some (mapSt (evalNat (assign ds as)) ⟨stateB d ds.length as.length false, zeros d, [], 0⟩) := by
      have := run_hom H (initPart d prepS) (start d.size)
      rw [map_inst_initPart, mapSt_start _ H.zero, hinit] at this
      exact this
    -- body
    obtain ⟨sb, hsb, hview⟩ := view_some (facts_body_run F c)
    have hbody : run (body d c) (mapSt (evalNat (assign ds as)) ⟨stateB d ds.length as.length false, zeros d, [], 0⟩) =
        some (mapSt (evalNat (assign ds as)) sb) := by
      have := run_hom H (body d c) ⟨stateB d ds.length as.length false, zeros d, [], 0⟩
      rw [map_instIns_of_noXV (assign ds as) _ (facts_body_noXV F c), hsb] at this
      exact this
    refine ⟨prepS.map (instIns (assign ds as)), mapSt (evalNat (assign ds as)) sb, hprepC, ?_, hrunInit, ?_, ?_, ?_, ?_⟩
    · simp [program, hprepC, programWith]
    · rw [run_append_some hrunInit, hbody]
    · have : sb.mrec = (expectedRecord d c ds.length as.length).reverse := congrArg (·.1) hview
      simp [mapSt, this, List.map_reverse]
    · have : sb.det = (expectedDetectors d c ds.length as.length).reverse := congrArg (·.2.1) hview
      simp [mapSt, this, List.map_reverse]
    · have : sb.obs = expectedObservable d c ds.length := congrArg (·.2.2) hview
      simp [mapSt, this]

end Qco.RepCode
