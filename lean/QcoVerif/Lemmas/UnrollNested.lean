import QcoVerif.Lemmas.TreeCopy
/-
  Nested unrolling: `World.applyModifiers` on a tree-shaped heap.
   * `extend_forest`   — `extend` with a separated forest keeps separation;
   * `RepInvT`         — invariant of the repetition loop (`times - 1` × copy the pristine copy and extend);
   * `KidsInv`         — invariant of the recursion into the nodes (siblings are not disturbed);
   * `applyModifiers_tree` — the main theorem (`UnrollSpec`): same count-expanded multiset of leaf signatures, all counts
     `fixed 1`, still a tree, nothing outside the tree written, count registry untouched;
   * `applyModifiers_ones` — on a tree whose counts are all `fixed 1` NO existing object is written (idempotence).
  Core Lean only.
-/
namespace Qco

/-! ### `extend` -/

/-- **`extend` keeps separation**: if the nodes of `c` and the nodes of `other` are forests sharing no object, and `c` occurs
    in none of these trees, then after `extend c other` the nodes of `c` are `kids c ++ listing other`, they form a forest,
    and the objects below / the expansion of every node are unchanged. -/
theorem extend_forest (w : World) (f c other : Nat) (hc : c < w.ops.size)
    (hF : Forest w f (w.kids c)) (hcK : ∀ n ∈ w.kids c, c ∉ w.below f n)
    (hO : Forest w f (w.kids other)) (hcO : ∀ n ∈ w.kids other, c ∉ w.below f n)
    (hd : ∀ a ∈ w.kids c, ∀ b ∈ w.kids other, ∀ j, j ∈ w.below f a → j ∉ w.below f b) :
    (w.extend c other).kids c = w.kids c ++ listing (w.op other).graph ∧
    Forest (w.extend c other) f (w.kids c ++ listing (w.op other).graph) ∧
    (∀ n ∈ w.kids c ++ listing (w.op other).graph,
      (w.extend c other).below f n = w.below f n ∧ (w.extend c other).expand f n = w.expand f n) := by
  obtain ⟨e1, e2, _, _, _, e6⟩ := extend_spec w c other hc
  have hp : (listing (w.op other).graph).Perm (w.kids other) := listing_perm _
  have hL : Forest w f (listing (w.op other).graph) := hO.perm hp.symm
  have hF2 : Forest w f (w.kids c ++ listing (w.op other).graph) :=
    hF.append hL (fun a ha b hb => hd a ha b (hp.mem_iff.mp hb))
  have hne : ∀ n ∈ w.kids c ++ listing (w.op other).graph, ∀ j ∈ w.below f n, j ≠ c := by
    intro n hn j hj hjc
    subst hjc
    rcases List.mem_append.mp hn with hn | hn
    · exact hcK n hn hj
    · exact hcO n (hp.mem_iff.mp hn) hj
  have hsame : ∀ n ∈ w.kids c ++ listing (w.op other).graph, ∀ j ∈ w.below f n,
      ((w.extend c other).op j).noLink = (w.op j).noLink := fun n hn j hj => e6 j (hne n hn j hj)
  obtain ⟨hF3, hb3⟩ := hF2.congr (Nat.le_of_eq e1.symm) hsame
  refine ⟨extend_kids w c other hc, hF3, ?_⟩
  intro n hn
  exact ⟨hb3 n hn, expand_congr w (w.extend c other) e2 f n (hsame n hn)⟩

/-- `extend` of a tree with the nodes of a separate tree: the extended composite is again a tree whose content is the
    two contents, one after the other; only `c` and the appended nodes (their links) are written. -/
theorem extend_tree (w : World) (f c other : Nat) (hc : TreeBelow w (f + 1) c) (hcc : (w.op c).isComp = true)
    (ho : TreeBelow w (f + 1) other) (hoc : (w.op other).isComp = true)
    (hd : ∀ j, j ∈ w.below (f + 1) c → j ∉ w.below (f + 1) other) :
    TreeBelow (w.extend c other) (f + 1) c ∧
    ((w.extend c other).content f c).Perm (w.content f c ++ w.content f other) ∧
    (w.extend c other).ops.size = w.ops.size ∧ (w.extend c other).rreg = w.rreg ∧
    (∀ j, j ≠ c → j ∉ w.kids other → (w.extend c other).op j = w.op j) ∧
    (∀ j, j ≠ c → ((w.extend c other).op j).noLink = (w.op j).noLink) := by
  have hp : (listing (w.op other).graph).Perm (w.kids other) := listing_perm _
  obtain ⟨k1, k2, k3⟩ := extend_forest w f c other hc.lt (hc.forest hcc) (fun n hn => hc.not_below_kid hcc hn)
    (ho.forest hoc)
    (fun n hn hmem => hd c (self_mem_below w f c) (below_kid w f other n c hoc hn hmem))
    (fun a ha b hb j hja hjb => hd j (below_kid w f c a j hcc ha hja) (below_kid w f other b j hoc hb hjb))
  obtain ⟨e1, e2, _, _, e5, e6⟩ := extend_spec w c other hc.lt
  have hcompr : ((w.extend c other).op c).isComp = true := by unfold Op.isComp; rw [e5]; exact hcc
  refine ⟨?_, ?_, e1, e2, ?_, e6⟩
  · refine TreeBelow.of_forest (by rw [e1]; exact hc.lt) hcompr (k1 ▸ k2) ?_
    intro n hn hmem
    rw [k1] at hn
    rw [(k3 n hn).1] at hmem
    rcases List.mem_append.mp hn with hn | hn
    · exact hc.not_below_kid hcc hn hmem
    · exact hd c (self_mem_below w f c) (below_kid w f other n c hoc (hp.mem_iff.mp hn) hmem)
  · unfold World.content
    rw [k1, List.flatMap_append]
    refine List.Perm.append ?_ ?_
    · have : (w.kids c).flatMap ((w.extend c other).expand f) = (w.kids c).flatMap (w.expand f) := by
        apply flatMap_congr'
        intro a ha
        exact (k3 a (List.mem_append_left _ ha)).2
      rw [this]
    · have : (listing (w.op other).graph).flatMap ((w.extend c other).expand f) =
          (listing (w.op other).graph).flatMap (w.expand f) := by
        apply flatMap_congr'
        intro a ha
        exact (k3 a (List.mem_append_right _ ha)).2
      rw [this]
      exact List.Perm.flatMap_right _ hp
  · intro j hjc hj
    exact extend_op_other w c other j hjc (fun hmem => hj (hp.mem_iff.mp hmem))

/-! ### the repetition loop -/

/-- invariant of the repetition loop of `applyModifiers (f+2) c` started in `w0`: the pristine copy `orig = w0.ops.size`
    is an untouched fresh tree; the nodes of `c` form a forest made of old objects below `c` and fresh objects, holding
    `i + 1` passes of the original content; nothing else that existed has been written. -/
structure RepInvT (w0 : World) (c f : Nat) (w : World) (i : Nat) : Prop where
  size : w0.ops.size < w.ops.size
  rreg : w.rreg = w0.rreg
  frame : ∀ j, j < w0.ops.size → j ≠ c → w.op j = w0.op j
  ccomp : (w.op c).isComp = true
  crep : (w.op c).rep = (w0.op c).rep
  cforest : Forest w f (w.kids c)
  csub : ∀ n ∈ w.kids c, ∀ j ∈ w.below f n, j ≠ c ∧ (j ∈ w0.below (f + 1) c ∨ w0.ops.size ≤ j)
  ccontent : (w.content f c).Perm (repeatList (i + 1) (w0.content f c))
  otree : TreeBelow w (f + 1) w0.ops.size
  ocomp : (w.op w0.ops.size).isComp = true
  ofresh : ∀ j ∈ w.below (f + 1) w0.ops.size, w0.ops.size ≤ j
  ocontent : (w.content f w0.ops.size).Perm (w0.content f c)

theorem repInvT_base (w : World) (f c : Nat) (ht : TreeBelow w (f + 1) c) (hcomp : (w.op c).isComp = true)
    (hf : f + 1 ≤ w.depthFuel) : (w.copy c).2 = w.ops.size ∧ RepInvT w c f (w.copy c).1 0 := by
  have hcs := copy_tree w (f + 1) c ht hf
  have hc := ht.lt
  refine ⟨hcs.id, ?_⟩
  rw [hcs.id] at hcs
  have hsame : ∀ j ∈ w.below (f + 1) c, (((w.copy c).1).op j).noLink = (w.op j).noLink :=
    fun j hj => op_eq_noLink (hcs.old j (below_lt w (f + 1) c ht j hj))
  have hopc : (w.copy c).1.op c = w.op c := hcs.old c hc
  have hk : (w.copy c).1.kids c = w.kids c := by unfold World.kids; rw [hopc]
  obtain ⟨hF, hb⟩ := (ht.forest hcomp).congr (w' := (w.copy c).1) (Nat.le_of_lt hcs.size)
    (fun n hn j hj => hsame j (below_kid w f c n j hcomp hn hj))
  refine ⟨hcs.size, hcs.rreg, fun j hj _ => hcs.old j hj, by rw [hopc]; exact hcomp, by rw [hopc],
    hk ▸ hF, ?_, ?_, hcs.tree, by rw [hcs.kind]; exact hcomp, hcs.fresh, hcs.content f rfl hcomp⟩
  · intro n hn j hj
    rw [hk] at hn
    rw [hb n hn] at hj
    refine ⟨?_, Or.inl (below_kid w f c n j hcomp hn hj)⟩
    intro hjc; subst hjc
    exact ht.not_below_kid hcomp hn hj
  · rw [content_congr w (w.copy c).1 hcs.rreg f c hcomp hsame]
    simp

theorem repInvT_step (w0 : World) (c f : Nat) (hc : c < w0.ops.size) (w : World) (i : Nat)
    (h : RepInvT w0 c f w i) (hf : f + 1 ≤ w.depthFuel) :
    RepInvT w0 c f ((w.copy w0.ops.size).1.extend c (w.copy w0.ops.size).2) (i + 1) := by
  have hcs := copy_tree w (f + 1) w0.ops.size h.otree hf
  have hid := hcs.id
  rw [hid] at hcs ⊢
  generalize (w.copy w0.ops.size).1 = w2 at hcs ⊢
  have hcw : c < w.ops.size := Nat.lt_trans hc h.size
  have hc2 : c < w2.ops.size := Nat.lt_trans hcw hcs.size
  -- `c` and its forest, seen in `w2`
  have hopc : w2.op c = w.op c := hcs.old c hcw
  have hk : w2.kids c = w.kids c := by unfold World.kids; rw [hopc]
  have hKlt : ∀ a ∈ w.kids c, ∀ j ∈ w.below f a, j < w.ops.size :=
    fun a ha => below_lt w f a (h.cforest.tree a ha)
  obtain ⟨hF2, hb2⟩ := h.cforest.congr (w' := w2) (Nat.le_of_lt hcs.size)
    (fun a ha j hj => op_eq_noLink (hcs.old j (hKlt a ha j hj)))
  have hx2 : ∀ a ∈ w.kids c, w2.expand f a = w.expand f a := fun a ha =>
    expand_congr w w2 hcs.rreg f a (fun j hj => op_eq_noLink (hcs.old j (hKlt a ha j hj)))
  -- the new copy `cp = w.ops.size`
  have hcpc : (w2.op w.ops.size).isComp = true := by rw [hcs.kind]; exact h.ocomp
  have hFcp := hcs.tree.forest hcpc
  have hcpfresh : ∀ n ∈ w2.kids w.ops.size, ∀ j ∈ w2.below f n, w.ops.size ≤ j :=
    fun n hn j hj => hcs.fresh j (below_kid w2 f _ n j hcpc hn hj)
  obtain ⟨k1, k2, k3⟩ := extend_forest w2 f c w.ops.size hc2 (hk ▸ hF2)
    (by
      intro a ha hmem
      rw [hk] at ha
      rw [hb2 a ha] at hmem
      exact (h.csub a ha c hmem).1 rfl)
    hFcp
    (by
      intro n hn hmem
      have := hcpfresh n hn c hmem
      omega)
    (by
      intro a ha b hb j hja hjb
      rw [hk] at ha
      rw [hb2 a ha] at hja
      have := hKlt a ha j hja
      have := hcpfresh b hb j hjb
      omega)
  rw [hk] at k1 k2 k3
  obtain ⟨e1, e2, _, e4, e5, e6⟩ := extend_spec w2 c w.ops.size hc2
  have hp : (listing (w2.op w.ops.size).graph).Perm (w2.kids w.ops.size) := listing_perm _
  -- the pristine copy is not touched
  have hosame : ∀ j ∈ w.below (f + 1) w0.ops.size,
      ((w2.extend c w.ops.size).op j).noLink = (w.op j).noLink := by
    intro j hj
    have h1 := h.ofresh j hj
    have h2 := below_lt w (f + 1) _ h.otree j hj
    rw [e6 j (by omega), hcs.old j h2]
  refine ⟨?_, ?_, ?_, ?_, ?_, ?_, ?_, ?_, ?_, ?_, ?_, ?_⟩
  · rw [e1]; exact Nat.lt_trans h.size hcs.size
  · rw [e2, hcs.rreg]; exact h.rreg
  · intro j hj hjc
    have hjw : j < w.ops.size := Nat.lt_trans hj h.size
    rw [extend_op_other w2 c w.ops.size j hjc, hcs.old j hjw]
    · exact h.frame j hj hjc
    · intro hmem
      have hmem' := hp.mem_iff.mp hmem
      have := hcpfresh j hmem' j (hFcp.tree j hmem').self_mem
      omega
  · unfold Op.isComp; rw [e5, hopc]; exact h.ccomp
  · rw [e4, hopc]; exact h.crep
  · rw [k1]; exact k2
  · intro n hn j hj
    rw [k1] at hn
    rw [(k3 n hn).1] at hj
    rcases List.mem_append.mp hn with hn | hn
    · rw [hb2 n hn] at hj; exact h.csub n hn j hj
    · have := hcpfresh n (hp.mem_iff.mp hn) j hj
      have := h.size
      exact ⟨by omega, Or.inr (by omega)⟩
  · unfold World.content
    rw [k1, List.flatMap_append]
    have hA : (w.kids c).flatMap ((w2.extend c w.ops.size).expand f) = w.content f c := by
      unfold World.content
      apply flatMap_congr'
      intro a ha
      rw [(k3 a (List.mem_append_left _ ha)).2, hx2 a ha]
    have hB : ((listing (w2.op w.ops.size).graph).flatMap ((w2.extend c w.ops.size).expand f)).Perm
        (w0.content f c) := by
      have : (listing (w2.op w.ops.size).graph).flatMap ((w2.extend c w.ops.size).expand f) =
          (listing (w2.op w.ops.size).graph).flatMap (w2.expand f) := by
        apply flatMap_congr'
        intro a ha
        rw [(k3 a (List.mem_append_right _ ha)).2]
      rw [this]
      refine (List.Perm.flatMap_right _ hp).trans ?_
      exact (hcs.content f rfl h.ocomp).trans h.ocontent
    rw [hA, repeatList_succ]
    exact List.perm_append_comm.trans (hB.append h.ccontent)
  · exact tree_congr w _ (by rw [e1]; exact Nat.le_of_lt hcs.size) (f + 1) _ h.otree hosame
  · rw [noLink_isComp (hosame _ h.otree.self_mem)]; exact h.ocomp
  · intro j hj
    rw [below_congr w _ (f + 1) _ hosame] at hj
    exact h.ofresh j hj
  · rw [content_congr w _ (e2.trans hcs.rreg) f _ h.ocomp hosame]
    exact h.ocontent

theorem repInvT_loop (w0 : World) (c f : Nat) (hc : c < w0.ops.size) (hf : f + 1 ≤ w0.depthFuel) :
    ∀ (L : List Nat) (w : World) (i : Nat), RepInvT w0 c f w i →
    RepInvT w0 c f (L.foldl (fun w _ => (w.copy w0.ops.size).1.extend c (w.copy w0.ops.size).2) w) (i + L.length) := by
  intro L
  induction L with
  | nil => intro w i h; simpa using h
  | cons x xs ih =>
    intro w i h
    simp only [List.foldl_cons, List.length_cons]
    have hf' : f + 1 ≤ w.depthFuel := by
      have := h.size
      unfold World.depthFuel at hf ⊢
      omega
    have := ih _ (i + 1) (repInvT_step w0 c f hc w i h hf')
    have hk : i + (xs.length + 1) = i + 1 + xs.length := by omega
    rw [hk]; exact this

/-! ### the recursion into the nodes -/

/-- what `applyModifiers` does to a tree `c` of depth ≤ `f`. -/
structure UnrollSpec (w : World) (f c : Nat) (w' : World) : Prop where
  size : w.ops.size ≤ w'.ops.size
  rreg : w'.rreg = w.rreg
  frame : ∀ j, j < w.ops.size → j ∉ w.below f c → w'.op j = w.op j
  tree : TreeBelow w' f c
  sub : ∀ j ∈ w'.below f c, j ∈ w.below f c ∨ w.ops.size ≤ j
  expand : (w'.expand f c).Perm (w.expand f c)
  ones : AllOnes w' f c
  kind : (w'.op c).isComp = (w.op c).isComp

/-- invariant of the recursion into the nodes `K` of a composite (started in `w4`): the nodes stay a forest made of their
    old objects and fresh ones, with the same expansions; the nodes in `P` have been processed. -/
structure KidsInv (w4 : World) (f : Nat) (K : List Nat) (w : World) (P : List Nat) : Prop where
  size : w4.ops.size ≤ w.ops.size
  rreg : w.rreg = w4.rreg
  frame : ∀ j, j < w4.ops.size → (∀ k ∈ K, j ∉ w4.below f k) → w.op j = w4.op j
  forest : Forest w f K
  sub : ∀ k ∈ K, ∀ j ∈ w.below f k, j ∈ w4.below f k ∨ w4.ops.size ≤ j
  expand : ∀ k ∈ K, (w.expand f k).Perm (w4.expand f k)
  ones : ∀ k ∈ P, k ∈ K ∧ AllOnes w f k

theorem kidsInv_step (w4 : World) (f : Nat) (K : List Nat) (w : World) (P : List Nat) (n : Nat) (w' : World)
    (h : KidsInv w4 f K w P) (hn : n ∈ K) (hs : UnrollSpec w f n w') : KidsInv w4 f K w' (P ++ [n]) := by
  have hlt : ∀ k ∈ K, ∀ j ∈ w.below f k, j < w.ops.size := fun k hk => below_lt w f k (h.forest.tree k hk)
  -- the other nodes are not touched
  have hsame : ∀ k ∈ K, k ≠ n → ∀ j ∈ w.below f k, w'.op j = w.op j := by
    intro k hk hkn j hj
    exact hs.frame j (hlt k hk j hj) (h.forest.disj k hk n hn hkn j hj)
  have hb : ∀ k ∈ K, k ≠ n → w'.below f k = w.below f k := fun k hk hkn =>
    below_congr w w' f k (fun j hj => op_eq_noLink (hsame k hk hkn j hj))
  refine ⟨Nat.le_trans h.size hs.size, hs.rreg.trans h.rreg, ?_, ⟨h.forest.nodup, ?_, ?_⟩, ?_, ?_, ?_⟩
  · intro j hj hout
    have hjn : j ∉ w.below f n := by
      intro hmem
      rcases h.sub n hn j hmem with h1 | h1
      · exact hout n hn h1
      · omega
    rw [hs.frame j (Nat.lt_of_lt_of_le hj h.size) hjn]
    exact h.frame j hj hout
  · intro k hk
    by_cases hkn : k = n
    · subst hkn; exact hs.tree
    · exact tree_congr w w' hs.size f k (h.forest.tree k hk)
        (fun j hj => op_eq_noLink (hsame k hk hkn j hj))
  · intro a ha b hb' hab j hja hjb
    by_cases han : a = n
    · subst han
      have hbn : b ≠ a := fun e => hab e.symm
      rw [hb b hb' hbn] at hjb
      rcases hs.sub j hja with h1 | h1
      · exact h.forest.disj a ha b hb' hab j h1 hjb
      · have := hlt b hb' j hjb; omega
    · rw [hb a ha han] at hja
      by_cases hbn : b = n
      · subst hbn
        rcases hs.sub j hjb with h1 | h1
        · exact h.forest.disj a ha b hb' hab j hja h1
        · have := hlt a ha j hja; omega
      · rw [hb b hb' hbn] at hjb
        exact h.forest.disj a ha b hb' hab j hja hjb
  · intro k hk j hj
    by_cases hkn : k = n
    · subst hkn
      rcases hs.sub j hj with h1 | h1
      · exact h.sub k hk j h1
      · exact Or.inr (Nat.le_trans h.size h1)
    · rw [hb k hk hkn] at hj
      exact h.sub k hk j hj
  · intro k hk
    by_cases hkn : k = n
    · subst hkn; exact hs.expand.trans (h.expand k hk)
    · rw [expand_congr w w' hs.rreg f k (fun j hj => op_eq_noLink (hsame k hk hkn j hj))]
      exact h.expand k hk
  · intro k hk
    by_cases hkn : k = n
    · subst hkn; exact ⟨hn, hs.ones⟩
    · rcases List.mem_append.mp hk with hk | hk
      · obtain ⟨hkK, hko⟩ := h.ones k hk
        exact ⟨hkK, allOnes_congr w w' f k hko (fun j hj => op_eq_noLink (hsame k hkK hkn j hj))⟩
      · simp only [List.mem_singleton] at hk; exact absurd hk hkn

theorem kidsInv_fold (w4 : World) (f g : Nat) (K : List Nat) (hf : f ≤ w4.depthFuel)
    (ih : ∀ (w : World) (n : Nat), TreeBelow w f n → f ≤ w.depthFuel → UnrollSpec w f n (w.applyModifiers g n)) :
    ∀ (L : List Nat) (w : World) (P : List Nat), KidsInv w4 f K w P → (∀ n ∈ L, n ∈ K) →
      KidsInv w4 f K (L.foldl (fun w n => w.applyModifiers g n) w) (P ++ L) := by
  intro L
  induction L with
  | nil => intro w P h _; simpa using h
  | cons n ns ihL =>
    intro w P h hL
    simp only [List.foldl_cons]
    have hn := hL n List.mem_cons_self
    have hfw : f ≤ w.depthFuel := by
      have := h.size
      unfold World.depthFuel at hf ⊢
      omega
    have hs := ih w n (h.forest.tree n hn) hfw
    have := ihL (w.applyModifiers g n) (P ++ [n]) (kidsInv_step w4 f K w P n _ h hn hs)
      (fun m hm => hL m (List.mem_cons_of_mem _ hm))
    rw [List.append_assoc, List.singleton_append] at this
    exact this

/-! ### the main theorem -/

theorem applyModifiers_leaf (w : World) (g o : Nat) (h : (w.op o).isComp = false) : w.applyModifiers g o = w := by
  cases g with
  | zero => rfl
  | succ g => simp [World.applyModifiers, h]

/-- the repetition loop of `applyModifiers`: `n` times copy `orig` and extend `c` with the copy. -/
def repLoop (c orig n : Nat) (w : World) : World :=
  (List.range n).foldl (fun (w1 : World) _ => (w1.copy orig).1.extend c (w1.copy orig).2) w

/-- `applyModifiers` on a composite before the recursion into the nodes: pristine copy, repetition loop, count := 1. -/
def unrollTop (w : World) (c : Nat) : World :=
  (repLoop c (w.copy c).2 (w.repCount (w.op c).rep - 1) (w.copy c).1).setOp c
    { (repLoop c (w.copy c).2 (w.repCount (w.op c).rep - 1) (w.copy c).1).op c with rep := .fixed 1 }

theorem applyModifiers_comp (w : World) (g c : Nat) (h : (w.op c).isComp = true) :
    w.applyModifiers (g + 1) c =
      (listing ((unrollTop w c).op c).graph).foldl (fun (w1 : World) n => w1.applyModifiers g n) (unrollTop w c) := by
  rw [World.applyModifiers]
  simp only [h, Bool.not_true, Bool.false_eq_true, if_false]
  rfl

/-- the heap after the pristine copy, the repetition loop and the reset of the count (before the recursion). -/
structure TopSpec (w : World) (f c : Nat) (w4 : World) : Prop where
  size : w.ops.size ≤ w4.ops.size
  rreg : w4.rreg = w.rreg
  frame : ∀ j, j < w.ops.size → j ≠ c → w4.op j = w.op j
  ccomp : (w4.op c).isComp = true
  crep : (w4.op c).rep = .fixed 1
  cforest : Forest w4 f (w4.kids c)
  csub : ∀ n ∈ w4.kids c, ∀ j ∈ w4.below f n, j ≠ c ∧ (j ∈ w.below (f + 1) c ∨ w.ops.size ≤ j)
  ccontent : (w4.content f c).Perm (repeatList (w.repCount (w.op c).rep - 1 + 1) (w.content f c))

theorem unrollTop_spec (w : World) (f c : Nat) (ht : TreeBelow w (f + 1) c) (hcomp : (w.op c).isComp = true)
    (hf : f + 1 ≤ w.depthFuel) : TopSpec w f c (unrollTop w c) := by
  have hc := ht.lt
  obtain ⟨hid, base⟩ := repInvT_base w f c ht hcomp hf
  have loop := repInvT_loop w c f hc hf (List.range (w.repCount (w.op c).rep - 1)) (w.copy c).1 0 base
  rw [List.length_range, Nat.zero_add] at loop
  unfold unrollTop repLoop
  rw [hid]
  generalize (List.range (w.repCount (w.op c).rep - 1)).foldl
    (fun (w1 : World) _ => (w1.copy w.ops.size).1.extend c (w1.copy w.ops.size).2) (w.copy c).1 = w3 at loop
  have hc3 : c < w3.ops.size := Nat.lt_trans hc loop.size
  have hop : ∀ j, (w3.setOp c { w3.op c with rep := .fixed 1 }).op j =
      if c = j then { w3.op c with rep := .fixed 1 } else w3.op j := by
    intro j; rw [op_setOp]
    by_cases hj : c = j
    · subst hj; simp only [hc3, and_self, if_true]
    · simp only [hj, false_and, if_false]
  have hopc : (w3.setOp c { w3.op c with rep := .fixed 1 }).op c = { w3.op c with rep := .fixed 1 } := by
    rw [hop c, if_pos rfl]
  have hother : ∀ j, j ≠ c → (w3.setOp c { w3.op c with rep := .fixed 1 }).op j = w3.op j := by
    intro j hj; rw [hop j, if_neg (fun e => hj e.symm)]
  have hk : (w3.setOp c { w3.op c with rep := .fixed 1 }).kids c = w3.kids c := by
    unfold World.kids; rw [hopc]
  have hsame : ∀ n ∈ w3.kids c, ∀ j ∈ w3.below f n,
      ((w3.setOp c { w3.op c with rep := .fixed 1 }).op j).noLink = (w3.op j).noLink :=
    fun n hn j hj => op_eq_noLink (hother j (loop.csub n hn j hj).1)
  obtain ⟨hF, hb⟩ := loop.cforest.congr (w' := w3.setOp c { w3.op c with rep := .fixed 1 })
    (by rw [setOp_size]; exact Nat.le_refl _) hsame
  have hrr : (w3.setOp c { w3.op c with rep := .fixed 1 }).rreg = w3.rreg := rfl
  refine ⟨?_, hrr.trans loop.rreg, ?_, ?_, ?_, ?_, ?_, ?_⟩
  · rw [setOp_size]; exact Nat.le_of_lt loop.size
  · intro j hj hjc
    rw [hother j hjc]; exact loop.frame j hj hjc
  · rw [hopc]; exact loop.ccomp
  · rw [hopc]
  · rw [hk]; exact hF
  · intro n hn j hj
    rw [hk] at hn
    rw [hb n hn] at hj
    exact loop.csub n hn j hj
  · have : (w3.setOp c { w3.op c with rep := .fixed 1 }).content f c = w3.content f c := by
      unfold World.content
      rw [hk]
      apply flatMap_congr'
      intro n hn
      exact expand_congr w3 _ hrr f n (hsame n hn)
    rw [this]
    exact loop.ccontent

/-- **nested unrolling**: on a tree `c` of depth ≤ `f` (fuel `g ≥ f` for the recursion, `f ≤ depthFuel` for the copies)
    `applyModifiers` keeps the count-expanded multiset of leaf signatures, leaves every count `fixed 1`, keeps the heap
    below `c` a tree made of old objects below `c` and fresh ones, writes nothing else and keeps the count registry. -/
theorem applyModifiers_tree : ∀ (f : Nat) (w : World) (c g : Nat), TreeBelow w f c → f ≤ g → f ≤ w.depthFuel →
    UnrollSpec w f c (w.applyModifiers g c) := by
  intro f
  induction f with
  | zero => intro w c g h _ _; exact h.elim
  | succ f ih =>
    intro w c g ht hg hf
    by_cases hcomp : (w.op c).isComp = true
    · cases g with
      | zero => omega
      | succ g =>
        rw [applyModifiers_comp w g c hcomp]
        have top := unrollTop_spec w f c ht hcomp hf
        generalize unrollTop w c = w4 at top
        have hc := ht.lt
        have hc4 : c < w4.ops.size := Nat.lt_of_lt_of_le hc top.size
        have base : KidsInv w4 f (w4.kids c) w4 [] :=
          ⟨Nat.le_refl _, rfl, fun _ _ _ => rfl, top.cforest, fun _ _ j hj => Or.inl hj,
            fun _ _ => List.Perm.refl _, fun _ h => (by cases h)⟩
        have hp : (listing (w4.op c).graph).Perm (w4.kids c) := listing_perm _
        have hf4 : f ≤ w4.depthFuel := by
          have := top.size
          unfold World.depthFuel at hf ⊢
          omega
        have hfin := kidsInv_fold w4 f g (w4.kids c) hf4
          (fun w' n h' hf' => ih w' n g h' (by omega) hf') (listing (w4.op c).graph) w4 [] base
          (fun n hn => hp.mem_iff.mp hn)
        rw [List.nil_append] at hfin
        generalize (listing (w4.op c).graph).foldl (fun (w1 : World) n => w1.applyModifiers g n) w4 = wf at hfin
        -- `c` itself is not touched by the recursion
        have hcout : ∀ k ∈ w4.kids c, c ∉ w4.below f k := fun k hk hmem => (top.csub k hk c hmem).1 rfl
        have hopc : wf.op c = w4.op c := hfin.frame c hc4 hcout
        have hk : wf.kids c = w4.kids c := by unfold World.kids; rw [hopc]
        have hcompf : (wf.op c).isComp = true := by rw [hopc]; exact top.ccomp
        have hcf : c < wf.ops.size := Nat.lt_of_lt_of_le hc4 hfin.size
        refine ⟨Nat.le_trans top.size hfin.size, hfin.rreg.trans top.rreg, ?_, ?_, ?_, ?_, ?_,
          by rw [hcompf, hcomp]⟩
        · intro j hj hout
          have hjc : j ≠ c := fun e => hout (e ▸ self_mem_below w f c)
          rw [hfin.frame j (Nat.lt_of_lt_of_le hj top.size), top.frame j hj hjc]
          intro k hk hmem
          rcases (top.csub k hk j hmem).2 with h1 | h1
          · exact hout h1
          · omega
        · refine TreeBelow.of_forest hcf hcompf (hk ▸ hfin.forest) ?_
          intro k hk' hmem
          rw [hk] at hk'
          rcases hfin.sub k hk' c hmem with h1 | h1
          · exact hcout k hk' h1
          · omega
        · intro j hj
          rw [mem_below_comp wf f c j hcompf] at hj
          rcases hj with rfl | ⟨k, hk', hj⟩
          · exact Or.inl (self_mem_below w f j)
          · rw [hk] at hk'
            rcases hfin.sub k hk' j hj with h1 | h1
            · exact (top.csub k hk' j h1).2
            · exact Or.inr (Nat.le_trans top.size h1)
        · rw [expand_comp wf f c hcompf, expand_comp w f c hcomp, hopc, top.crep]
          have h1 : max 1 (wf.repCount (.fixed 1)) = 1 := rfl
          have h2 : max 1 (w.repCount (w.op c).rep) = w.repCount (w.op c).rep - 1 + 1 := by omega
          rw [h1, h2, repeatList_one]
          refine List.Perm.trans ?_ top.ccontent
          unfold World.content
          rw [hk]
          exact perm_flatMap_congr hfin.expand
        · intro _
          refine ⟨by rw [hopc]; exact top.crep, ?_⟩
          intro n hn
          rw [hk] at hn
          exact (hfin.ones n (hp.mem_iff.mpr hn)).2
    · have hl : (w.op c).isComp = false := by simpa using hcomp
      rw [applyModifiers_leaf w g c hl]
      exact ⟨Nat.le_refl _, rfl, fun _ _ _ => rfl, ht, fun j hj => Or.inl hj, List.Perm.refl _,
        fun h => (by rw [hl] at h; cases h), rfl⟩

/-! ### idempotence: on a tree whose counts are all `fixed 1` nothing that exists is written -/

/-- `w'` extends `w`: every object of `w` is exactly as it was (only fresh objects were allocated). -/
structure NoWrite (w w' : World) : Prop where
  size : w.ops.size ≤ w'.ops.size
  rreg : w'.rreg = w.rreg
  old : ∀ j, j < w.ops.size → w'.op j = w.op j

theorem NoWrite.refl (w : World) : NoWrite w w := ⟨Nat.le_refl _, rfl, fun _ _ => rfl⟩

theorem NoWrite.trans {a b c : World} (h1 : NoWrite a b) (h2 : NoWrite b c) : NoWrite a c :=
  ⟨Nat.le_trans h1.size h2.size, h2.rreg.trans h1.rreg,
    fun j hj => (h2.old j (Nat.lt_of_lt_of_le hj h1.size)).trans (h1.old j hj)⟩

/-- a tree, its objects, its expansion and its counts are the same in an extension of the heap. -/
theorem NoWrite.keeps {w w' : World} (h : NoWrite w w') {f o : Nat} (ht : TreeBelow w f o) :
    TreeBelow w' f o ∧ w'.below f o = w.below f o ∧ w'.expand f o = w.expand f o ∧
    (AllOnes w f o → AllOnes w' f o) := by
  have hsame : ∀ j ∈ w.below f o, (w'.op j).noLink = (w.op j).noLink :=
    fun j hj => op_eq_noLink (h.old j (below_lt w f o ht j hj))
  exact ⟨tree_congr w w' h.size f o ht hsame, below_congr w w' f o hsame, expand_congr w w' h.rreg f o hsame,
    fun ha => allOnes_congr w w' f o ha hsame⟩

theorem rep_one_eq (o : Op) (h : o.rep = .fixed 1) : { o with rep := .fixed 1 } = o := by
  cases o with
  | mk cls qs chan dur link tag reg ints rep graph =>
    simp only at h
    subst h
    rfl

theorem applyModifiers_ones : ∀ (f : Nat) (w : World) (c g : Nat), TreeBelow w f c → AllOnes w f c → f ≤ g →
    f ≤ w.depthFuel → NoWrite w (w.applyModifiers g c) := by
  intro f
  induction f with
  | zero => intro w c g h _ _ _; exact h.elim
  | succ f ih =>
    intro w c g ht ha hg hf
    by_cases hcomp : (w.op c).isComp = true
    · cases g with
      | zero => omega
      | succ g =>
        rw [applyModifiers_comp w g c hcomp]
        obtain ⟨hrep, hkids⟩ := ha hcomp
        have hc := ht.lt
        have hcs := copy_tree w (f + 1) c ht hf
        -- the repetition loop is empty and the reset of the count writes the value that is there
        have htop : ∀ j, (unrollTop w c).op j = (w.copy c).1.op j := by
          intro j
          unfold unrollTop repLoop
          rw [hrep]
          have : w.repCount (.fixed 1) - 1 = 0 := rfl
          rw [this]
          simp only [List.range_zero, List.foldl_nil]
          rw [op_setOp]
          split
          · rename_i hh
            rw [← hh.1, hcs.old c hc]
            exact rep_one_eq _ hrep
          · rfl
        have htopsize : (unrollTop w c).ops.size = (w.copy c).1.ops.size := by
          unfold unrollTop; rw [setOp_size]; unfold repLoop
          rw [hrep]
          have : w.repCount (.fixed 1) - 1 = 0 := rfl
          rw [this]
          simp only [List.range_zero, List.foldl_nil]
        have htoprreg : (unrollTop w c).rreg = (w.copy c).1.rreg := by
          unfold unrollTop repLoop
          rw [hrep]
          have : w.repCount (.fixed 1) - 1 = 0 := rfl
          rw [this]
          simp only [List.range_zero, List.foldl_nil]
          rfl
        have top : NoWrite w (unrollTop w c) :=
          ⟨by rw [htopsize]; exact Nat.le_of_lt hcs.size, htoprreg.trans hcs.rreg,
            fun j hj => (htop j).trans (hcs.old j hj)⟩
        have hgraph : (unrollTop w c).op c = w.op c := top.old c hc
        rw [hgraph]
        generalize unrollTop w c = w4 at top
        have hp : (listing (w.op c).graph).Perm (w.kids c) := listing_perm _
        have key : ∀ (L : List Nat) (wj : World), NoWrite w wj → (∀ n ∈ L, n ∈ w.kids c) →
            NoWrite w (L.foldl (fun (w1 : World) n => w1.applyModifiers g n) wj) := by
          intro L
          induction L with
          | nil => intro wj h _; exact h
          | cons n ns ihL =>
            intro wj h hL
            simp only [List.foldl_cons]
            have hn := hL n List.mem_cons_self
            obtain ⟨k1, _, _, k4⟩ := h.keeps (ht.kid hcomp hn)
            have hfj : f ≤ wj.depthFuel := by
              have := h.size
              unfold World.depthFuel at hf ⊢
              omega
            have := ih wj n g k1 (k4 (hkids n hn)) (by omega) hfj
            exact ihL _ (h.trans this) (fun m hm => hL m (List.mem_cons_of_mem _ hm))
        exact key _ w4 top (fun n hn => hp.mem_iff.mp hn)
    · have hl : (w.op c).isComp = false := by simpa using hcomp
      rw [applyModifiers_leaf w g c hl]
      exact NoWrite.refl w

/-! ### with all counts 1 the expansion is the plain operation listing -/

theorem expand_ones_leafListing (w : World) : ∀ (f c g : Nat), f ≤ g → TreeBelow w f c → AllOnes w f c →
    (w.op c).isComp = true → (w.expand f c).Perm ((w.leafListing g c).map (fun n => (w.op n).sig)) := by
  intro f
  induction f with
  | zero => intro c g _ h _ _; exact h.elim
  | succ f ih =>
    intro c g hg ht ha hcomp
    cases g with
    | zero => omega
    | succ g =>
      obtain ⟨hrep, hkids⟩ := ha hcomp
      rw [expand_comp w f c hcomp, hrep]
      have h1 : max 1 (w.repCount (.fixed 1)) = 1 := rfl
      rw [h1, repeatList_one]
      unfold World.content World.leafListing
      rw [List.map_flatMap]
      have hp : (listing (w.op c).graph).Perm (w.kids c) := listing_perm _
      refine (List.Perm.flatMap_right _ hp.symm).trans ?_
      apply perm_flatMap_congr
      intro n hn
      have hnk := hp.mem_iff.mp hn
      have htn := ht.kid hcomp hnk
      by_cases hcn : (w.op n).isComp = true
      · rw [if_pos hcn]
        exact ih n g (by omega) htn (hkids n hnk) hcn
      · have hl : (w.op n).isComp = false := by simpa using hcn
        rw [if_neg hcn]
        cases f with
        | zero => exact htn.elim
        | succ f => rw [expand_leaf w f n hl]; exact List.Perm.refl _

end Qco
