"""C15 — OpenQL export is the in-order image of the circuit.

The calls `to_openql` makes are recorded with Kernel/Program doubles installed by replacing
`PlatformManager.construct_program / construct_kernel` (exportrun.OpenQLRecorder; nothing is written into /repo, the
real OpenQL platform used for the second export lives in a private temporary directory removed at exit).

Parts of the check
  A. proof obligations (Properties/C15.lean) + axiom audit;
  B. per-class correspondence: model table (`heap openqltable`) vs the live `OpenQLFactoryManager` lookup, and
     `heap openqlop` vs the export of a one-operation circuit for all 26 classes and a sweep of wait durations;
  C. build programs (flat and nested, all kinds, counts 1–3): `openql c` — the complete trace of the pure recording
     doubles (program/kernel construction with the uuid-derived names, every kernel call, add_program / add_kernel,
     in call order) — vs the model's trace; `openqlexec c` (execution order of the exported program) and
     `openqlinorder c` (in-order image) vs the model; `list c` afterwards (the export lists the circuit with the
     mutating listing);
  D. property predicate on the implementation (probe `C15`), on a second export that drives REAL OpenQL objects:
       flat   : no exception, executed calls == independent translation of `c.operations`, names == uuid5 of its
                class names, names equal in both exports;
       nested : executed calls == in-order image, else known finding R6 iff (calls equal up to sub-program position)
                or (OpenQL raises `duplicate kernel name`, exactly when the recorded names predict it);
  E. thorough tier: `Program.compile()` offline, the cQASM body is compared with the recorded calls.
"""
from __future__ import annotations
import json
import math
import random
import time
from collections import Counter

from . import common, progs, stream, streamcheck, probes, exportrun

PROP = 'C15'

QL_DOC = {'Reset': 'prepz', 'Hadamard': 'h', 'Identity': 'i', 'DispersiveMeasure': 'measure', 'Rx180': 'x180',
          'Rx90': 'x90', 'Rxm90': 'mx90', 'Ry180': 'y180', 'Ry90': 'y90', 'Rym90': 'my90'}
QL_SPECIAL = {'Barrier', 'Wait', 'CPhase'}
QL_SUPPORTED = set(QL_DOC) | QL_SPECIAL

R6_INPUT_CLASS = 'circuit_has_subcircuit'
R6_SIGNATURE = 'calls equal up to sub-program position, or raises duplicate kernel name'


# ----------------------------------------------------------------------------- independent translation

def ql_translate(op):
    """documented kernel calls of one operation (exact class; subclasses are not exported)."""
    n = type(op).__name__
    qs = progs.qubits_of(op)
    if n in QL_DOC:
        return [f'g:{QL_DOC[n]}:{qs[0]}']
    if n == 'Barrier':
        return ['b:' + ','.join(str(q) for q in qs)]
    if n == 'Wait':
        return [f'w:{qs[0]}:{math.floor(op.duration)}']
    if n == 'CPhase':
        c, t = qs
        return [f'cz:{c},{t}', f'b:{c},{t}', f'u:update_ph:{c}', f'u:update_ph:{t}']
    return []


def ql_expected_tree(structure):
    a = progs.api()
    out = []
    for o in progs.graph_nodes(structure):
        if isinstance(o, a.CircuitCompositeOperation):
            out.extend(ql_expected_tree(o) * o.nr_of_repetitions)
        else:
            out.extend(ql_translate(o))
    return out


def sub_counts(structure):
    a = progs.api()
    out = []
    for o in progs.graph_nodes(structure):
        if isinstance(o, a.CircuitCompositeOperation):
            out.append(o.nr_of_repetitions)
            out.extend(sub_counts(o))
    return out


def predict_duplicate(tokens):
    """does OpenQL raise `duplicate kernel name` on this trace? (kernel names per program, checked at every add)"""
    stack, last = [], []
    for t in tokens:
        if t.startswith('open='):
            stack.append([t.split('|', 1)[1], []])
        elif t == 'ap':
            for nm in last:
                if nm in stack[-1][1]:
                    return True
                stack[-1][1].append(nm)
        elif t == 'close':
            kn, names = stack.pop()
            if kn in names:
                return True
            last = names + [kn]
    return False


def qasm_form(calls):
    """recorded calls → the lines OpenQL 0.12 writes for them (prepz → prep_z, wait 0 → barrier, wait d ns →
    ceil(d / 20 ns) cycles)."""
    out = []
    for c in calls:
        p = c.split(':')
        if p[0] == 'g':
            out.append(f'{"prep_z" if p[1] == "prepz" else p[1]} q[{p[2]}]')
        elif p[0] == 'u':
            out.append(f'{p[1]} q[{p[2]}]')
        elif p[0] == 'cz':
            a, b = p[1].split(',')
            out.append(f'cz q[{a}], q[{b}]')
        elif p[0] == 'b':
            out.append('barrier ' + ', '.join(f'q[{q}]' for q in p[1].split(',')))
        elif p[0] == 'w':
            d = int(p[2])
            out.append(f'barrier q[{p[1]}]' if d == 0 else f'wait {-(-d // 20)}, q[{p[1]}]')
        else:
            out.append('?' + c)
    return out


def qasm_body(text):
    return [ln.strip() for ln in text.splitlines()
            if ln.strip() and not ln.startswith('#') and not ln.strip().startswith(('version', 'pragma', '.', 'qubits'))]


class C15Run(exportrun.ExportRun):
    openql_real = True
    openql_compile = False

    def step(self, cmd):
        if cmd[0] == 'openqlinorder':
            return ';'.join(ql_expected_tree(self.circs[cmd[1]].circuit_structure)) or '-'
        return super().step(cmd)


class C15RunCompile(C15Run):
    openql_compile = True


@probes.register
class OpenQLProbe(probes.Probe):
    name = 'C15'

    def after(self, run, i, cmd, ans):
        if cmd[0] != 'openql' or run.last_openql is None or ans in (None, 'undef'):
            return []
        fails = []
        info = run.last_openql
        circ = run.circs[cmd[1]]
        st = circ.circuit_structure
        counts = sub_counts(st)
        nested = bool(counts)
        if info['exc'] is not None:
            return [{'what': 'exporter raises with recording doubles', 'exc': info['exc']}]
        toks = info['tokens']
        expected = ql_expected_tree(st)
        actual = info['exec']
        # names: deterministic and derived from the class names of the listing
        ops = circ.operations          # the export already listed the circuit (construct_uuid); no further mutation
        pn, kn = exportrun.uuid_names([type(o).__name__ for o in ops])
        if not toks or toks[0] != f'open={pn}|{kn}':
            fails.append({'what': 'program/kernel name is not uuid5 of the class names of the listing',
                          'got': toks[:1], 'expected': f'open={pn}|{kn}'})
        if info['real_log'] is not None:
            names = lambda lg: [e[2] for e in lg if e[0] in ('program', 'kernel')]
            n0, n1 = names(info['log']), names(info['real_log'])
            if n1 != n0[:len(n1)]:
                fails.append({'what': 'the same circuit yields different program/kernel names on a second export'})
        dup = predict_duplicate(toks)
        rexc = info['real_exc']
        is_dup_exc = rexc is not None and 'duplicate kernel name' in rexc
        if rexc is not None and not is_dup_exc:
            fails.append({'what': 'OpenQL raises something else than duplicate kernel name', 'exc': rexc})
        elif info['real_log'] is not None and is_dup_exc != dup:
            fails.append({'what': 'duplicate-kernel-name exception does not match the recorded names',
                          'predicted': dup, 'raised': rexc})
        if not nested:
            if rexc is not None:
                fails.append({'what': 'flat circuit: OpenQL raises', 'exc': rexc})
            listing = [c for o in ops for c in ql_translate(o)]
            if actual != listing or actual != expected:
                pos = next((j for j, (x, y) in enumerate(zip(actual, listing)) if x != y), min(len(actual), len(listing)))
                fails.append({'what': 'flat circuit: executed calls are not the translation of the listing',
                              'first_difference': pos, 'executed': actual[pos:pos + 3], 'expected': listing[pos:pos + 3]})
        else:
            if is_dup_exc:
                fails.append({'what': 'nested circuit: OpenQL raises duplicate kernel name', 'finding': 'R6',
                              'signature': 'raises duplicate kernel name', 'counts': counts[:6]})
            elif actual != expected:
                if Counter(actual) == Counter(expected):
                    fails.append({'what': 'nested circuit: sub-program executes before the parent kernel', 'finding': 'R6',
                                  'signature': 'calls equal up to sub-program position'})
                else:
                    fails.append({'what': 'nested circuit: executed calls differ from the in-order image by more than '
                                          'position', 'executed': actual[:6], 'expected': expected[:6]})
        q = info.get('qasm')
        if q is not None:
            if q.startswith('EXC:'):
                fails.append({'what': 'Program.compile() raises', 'exc': q})
            else:
                want = qasm_form(exportrun.openql_exec(info['real_log']))
                got = qasm_body(q)
                if want != got:
                    pos = next((j for j, (x, y) in enumerate(zip(got, want)) if x != y), min(len(got), len(want)))
                    fails.append({'what': 'cQASM written by compile() differs from the recorded calls',
                                  'first_difference': pos, 'qasm': got[pos:pos + 3], 'recorded': want[pos:pos + 3]})
        return fails


# ----------------------------------------------------------------------------- generator

WEIGHTS = {c: (3.0 if c in QL_SUPPORTED else 1.0) for c in progs.ALL_LEAF}
WEIGHTS['Wait'] = 6.0
WEIGHTS['CPhase'] = 5.0


def gen_program(rng, nested=True):
    cfg = progs.GenConfig(n_cmds=(3, 26), p_list=0.04, p_apply=0.03 if nested else 0.0, p_flatten=0.02, p_gdur=0.03,
                          p_setreg=0.05, p_new=0.13 if nested else 0.0, p_sub=0.14 if nested else 0.0,
                          p_copy=0.02 if nested else 0.0, final_list=False,
                          class_weights=[WEIGHTS[c] for c in progs.ALL_LEAF])
    base = progs.gen_program(rng, cfg)
    prog = []
    nc = 0
    for cmd in base:
        cmd = json.loads(json.dumps(cmd))
        if cmd[0] in ('new', 'copy'):
            nc += 1
        if cmd[0] == 'op' and cmd[2] == 'Wait' and rng.random() < 0.5:
            cmd[5] = f'f{rng.choice([0, 2, 4, 8, 12, 16, 20, 36, 160, 168, 400])}'
        prog.append(cmd)
        if rng.random() < 0.06:
            c = rng.randrange(nc)
            prog += [['openql', c], ['openqlexec', c], ['openqlinorder', c]]
            if rng.random() < 0.5:
                prog.append(['list', c])
    order = list(range(nc))
    rng.shuffle(order)
    for c in order:
        prog += [['openql', c], ['openqlexec', c], ['openqlinorder', c]]
        if rng.random() < 0.5:
            prog.append(['list', c])
    return prog


def forced_programs():
    G = lambda c, cls, qs, dur=None: ['op', c, cls, qs, 'A', dur, 0, c, [], None]
    obs = lambda c: [['openql', c], ['openqlexec', c], ['openqlinorder', c], ['list', c]]
    out = []
    # every class of the table, flat
    p = [['new', 'f1']]
    for cls in ['Reset', 'Hadamard', 'Identity', 'Rx180', 'Rx90', 'Rxm90', 'Ry180', 'Ry90', 'Rym90', 'DispersiveMeasure']:
        p.append(G(0, cls, [1]))
    p += [G(0, 'Wait', [0], 'f20'), G(0, 'Wait', [0], 'f4'), G(0, 'Barrier', [0, 1, 2]), G(0, 'CPhase', [2, 0]),
          G(0, 'Rx180ef', [0]), G(0, 'CoordinateShiftOperation', [0, 1])]
    p[-1][8] = [0, 0]
    out.append(p + obs(0))
    # the witness: x180; sub{y90}; x90
    out.append([['new', 'f1'], ['new', 'f1'], G(1, 'Ry90', [0]), G(0, 'Rx180', [0]), ['sub', 0, 1], G(0, 'Rx90', [0])]
               + obs(0))
    # sub-circuit first: in order even though nested
    out.append([['new', 'f1'], ['new', 'f1'], G(1, 'Ry90', [0]), ['sub', 0, 1], G(0, 'Rx90', [0])] + obs(0))
    # count 2: duplicate kernel name
    out.append([['new', 'f1'], ['new', 'f2'], G(1, 'Ry90', [0]), G(0, 'Rx180', [0]), ['sub', 0, 1]] + obs(0))
    # two sub-circuits with the same class sequence; a parent whose only content is a sub-circuit
    out.append([['new', 'f1'], ['new', 'f1'], G(1, 'Ry90', [0]), G(0, 'Rx180', [1]), ['sub', 0, 1], ['sub', 0, 1]] + obs(0))
    out.append([['new', 'f1'], ['new', 'f1'], G(1, 'Ry90', [0]), ['sub', 0, 1]] + obs(0))
    # three levels
    out.append([['new', 'f1'], ['new', 'f1'], ['new', 'f1'], G(2, 'Hadamard', [0]), G(1, 'Rx90', [0]), ['sub', 1, 2],
                G(1, 'Ry90', [1]), G(0, 'Reset', [0]), ['sub', 0, 1], G(0, 'DispersiveMeasure', [0])] + obs(0) + obs(1))
    # empty circuit, empty sub-circuit, own count > 1
    out.append([['new', 'f3'], G(0, 'Rx180', [0])] + obs(0))
    out.append([['new', 'f1'], ['new', 'f1'], ['sub', 0, 1]] + obs(0) + obs(1))
    return out


# ----------------------------------------------------------------------------- per-class correspondence

def live_table():
    rec = exportrun.OpenQLRecorder()
    lookup = rec.manager()._factory.factory_lookup
    return {cls.__name__: (getattr(fac, '_operation_name', None) or '*') for cls, fac in lookup.items()}


def impl_single(cls, qs, dur):
    r = C15Run()
    try:
        r.step(['new', 'f1'])
        ints = {'CoordinateShiftOperation': [0, 0], 'DetectorOperation': [None] * 5,
                'LogicalObservableOperation': [1, 1]}.get(cls, [])
        r.step(['op', 0, cls, qs, 'A', dur, 0, 0, ints, None])
        r.step(['openql', 0])
        info = r.last_openql
        if info['exc'] or info['real_exc']:
            return f"EXC:{info['exc'] or info['real_exc']}"
        return ';'.join(info['exec']) or '-'
    finally:
        r.close()


def check_tables(oc, stats):
    import contextlib, io, warnings
    n_bad = 0
    model_tab = dict(x.split('=') for x in common.run_driver(['heap openqltable'])[0].split(','))
    live = live_table()
    doc = {**QL_DOC, **{k: '*' for k in QL_SPECIAL}}
    if not (model_tab == live == doc):
        n_bad += 1
        diff = {k: (model_tab.get(k), live.get(k), doc.get(k)) for k in set(model_tab) | set(live) | set(doc)
                if not (model_tab.get(k) == live.get(k) == doc.get(k))}
        oc.violation({'property': PROP, 'kind': 'instruction-table', 'unchecked': 'C15.openql_table',
                      'difference (model, live, documented)': diff}, found_input=live != doc)
    cases = []
    for cls in progs.ALL_LEAF:
        qs = [1, 2] if cls in progs.TWO else ([0, 2] if cls in ('Barrier', 'CoordinateShiftOperation') else [2])
        cases.append((cls, qs, None))
    for d in list(range(0, 41)) + [159, 160, 161, 167, 168, 800, 801]:
        cases.append(('Wait', [1], f'f{d}'))
    for g in 'RMFS':
        cases.append(('Wait', [0], f'g{g}'))
    cases.append(('Wait', [0], 'd'))
    lines = [f'heap openqlop {cls} {progs._ints(qs)} {dur or "-"}' for cls, qs, dur in cases]
    amb = progs.ambient_durations()
    model = common.run_driver(['heap reset', 'heap gdur %d %d %d %d' % tuple(amb)] + lines)[2:]
    with contextlib.redirect_stderr(io.StringIO()), warnings.catch_warnings():
        warnings.simplefilter('ignore')
        for (cls, qs, dur), mo in zip(cases, model):
            io_ = impl_single(cls, qs, dur)
            if io_ != mo:
                n_bad += 1
                if n_bad <= 3:
                    oc.violation({'property': PROP, 'kind': 'single-operation translation', 'operation': [cls, qs, dur],
                                  'implementation': io_, 'model': mo, 'unchecked': 'C15.openql_table'},
                                 found_input=False)
    stats['single_operation_cases'] = len(cases)
    stats['table_entries'] = len(live)
    return n_bad


# ----------------------------------------------------------------------------- the check

def r6_entry():
    for f in common.load_findings():
        if f.get('id') == 'R6' and f.get('status') == 'open' and PROP in f.get('properties', []):
            return f
    return None


def model_lines_fix(programs, ambient):
    """model answers with the `openql` traces converted to the names `construct` derives."""
    model = stream.run_model_many(programs, ambient)
    for p, mo in zip(programs, model):
        for i, cmd in enumerate(p):
            if cmd[0] == 'openql' and i < len(mo) and mo[i] not in ('undef', 'bad-op'):
                mo[i] = exportrun.model_trace_to_names(mo[i])
    return model


def evaluate(programs, ambient, run_cls=C15Run):
    impl = exportrun.run_impl_many(programs, ['C15'], run_cls=run_cls)
    model = model_lines_fix(programs, ambient)
    res = []
    for p, (out, fails), mo in zip(programs, impl, model):
        to = exportrun.timed_out(out)
        res.append({'prog': p, 'impl': out, 'model': mo, 'dis': None if to else exportrun.compare(p, out, mo),
                    'fails': fails, 'timeout': to})
    return res


def nontrivial(prog, f):
    kinds = set(f['cls'])
    return len(kinds & QL_SUPPORTED) >= 3 and any(c[0] == 'openql' for c in prog)


RULE = ('random build programs, a flat stream (one circuit) and a nested stream (nesting <= 4, counts 1-3 fixed and '
        'registry), all 26 operation classes with the 13 exported ones weighted x3, waits with fixed durations incl. '
        'fractional and > 20, global/registry/decoupling durations, overrides; `openql c; openqlexec c; openqlinorder c` '
        '(+ `list c`) at random points and for every circuit at the end; every `openql` is exported twice (recording '
        'doubles; doubles driving real OpenQL objects); non-trivial = >= 3 distinct exported kinds and an export '
        'observed; distinct = distinct program text')


def real_constructor_stage(oc, rng, tier):
    """The determinism clause through the REAL `PlatformManager.construct_program / construct_kernel` (the recording doubles
    replace exactly these two, so whatever they do to a name is invisible to the rest of this check — seeded change C15-m6:
    kernel names made unique with a process-wide counter that only `to_openql()` resets).  Only `openql_platform` is replaced (by
    the recorder's private platform: no config file of the package is read or written).  Flat circuits are exported twice with
    `OpenQLFactoryManager().construct`, once with `to_openql`, compiled, and the cQASM texts — kernel labels included — compared
    with each other and with the uuid-derived names."""
    import contextlib, io, warnings
    rec = exportrun.OpenQLRecorder()
    plat = rec.real_platform()
    PM = rec.pm.PlatformManager
    old = PM.__dict__['openql_platform']
    PM.openql_platform = classmethod(lambda cls: plat)
    n = 25 if tier == 'quick' else 400
    done = fails = 0
    first = None

    class P:           # what compile_qasm expects
        def __init__(self, real):
            self.real, self.name = real, real.name

    try:
        for _ in range(n):
            prog = [c for c in gen_program(random.Random(rng.getrandbits(64)), nested=False) if c[0] in ('new', 'op', 'gdur', 'gdur-leave', 'setreg', 'setrep')]
            run = progs.ImplRun()
            try:
                with contextlib.redirect_stderr(io.StringIO()), warnings.catch_warnings():
                    warnings.simplefilter('ignore')
                    for cmd in prog:
                        run.step(cmd)
                    circ = run.circs[0]
                    texts = []
                    for how in ('construct', 'construct', 'to_openql'):
                        pr = rec.manager().construct(circuit=circ) if how == 'construct' else rec.to_openql(circ)
                        texts.append(exportrun.compile_qasm(P(pr)))
                    _, kn = exportrun.uuid_names([type(o).__name__ for o in circ.operations])
            except RecursionError:
                continue
            except Exception as e:  # noqa — the exporter raising on a flat circuit is judged by the main stage
                texts = None
            finally:
                run.close()
            if texts is None or any(t.startswith('EXC:') for t in texts):
                continue
            done += 1
            labels = [[ln.strip()[1:] for ln in t.splitlines() if ln.strip().startswith('.')] for t in texts]
            bad = None
            if not (texts[0] == texts[1] == texts[2]):
                bad = 'the same circuit exported again through OpenQLFactoryManager().construct / to_openql yields a different cQASM (kernel names)'
            elif any(l != [kn] for l in labels):
                bad = 'kernel label of the compiled program is not the uuid-derived kernel name'
            if bad:
                fails += 1
                if first is None:
                    first = {'what': bad, 'program': prog, 'kernel_labels': labels, 'expected_kernel_name': kn}
    finally:
        PM.openql_platform = old
    if first is not None:
        oc.violation({'property': PROP, 'kind': 'predicate-fails-on-implementation', 'failure': first,
                      'stage': 'real constructors', 'count': fails})
    return {'real_constructor_exports': done * 3, 'real_constructor_failures': fails}


def run(tier: str, seed: int) -> int:
    t0 = time.time()
    oc = common.Outcome(PROP)
    lean = common.proof_obligations(PROP)
    proof_ok = lean['build_ok'] and not lean['failed']
    if not common.driver_available():
        print(f'model driver missing: {lean.get("build_output", "")[-800:]}')
        return 2
    ambient = progs.ambient_durations()
    rng = common.rng_for(seed, PROP)
    run_cls = C15Run if tier == 'quick' else C15RunCompile
    n_flat, n_nested = (350, 600) if tier == 'quick' else (8000, 16000)
    corpus = streamcheck.load_corpus(PROP)
    programs = list(corpus) + forced_programs()
    n_fixed = len(programs)
    kinds = ['fixed'] * n_fixed
    for _ in range(n_flat):
        programs.append(gen_program(random.Random(rng.getrandbits(64)), nested=False))
        kinds.append('flat')
    for _ in range(n_nested):
        programs.append(gen_program(random.Random(rng.getrandbits(64)), nested=True))
        kinds.append('nested')
    results = evaluate(programs, ambient, run_cls)

    feats, obs, exc = {}, Counter(), Counter()
    distinct, nontriv = set(), set()
    n_dis = 0
    for r in results:
        f = progs.features(r['prog'])
        progs.merge_features(feats, f)
        key = streamcheck.canon(r['prog'])
        distinct.add(key)
        if nontrivial(r['prog'], f):
            nontriv.add(key)
        for cmd, ans in zip(r['prog'], r['impl']):
            if cmd[0] == 'openql' and ans is not None:
                n_open = ans.count('open=')
                obs['exports'] += 1
                obs['exports_flat' if n_open == 1 else 'exports_nested'] += 1
                obs['kernel_calls'] += sum(1 for t in ans.split(';') if t[:2] in ('g:', 'u:', 'cz', 'b:', 'w:'))
            if ans and ans.startswith('EXC:'):
                exc[ans.split(':')[1]] += 1
        for fl in r['fails']:
            obs['predicate:' + (fl.get('signature') or fl['what'])] += 1

    def still_fails_probe(what):
        return lambda cand: any(x['what'] == what for x in evaluate([cand], ambient, run_cls)[0]['fails'])

    def still_disagrees(cand):
        return evaluate([cand], ambient, run_cls)[0]['dis'] is not None

    ent = r6_entry()
    reported = set()
    for r in results:
        for fl in r['fails']:
            if fl.get('finding') == 'R6' and r['dis'] is None and ent is not None:
                # input class: the circuit has a sub-circuit (the probe only tags nested circuits);
                # the model gives the same trace and the same execution order on this input (no disagreement)
                oc.known_finding(f"R6: {ent.get('what_fails', 'nested circuit: sub-program before parent kernel / duplicate kernel name')}")
                continue
            if fl['what'] in reported:
                continue
            reported.add(fl['what'])
            small = stream.shrink(r['prog'][:fl['at'] + 1], still_fails_probe(fl['what']))
            rr = evaluate([small], ambient, run_cls)[0]
            payload = {'property': PROP, 'kind': 'predicate-fails-on-implementation', 'failure': fl, 'program': small,
                       'implementation_answers': rr['impl'], 'model_answers': rr['model']}
            if fl.get('finding') == 'R6':
                payload['input_class'] = R6_INPUT_CLASS
                payload['signature'] = R6_SIGNATURE
                payload['note'] = 'matches finding R6 (input class + signature) but known_findings.json has no open ' \
                                  'entry R6 listing C15' if ent is None else 'model and implementation disagree on this input'
            oc.violation(payload)
        if r['dis'] is not None:
            n_dis += 1
            if 'dis' in reported:
                continue
            reported.add('dis')
            i, _, _ = r['dis']
            small = stream.shrink(r['prog'][:i + 1], still_disagrees)
            rr = evaluate([small], ambient, run_cls)[0]
            hard = [x for x in rr['fails'] if x.get('finding') != 'R6']
            oc.violation({'property': PROP, 'kind': 'correspondence-broken',
                          'unchecked': 'correspondence model<->implementation (recorded OpenQL calls of build programs)',
                          'program': small, 'first_difference': rr['dis'], 'implementation_answers': rr['impl'],
                          'model_answers': rr['model'], 'predicate_failures': rr['fails']}, found_input=bool(hard))
    stats = {}
    n_tab = check_tables(oc, stats)
    stats.update(real_constructor_stage(oc, common.rng_for(seed, PROP + '-real'), tier))
    if not proof_ok and not oc.violations:
        oc.violation({'property': PROP, 'kind': 'proof-obligation-broken', 'unchecked': lean.get('failed'),
                      'build_output': lean.get('build_output', '')[-3000:], 'axioms': lean.get('axioms')},
                     found_input=False)

    wall = time.time() - t0
    coverage = {}
    if lean['obligations']:
        coverage.update({'obligations': lean['obligations'], 'discharged': lean['discharged']})
    coverage.update({
        'checker_cmd': lean['checker_cmd'],
        'trusted_base': common.TRUSTED_BASE + [
            'openql: a program executes its kernels in the order they were added and a kernel its gates in the order '
            'they were issued; add_program appends the other program\'s kernels (thorough tier: checked against the '
            'cQASM of Program.compile()); uuid5 (Python uuid module)'],
        'theorems': lean.get('theorems', []),
        'axioms': lean.get('axioms', {}),
        'real_constructor_exports': stats.get('real_constructor_exports'),
        'evaluations': len(results) + stats.get('single_operation_cases', 0),
        'distinct_nontrivial': len(nontriv),
        'rule': RULE,
        'samples': [r['prog'] for r in results[n_fixed:n_fixed + 1]] + [r['prog'] for r in results[-1:]],
        'traces_validated_against_impl': len(results) - n_dis - sum(1 for r in results if r['timeout']),
        'disagreements': n_dis,
        'table_or_single_operation_disagreements': n_tab,
        'corpus_programs': len(corpus),
        'program_streams': dict(Counter(kinds)),
        'programs_cut_off_by_timeout': sum(1 for r in results if r['timeout']),
        'runs_ended_by_unbounded_recursion_in_a_mutator': sum(1 for r in results if exportrun.ended_in_mutator(r['prog'], r['impl']) is not None),
        'input_distribution': feats,
        'export_observations': dict(obs),
        'implementation_exceptions': dict(exc),
        'per_class': stats,
        'cqasm_compared': tier != 'quick',
        'known_findings_printed': oc.known,
        'r6_matcher': {'input_class': R6_INPUT_CLASS, 'signature': R6_SIGNATURE},
        'lean': {k: lean.get(k) for k in ('build_ok', 'build_s', 'lean_s', 'failed', 'forbidden_hits', 'translator')},
    })
    common.write_evidence(PROP, tier, seed, coverage, wall, len(oc.violations), [
        'program/kernel names are compared as uuid5 of the class-name sequence the model reports (uuid5 itself is not modelled)',
        'wait durations are compared as int(duration) — truncation — exactly as passed to kernel.wait',
        'the exported circuit is exported without circuit_id'])
    return oc.emit()
