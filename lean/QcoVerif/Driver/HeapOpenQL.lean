import QcoVerif.Driver.Heap
import QcoVerif.Model.OpenQL
/-
  Extension of the `heap` session protocol (OpenQL). `step` returns `none` for commands it does not know.

    openql <c>       trace of `to_openql(c)` (tokens `open:<depth>:<top classes>:<classes>`, kernel calls, `ap`,
                     `close`, joined by `;`) — the export lists the circuit with the mutating listing, so the
                     session's heap is updated | `undef` when the nesting exceeds the walk's fuel
    openqlexec <c>   the gate calls in the order the exported program executes them (no mutation)
    openqlinorder <c>  the in-order image of the circuit (no mutation)
    openqltable      class → instruction table
    openqlop <Class> <qubits> <dur>   kernel calls of one free-standing operation (`-` = none)
-/
namespace Qco.Driver.HeapOpenQL

open Qco Qco.Driver

def showCalls (l : List QCall) : String := if l.isEmpty then "-" else ";".intercalate (l.map QCall.show)

def withCirc (s : Sess) (c : String) (f : Nat → Sess × String) : Option (Sess × String) :=
  match c.toNat? with
  | some c => if c ≥ s.circs.size then some (s, "bad-op") else some (f s.circs[c]!)
  | none => some (s, "bad-op")

def step (s : Sess) (toks : List String) : Option (Sess × String) :=
  match toks with
  | ["openql", c] =>
    withCirc s c (fun o =>
      if !s.w.nestWithin s.w.depthFuel o then (s, "undef") else
      let out := showTrace (s.w.openql o)
      ({ s with w := s.w.qlMutate s.w.depthFuel o }, out))
  | ["openqlexec", c] =>
    withCirc s c (fun o =>
      if !s.w.nestWithin s.w.depthFuel o then (s, "undef") else (s, showCalls (qlExec (s.w.openql o))))
  | ["openqlinorder", c] =>
    withCirc s c (fun o =>
      if !s.w.nestWithin s.w.depthFuel o then (s, "undef") else (s, showCalls (s.w.qlInOrder o)))
  | ["openqltable"] =>
    some (s, ",".intercalate (Cls.all.filterMap (fun c =>
      if c.qlSupported then some (c.name ++ "=" ++ (c.qlName.getD "*")) else none)))
  | ["openqlop", cls, qs, dur] =>
    match Cls.ofName? cls, parseList String.toInt? qs, parseDur? dur with
    | some cls, some qs, some dur =>
      let o : Op := { cls := cls, qs := qs, dur := dur.getD cls.defaultDur }
      some (s, showCalls (s.w.qlCalls o))
    | _, _, _ => some (s, "bad-op")
  | _ => none

end Qco.Driver.HeapOpenQL
