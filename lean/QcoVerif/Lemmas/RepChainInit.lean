import QcoVerif.Lemmas.RepChainFacts
/-
  C09, all chain lengths: heralded initialisation + preparation layer, well-formedness, and the assembled
  `Facts` of `chainDesc (m+1) r`.
-/
namespace Qco.RepChain
open Qco.StimSem Qco.RepCode

theorem mk_upd_self (N : Nat) (F : Nat → Q) (q : Nat) (v : Q) (h : F q = v) : mk N (upd F q v) = mk N F := by
  apply mk_congr
  intro x _
  by_cases hx : x = q
  · subst hx; simp [upd, h]
  · simp [upd, hx]

theorem run_R_layer (N : Nat) (l : List Nat) (hl : ∀ q ∈ l, q < N) (mrec det : List Nat) (obs : Nat) :
    run (l.map .R) ⟨mk N (fun _ => ⟨.Z, 0⟩), mrec, det, obs⟩ = some ⟨mk N (fun _ => ⟨.Z, 0⟩), mrec, det, obs⟩ := by
  induction l with
  | nil => rfl
  | cons q l ih =>
    have hq : q < N := hl q List.mem_cons_self
    simp only [List.map_cons, run, step, mk_length, hq, if_true, mk_set]
    rw [mk_upd_self _ _ _ _ rfl]
    exact ih (fun x hx => hl x (List.mem_cons_of_mem _ hx))

theorem start_eq (N : Nat) : start N = ⟨mk N (fun _ => ⟨.Z, 0⟩), [], [], 0⟩ := by
  simp [start, mk, List.map_const']

/-- register after the first `k` data preparation gates -/
def Pd (k : Nat) : Nat → Q := fun x => if x % 2 = 0 ∧ x < 2 * k then ⟨.Z, var (x / 2)⟩ else ⟨.Z, 0⟩

/-- register after the first `k` ancilla preparation gates -/
def Pa (nD : Nat) (F : Nat → Q) (k : Nat) : Nat → Q :=
  fun x => if x % 2 = 1 ∧ x < 2 * k then ⟨.Z, var (nD + x / 2)⟩ else F x

theorem run_XV_data (N k : Nat) (hk : 2 * k ≤ N + 1) (mrec det : List Nat) (obs : Nat) :
    run ((List.range k).map fun i => .XV (2 * i) (dataVar i)) ⟨mk N (Pd 0), mrec, det, obs⟩ =
      some ⟨mk N (Pd k), mrec, det, obs⟩ := by
  induction k with
  | zero => rfl
  | succ k ih =>
    rw [List.range_succ, List.map_append, run_append_some (ih (by omega))]
    have hq : 2 * k < N := by omega
    have hP : Pd k (2 * k) = ⟨.Z, 0⟩ := by simp [Pd]
    simp only [List.map_cons, List.map_nil, run, step, mk_get _ hq, hP, mk_set]
    congr 2
    apply mk_congr
    intro x _
    by_cases hx : x = 2 * k
    · subst hx; simp [upd, Pd, dataVar]
    · simp only [upd, hx, if_false, Pd]
      by_cases h1 : x % 2 = 0 ∧ x < 2 * k
      · have h2 : x % 2 = 0 ∧ x < 2 * (k + 1) := ⟨h1.1, by omega⟩
        simp [h1, h2]
      · have h2 : ¬ (x % 2 = 0 ∧ x < 2 * (k + 1)) := fun h => h1 ⟨h.1, by omega⟩
        simp [h1, h2]

theorem run_XV_anc (N nD : Nat) (F : Nat → Q) (hF : ∀ x, x % 2 = 1 → F x = ⟨.Z, 0⟩) (k : Nat) (hk : 2 * k ≤ N)
    (mrec det : List Nat) (obs : Nat) :
    run ((List.range k).map fun j => .XV (2 * j + 1) (ancVar nD j)) ⟨mk N (Pa nD F 0), mrec, det, obs⟩ =
      some ⟨mk N (Pa nD F k), mrec, det, obs⟩ := by
  induction k with
  | zero => rfl
  | succ k ih =>
    rw [List.range_succ, List.map_append, run_append_some (ih (by omega))]
    have hq : 2 * k + 1 < N := by omega
    have hP : Pa nD F k (2 * k + 1) = ⟨.Z, 0⟩ := by
      have : ¬ ((2 * k + 1) % 2 = 1 ∧ 2 * k + 1 < 2 * k) := by omega
      simp only [Pa, this, if_false]
      exact hF _ (by omega)
    simp only [List.map_cons, List.map_nil, run, step, mk_get _ hq, hP, mk_set]
    congr 2
    apply mk_congr
    intro x _
    by_cases hx : x = 2 * k + 1
    · subst hx
      have h1 : (2 * k + 1) % 2 = 1 ∧ 2 * k + 1 < 2 * (k + 1) := by omega
      have h2 : (2 * k + 1) / 2 = k := by omega
      simp [upd, Pa, ancVar, h1, h2]
    · simp only [upd, hx, if_false, Pa]
      by_cases h1 : x % 2 = 1 ∧ x < 2 * k
      · have h2 : x % 2 = 1 ∧ x < 2 * (k + 1) := ⟨h1.1, by omega⟩
        simp [h1, h2]
      · have h2 : ¬ (x % 2 = 1 ∧ x < 2 * (k + 1)) := fun h => h1 ⟨h.1, by omega⟩
        simp [h1, h2]

section
variable (m : Nat) (r : Bool) (nD nA : Nat)

local notation "d" => chainDesc (m + 1) r

theorem xVar_chain (i : Nat) (hi : i < m + 1) :
    xVar d nD (2 * i) = if i < nD then var i else 0 := by
  simp only [xVar, chain_dataIdx, dataL_idxOf m i hi, dataVar]

theorem aVar_chain (j : Nat) (hj : j < m) :
    aVar d nD nA (2 * j + 1) = if j < nA then var (nD + j) else 0 := by
  simp only [aVar, chain_ancIdx, ancL_idxOf m j hj, ancVar]

theorem dataL_getD (i : Nat) (hi : i < m + 1) : (dataL m).getD i 0 = 2 * i := by
  simp [dataL, List.getD, List.getElem?_map, List.getElem?_range hi]

theorem ancL_getD (j : Nat) (hj : j < m) : (ancL m).getD j 0 = 2 * j + 1 := by
  simp [ancL, List.getD, List.getElem?_map, List.getElem?_range hj]

theorem prepared_eq :
    mk (2 * m + 1) (Pa nD (Pd nD) nA) = stateB d nD nA false := by
  rw [stateB_eq]
  apply mk_congr
  intro x hx
  rcases Nat.mod_two_eq_zero_or_one x with h0 | h1
  · have hxd : x ∈ dataL m := mem_dataL.mpr ⟨h0, hx⟩
    obtain ⟨i, rfl⟩ : ∃ i, x = 2 * i := ⟨x / 2, by omega⟩
    have h1 : ¬ ((2 * i) % 2 = 1 ∧ 2 * i < 2 * nA) := by omega
    have h2 : 2 * i / 2 = i := by omega
    rw [SB_data m r nD nA false false hxd]
    simp only [Pa, h1, if_false, Pd, finalFormB, xVar_chain m r nD i (by omega), h2]
    by_cases hi : i < nD
    · simp [hi]
    · simp [hi]
  · have hxa : x ∈ ancL m := mem_ancL.mpr ⟨h1, by omega⟩
    obtain ⟨j, rfl⟩ : ∃ j, x = 2 * j + 1 := ⟨x / 2, by omega⟩
    have h2 : (2 * j + 1) / 2 = j := by omega
    rw [SB_anc m r nD nA false false hxa, cycleFormB_false, aVar_chain m r nD nA j (by omega)]
    simp only [Pa, h2]
    by_cases hj : j < nA
    · have : (2 * j + 1) % 2 = 1 ∧ 2 * j + 1 < 2 * nA := by omega
      simp [this, hj]
    · have : ¬ ((2 * j + 1) % 2 = 1 ∧ 2 * j + 1 < 2 * nA) := by omega
      simp [hj, Pd]
      intro h; exfalso; omega

theorem prepSym_chain (hD : nD ≤ m + 1) (hA : nA ≤ m) :
    prepSym d nD nA = some (((List.range nD).map fun i => .XV (2 * i) (dataVar i)) ++
      ((List.range nA).map fun j => .XV (2 * j + 1) (ancVar nD j))) := by
  have hg : nD ≤ (dataL m).length ∧ nA ≤ (ancL m).length := by
    rw [dataL_length, ancL_length]; exact ⟨hD, hA⟩
  simp only [prepSym, prepWith, chain_dataIdx, chain_ancIdx, hg, and_self, if_true, mkSym]
  congr 2
  · apply List.map_congr_left
    intro i hi
    have := List.mem_range.mp hi
    simp only [dataL_getD m i (by omega), Bool.false_eq_true, if_false]
  · apply List.map_congr_left
    intro j hj
    have := List.mem_range.mp hj
    simp only [ancL_getD m j (by omega)]

theorem chain_init (hD : nD ≤ m + 1) (hA : nA ≤ m) :
    (prepSym d nD nA).map (fun prep => run (initPart d prep) (start (chainDesc (m + 1) r).size)) =
      some (some ⟨stateB d nD nA false, zeros d, [], 0⟩) := by
  rw [prepSym_chain m r nD nA hD hA, Option.map_some, chain_size, start_eq]
  congr 1
  unfold initPart
  rw [chain_allIdx]
  simp only [List.append_assoc]
  have hlt : ∀ q ∈ List.range (2 * m + 1), q < 2 * m + 1 := fun q hq => List.mem_range.mp hq
  rw [run_append_some (run_R_layer _ _ hlt [] [] 0),
    run_append_some (run_M_layer _ _ _ (fun q hq => ⟨hlt q hq, rfl⟩) [] [] 0),
    run_append_some (run_TICK _)]
  have hP0 : (fun _ : Nat => (⟨.Z, 0⟩ : Q)) = Pd 0 := by
    funext x; simp [Pd]
  rw [hP0, run_append_some (run_XV_data (2 * m + 1) nD (by omega) _ [] 0)]
  have hPa0 : Pd nD = Pa nD (Pd nD) 0 := by
    funext x; simp [Pa]
  rw [hPa0, run_append_some (run_XV_anc (2 * m + 1) nD (Pd nD) (fun x hx => by
      have : ¬ (x % 2 = 0 ∧ x < 2 * nD) := by omega
      simp [Pd, this]) nA (by omega) _ [] 0), run_TICK, prepared_eq m r nD nA]
  simp [zeros, chain_allIdx, map_zero_reverse]

end

end Qco.RepChain

/-! ### well-formedness, no symbolic gate outside the preparation layer, the prepared state -/

namespace Qco.RepChain
open Qco.StimSem Qco.RepCode

theorem chain_wf (m : Nat) (hm : 0 < m) (r : Bool) : (chainDesc (m + 1) r).wellFormed = true := by
  unfold Desc.wellFormed
  rw [chain_allIdx, chain_nbr, chain_ancIdx, chain_dataIdx, chain_layers m hm]
  simp only [Bool.and_eq_true, decide_eq_true_eq, List.all_eq_true, beq_iff_eq, List.length_map,
    List.length_range, ancL_length, List.contains_iff_mem, List.mem_range, List.mem_map, evenG, oddG]
  refine ⟨⟨⟨List.nodup_range, trivial⟩, ?_⟩, ?_⟩
  · rintro p ⟨j, hj, rfl⟩
    exact ⟨mem_dataL.mpr ⟨by omega, by omega⟩, mem_dataL.mpr ⟨by omega, by omega⟩⟩
  · intro l hl
    simp only [List.mem_cons, List.not_mem_nil, or_false] at hl
    rcases hl with rfl | rfl
    · refine ⟨?_, by simp⟩
      intro g hg
      obtain ⟨t, ht, rfl⟩ := List.mem_map.mp hg
      have := mem_ancL.mp ht
      simp; omega
    · refine ⟨?_, by simp⟩
      intro g hg
      obtain ⟨t, ht, rfl⟩ := List.mem_map.mp hg
      have := mem_ancL.mp ht
      simp; omega
end Qco.RepChain
namespace Qco.RepChain
open Qco.StimSem Qco.RepCode

theorem notXV_append (a b : List Ins) : notXV (a ++ b) = (notXV a && notXV b) := by
  simp [notXV, List.all_append]

theorem notXV_initPart (dd : Desc) : notXV (initPart dd []) = true := by
  simp [notXV, initPart, isXV]

theorem notXV_blockDets (dd : Desc) (body : List Ins) (ref : Option Int) : notXV (blockDets dd body ref) = true := by
  simp [notXV, blockDets, isXV]

theorem notXV_finalPart (dd : Desc) (p q : Bool) (L Q : List Ins) : notXV (finalPart dd p q L Q) = true := by
  simp [notXV, finalPart, isXV]

theorem notXV_roundIns (m : Nat) : notXV (roundIns m) = true := by
  simp [notXV, roundIns, isXV]

section
variable (m : Nat) (hm : 0 < m) (r : Bool) (nD nA : Nat)
local notation "d" => chainDesc (m + 1) r
include hm

theorem notXV_roundPlain : notXV (roundPlain d) = true := by
  rw [chain_roundPlain m hm]; exact notXV_roundIns m

theorem notXV_roundDD : notXV (roundDD d) = true := by
  rw [chain_roundDD m hm, notXV_append, notXV_append, notXV_roundIns]
  cases r <;> simp [notXV, isXV]

theorem notXV_block1 : notXV (block1 d) = true := by
  simp [block1, notXV_append, notXV_roundDD m hm, notXV_blockDets]; simp [notXV, isXV]

theorem notXV_block2 : notXV (block2 d) = true := by
  simp [block2, notXV_append, notXV_roundDD m hm, notXV_blockDets]; simp [notXV, isXV]

theorem notXV_block3 (w : Bool) : notXV (block3 d w) = true := by
  simp [block3, notXV_append, notXV_roundPlain m hm, notXV_blockDets]; simp [notXV, isXV]

theorem chain_noXV :
    notXV (initPart d [] ++ body d 0 ++ body d 1 ++ body d 2 ++ body d 3 ++ block1 d ++ block2 d ++
            block3 d true ++ finalPart4 d) = true := by
  simp only [body_0, body_1, body_2, body_3, finalPart4, notXV_append, notXV_initPart, notXV_finalPart,
    notXV_block1 m hm, notXV_block2 m hm, notXV_block3 m hm, Bool.and_true, Bool.true_and]
  simp [notXV, isXV]
end
end Qco.RepChain
namespace Qco.RepChain
open Qco.StimSem Qco.RepCode
section
variable (m : Nat) (r : Bool) (nD nA : Nat)
local notation "d" => chainDesc (m + 1) r

theorem chain_prepData (hD : nD ≤ m + 1) :
    ((List.range nD).all fun i =>
      decide ((stateB d nD nA false)[(chainDesc (m + 1) r).dataIdx.getD i 0]? = some ⟨.Z, var (dataVar i)⟩)) = true := by
  rw [List.all_eq_true]
  intro i hi
  have hi := List.mem_range.mp hi
  have hd : 2 * i ∈ dataL m := mem_dataL.mpr ⟨by omega, by omega⟩
  rw [decide_eq_true_eq, chain_dataIdx, dataL_getD m i (by omega), stateB_eq, mk_get _ (by omega),
    SB_data m r nD nA false false hd]
  simp [finalFormB, xVar_chain m r nD i (by omega), hi, dataVar]

theorem chain_prepAnc :
    ((List.range (chainDesc (m + 1) r).ancIdx.length).all fun j =>
      decide ((stateB d nD nA false)[(chainDesc (m + 1) r).ancIdx.getD j 0]? =
        some ⟨.Z, if j < nA then var (ancVar nD j) else 0⟩)) = true := by
  rw [List.all_eq_true]
  intro j hj
  have hj := List.mem_range.mp hj
  rw [chain_ancIdx, ancL_length] at hj
  have ha : 2 * j + 1 ∈ ancL m := mem_ancL.mpr ⟨by omega, by omega⟩
  rw [decide_eq_true_eq, chain_ancIdx, ancL_getD m j hj, stateB_eq, mk_get _ (by omega),
    SB_anc m r nD nA false false ha, cycleFormB_false, aVar_chain m r nD nA j hj]
  rfl
end

/-- The per-description facts of `RepLift`, for every chain with at least one ancilla, with or without
    refocusing, and a container that gives states to the first `nD` data and the first `nA` ancilla qubits. -/
theorem chain_facts (m : Nat) (hm : 0 < m) (r : Bool) (nD nA : Nat) (hD : nD ≤ m + 1) (hA : nA ≤ m) :
    Facts (chainDesc (m + 1) r) nD nA where
  wf := chain_wf m hm r
  init := chain_init m r nD nA hD hA
  small0 := chain_small0 m r nD nA
  small1 := chain_small1 m hm r nD nA
  small2 := chain_small2 m hm r nD nA
  small3 := chain_small3 m hm r nD nA
  pre := chain_pre m hm r nD nA
  mid0 := chain_mid m hm r nD nA false
  mid1 := chain_mid m hm r nD nA true
  post0 := chain_post m hm r nD nA false
  post1 := chain_post m hm r nD nA true
  round0 := chain_round m hm r nD nA false
  round1 := chain_round m hm r nD nA true
  prepData := chain_prepData m r nD nA hD
  prepAnc := chain_prepAnc m r nD nA
  noXV := chain_noXV m hm r
end Qco.RepChain

namespace Qco.RepChain
open Qco.StimSem Qco.RepCode

/-- the two chains without ancilla: no data qubit at all, a single data qubit -/
theorem small_facts : checkAll [(chainDesc 0 true, 0, 0), (chainDesc 0 false, 0, 0), (chainDesc 1 true, 0, 0),
    (chainDesc 1 false, 0, 0), (chainDesc 1 true, 1, 0), (chainDesc 1 false, 1, 0)] = true := by decide +kernel

/-- `Facts` for EVERY chain description `from_chain(2n−1)` (also the empty one, n = 0), with and without
    refocusing, for every container that gives states to the first `nD ≤ n` data qubits and the first
    `nA ≤ n−1` ancilla qubits. -/
theorem chain_facts_all (n : Nat) (r : Bool) (nD nA : Nat) (hD : nD ≤ n) (hA : nA ≤ n - 1) :
    Facts (chainDesc n r) nD nA := by
  match n, hD, hA with
  | 0, hD, hA =>
    have h1 : nD = 0 := by omega
    have h2 : nA = 0 := by omega
    subst h1; subst h2
    cases r
    · exact facts_of_checkAll small_facts (e := (chainDesc 0 false, 0, 0)) (by simp)
    · exact facts_of_checkAll small_facts (e := (chainDesc 0 true, 0, 0)) (by simp)
  | 1, hD, hA =>
    have h2 : nA = 0 := by omega
    subst h2
    have h1 : nD = 0 ∨ nD = 1 := by omega
    rcases h1 with rfl | rfl <;> cases r
    · exact facts_of_checkAll small_facts (e := (chainDesc 1 false, 0, 0)) (by simp)
    · exact facts_of_checkAll small_facts (e := (chainDesc 1 true, 0, 0)) (by simp)
    · exact facts_of_checkAll small_facts (e := (chainDesc 1 false, 1, 0)) (by simp)
    · exact facts_of_checkAll small_facts (e := (chainDesc 1 true, 1, 0)) (by simp)
  | m + 2, hD, hA => exact chain_facts (m + 1) (by omega) r nD nA hD (by omega)

end Qco.RepChain
