import QcoVerif.Model.Builder
/-
  Lemmas about the relation tree: the listing is a permutation of the inserted nodes, it is sorted by
  (depth, lexicographic path key), `attach` adds exactly one entry, parents are listed before children.
  Core Lean only.
-/
namespace Qco

/-! ### the order on path keys -/

theorem lexLt_irrefl : ∀ a : List Nat, lexLt a a = false
  | [] => rfl
  | x :: xs => by simp [lexLt, lexLt_irrefl xs]

theorem lexLt_trans : ∀ a b c : List Nat, lexLt a b = true → lexLt b c = true → lexLt a c = true
  | [], [], _, h, _ => by simp [lexLt] at h
  | [], _ :: _, [], _, h => by simp [lexLt] at h
  | [], _ :: _, _ :: _, _, _ => by simp [lexLt]
  | _ :: _, [], _, h, _ => by simp [lexLt] at h
  | _ :: _, _ :: _, [], _, h => by simp [lexLt] at h
  | x :: xs, y :: ys, z :: zs, h1, h2 => by
    simp only [lexLt, Bool.or_eq_true, decide_eq_true_eq, Bool.and_eq_true, beq_iff_eq] at h1 h2 ⊢
    rcases h1 with h1 | ⟨h1, h1'⟩ <;> rcases h2 with h2 | ⟨h2, h2'⟩
    · exact Or.inl (Nat.lt_trans h1 h2)
    · exact Or.inl (h2 ▸ h1)
    · exact Or.inl (h1 ▸ h2)
    · exact Or.inr ⟨h1.trans h2, lexLt_trans xs ys zs h1' h2'⟩

/-- on keys of equal length the lexicographic order is total. -/
theorem lexLt_total : ∀ a b : List Nat, a.length = b.length → lexLt a b = true ∨ a = b ∨ lexLt b a = true
  | [], [], _ => Or.inr (Or.inl rfl)
  | [], _ :: _, h => by simp at h
  | _ :: _, [], h => by simp at h
  | x :: xs, y :: ys, h => by
    have hl : xs.length = ys.length := by simpa using h
    simp only [lexLt, Bool.or_eq_true, decide_eq_true_eq, Bool.and_eq_true, beq_iff_eq, List.cons.injEq]
    rcases Nat.lt_trichotomy x y with hxy | hxy | hxy
    · exact Or.inl (Or.inl hxy)
    · rcases lexLt_total xs ys hl with h' | h' | h'
      · exact Or.inl (Or.inr ⟨hxy, h'⟩)
      · exact Or.inr (Or.inl ⟨hxy, h'⟩)
      · exact Or.inr (Or.inr (Or.inr ⟨hxy.symm, h'⟩))
    · exact Or.inr (Or.inr (Or.inl hxy))

theorem lexLt_asymm (a b : List Nat) (h : lexLt a b = true) : lexLt b a = false := by
  cases hba : lexLt b a with
  | false => rfl
  | true =>
    have := lexLt_trans a b a h hba
    rw [lexLt_irrefl] at this; cases this

theorem keyLe_total (a b : List Nat) : (keyLe a b || keyLe b a) = true := by
  simp only [keyLe, Bool.or_eq_true, decide_eq_true_eq, Bool.and_eq_true, beq_iff_eq, Bool.not_eq_true']
  rcases Nat.lt_trichotomy a.length b.length with h | h | h
  · exact Or.inl (Or.inl h)
  · cases hba : lexLt b a with
    | false => exact Or.inl (Or.inr ⟨h, rfl⟩)
    | true => exact Or.inr (Or.inr ⟨h.symm, lexLt_asymm b a hba⟩)
  · exact Or.inr (Or.inl h)

theorem keyLe_trans (a b c : List Nat) (h1 : keyLe a b = true) (h2 : keyLe b c = true) : keyLe a c = true := by
  simp only [keyLe, Bool.or_eq_true, decide_eq_true_eq, Bool.and_eq_true, beq_iff_eq, Bool.not_eq_true'] at h1 h2 ⊢
  rcases h1 with h1 | ⟨h1, h1'⟩ <;> rcases h2 with h2 | ⟨h2, h2'⟩
  · exact Or.inl (Nat.lt_trans h1 h2)
  · exact Or.inl (h2 ▸ h1)
  · exact Or.inl (h1 ▸ h2)
  · refine Or.inr ⟨h1.trans h2, ?_⟩
    -- not (c < a): otherwise, by totality on equal lengths, a contradiction with not (b < a), not (c < b)
    cases hca : lexLt c a with
    | false => rfl
    | true =>
      rcases lexLt_total a b h1 with hab | hab | hab
      · -- a < b, c < a  ⟹ c < b, contradicting h2'
        have := lexLt_trans c a b hca hab
        rw [h2'] at this; cases this
      · subst hab; rw [h2'] at hca; cases hca
      · rw [h1'] at hab; cases hab

/-! ### the listing -/

theorem entryLe_total (a b : Entry) : (entryLe a b || entryLe b a) = true := keyLe_total a.key b.key

theorem entryLe_trans (a b c : Entry) (h1 : entryLe a b = true) (h2 : entryLe b c = true) : entryLe a c = true :=
  keyLe_trans a.key b.key c.key h1 h2

theorem sortedEntries_perm (g : List Entry) : (sortedEntries g).Perm g := List.mergeSort_perm g entryLe

theorem sortedEntries_pairwise (g : List Entry) : (sortedEntries g).Pairwise (fun a b => entryLe a b = true) :=
  List.pairwise_mergeSort (le := entryLe) (fun a b c => entryLe_trans a b c) (fun a b => entryLe_total a b) g

/-- the listing is a permutation of the inserted nodes: nothing lost, nothing duplicated. -/
theorem listing_perm (g : List Entry) : (listing g).Perm (g.map (·.node)) :=
  (sortedEntries_perm g).map _

theorem listing_length (g : List Entry) : (listing g).length = g.length := by
  simpa using (listing_perm g).length_eq

theorem mem_listing_iff {g : List Entry} {n : Nat} : n ∈ listing g ↔ ∃ e ∈ g, e.node = n := by
  rw [(listing_perm g).mem_iff]; simp

theorem listing_nodup {g : List Entry} (h : (g.map (·.node)).Nodup) : (listing g).Nodup :=
  (listing_perm g).nodup_iff.mpr h

/-- `attach` adds exactly one entry. -/
theorem attach_eq (g : List Entry) (p : Option Nat) (n : Nat) :
    ∃ k, attach g p n = g ++ [{ node := n, parent := p, key := k }] := ⟨_, rfl⟩

theorem listing_attach_perm (g : List Entry) (p : Option Nat) (n : Nat) :
    (listing (attach g p n)).Perm (n :: listing g) := by
  obtain ⟨k, hk⟩ := attach_eq g p n
  rw [hk]
  refine (listing_perm _).trans ?_
  rw [List.map_append]
  refine List.perm_append_comm.trans ?_
  simp only [List.map_cons, List.map_nil, List.singleton_append]
  exact List.Perm.cons _ (listing_perm g).symm

/-- depth of a node = length of its path key. -/
def depthOf (g : List Entry) (n : Nat) : Nat := ((entryOf? g n).map (·.key.length)).getD 0

/-- the listing is sorted by depth (breadth first): an entry listed earlier is not deeper. -/
theorem sortedEntries_depth_sorted (g : List Entry) :
    (sortedEntries g).Pairwise (fun a b => a.key.length ≤ b.key.length) := by
  refine (sortedEntries_pairwise g).imp ?_
  intro a b h
  simp only [entryLe, keyLe, Bool.or_eq_true, decide_eq_true_eq, Bool.and_eq_true, beq_iff_eq] at h
  rcases h with h | ⟨h, _⟩
  · exact Nat.le_of_lt h
  · exact Nat.le_of_eq h

/-- the key invariant kept by `attach`: a child's key extends its parent's key by one step. -/
def KeysOk (g : List Entry) : Prop :=
  ∀ e ∈ g, match e.parent with
    | none => e.key.length = 1
    | some p => ∃ pe ∈ g, pe.node = p ∧ e.key.length = pe.key.length + 1

theorem keysOk_nil : KeysOk [] := by intro e he; cases he

/-- `attach` under the root or under a node of the graph keeps the key invariant. -/
theorem keysOk_attach {g : List Entry} (h : KeysOk g) (p : Option Nat) (n : Nat)
    (hp : ∀ q, p = some q → inGraph g q = true) : KeysOk (attach g p n) := by
  intro e he
  simp only [attach, List.mem_append, List.mem_singleton] at he
  rcases he with he | he
  · have := h e he
    cases hpar : e.parent with
    | none => rw [hpar] at this; simpa using this
    | some q =>
      rw [hpar] at this
      obtain ⟨pe, hpe, h1, h2⟩ := this
      exact ⟨pe, List.mem_append_left _ hpe, h1, h2⟩
  · subst he
    cases p with
    | none => simp
    | some q =>
      have hq := hp q rfl
      simp only [inGraph, List.any_eq_true, beq_iff_eq] at hq
      obtain ⟨pe0, hpe0, hn0⟩ := hq
      -- the entry found by `entryOf?` is some entry of the graph with that node
      cases hf : entryOf? g q with
      | none =>
        simp only [entryOf?, List.find?_eq_none, beq_iff_eq] at hf
        exact absurd hn0 (hf pe0 hpe0)
      | some pe =>
        have hmem : pe ∈ g := List.mem_of_find?_eq_some hf
        have hnode : pe.node = q := by
          have := List.find?_some hf
          simpa using this
        refine ⟨pe, List.mem_append_left _ hmem, hnode, ?_⟩
        simp [hf]

/-- parents are listed before their children (breadth-first order): a deeper entry never precedes a
    shallower one in the sorted entries. -/
theorem not_deeper_first (g : List Entry) {c pe : Entry} (hlen : pe.key.length < c.key.length) :
    ¬ [c, pe].Sublist (sortedEntries g) := by
  intro hs
  have := (sortedEntries_depth_sorted g).sublist hs
  simp only [List.pairwise_cons, List.mem_cons, List.mem_nil_iff, or_false, forall_eq,
    List.not_mem_nil, false_imp_iff, implies_true, List.Pairwise.nil, and_true] at this
  omega

/-- the last element of a depth-sorted list satisfying `p` is a deepest one satisfying `p`. -/
theorem last_match_deepest {es : List Entry} (hs : es.Pairwise (fun a b => a.key.length ≤ b.key.length))
    {p : Entry → Bool} {e : Entry} (h : es.reverse.find? p = some e) :
    p e = true ∧ e ∈ es ∧ ∀ e' ∈ es, p e' = true → e'.key.length ≤ e.key.length := by
  obtain ⟨hp, as, bs, hsplit, hnone⟩ := List.find?_eq_some_iff_append.mp h
  have hes : es = bs.reverse ++ e :: as.reverse := by
    have := congrArg List.reverse hsplit
    simpa using this
  refine ⟨by simpa using hp, by rw [hes]; simp, ?_⟩
  intro e' he' hpe'
  rw [hes] at he' hs
  rcases List.mem_append.mp he' with hb | hb
  · have := (List.pairwise_append.mp hs).2.2 e' hb e (by simp)
    exact this
  · rcases List.mem_cons.mp hb with rfl | ha
    · exact Nat.le_refl _
    · have : e' ∈ as := by simpa using ha
      have := hnone e' this
      simp [hpe'] at this

end Qco
