"""Property predicates evaluated on the implementation's own objects while a build program runs.

Each probe is independent of the Lean model: it states the property directly over what the public API
reports.  A probe never mutates the circuit beyond what the observer it piggybacks on already did."""
from __future__ import annotations
from collections import Counter

from . import progs

REGISTRY = {}


def register(cls):
    REGISTRY[cls.name] = cls
    return cls


class Probe:
    name = '?'

    def before(self, run, i, cmd):
        pass

    def after(self, run, i, cmd, ans):
        return []


graph_nodes = progs.graph_nodes
expand = progs.expand
sig = progs.sig


def ch_match(x, y):
    a = progs.api()
    return x.id == y.id and (x.channel == y.channel or x.channel == a.QubitChannel.ALL or y.channel == a.QubitChannel.ALL)


@register
class TimingProbe(Probe):
    """C01: relation equations on reported times; implicit predecessor is a deepest channel-sharing node."""
    name = 'C01'

    def __init__(self):
        self.placed_under = {}    # id(op) -> (op, reference node right after it was added)  [keeps op alive]

    def before(self, run, i, cmd):
        self.pre = None
        if cmd[0] == 'op':
            a = progs.api()
            st = run.circs[cmd[1]].circuit_structure
            nodes = graph_nodes(st)
            ids = {id(o): o for o in nodes}
            depth = {}
            cyclic = []

            def dep(o, guard=0):
                if id(o) in depth:
                    return depth[id(o)]
                if guard > 2000:
                    return 0
                link = o.relation_link
                ref = getattr(link, '_reference_node', None)
                if isinstance(link, a.MultiRelationLink):
                    # the group member that ended latest WHEN THE NODE WAS PLACED is its tree parent (remembered from
                    # the add for operations added by the program; the latest member can change with the durations)
                    if id(o) in self.placed_under:
                        ref = self.placed_under[id(o)][1]
                    else:
                        try:
                            ref = link.reference_node
                        except RecursionError:
                            # a cyclic relation structure (findings R14 / R3): "the member that ends latest" does not exist, the
                            # independent depth function has nothing to say about this graph — the placement clause is skipped
                            # for this add (the relation equations and the correspondence with the model are still checked)
                            cyclic.append(True)
                            ref = None
                d = 1 + dep(ref, guard + 1) if (ref is not None and id(ref) in ids) else 1
                depth[id(o)] = d
                return d
            self.pre = (nodes, {id(o): dep(o) for o in nodes})
            if cyclic:
                self.pre = None
            # the explicit relation the new operation is created with: (reference object | None, relation type)
            self.expect = None
            rel = cmd[9]
            if rel is not None and cmd[2] not in progs.NO_RELATION_ARG:
                try:
                    if isinstance(rel[0], list):
                        grp = [run.handles[h] for h in rel[0]]
                        latest = grp[0]
                        for o in grp:
                            if o.end_time > latest.end_time:
                                latest = o
                        self.expect = (latest, a.RT[rel[1]])
                    elif rel[1] == 'SAME':
                        lk = run.handles[rel[0]].relation_link
                        self.expect = (lk.reference_node, lk.relation_type)
                    else:
                        self.expect = (run.handles[rel[0]], a.RT[rel[1]])
                except RecursionError:
                    self.expect = None

    def after(self, run, i, cmd, ans):
        fails = []
        a = progs.api()
        if cmd[0] == 'flatten':
            # flatten() re-adds every listed operation to a fresh graph: an operation with a group relation is hung under the member
            # that ends latest NOW (the durations may have changed since it was first placed) — the remembered tree parent is
            # refreshed (false alarm of the thorough soak, seed 2: placed under the measurement, duration change, flatten, placed
            # under the other member)
            for o in graph_nodes(run.circs[cmd[1]].circuit_structure):
                if id(o) in self.placed_under and isinstance(o.relation_link, a.MultiRelationLink):
                    try:
                        self.placed_under[id(o)] = (o, o.relation_link.reference_node)
                    except RecursionError:
                        pass
        if cmd[0] in ('copy', 'sub', 'apply', 'flatten', 'adopt'):
            # objects the program did not add itself (copies, unrolled repetitions) are hung NOW, under the member of their group
            # relation that ends latest now: remembered like the operations the program adds (false alarm of the thorough soak,
            # seed 4: a copy made before a duration change; the fallback "latest member at the time of the NEXT add" was stale)
            def remember(struct, depth=0):
                if depth > 12:
                    return
                for o in graph_nodes(struct):
                    if id(o) not in self.placed_under and isinstance(o.relation_link, a.MultiRelationLink):
                        try:
                            self.placed_under[id(o)] = (o, o.relation_link.reference_node)
                        except RecursionError:
                            pass
                    if isinstance(o, a.CircuitCompositeOperation):
                        remember(o, depth + 1)
            for c in run.circs:
                remember(c.circuit_structure)
        if cmd[0] == 'op' and self.pre is not None:
            nodes, depth = self.pre
            op = run.handles[-1]
            try:
                self.placed_under[id(op)] = (op, op.relation_link.reference_node)
            except RecursionError:
                pass
            explicit_in_graph = False
            if self.expect is not None and self.expect[0] is not None:
                target = self.expect[0]
                explicit_in_graph = any(target is o for o in nodes)
            if not explicit_in_graph:
                chs = op.channel_identifiers
                cands = [o for o in nodes if any(ch_match(x, y) for x in chs for y in o.channel_identifiers)]
                ref = op.relation_link.reference_node
                if not cands:
                    if ref is not None:
                        fails.append({'what': 'implicit placement: no channel-sharing node, yet a reference was assigned'})
                else:
                    best = max(depth[id(o)] for o in cands)
                    if ref is None or not any(ref is o and depth[id(o)] == best for o in cands):
                        fails.append({'what': 'implicit placement: reference is not a deepest channel-sharing node',
                                      'deepest': best})
                    elif op.relation_link.relation_type != a.RelationType.FOLLOWED_BY:
                        fails.append({'what': 'implicit placement: relation type is not FOLLOWED_BY'})
            else:
                link = op.relation_link
                if link.reference_node is not self.expect[0] or link.relation_type != self.expect[1]:
                    fails.append({'what': 'explicit relation was not kept'})
        if cmd[0] == 'list' and ans not in (None, 'undef') and run.last_ops is not None:
            for k, o in enumerate(run.last_ops):
                link = o.relation_link
                ref = link.reference_node
                s, d, e = o.start_time, o.duration, o.end_time
                if e != s + d:
                    fails.append({'what': 'end != start + duration', 'pos': k})
                if ref is None:
                    ok = s == 0.0
                    why = 'no relation: must start with the top-level circuit (0)'
                else:
                    rt = link.relation_type
                    if rt == a.RelationType.FOLLOWED_BY:
                        ok = s == ref.end_time
                        why = 'FOLLOWED_BY: start != end of reference'
                    elif rt == a.RelationType.JOINED_START:
                        ok = s == ref.start_time
                        why = 'JOINED_START: start != start of reference'
                    else:
                        ok = e == ref.end_time
                        why = 'JOINED_END: end != end of reference'
                if not ok:
                    fails.append({'what': why, 'pos': k, 'op': type(o).__name__})
                    break
        return fails


@register
class ListingProbe(Probe):
    """C02: the listing is exactly the added leaves (sub-circuits expanded), causal and stable."""
    name = 'C02'

    def after(self, run, i, cmd, ans):
        fails = []
        if cmd[0] == 'list' and ans not in (None, 'undef') and run.last_ops is not None:
            a = progs.api()
            ops = run.last_ops
            circ = run.circs[cmd[1]]
            exp = run.shadow_expected(cmd[1])
            if exp is not None:
                got = Counter(sig(o) for o in ops)
                if got != exp:
                    missing = list((exp - got).items())[:3]
                    extra = list((got - exp).items())[:3]
                    fails.append({'what': 'listing is not the multiset of added leaf operations',
                                  'missing': repr(missing), 'extra': repr(extra)})
            pos = {id(o): k for k, o in enumerate(ops)}
            if len(pos) != len(ops):
                fails.append({'what': 'an operation object is listed twice'})
            for k, o in enumerate(ops):
                ref = o.relation_link.reference_node
                if ref is None:
                    continue
                targets = expand(ref) if isinstance(ref, a.CircuitCompositeOperation) else [ref]
                for t in targets:
                    if id(t) in pos and pos[id(t)] > k:
                        fails.append({'what': 'operation listed before the operation its relation refers to', 'pos': k,
                                      'group_link': isinstance(o.relation_link, a.MultiRelationLink)})
                        break
                if fails:
                    break
            again = circ.operations
            if len(again) != len(ops) or any(x is not y for x, y in zip(again, ops)):
                fails.append({'what': 'listing twice gives a different sequence'})
        return fails


@register
class ListingMultisetProbe(Probe):
    """multiset clause of C02 only (used as a helper by other checks)."""
    name = 'C02m'

    def after(self, run, i, cmd, ans):
        fails = []
        if cmd[0] == 'list' and ans not in (None, 'undef') and run.last_ops is not None:
            exp = run.shadow_expected(cmd[1])
            if exp is not None:
                got = Counter(sig(o) for o in run.last_ops)
                if got != exp:
                    fails.append({'what': 'listing is not the multiset of added leaf operations',
                                  'missing': repr(list((exp - got).items())[:3]),
                                  'extra': repr(list((got - exp).items())[:3])})
        return fails


@register
class DurationProbe(Probe):
    """C04: duration of every (sub-)circuit = latest end - earliest start over all contained leaves."""
    name = 'C04'

    def after(self, run, i, cmd, ans):
        fails = []
        if cmd[0] == 'list' and ans not in (None, 'undef') and run.last_ops is not None:
            a = progs.api()
            circ = run.circs[cmd[1]]
            blocks = [circ.circuit_structure] + list(circ.composite_operations)
            spans = {}
            for b in blocks:
                leaves = expand(b)
                if not leaves:
                    span, lo, hi = 0.0, None, None
                else:
                    lo = min(o.start_time for o in leaves)
                    hi = max(o.end_time for o in leaves)
                    span = hi - lo
                spans[id(b)] = (lo, hi)
                if b.duration != span:
                    fails.append({'what': 'duration of a (sub-)circuit is not the span of its content',
                                  'reported': b.duration, 'span': span, 'top': b is circ.circuit_structure})
                    break
            if not fails:
                for o in run.last_ops + [b for b in blocks[1:]]:
                    link = o.relation_link
                    ref = link.reference_node
                    if ref is None or not isinstance(ref, a.CircuitCompositeOperation) or id(ref) not in spans:
                        continue
                    if link.relation_type != a.RelationType.FOLLOWED_BY:
                        continue
                    lo, hi = spans[id(ref)]
                    if hi is None:
                        continue
                    heads = ref._circuit_graph.get_nodes_at(depth=1)
                    head_lo = min(n.operation.start_time for n in heads)
                    if lo >= head_lo and o.start_time < hi:
                        fails.append({'what': 'operation FOLLOWED_BY a block starts before the block content ended'})
                        break
        return fails


def overlap_free(ops):
    """no two operations of non-zero length sharing a channel overlap in time."""
    spans = [(o.start_time, o.end_time, o.channel_identifiers) for o in ops if o.duration > 0]
    for i in range(len(spans)):
        for j in range(i + 1, len(spans)):
            a, b = spans[i], spans[j]
            if a[0] < b[1] and b[0] < a[1] and any(ch_match(x, y) for x in a[2] for y in b[2]):
                return False
    return True


def all_counts_one(circ):
    if circ.circuit_structure.nr_of_repetitions != 1:
        return False
    return all(c.nr_of_repetitions == 1 for c in circ.composite_operations)


@register
class AcquisitionProbe(Probe):
    """C07: indices enumerate the measurements of a modifier-applied circuit, in listing order."""
    name = 'C07'

    def after(self, run, i, cmd, ans):
        fails = []
        if cmd[0] != 'list' or ans in (None, 'undef') or run.last_ops is None:
            return fails
        a = progs.api()
        from qce_circuit.structure.intrf_acquisition_operation import AcquisitionTag
        circ = run.circs[cmd[1]]
        if not all_counts_one(circ):
            return fails
        ops = run.last_ops
        ms = [o for o in ops if type(o).__name__ == 'DispersiveMeasure']
        # quantifier: every measurement was created against this circuit or a sub-circuit nested into it
        if not run.measurements_own_registry(cmd[1]):
            return fails
        per_q = {}
        for k, m in enumerate(ms):
            q = m.qubit_index
            r = per_q.get(q, 0)
            per_q[q] = r + 1
            if m.circuit_level_acquisition_index != k:
                fails.append({'what': 'circuit-level index is not the position among the listed measurements',
                              'pos': k, 'got': m.circuit_level_acquisition_index})
                return fails
            if m.acquisition_index != r:
                fails.append({'what': 'per-qubit index is not the rank among the listed measurements of that qubit',
                              'pos': k, 'got': m.acquisition_index})
                return fails
        for q in per_q:
            got = [int(x) for x in circ.get_acquisition_indices(q)]
            if got != list(range(per_q[q])):
                fails.append({'what': 'get_acquisition_indices(qubit) is not 0..n-1', 'qubit': q, 'got': got})
                return fails
            tags = sorted({m.acquisition_tag for m in ms if m.qubit_index == q})
            union = []
            for t in tags:
                got_t = [int(x) for x in circ.get_acquisition_indices(AcquisitionTag(q, t))]
                exp_t = [m.acquisition_index for m in ms if m.qubit_index == q and m.acquisition_tag == t]
                if got_t != exp_t:
                    fails.append({'what': 'get_acquisition_indices(tag) is not the indices of the matching measurements',
                                  'qubit': q, 'tag': t})
                    return fails
                union += got_t
            if sorted(union) != list(range(per_q[q])):
                fails.append({'what': 'tags do not partition the qubit indices', 'qubit': q})
                return fails
        # position in the exported measurement record (seeded change C07-m8: the exporter re-orders neighbouring measurements of a
        # layer by qubit index): the measured qubits of the Stim export, in record order, are the listed measurements in order
        try:
            from qce_circuit.addon_stim.factory_manager import to_stim as _to_stim
        except Exception:   # noqa
            _to_stim = None
        if _to_stim is not None and ms:
            try:
                record = [t.value for ins in _to_stim(circ).flattened() if ins.name in ('M', 'MZ') for t in ins.targets_copy()]
            except RecursionError:
                raise
            except Exception:   # noqa — an export that raises (e.g. a detector looking back too far) is C08's business
                record = None
            if record is not None and record != [m.qubit_index for m in ms]:
                fails.append({'what': 'exported measurement record is not the listed measurements in order',
                              'record': record[:12], 'listed': [m.qubit_index for m in ms][:12]})
                return fails
        # time monotonicity: implicitly sequenced and overlap free
        if run.implicit_only and overlap_free(ops):
            for q in per_q:
                ts = [m.start_time for m in ms if m.qubit_index == q]
                if any(x >= y for x, y in zip(ts, ts[1:])):
                    fails.append({'what': 'per-qubit indices do not increase with measurement start time', 'qubit': q})
                    return fails
        return fails


def no_lead(block):
    """no directly contained node starts before the block's first (depth-1) nodes."""
    if block.empty_composite:
        return True
    nodes = graph_nodes(block)
    head_lo = min(nd.operation.start_time for nd in block._circuit_graph.get_nodes_at(depth=1))
    return min(o.start_time for o in nodes) >= head_lo


@register
class UnrollProbe(Probe):
    """C06: apply_modifiers multiplies contents, resets counts, is idempotent, leaves the rest alone; n*T."""
    name = 'C06'

    def before(self, run, i, cmd):
        self.pre = None
        if cmd[0] != 'apply':
            return
        a = progs.api()
        circ = run.circs[cmd[1]]
        st = circ.circuit_structure
        blocks = [st] + list(circ.composite_operations)
        nt = []
        for b in blocks:
            n = b.nr_of_repetitions
            inner = [x for x in b.get_sub_composite_operations()]
            if n < 2 or b.empty_composite or any(x.nr_of_repetitions != 1 for x in inner):
                continue
            nodes = graph_nodes(b)
            leaf_ops = [nd.operation for nd in b._circuit_graph.leaf_nodes]
            try:
                latest = max(o.end_time for o in nodes)
                leaf_latest = any(o.end_time == latest for o in leaf_ops)
                nt.append((b, n, b.duration, leaf_latest and all(no_lead(x) for x in [b] + inner)))
            except RecursionError:
                pass
        # operations outside every repeated block
        outside = []

        def walk(s, repeated):
            rep = repeated or s.nr_of_repetitions != 1
            for o in graph_nodes(s):
                if isinstance(o, a.CircuitCompositeOperation):
                    walk(o, rep)
                elif not rep:
                    outside.append((o, sig(o), o.relation_link))
        walk(st, False)
        self.pre = (nt, outside)

    def after(self, run, i, cmd, ans):
        fails = []
        if cmd[0] != 'apply' or self.pre is None:
            return fails
        nt, outside = self.pre
        circ = run.circs[cmd[1]]
        if not all_counts_one(circ):
            fails.append({'what': 'a repetition count is not 1 after apply_modifiers'})
        for b, n, T, cond in nt:
            if cond and b.duration != n * T:
                fails.append({'what': 'block whose last-ending operation is a leaf does not occupy n*T', 'n': n,
                              'T': T, 'got': b.duration})
                break
        now = {id(o) for o in expand(circ.circuit_structure)}
        for o, s0, l0 in outside:
            if id(o) not in now or sig(o) != s0 or o.relation_link is not l0:
                fails.append({'what': 'an operation outside every repeated block was changed by apply_modifiers'})
                break
        # idempotence: a second application changes nothing observable
        before_ids = [id(o) for o in expand(circ.circuit_structure)]
        again = circ.apply_modifiers()
        after_ids = [id(o) for o in expand(again.circuit_structure)]
        if before_ids != after_ids:
            fails.append({'what': 'applying modifiers twice differs from applying them once'})
        return fails


@register
class FlattenProbe(Probe):
    """C11: flatten keeps the leaf multiset, removes all nesting, is idempotent."""
    name = 'C11'

    def before(self, run, i, cmd):
        self.pre = None
        if cmd[0] == 'flatten':
            from collections import Counter
            self.pre = Counter(sig(o) for o in expand(run.circs[cmd[1]].circuit_structure))

    def after(self, run, i, cmd, ans):
        fails = []
        if cmd[0] != 'flatten' or self.pre is None:
            return fails
        from collections import Counter
        circ = run.circs[cmd[1]]
        leaves = expand(circ.circuit_structure)
        if Counter(sig(o) for o in leaves) != self.pre:
            fails.append({'what': 'flatten changed the multiset of leaf operations'})
        if circ.composite_operations:
            fails.append({'what': 'a sub-circuit remains after flatten'})
        ids = [id(o) for o in leaves]
        links = [o.relation_link for o in leaves]
        again = circ.flatten()
        leaves2 = expand(again.circuit_structure)
        if [id(o) for o in leaves2] != ids:
            fails.append({'what': 'flattening twice gives a different listing than flattening once'})
        elif any(o.relation_link.reference_node is not l.reference_node or
                 o.relation_link.relation_type != l.relation_type for o, l in zip(leaves2, links)):
            fails.append({'what': 'flattening twice changes a relation'})
        return fails


def listed_nodes(struct):
    """all nodes below a composite in pre-order (each structure in its listing order, a composite before its content);
    siblings keep the relative order of their structure's listing."""
    a = progs.api()
    out = []
    for o in graph_nodes(struct):
        out.append(o)
        if isinstance(o, a.CircuitCompositeOperation):
            out.extend(listed_nodes(o))
    return out


def stale_group_parent(struct) -> bool:
    """some operation with a group relation hangs, in its graph, under a node that is not its CURRENT latest member (it was hung when
    another member ended latest — or tied and came first); nested composites included."""
    a = progs.api()
    parent = {}
    layers = list(struct._circuit_graph.get_branch_iterator())
    for d in range(1, len(layers)):
        for p in layers[d - 1]:
            try:
                nxt = p.get_next_pointers()
            except Exception:   # noqa
                nxt = []
            for n in nxt:
                op = getattr(n, 'operation', None)
                if op is not None and id(op) not in parent:
                    parent[id(op)] = getattr(p, 'operation', None)
    for o in graph_nodes(struct):
        lk = o.relation_link
        if isinstance(lk, a.MultiRelationLink) and getattr(lk, '_reference_nodes', None):
            try:
                ref = lk.reference_node
            except RecursionError:
                ref = None
            if ref is not None and id(o) in parent and parent[id(o)] is not None and parent[id(o)] is not ref:
                return True
        if isinstance(o, a.CircuitCompositeOperation) and stale_group_parent(o):
            return True
    return False


def positional_refs(struct):
    """for each expanded leaf: (relation type, index of the referenced leaf in the expansion | 'C<k>' for the k-th
    composite | None | 'ext')."""
    a = progs.api()
    leaves = []
    comps = []

    def walk(s):
        for o in graph_nodes(s):
            if isinstance(o, a.CircuitCompositeOperation):
                comps.append(o)
                walk(o)
            else:
                leaves.append(o)
    walk(struct)
    pos = {id(o): k for k, o in enumerate(leaves)}
    cpos = {id(o): k for k, o in enumerate(comps)}
    out = []
    for o in leaves + comps:
        link = o.relation_link
        try:
            ref = link.reference_node
        except RecursionError:
            ref = None
        if ref is None:
            r = None
        elif id(ref) in pos:
            r = pos[id(ref)]
        elif id(ref) in cpos:
            r = f'C{cpos[id(ref)]}'
        else:
            r = 'ext'
        out.append((link.relation_type.name, r))
    return leaves, comps, out


@register
class CopyProbe(Probe):
    """C05: a copy (nesting, explicit copy) has the same operation sequence, relations re-pointed positionally,
    same relative schedule; later mutations of one side do not change the other."""
    name = 'C05'

    def __init__(self):
        self.watch = []   # (structure, fingerprint) pairs that must stay unchanged by mutations of the other side

    @staticmethod
    def fingerprint(struct):
        leaves, comps, refs = positional_refs(struct)
        return ([sig(o) for o in leaves], refs, [c.nr_of_repetitions for c in comps])

    def after(self, run, i, cmd, ans):
        fails = []
        a = progs.api()
        if cmd[0] in ('sub', 'copy'):
            if cmd[0] == 'sub':
                orig = run.circs[cmd[2]].circuit_structure
                cp = run.handles[-1]
            else:
                orig = run.circs[cmd[1]].circuit_structure
                cp = run.circs[-1].circuit_structure
            lo, co, ro = positional_refs(orig)
            lc, cc, rc = positional_refs(cp)
            so, sc = [sig(o) for o in lo], [sig(o) for o in lc]
            if so != sc:
                fl = {'what': 'copy does not have the same operation sequence'}
                # second symptom of finding R24: the group relation that lost a member now has a different latest member, the
                # operation carrying it is hung under a different node and the (layer by layer) listing of the copy differs in
                # ORDER only.  Signature: same multiset of operations, the original has a group relation with a member listed
                # after the operation that refers to it, and the copy's group relations have fewer members in total.
                from collections import Counter
                if Counter(so) == Counter(sc):
                    order = {id(o): n for n, o in enumerate(listed_nodes(orig))}
                    later = False
                    for o in lo + co:
                        lk = o.relation_link
                        ms = getattr(lk, '_reference_nodes', None)
                        me = order.get(id(o))
                        if isinstance(lk, a.MultiRelationLink) and ms and me is not None \
                                and any(order.get(id(m), -1) > me for m in ms):
                            later = True
                    members = lambda objs: sum(len(getattr(o.relation_link, '_reference_nodes', None) or [])
                                               for o in objs if isinstance(o.relation_link, a.MultiRelationLink))
                    if later and members(lc + cc) < members(lo + co):
                        fl['group_ref_dropped'] = True
                    # signature of finding R26 (consequence of R23 for copies): an operation with a group relation hangs, in the
                    # original, under the member that ended latest WHEN IT WAS ADDED; the copy is built now and hangs it under the
                    # member that ends latest NOW — a different layer, hence a different position in the listing
                    elif stale_group_parent(orig):
                        fl['group_parent_stale'] = True
                fails.append(fl)
            elif [c.nr_of_repetitions for c in co] != [c.nr_of_repetitions for c in cc]:
                fails.append({'what': 'copy changed a repetition count'})
            else:
                for k, (x, y) in enumerate(zip(ro, rc)):
                    if x[1] == 'ext' or (k >= len(lo) and x[1] is None):
                        continue     # outside relation of the copied circuit itself: documented as dropped
                    if x != y:
                        fl = {'what': 'an internal relation of the copy is not the re-pointed original relation',
                              'pos': k, 'orig': repr(x), 'copy': repr(y)}
                        # signature of finding R24: a group relation whose copy has fewer members because a member
                        # is listed after the operation that refers to it (not yet in the transfer lookup)
                        lko, lkc = (lo + co)[k].relation_link, (lc + cc)[k].relation_link
                        mo, mc = getattr(lko, '_reference_nodes', None), getattr(lkc, '_reference_nodes', None)
                        if isinstance(lko, a.MultiRelationLink) and mo is not None and mc is not None and len(mc) < len(mo):
                            order = {id(o): n for n, o in enumerate(listed_nodes(orig))}
                            me = order.get(id((lo + co)[k]))
                            if me is not None and any(order.get(id(m), -1) > me for m in mo):
                                fl['group_ref_dropped'] = True
                        fails.append(fl)
                        break
                else:
                    try:
                        t0 = [(o.start_time, o.duration) for o in lo]
                        t1 = [(o.start_time, o.duration) for o in lc]
                        b0 = min((s for s, _ in t0), default=0.0)
                        b1 = min((s for s, _ in t1), default=0.0)
                        if [(s - b0, d) for s, d in t0] != [(s - b1, d) for s, d in t1]:
                            fails.append({'what': 'copy does not have the same relative schedule'})
                    except RecursionError:
                        pass
            if cmd[0] == 'copy':
                self.watch.append((orig, cp))
        # independence: whatever is mutated now, structures watched as its counterpart keep their fingerprint
        if cmd[0] in ('op', 'sub', 'apply', 'flatten'):
            target = run.circs[cmd[1]].circuit_structure
            for x, y in self.watch:
                for mine, other in ((x, y), (y, x)):
                    if mine is target:
                        fp = self.fps.get(id(other))
                        if fp is not None and fp != self.fingerprint(other):
                            fails.append({'what': 'mutating one side of a copy changed the other side'})
        return fails

    def before(self, run, i, cmd):
        self.fps = {}
        if cmd[0] in ('op', 'sub', 'apply', 'flatten'):
            for x, y in self.watch:
                for s in (x, y):
                    self.fps[id(s)] = self.fingerprint(s)
