/-
  Stateless driver module `conn`: `handle args` answers one line. Filled in by the Conn model.
-/
namespace Qco.Driver.Conn

def handle (_args : List String) : String := "bad-op"

end Qco.Driver.Conn
