"""Writes MANIFEST.json from the table below (kept in one place so that it is always valid)."""
import json
from pathlib import Path

ROOT = Path(__file__).resolve().parent.parent

T = "Lean 4 proof about an executable model + model/implementation correspondence (+ source-text translation where stated)"
N = ("Trusted: Lean kernel, axioms ⊆ {propext, Classical.choice, Quot.sound} (audited on every run); hand-written Lean model "
     "tied to /repo only by this run's correspondence check (bounded by its generator); Python/float semantics on dyadic "
     "times; third-party engines as stated in DESIGN.md §3.")

CHECKS = {
    'C01': dict(text='Timing evaluator of the heap model: relation equations, fuel monotonicity, uniqueness of the schedule and the '
                     'implicit-predecessor rule are theorems; the model is run against the real API on random build programs (all 26 '
                     'classes, nesting, unrolling, duration changes) and the relation equations are re-evaluated on the implementation\'s '
                     'own numbers. Definedness of all times is a theorem for heaps with an acyclicity certificate, which newCircuit / op / '
                     'add / copy / add_sub_circuit preserve and unrolling preserves for nested trees (applyModifiers_preserves_acyclic, unrolled_times_defined). The link-start rule, the latest-of-group choice, end time and has_relation are '
                     'proved equal to their SOURCE TEXT (regenerated mini-Python syntax, interpreter validated against CPython).', ref='DESIGN.md §4 C01, §2.3b'),
    'C02': dict(text='Listing = nodes sorted by path key: permutation of the inserted nodes, parents first, insertion adds exactly one '
                     'entry (theorems); the implementation\'s listing is compared with the model and with a shadow multiset of added '
                     'leaves, causality and stability are checked on its own objects. Known finding R23 (group relation after nested '
                     'unrolling). add_to_graph is proved equal to its SOURCE TEXT as a decision table of recorded effects, and the same table '
                     'is proved to drive the model function World.addToGraph. The layer bound of the graph walk (MAX_GRAPH_DEPTH) is extracted and pinned.', ref='DESIGN.md §4 C02, §2.3b'),
    'C03': dict(text='History independence: observers of the model are idempotent on the heap they leave (theorems, partial for the full '
                     'frame statement); every generated history is replayed on the implementation with and without its intermediate '
                     'observations and the final answers compared. Proved: a second listing changes nothing in the heap; listing before add / '
                     'add_sub_circuit (restricted) gives the same heap after the next listing. The listing loop is proved equal to its SOURCE TEXT. '
                     'Known finding R3 (attributed by the identity-keyed twin of the model).', ref='DESIGN.md §4 C03, §2.3b'),
    'C04': dict(text='(lead, span) evaluator: span = latest end − earliest start over the node intervals, nested blocks shifted by their '
                     'lead (theorems); implementation (after the R2 repair) compared with the model and with the span recomputed from '
                     'its own reported times on forced and random programs. _lead_and_span is proved equal to its SOURCE TEXT (running min/max from '
                     '±infinity = leadSpan).', ref='DESIGN.md §4 C04, §2.3b'),
    'C05': dict(text='Per-class copy keeps every field and the relation type (theorems, all 26 classes); graph level: the copy\'s relation tree is '
                     'the image of the original\'s with every internal relation re-pointed (theorems for flat and nested blocks under the '
                     'hypotheses that exclude the known findings R3/R24); the copy loop is proved equal to its SOURCE TEXT; graph-level faithfulness is also '
                     'checked on the implementation at every copy/nesting/unrolling (sequence, positional relation targets, relative '
                     'schedule, independence under later mutations) and against the model. Known findings R3, R24, R14.', ref='DESIGN.md §4 C05'),
    'C06': dict(text='Unrolling: counts reset, idempotence, untouched outside operations, n·T for blocks whose last-ending operation is a '
                     'leaf and the unrolled multiset are checked on the implementation at every apply_modifiers and against the model; '
                     'the selection of the latest leaf (pickLatest), n·T for a chain and the heap-level unrolling are proved: for every tree-shaped heap (which the API builds) each leaf occurs product-of-enclosing-counts times, all counts are reset, outside objects are untouched, a second application writes nothing (unroll_counts, unroll_twice); extend / repeat / apply_modifiers_to_self are proved equal to their SOURCE TEXT (recorded effects). Library concatenation clause evaluated on the '
                     'constructors: known finding R5.',
                ref='DESIGN.md §4 C06'),
    'C07': dict(text='Two-counter acquisition scan: circuit index = position, qubit index = rank, filters and tag partition are theorems '
                     'about the scan the driver executes; the implementation\'s indices and filter getters are compared with the model '
                     'and with the enumeration predicate, with index reads between the mutations. The scan is proved equal to the SOURCE '
                     'TEXT of AcquisitionRegistry.get_registry_at. Known findings R3, R15.', ref='DESIGN.md §4 C07, §2.3b'),
    'C08': dict(text='Stim export: translate table, detector/observable record targets, export = image of the count-expanded listing and '
                     '= filterMap translate of the listing when all counts are 1 (theorems, any nesting); multiset clause before/after unrolling proved for tree-shaped heaps with counts ≥ 1 '
                     '(export_multiset_unroll); exports compared instruction-wise with the model before/after unrolling and flattening. Library clause: '
                     'known finding R5. Detector / observable / coordinate-shift instructions proved equal to their SOURCE TEXT.', ref='DESIGN.md §4 C08, §2.3b'),
    'C09': dict(text='Product-state semantics of the exported gate set; protocol record, prepared states, detector and observable values '
                     'proved for ALL chain lengths, ALL cycle counts and ALL computational initial states (chain descriptions, by a locality argument); '
                     'for the Surface-17 layout sub-chains over a kernel-checked table; generator tied to the real '
                     'export text and to stim\'s tableau simulator.', ref='DESIGN.md §4 C09'),
    'C10': dict(text='General no-overlap theorems about the timing evaluator (FOLLOWED_BY chains, block after block, interval covers '
                     'nodes) for all non-negative durations; layer theorem nested_layers_no_double_booking for any number of qubits, layers and nesting '
                     'levels; verified symbolic-schedule checker and verified layered checker evaluated by the kernel on library heaps regenerated on every run '
                     '(partial: 81 heaps, ≤ 822 objects, as constructed and unrolled); constructors × random duration settings on the '
                     'implementation and through the recorder + model.', ref='DESIGN.md §4 C10'),
    'C11': dict(text='Flatten: leaf multiset, no remaining sub-circuit and idempotence are checked on the implementation at every flatten '
                     'of implicitly sequenced programs and against the model; flatten_listing_perm / flatten_no_composite and idempotence (same listing, same schedule, for circuits without group links among the listed operations) are theorems; apply_flatten_to_self is proved equal to its SOURCE TEXT; the layer bound of the graph walk is extracted and pinned and a flatten deeper than 1000 layers is run on every check; library '
                     'clause evaluated on the constructors incl. the multi-round one. Known findings R14, R5, R25, R3.', ref='DESIGN.md §4 C11'),
    'C12': dict(text='Index kernels: contiguity, disjointness, tiling, category cover, translation by the cycle length and the estimate '
                     'inverse proved for every rounds list / heralded / calibration flag / repetitions; exhaustive correspondence over all '
                     'lists of ≤ 4 distinct rounds in {0..5}. Every member of the three kernel classes is proved equal to its SOURCE TEXT '
                     '(34 theorems over regenerated mini-Python syntax).', ref='DESIGN.md §4 C12, §2.3b'),
    'C13': dict(text='Per-ancilla tag sequence of the multi-round experiment circuit vs kernel getters: kernel_eq_circuit proved for every '
                     'rounds list; the tag sequence is derived from the program model of the constructor (program_tag_sequence, all cycle counts); '
                     'real circuits (d ∈ {2,3}, thorough ≤ 5), built after other library constructors ran in the same process and again after the kernel queries, compared '
                     'with real kernels, the Lean tag model and the Lean kernel model.', ref='DESIGN.md §4 C13'),
    'C14': dict(text='Noise dressing: strip_dress, measurement arguments, block/idle structure proved for every instruction list and '
                     'settings; probability bounds proved over the reals (Mathlib exp); dressed circuits compared structurally with the '
                     'model and numerically (1e-12) with the formula.', ref='DESIGN.md §4 C14'),
    'C15': dict(text='OpenQL export: name table, flat circuits = in-order image of the listing, deterministic names (theorems); nested: '
                     'partial theorem + witness that the in-order statement is false of model and code (known finding R6); recorded '
                     'kernel/program calls compared with the model; a stage through the real PlatformManager constructors compiles repeated exports of a circuit and compares the cQASM incl. kernel labels; thorough tier compiles every export.', ref='DESIGN.md §4 C15'),
    'C16': dict(text='allowed_iff / parking_iff / generator_sound proved for EVERY list of device edges over tables regenerated from the '
                     'code on each run (48×48 pair table by decide +kernel); exhaustive ≤ 3-edge (thorough ≤ 4) correspondence and '
                     'generator soundness on the implementation. get_mutually_allowed, the frequency ordering (is_equal_to / is_higher_than / is_lower_than), '
                     'on_moving_side, the two frequency selectors and get_requires_parking (every qubit, every edge list) are proved equal to their SOURCE TEXT (calls between them run the translated callee).', ref='DESIGN.md §4 C16, §2.3b'),
    'C17': dict(text='Shipped layouts executable by decide over regenerated tables; derived and composite descriptions executable and '
                     'index map bijective for every involved-qubit list (theorems); all chains, random subsets/orderings and exclusions '
                     'compared with the implementation. get_requires_parking (the dynamic parking of derived descriptions) is proved equal to its SOURCE TEXT.', ref='DESIGN.md §4 C17'),
    'C18': dict(text='Drawing geometry (rows, pivots, widths, figure width, labels, rejection) proved of the model; plot ≡ one listing on '
                     'the heap (frame theorem, partial for settledness); real plot_circuit descriptions/transforms compared with the '
                     'model; side-effect clause by before/after and twin runs under foreign ambient durations. reorder_indices (row order) is proved equal to its SOURCE TEXT.', ref='DESIGN.md §4 C18'),
    'C19': dict(text='Channel matching, edge/qubit identity and hash, unique_in_order incl. its laws over concatenations and filters (37 theorems, full strength, about the definitions '
                     'the heap model uses); ChannelIdentifier.__eq__, EdgeIDObj.contains/__eq__ and unique_in_order (the loop over a growing set) proved equal to their SOURCE TEXT; exhaustive correspondence over 12² / 12³ channel identifiers, 17² qubits, 48² edges.',
                ref='DESIGN.md §4 C19'),
}
for _c in CHECKS.values():
    _c.setdefault('note', N)
    _c.setdefault('technique', T)

ALL = [f'C{i:02d}' for i in range(1, 20)]


def main():
    import os
    built = {p for p in CHECKS if os.path.exists(ROOT / 'harness' / f'{p.lower()}.py')}
    checks = []
    for pid, c in CHECKS.items():
        if pid not in built:
            continue
        checks.append({
            'property_id': pid,
            'quick_cmd': f'./check {pid} --tier quick',
            'thorough_cmd': f'./check {pid} --tier thorough',
            'evidence_file': f'evidence/{pid}.json',
            'replay_cmd_template': './check replay {path}',
            'engine': 'qcoverif',
            'level_claimed': {'category': 'proof', 'text': c['text'], 'design_ref': c['ref']},
            'level_note': c['note'],
            'technique': c['technique'],
        })
    import os
    built = {p for p in CHECKS if os.path.exists(ROOT / 'harness' / f'{p.lower()}.py')}
    na = [{'property_id': p, 'reason': 'check not built yet in this round (planned, see DESIGN.md §4)'}
          for p in ALL if p not in built]
    doc = {
        'version': 1,
        'setup_cmd': 'cd lean && lake build',
        'hooks': {
            'guard': 'QCOCIRCUITS_VERIF',
            'enable': 'no hooks are needed: every observation point is public API (DESIGN.md §2.6)',
            'baseline_off_cmd': 'cd /repo && /venv/bin/python -m pytest -ra -q -p no:cacheprovider --timeout=900 --continue-on-collection-errors',
            'source_commits': [],
            'add_only': True,
        },
        'engines': [{
            'name': 'qcoverif', 'path': 'lean',
            'serves_properties': sorted(built),
            'kind_free_text': 'Lean 4 model + theorems (lake project), native line-protocol driver, Python correspondence harness (harness/)',
        }],
        'checks': checks,
        'not_applicable': na,
        'notes': 'Exit 2 = infrastructure failure. Known findings: known_findings.json. See DESIGN.md.',
    }
    (ROOT / 'MANIFEST.json').write_text(json.dumps(doc, indent=1) + '\n')


if __name__ == '__main__':
    main()
