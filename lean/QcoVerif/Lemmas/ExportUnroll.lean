import QcoVerif.Lemmas.TreeDepth
import QcoVerif.Lemmas.Export
/-
  Bridge between the exporter's specification (C08: `World.expanded` / `expandedTop`, the count-expanded NODE listing in
  listing order, a count of 0 exports nothing) and the unrolling theorems (C06: `World.expand`, count-expanded leaf
  SIGNATURES in insertion order, a count of 0 behaves like 1), for tree-shaped heaps (`TreeBelow`).

    expandedTop_sig_perm          the exporter's count-expanded listing, by signature, is `expandWith repCount` (any counts)
    expandWith_of_countsPos       with all counts ≥ 1 below `c` (`CountsPos`) that is `World.expand`
    unroll_export_hyps            after `applyModifiers`: own count 1, `allOne`, and the operation listing is, by export
                                  key, a permutation of `expand` of the heap before
    expandedTop_keys              … and so is, under `CountsPos`, the exporter's listing of the heap before
    repsOk_*                      the builder functions only create sub-circuits with repetition strategies that exist
                                  already (used to show `CountsPos` of API-built heaps)
  Core Lean only.
-/
namespace Qco.ExportUnroll

open Qco

/-! ### what the exporter reads is a function of the signature -/

/-- the export key (`exportKey`) as a function of the signature. -/
def sigKey (s : Sig) : Cls × List Int × List (Option Int) × Chan := (s.cls, s.qs, s.ints, s.chan)

theorem exportKey_eq_sigKey (o : Op) : exportKey o = sigKey o.sig := rfl

/-- an operation with the given signature (default link, registry, count, graph). -/
def sigOp (s : Sig) : Op := { cls := s.cls, qs := s.qs, chan := s.chan, dur := s.dur, tag := s.tag, ints := s.ints }

theorem sigOp_sig (s : Sig) : (sigOp s).sig = s := rfl

/-- the instruction an operation is exported as only depends on its signature. -/
theorem translate_sig (o : Op) : translate o = translate (sigOp o.sig) := translate_of_key _ _ rfl

/-- the instruction a signature is exported as (`none` = class outside the table). -/
def sigInstr (s : Sig) : Option Instr := translate (sigOp s)

theorem translate_eq_sigInstr (o : Op) : translate o = sigInstr o.sig := translate_sig o

theorem sigInstr_of_key (a b : Sig) (h : sigKey a = sigKey b) : sigInstr a = sigInstr b :=
  translate_of_key _ _ h

/-! ### all counts at or below an object are at least 1 -/

/-- every composite at or below `o` (down to depth `f`) has a repetition count ≥ 1 under the current registry. -/
def CountsPos (w : World) : Nat → Nat → Prop
  | 0, _ => True
  | f+1, o => (w.op o).isComp = true → 1 ≤ w.repCount (w.op o).rep ∧ ∀ n ∈ w.kids o, CountsPos w f n

theorem countsPos_anti (w : World) : ∀ (a b o : Nat), a ≤ b → CountsPos w b o → CountsPos w a o := by
  intro a
  induction a with
  | zero => intro b o _ _; trivial
  | succ a ih =>
    intro b o hab hb hc
    cases b with
    | zero => omega
    | succ b =>
      obtain ⟨k1, k2⟩ := hb hc
      exact ⟨k1, fun n hn => ih b n (by omega) (k2 n hn)⟩

/-- a heap all of whose composites have a positive count satisfies `CountsPos` everywhere. -/
theorem countsPos_of_all (w : World) (h : ∀ j, (w.op j).isComp = true → 1 ≤ w.repCount (w.op j).rep) :
    ∀ (f o : Nat), CountsPos w f o := by
  intro f
  induction f with
  | zero => intro o; trivial
  | succ f ih => intro o hc; exact ⟨h o hc, fun n _ => ih n⟩

/-- with all counts ≥ 1, expanding with the counts themselves is expanding with `max 1 count`. -/
theorem expandWith_of_countsPos (w : World) : ∀ (f o : Nat), CountsPos w f o →
    w.expandWith w.repCount f o = w.expand f o := by
  intro f
  induction f with
  | zero => intro o _; rfl
  | succ f ih =>
    intro o h
    by_cases hc : (w.op o).isComp = true
    · obtain ⟨h1, h2⟩ := h hc
      simp only [World.expandWith, World.expand, hc, if_true]
      rw [show max 1 (w.repCount (w.op o).rep) = w.repCount (w.op o).rep by omega]
      congr 1
      exact flatMap_congr' (fun n hn => ih n (h2 n hn))
    · have hl : (w.op o).isComp = false := by simpa using hc
      simp only [World.expandWith, World.expand, hl, Bool.false_eq_true, if_false]

/-! ### the exporter's count-expanded listing, by signature -/

/-- **nodes vs signatures, listing order vs insertion order.**  For a tree `c` of depth ≤ `f` and walk fuel `g ≥ f`, the
    exporter's count-expanded node listing (`World.expanded`, times the own count), read by signature, is a permutation of
    the expansion with the counts themselves (`expandWith repCount`: a count of 0 contributes nothing). -/
theorem expanded_sig_perm (w : World) : ∀ (f c g : Nat), f ≤ g → TreeBelow w f c → (w.op c).isComp = true →
    ((repeatList (w.repCount (w.op c).rep) (w.expanded g c)).map (fun n => (w.op n).sig)).Perm
      (w.expandWith w.repCount f c) := by
  intro f
  induction f with
  | zero => intro c g _ h _; exact h.elim
  | succ f ih =>
    intro c g hg ht hcomp
    cases g with
    | zero => omega
    | succ g =>
      simp only [World.expandWith, hcomp, if_true]
      rw [map_repeatList]
      apply Perm.repeatList
      unfold World.expanded
      rw [List.map_flatMap]
      have hp : (listing (w.op c).graph).Perm (w.kids c) := listing_perm _
      refine (List.Perm.flatMap_right _ hp.symm).symm.trans ?_
      apply perm_flatMap_congr
      intro n hn
      have htn := ht.kid hcomp hn
      by_cases hcn : (w.op n).isComp = true
      · rw [if_pos hcn]
        exact ih n g (by omega) htn hcn
      · have hl : (w.op n).isComp = false := by simpa using hcn
        rw [if_neg hcn]
        cases f with
        | zero => exact htn.elim
        | succ f =>
          simp only [World.expandWith, hl, Bool.false_eq_true, if_false, List.map_cons, List.map_nil]
          exact List.Perm.refl _

/-- the same at the fuel the exporter uses (`depthFuel`), for ANY depth bound `f` of the tree. -/
theorem expandedTop_sig_perm (w : World) (f c : Nat) (h : TreeBelow w f c) (hc : (w.op c).isComp = true) :
    ∃ f0, f0 ≤ f ∧ TreeBelow w f0 c ∧ w.expand f0 c = w.expand f c ∧
      ((w.expandedTop c).map (fun n => (w.op n).sig)).Perm (w.expandWith w.repCount f0 c) := by
  obtain ⟨f0, h1, h2, t0⟩ := tree_depth_le_size w f c h
  obtain ⟨_, _, x0⟩ := t0.mono_le h1
  exact ⟨f0, h1, t0, x0.symm,
    expanded_sig_perm w f0 c w.depthFuel (by unfold World.depthFuel; omega) t0 hc⟩

/-- **the exporter's listing before unrolling is the C06 expansion** when every count is ≥ 1. -/
theorem expandedTop_expand (w : World) (f c : Nat) (h : TreeBelow w f c) (hc : (w.op c).isComp = true)
    (hp : CountsPos w f c) : ((w.expandedTop c).map (fun n => (w.op n).sig)).Perm (w.expand f c) := by
  obtain ⟨f0, h1, _, x0, p⟩ := expandedTop_sig_perm w f c h hc
  rw [expandWith_of_countsPos w f0 c (countsPos_anti w f0 f c h1 hp), x0] at p
  exact p

theorem expandedTop_keys (w : World) (f c : Nat) (h : TreeBelow w f c) (hc : (w.op c).isComp = true)
    (hp : CountsPos w f c) :
    ((w.expandedTop c).map (fun n => exportKey (w.op n))).Perm ((w.expand f c).map sigKey) := by
  have := (expandedTop_expand w f c h hc hp).map sigKey
  rw [List.map_map] at this
  exact this

/-! ### `AllOnes` (C06) gives `allOne` (C08) -/

theorem repCount_of_allOnes (w : World) (f c : Nat) (h : TreeBelow w f c) (ha : AllOnes w f c)
    (hc : (w.op c).isComp = true) : w.repCount (w.op c).rep = 1 := by
  cases f with
  | zero => exact h.elim
  | succ f => rw [(ha hc).1]; rfl

theorem allOne_of_allOnes (w : World) : ∀ (f c g : Nat), TreeBelow w f c → AllOnes w f c →
    (w.op c).isComp = true → w.allOne g c = true := by
  intro f
  induction f with
  | zero => intro c g h _ _; exact h.elim
  | succ f ih =>
    intro c g ht ha hcomp
    cases g with
    | zero => rfl
    | succ g =>
      simp only [World.allOne, List.all_eq_true, Bool.or_eq_true, Bool.not_eq_eq_eq_not, Bool.not_true,
        Bool.and_eq_true, beq_iff_eq]
      intro n hn
      have hnk : n ∈ w.kids c := (listing_perm _).mem_iff.mp hn
      have htn := ht.kid hcomp hnk
      have han := (ha hcomp).2 n hnk
      by_cases hcn : (w.op n).isComp = true
      · exact Or.inr ⟨repCount_of_allOnes w f n htn han hcn, ih n g htn han hcn⟩
      · exact Or.inl (by simpa using hcn)

/-! ### the three hypotheses of `C08.export_multiset_unroll_partial` -/

/-- after `applyModifiers` (the driver's call) on a tree: the own count is 1, every count below is 1 (`allOne`, at the
    fuel of the NEW heap), and the operation listing is — by signature — a permutation of the C06 expansion of the heap
    BEFORE (every leaf × the product of the enclosing `max 1 count`). -/
theorem unroll_export_hyps (w : World) (f c : Nat) (h : TreeBelow w f c) (hc : (w.op c).isComp = true) :
    (w.applyModifiers w.depthFuel c).repCount ((w.applyModifiers w.depthFuel c).op c).rep = 1 ∧
    (w.applyModifiers w.depthFuel c).allOne (w.applyModifiers w.depthFuel c).depthFuel c = true ∧
    ((((w.applyModifiers w.depthFuel c).operations c).2).map
      (fun n => ((w.applyModifiers w.depthFuel c).op n).sig)).Perm (w.expand f c) := by
  have s := applyModifiers_tree_driver w f c h
  have hc' : ((w.applyModifiers w.depthFuel c).op c).isComp = true := by rw [s.kind]; exact hc
  refine ⟨repCount_of_allOnes _ f c s.tree s.ones hc', allOne_of_allOnes _ f c _ s.tree s.ones hc', ?_⟩
  rw [operations_eq_leafListing]
  exact (expand_ones_leafListing_driver _ f c s.tree s.ones hc').symm.trans s.expand

/-- the third hypothesis by export key. -/
theorem unroll_listing_keys (w : World) (f c : Nat) (h : TreeBelow w f c) (hc : (w.op c).isComp = true) :
    ((((w.applyModifiers w.depthFuel c).operations c).2).map
      (fun n => exportKey ((w.applyModifiers w.depthFuel c).op n))).Perm ((w.expand f c).map sigKey) := by
  have p := (unroll_export_hyps w f c h hc).2.2.map sigKey
  rw [List.map_map] at p
  exact p

/-- `filterMap translate` over a node list is `filterMap sigInstr` over its signatures. -/
theorem filterMap_translate_sig (w : World) (l : List Nat) :
    l.filterMap (fun n => translate (w.op n)) = (l.map (fun n => (w.op n).sig)).filterMap sigInstr := by
  rw [List.filterMap_map]
  exact filterMap_congr' (fun n _ => translate_eq_sigInstr (w.op n))

/-! ### measurements per qubit -/

/-- number of measurement results the program records on qubit `q`. -/
def measCountOn (q : Int) (l : List Instr) : Nat :=
  ((l.filter (fun i => i.name == "M")).map (fun i => i.targets.count (.q q))).sum

theorem measCountOn_perm (q : Int) {a b : List Instr} (h : a.Perm b) : measCountOn q a = measCountOn q b := by
  unfold measCountOn
  exact ((h.filter _).map _).sum_nat

/-! ### the builder only creates sub-circuits with repetition strategies that exist already

A cheap GLOBAL invariant (no tree hypothesis) that gives `CountsPos` for heaps built through the API: if every composite of
the heap has a repetition strategy satisfying `P`, so has every composite after `newOp` (of an operation satisfying it),
`add`, `copyObj`, `addSub`, `newCircuit`. -/

/-- every composite of the heap has a repetition strategy satisfying `P`. -/
def RepsOk (P : Rep → Prop) (w : World) : Prop := ∀ j, (w.op j).isComp = true → P (w.op j).rep

theorem op_default_of_ge (w : World) (j : Nat) (h : w.ops.size ≤ j) : w.op j = default := by
  unfold World.op
  rw [Array.getD_eq_getD_getElem?]
  have : w.ops[j]? = none := by simp; omega
  rw [this]; rfl

theorem default_not_comp : (default : Op).isComp = false := by decide

theorem repsOk_empty (P : Rep → Prop) : RepsOk P ({} : World) := by
  intro j hj
  rw [op_default_of_ge _ j (Nat.zero_le _), default_not_comp] at hj
  cases hj

theorem repsOk_of_ops {P : Rep → Prop} {w w' : World} (h : w'.ops = w.ops) (hw : RepsOk P w) : RepsOk P w' := by
  intro j hj
  rw [op_congr h j] at hj ⊢
  exact hw j hj

theorem repsOk_of_shape {P : Rep → Prop} {w w' : World} (h : Shape w' w) (hw : RepsOk P w) : RepsOk P w' := by
  intro j hj
  rw [h.isComp j] at hj
  rw [h.rep j]
  exact hw j hj

theorem repsOk_newOp {P : Rep → Prop} (w : World) (o : Op) (hw : RepsOk P w) (ho : o.isComp = true → P o.rep) :
    RepsOk P (w.newOp o).1 := by
  intro j hj
  rcases Nat.lt_trichotomy j w.ops.size with hlt | heq | hgt
  · rw [C05.newOp_op_old w o j hlt] at hj ⊢
    exact hw j hj
  · subst heq
    have hn : (w.newOp o).1.op w.ops.size = o := C05.newOp_op_new w o
    rw [hn] at hj ⊢
    exact ho hj
  · have hs : (w.newOp o).1.ops.size = w.ops.size + 1 := newOp_size w o
    rw [op_default_of_ge _ j (by omega), default_not_comp] at hj
    cases hj

theorem repsOk_newCircuit {P : Rep → Prop} (w : World) (r : Rep) (hw : RepsOk P w) (hr : P r) :
    RepsOk P (w.newCircuit r).1 :=
  repsOk_newOp w _ hw (fun _ => hr)

theorem repsOk_add {P : Rep → Prop} (w : World) (c o : Nat) (hw : RepsOk P w) : RepsOk P (w.add c o) := by
  have h1 : RepsOk P (w.addToGraph (w.op c).graph o).1 := repsOk_of_shape (addToGraph_linksOnly w _ o).2 hw
  intro j hj
  unfold World.add World.setGraph at hj ⊢
  simp only at hj ⊢
  rw [op_setOp] at hj ⊢
  split at hj
  · rename_i hcj
    rw [if_pos hcj]
    exact h1 c hj
  · rename_i hcj
    rw [if_neg hcj]
    exact h1 j hj

theorem repsOk_copyLeaf {P : Rep → Prop} (w : World) (o : Nat) (lk : Lookup) (hl : (w.op o).isComp = false)
    (hw : RepsOk P w) : RepsOk P (w.copyLeaf o lk).1 := by
  obtain ⟨_, c2, _, c4, c5, _⟩ := copyLeaf_spec w o lk
  intro j hj
  rcases Nat.lt_trichotomy j w.ops.size with hlt | heq | hgt
  · rw [c4 j hlt] at hj ⊢
    exact hw j hj
  · subst heq
    unfold Op.isComp at hj hl
    rw [c5, hl] at hj
    cases hj
  · rw [op_default_of_ge _ j (by omega), default_not_comp] at hj
    cases hj

theorem repsOk_copyObj {P : Rep → Prop} : ∀ (f : Nat) (w : World) (o : Nat) (lk : Lookup), RepsOk P w →
    RepsOk P (w.copyObj f o lk).1 := by
  intro f
  induction f with
  | zero => intro w o lk hw; exact hw
  | succ f ih =>
    intro w o lk hw
    by_cases hc : (w.op o).isComp = true
    · rw [copyObj_comp w f o lk hc]
      simp only
      have h0 : RepsOk P ((w.copyLink (w.op o).link lk).1.newOp
          { cls := .comp, link := (w.copyLink (w.op o).link lk).2, rep := (w.op o).rep }).1 :=
        repsOk_newOp _ _ (repsOk_of_ops (C05.copyLink_frame w (w.op o).link lk).1 hw) (fun _ => hw o hc)
      refine foldl_inv (fun acc : World × Lookup => RepsOk P acc.1) _ ?_ _ _ h0
      intro acc n hacc
      unfold copyStep
      simp only
      apply repsOk_add
      split
      · exact repsOk_of_ops rfl (ih acc.1 n acc.2 hacc)
      · exact ih acc.1 n acc.2 hacc
    · have hl : (w.op o).isComp = false := by simpa using hc
      rw [World.copyObj]
      simp only [hl, Bool.not_false, if_true]
      exact repsOk_copyLeaf w o lk hl hw

theorem repsOk_addSub {P : Rep → Prop} (w : World) (c sub : Nat) (hw : RepsOk P w) : RepsOk P (w.addSub c sub).1 := by
  unfold World.addSub
  simp only
  exact repsOk_add _ _ _ (repsOk_copyObj _ w sub _ hw)

/-- strategies with a fixed positive count. -/
def FixedPos (r : Rep) : Prop := ∃ n, r = .fixed (n + 1)

theorem countsPos_of_repsOk (w : World) (h : RepsOk FixedPos w) (f o : Nat) : CountsPos w f o := by
  apply countsPos_of_all
  intro j hj
  obtain ⟨n, hn⟩ := h j hj
  rw [hn]
  show 1 ≤ n + 1
  omega

/-! ### the worked example `exG` (Lemmas/TreeBuild.lean): every count is fixed and positive -/

theorem exG_repsOk : RepsOk FixedPos exG.1 := by
  have hA : RepsOk FixedPos exA.1 := repsOk_newCircuit _ _ (repsOk_empty _) ⟨2, rfl⟩
  have hB : RepsOk FixedPos exB := repsOk_add _ _ _ (repsOk_newOp _ exX hA (fun h => by cases h))
  have hC : RepsOk FixedPos exC.1 := repsOk_newCircuit _ _ hB ⟨1, rfl⟩
  have hD : RepsOk FixedPos exD := repsOk_add _ _ _ (repsOk_newOp _ exM hC (fun h => by cases h))
  have hE : RepsOk FixedPos exE.1 := repsOk_addSub _ _ _ hD
  have hF : RepsOk FixedPos exF.1 := repsOk_newCircuit _ _ hE ⟨0, rfl⟩
  exact repsOk_addSub _ _ _ hF

theorem exG_countsPos : CountsPos exG.1 4 exF.2 := countsPos_of_repsOk _ exG_repsOk 4 exF.2

/-! ### deciding `TreeBelow` on heap literals; the count-0 counterexample heap -/

instance decCopyStable (o : Op) : Decidable o.CopyStable := by unfold Op.CopyStable; exact inferInstance

/-- `TreeBelow` is decidable (bounded quantifiers over `kids` / `below`), so it can be evaluated on a heap literal. -/
def decTreeBelow (w : World) : ∀ (f o : Nat), Decidable (TreeBelow w f o)
  | 0, _ => isFalse (fun h => h)
  | f+1, o =>
    have : ∀ n, Decidable (TreeBelow w f n) := decTreeBelow w f
    show Decidable (o < w.ops.size ∧
      (((w.op o).isComp = true ∧ (w.kids o).Nodup ∧
        (∀ n ∈ w.kids o, TreeBelow w f n ∧ o ∉ w.below f n) ∧
        (∀ a ∈ w.kids o, ∀ b ∈ w.kids o, a ≠ b → ∀ j, j ∈ w.below f a → j ∉ w.below f b))
      ∨ ((w.op o).isComp = false ∧ (w.op o).CopyStable))) from inferInstance

instance instDecTreeBelow (w : World) (f o : Nat) : Decidable (TreeBelow w f o) := decTreeBelow w f o

/-- `top{ blk(×0){ M q0 } }`: a sub-circuit with count 0 holding one measurement. -/
def wZero : World :=
  { ops := #[
      { cls := .comp, graph := [⟨1, none, [0]⟩] },
      { cls := .comp, rep := .fixed 0, graph := [⟨2, none, [0]⟩] },
      { cls := .measure, qs := [0], dur := .glob .ro }] }

end Qco.ExportUnroll
