import QcoVerif.Model.Builder
/-
  C07 — acquisition indices enumerate measurements exactly, in order.

  About `acqScan`, the two-counter scan of `AcquisitionRegistry.get_registry_at` that `World.acq` (and the driver)
  executes over the listed measurements `(identity, qubit)`.  The scan is a pure list function, so the statements
  hold for every listing.  What ties "the listing of the registry circuit contains the measurement" to the API
  (registry re-targeting through nesting) is checked by correspondence; where it fails (value-equal keys in the
  copy lookup, R3) the scan answers (-1, -1) — `not_listed`.
-/
namespace Qco.C07

open Qco

theorem go_spec (pre : List (Nat × Int)) (m : Nat) (q : Int) (post : List (Nat × Int)) (ql cl : Int)
    (hpre : ∀ x ∈ pre, x.1 ≠ m) :
    acqScan.go m q (pre ++ (m, q) :: post) ql cl =
      (ql + (pre.countP (fun x => x.2 == q) : Nat), cl + (pre.length : Nat)) := by
  induction pre generalizing ql cl with
  | nil => simp [acqScan.go]
  | cons x xs ih =>
    obtain ⟨o, oq⟩ := x
    have hne : o ≠ m := hpre (o, oq) List.mem_cons_self
    have hxs : ∀ x ∈ xs, x.1 ≠ m := fun x hx => hpre x (List.mem_cons_of_mem _ hx)
    simp only [List.cons_append, acqScan.go, beq_iff_eq, hne, if_false, List.countP_cons, List.length_cons]
    rw [ih _ _ hxs]
    by_cases hq : oq = q
    · simp [hq]; constructor <;> omega
    · simp [hq]; omega

/-- **circuit-level index = position, qubit-level index = rank**: the measurement listed at position `k`
    (its identity occurring nowhere earlier) gets circuit-level index `k` and, as per-qubit index, the number of
    earlier listed measurements on the same qubit. -/
theorem index_eq_position_and_rank (pre : List (Nat × Int)) (m : Nat) (q : Int) (post : List (Nat × Int))
    (hpre : ∀ x ∈ pre, x.1 ≠ m) :
    acqScan (pre ++ (m, q) :: post) m q =
      (((pre.countP (fun x => x.2 == q) : Nat) : Int), ((pre.length : Nat) : Int)) := by
  unfold acqScan
  rw [go_spec pre m q post 0 0 hpre]
  simp

theorem go_not_listed (ms : List (Nat × Int)) (m : Nat) (q : Int) (ql cl : Int) (h : ∀ x ∈ ms, x.1 ≠ m) :
    acqScan.go m q ms ql cl = (-1, -1) := by
  induction ms generalizing ql cl with
  | nil => rfl
  | cons x xs ih =>
    obtain ⟨o, oq⟩ := x
    have hne : o ≠ m := h (o, oq) List.mem_cons_self
    simp only [acqScan.go, beq_iff_eq, hne, if_false]
    exact ih _ _ (fun x hx => h x (List.mem_cons_of_mem _ hx))

/-- a measurement that the registry circuit does not list has no index: the scan answers (-1, -1). -/
theorem not_listed (ms : List (Nat × Int)) (m : Nat) (q : Int) (h : ∀ x ∈ ms, x.1 ≠ m) :
    acqScan ms m q = (-1, -1) := go_not_listed ms m q 0 0 h

/-- all indices of a listing, in listing order. -/
def indices (ms : List (Nat × Int)) : List (Int × Int) := ms.map (fun x => acqScan ms x.1 x.2)

theorem indices_aux (pre ms : List (Nat × Int)) (hnd : ((pre ++ ms).map (·.1)).Nodup) :
    ms.map (fun x => acqScan (pre ++ ms) x.1 x.2) =
      (List.range ms.length).zipWith (fun k (x : Nat × Int) =>
        ((((pre ++ ms.take k).countP (fun y => y.2 == x.2) : Nat) : Int), ((pre.length + k : Nat) : Int))) ms := by
  induction ms generalizing pre with
  | nil => simp
  | cons x xs ih =>
    obtain ⟨m, q⟩ := x
    have hpre : ∀ y ∈ pre, y.1 ≠ m := by
      intro y hy he
      rw [List.map_append, List.nodup_append] at hnd
      exact hnd.2.2 y.1 (List.mem_map.mpr ⟨y, hy, rfl⟩) m (by simp) he
    have h1 := index_eq_position_and_rank pre m q xs hpre
    have hnd' : (((pre ++ [(m, q)]) ++ xs).map (·.1)).Nodup := by simpa using hnd
    have h2 := ih (pre ++ [(m, q)]) hnd'
    simp only [List.map_cons, List.length_cons, List.range_succ_eq_map, List.zipWith_cons_cons,
      List.take_zero, List.append_nil, Nat.add_zero]
    rw [h1]
    congr 1
    have e : pre ++ (m, q) :: xs = (pre ++ [(m, q)]) ++ xs := by simp
    rw [e, h2, List.zipWith_map_left]
    congr 1
    funext a b
    simp [List.take_succ_cons, Nat.add_assoc, Nat.add_comm 1]

/-- **the circuit-level indices of a listing of distinct measurements are exactly 0..N-1, in listing order**, and
    the per-qubit index of each is the number of earlier listed measurements on its qubit. -/
theorem indices_enumerate (ms : List (Nat × Int)) (hnd : (ms.map (·.1)).Nodup) :
    (indices ms).map (·.2) = (List.range ms.length).map (fun (k : Nat) => (k : Int)) ∧
    indices ms = (List.range ms.length).zipWith (fun k (x : Nat × Int) =>
        ((((ms.take k).countP (fun y => y.2 == x.2) : Nat) : Int), ((k : Nat) : Int))) ms := by
  have h := indices_aux [] ms (by simpa using hnd)
  simp only [List.nil_append, List.length_nil, Nat.zero_add] at h
  refine ⟨?_, h⟩
  unfold indices
  rw [h]
  apply List.ext_getElem
  · simp
  · intro i h1 h2
    simp

/-- per qubit the indices are exactly 0..n_q-1 in listing order: the k-th listed measurement of qubit `q` has
    per-qubit index k (stated on the sub-list of that qubit). -/
theorem qubit_indices_enumerate (ms : List (Nat × Int)) (hnd : (ms.map (·.1)).Nodup) (q : Int) :
    ((ms.filter (fun x => x.2 == q)).map (fun x => (acqScan ms x.1 x.2).1)) =
      (List.range (ms.countP (fun x => x.2 == q))).map (fun (k : Nat) => (k : Int)) := by
  suffices h : ∀ pre ms : List (Nat × Int), ((pre ++ ms).map (·.1)).Nodup →
      ((ms.filter (fun x => x.2 == q)).map (fun x => (acqScan (pre ++ ms) x.1 x.2).1)) =
        (List.range (ms.countP (fun x => x.2 == q))).map
          (fun (k : Nat) => (((pre.countP (fun x => x.2 == q) + k : Nat)) : Int)) by
    have := h [] ms (by simpa using hnd)
    simpa using this
  intro pre ms
  induction ms generalizing pre with
  | nil => intro _; simp
  | cons x xs ih =>
    intro hnd
    obtain ⟨m, q'⟩ := x
    have hpre : ∀ y ∈ pre, y.1 ≠ m := by
      intro y hy he
      rw [List.map_append, List.nodup_append] at hnd
      exact hnd.2.2 y.1 (List.mem_map.mpr ⟨y, hy, rfl⟩) m (by simp) he
    have hnd' : (((pre ++ [(m, q')]) ++ xs).map (·.1)).Nodup := by simpa using hnd
    have e : pre ++ (m, q') :: xs = (pre ++ [(m, q')]) ++ xs := by simp
    have h2 := ih (pre ++ [(m, q')]) hnd'
    by_cases hq : q' = q
    · subst hq
      simp only [List.filter_cons, beq_self_eq_true, if_true, List.map_cons, List.countP_cons, if_true]
      rw [index_eq_position_and_rank pre m q' xs hpre]
      rw [e, h2]
      simp only [List.countP_append, List.countP_cons, beq_self_eq_true, if_true, List.countP_nil, Nat.zero_add,
        List.range_succ_eq_map, List.map_cons, List.map_map, Nat.add_zero]
      congr 1
      apply List.map_congr_left
      intro a _
      simp only [Function.comp]
      congr 1
      omega
    · have hq' : (q' == q) = false := by simpa using hq
      simp only [List.filter_cons, hq', Bool.false_eq_true, if_false, List.countP_cons, Nat.add_zero]
      rw [e, h2]
      simp [List.countP_append, hq']

theorem filter_or_perm {α} (l : List α) (p q : α → Bool) (hdis : ∀ x ∈ l, ¬ (p x = true ∧ q x = true)) :
    (l.filter p ++ l.filter q).Perm (l.filter (fun x => p x || q x)) := by
  induction l with
  | nil => simp
  | cons x xs ih =>
    have ih' := ih (fun y hy => hdis y (List.mem_cons_of_mem _ hy))
    have hx := hdis x List.mem_cons_self
    cases hp : p x <;> cases hq : q x
    · simpa [List.filter_cons, hp, hq] using ih'
    · simp only [List.filter_cons, hp, hq, Bool.false_eq_true, if_false, if_true, Bool.or_true]
      exact List.perm_middle.trans (List.Perm.cons x ih')
    · simp only [List.filter_cons, hp, hq, Bool.false_eq_true, if_false, if_true, Bool.or_false, List.cons_append]
      exact List.Perm.cons x ih'
    · exact absurd ⟨hp, hq⟩ hx

/-- filtering by (qubit, tag) returns exactly the matching entries in order (`List.filter`), and the tags
    partition the entries: splitting a list by a key and concatenating the parts is a permutation of the list. -/
theorem tags_partition {α κ} [DecidableEq κ] (l : List α) (key : α → κ) (keys : List κ) (hk : keys.Nodup)
    (hall : ∀ x ∈ l, key x ∈ keys) :
    (keys.flatMap (fun t => l.filter (fun x => key x = t))).Perm l := by
  have h : ∀ ks : List κ, ks.Nodup →
      (ks.flatMap (fun t => l.filter (fun x => key x = t))).Perm (l.filter (fun x => decide (key x ∈ ks))) := by
    intro ks
    induction ks with
    | nil => intro _; simp
    | cons t ts ih =>
      intro hnd
      have ht : t ∉ ts := (List.nodup_cons.mp hnd).1
      have ih' := ih (List.nodup_cons.mp hnd).2
      simp only [List.flatMap_cons]
      refine (List.Perm.append_left _ ih').trans ?_
      refine (filter_or_perm l _ _ ?_).trans ?_
      · intro x _ ⟨h1, h2⟩
        have e1 : key x = t := by simpa using h1
        have e2 : key x ∈ ts := by simpa using h2
        exact ht (e1 ▸ e2)
      · apply List.Perm.of_eq
        apply List.filter_congr
        intro x _
        simp [List.mem_cons]
  refine (h keys hk).trans (List.Perm.of_eq ?_)
  rw [List.filter_eq_self]
  intro x hx
  simpa using hall x hx

/-- non-vacuity: four measurements on qubits 2, 1, 2, 2. -/
example : indices [(10, 2), (11, 1), (12, 2), (13, 2)] = [(0, 0), (0, 1), (1, 2), (2, 3)] := by decide

example : acqScan [(10, 2), (11, 1)] 99 2 = (-1, -1) := by decide


end Qco.C07
