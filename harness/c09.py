"""C09 — repetition-code circuits run the protocol: deterministic detectors, exact record.

Lean side: Properties/C09.lean (namespace Qco.C09) about `Qco.RepCode.program` and `Qco.StimSem.run`.
This check ties those definitions to /repo and evaluates the property on the implementation itself:

  (i)   real `to_stim(construct_repetition_code_circuit(...))` (REPEAT unrolled by hand, and stim's own
        `.flattened()`) == the model's text, instruction by instruction;
  (ii)  stim's tableau simulator (every measurement checked deterministic via `measure_kickback`) record /
        detector parities / observable == model run == Lean closed form == the protocol written down directly
        in Python; `detector_error_model()` builds, detector sampler reports no event, sampler is constant;
  (iii) the same after `.apply_modifiers()` and `.apply_modifiers().flatten()`: export equal up to the position
        of SHIFT_COORDS (displacement = known finding R5 of C06/C08/C11, not a C09 matter), simulated again;
  (iv)  the prepared state is read off the simulator right after the preparation layer and compared with the
        requested states;
  (v)   the generated layout table (Generated/RepLayouts.lean) == live `from_connectivity` descriptions;
  (vi)  the product-state semantics `StimSem.run` == stim on random product-state programs of the gate set.
"""
from __future__ import annotations
import itertools
import json
import multiprocessing as mp
import random
import subprocess
import time
from collections import Counter

from . import common, findings
from . import c09lib as L

PROP = 'C09'

# ----------------------------------------------------------------------------- case generation

def gen_cases(tier: str, seed: int) -> list[dict]:
    rng = common.rng_for(seed, 'C09-cases')
    thorough = tier == 'thorough'
    max_d = 9 if thorough else 5
    max_c = 12 if thorough else 7
    cases: list[dict] = []

    def anc_states(n):
        mode = rng.random()
        if mode < 0.2:
            return []
        return [rng.randrange(2) for _ in range(n)]

    # A. chain descriptions
    for d in range(0, max_d + 1):
        for c in range(0, max_c + 1):
            for r in (True, False):
                if d <= 4:
                    sts = [list(t) for t in itertools.product([0, 1], repeat=d)]
                else:
                    sts = [[rng.randrange(2) for _ in range(d)] for _ in range(8 if thorough else 3)]
                for ds in sts:
                    deep = (d <= (4 if thorough else 3) and c <= (8 if thorough else 7) and
                            (rng.random() < (0.5 if thorough else 0.3) or (c >= 6 and d in (2, 3) and r)))   # c >= 6: the middle block is repeated >= 3 times (seeded change C09-m8)
                    cases.append({'stream': 'chain', 'spec': {'kind': 'chain', 'dist': d, 'refocus': r}, 'cycles': c,
                                  'ds': ds, 'as': anc_states(max(d - 1, 0)), 'deep': deep})
    # B. every contiguous data-terminated sub-chain of the three layouts (forward and reversed listing)
    for name in L.LAYOUTS:
        for ids in L.sub_chains(name):
            nd = (len(ids) + 1) // 2
            cyc = list(range(0, 11)) if thorough else sorted(rng.sample(range(0, max_c + 1), 2)) + [rng.choice([3, 4, 5])]
            for c in cyc:
                for _ in range(2 if thorough else 1):
                    ids2 = ids[::-1] if rng.random() < 0.35 else ids
                    deep = nd <= (4 if thorough else 3) and c <= (6 if thorough else 5) and rng.random() < (0.7 if thorough else 0.5)
                    spec = {'kind': 'layout', 'layout': name, 'ids': ids2, 'refocus': rng.random() < 0.5}
                    if rng.random() < 0.2:   # a caller-supplied channel index map: random injection into 0..len+2
                        spec['index_map'] = rng.sample(range(len(ids2) + 3), len(ids2))
                    cases.append({'stream': 'layout', 'spec': spec,
                                  'cycles': c, 'ds': [rng.randrange(2) for _ in range(nd)],
                                  'as': anc_states(nd - 1), 'deep': deep})
    # C. containers that cover only part of the qubits (fewer data states than data qubits, ancilla states beyond)
    for name in L.LAYOUTS:
        subs = [s for s in L.sub_chains(name) if 3 <= len(s) <= 9]
        for ids in rng.sample(subs, min(len(subs), 12 if thorough else 5)):
            nd = (len(ids) + 1) // 2
            k = rng.randrange(0, nd)
            cases.append({'stream': 'partial-container', 'spec': {'kind': 'layout', 'layout': name, 'ids': ids, 'refocus': True},
                          'cycles': rng.randrange(0, 4), 'ds': [rng.randrange(2) for _ in range(k)],
                          'as': [rng.randrange(2) for _ in range(rng.randrange(0, nd))], 'deep': False})
    return cases


def gen_malformed(tier: str, seed: int) -> list[dict]:
    rng = common.rng_for(seed, 'C09-malformed')
    out = []
    for name in L.LAYOUTS:
        subs = L.sub_chains(name, data_terminated=False)
        for ids in rng.sample(subs, min(len(subs), 20 if tier == 'thorough' else 6)):
            nd = sum(1 for q in ids if q in L.layout_data_names(name))
            out.append({'stream': 'malformed-subchain', 'spec': {'kind': 'layout', 'layout': name, 'ids': ids, 'refocus': True},
                        'cycles': rng.randrange(0, 4), 'ds': [0] * nd, 'as': [], 'deep': False})
    for d in (1, 2, 3):
        out.append({'stream': 'too-many-states', 'spec': {'kind': 'chain', 'dist': d, 'refocus': True}, 'cycles': 1,
                    'ds': [0] * d, 'as': [1] * d, 'deep': False})
    return out


# ----------------------------------------------------------------------------- model side

def model_line(cmd: str, dd: dict, case: dict) -> str:
    return f"repcode {cmd} {L.explicit_tokens(dd)} {case['cycles']} {L.bits(case['ds'])} {L.bits(case['as'])}"


def chain_line(cmd: str, case: dict) -> str:
    s = case['spec']
    return f"repcode {cmd} chain {s['dist']} {int(s['refocus'])} {case['cycles']} {L.bits(case['ds'])} {L.bits(case['as'])}"


FIELDS = ('stim', 'flat', 'record', 'detectors', 'observable', 'prepared', 'closedrec', 'closeddet', 'closedobs')


def parse_all(ans: str) -> dict | None:
    f = ans.split('|')
    if len(f) != len(FIELDS):
        return None
    return dict(zip(FIELDS, f))


def b2s(xs) -> str:
    return ''.join(str(int(x)) for x in xs)


# ----------------------------------------------------------------------------- judging one case

def requested_peek(dd: dict, case: dict) -> dict:
    want = {}
    for i, q in enumerate(dd['data']):
        want[q] = case['ds'][i] if i < len(case['ds']) else 0
    for j, q in enumerate(dd['anc']):
        want[q] = case['as'][j] if j < len(case['as']) else 0
    return want


def predicate_failures(r: dict) -> list[dict]:
    """The property evaluated on the implementation's own behaviour (no model involved)."""
    case, dd = r['case'], r['desc']
    fails = []
    sim, ch = r['sim'], r['checks']
    P = L.protocol(dd, case['cycles'], case['ds'], case['as'])

    def fail(what, **kw):
        fails.append(dict(what=what, **kw))

    if sim['random'] or not ch['sampler_constant']:
        fail('measurement-not-deterministic', random_measurements=sim['random'])
    if not ch['dem_ok']:
        fail('detector-not-deterministic', stim=ch['dem_error'])
    if ch['events']:
        fail('detection-event-without-noise', events=ch['events'])
    if ch['sampler_rec'] != sim['rec']:
        fail('samplers-disagree')
    if len(sim['det']) != P['n_det'] or ch['num_detectors'] != P['n_det']:
        fail('detector-count', expected=P['n_det'], observed=len(sim['det']))
    if sim['rec'] != P['rec']:
        fail('record', expected=b2s(P['rec']), observed=b2s(sim['rec']))
    if sim['obs'] != P['obs']:
        fail('observable', expected=P['obs'], observed=sim['obs'])
    if sim['det'] != P['det'] and len(sim['det']) == P['n_det']:
        fail('detector-values', expected=b2s(P['det']), observed=b2s(sim['det']))
    want = requested_peek(dd, case)
    got = {int(q): v for q, v in r['prep'].items()}
    if any(got.get(q) != v for q, v in want.items()):
        fail('prepared-state', expected=want, observed={q: got.get(q) for q in want})
    for label in ('applied', 'flattened'):
        x = r.get(label)
        if x is None:
            continue
        if 'error' in x:
            fail(f'{label}-raises', error=x['error'])
            continue
        if x['sim']['rec'] != sim['rec'] or x['sim']['det'] != sim['det'] or x['sim']['obs'] != sim['obs']:
            fail(f'{label}-record-differs')
        if x['sim']['random'] or not x['checks']['dem_ok'] or x['checks']['events']:
            fail(f'{label}-not-deterministic', stim=x['checks']['dem_error'])
        if L.without_shift(x['stim']) != L.without_shift(r['stim']):
            fail(f'{label}-export-differs-beyond-shift')
    return fails


def correspondence(r: dict, m: dict | None, raw: str) -> list[str]:
    """model vs implementation"""
    if m is None:
        return [f'model answered {raw[:80]!r}']
    dis = []
    if m['stim'] != ';'.join(r['stim']):
        dis.append('export text')
    if m['flat'] != ';'.join(r['flat']):
        dis.append('flattened() text')
    if m['record'] != b2s(r['sim']['rec']):
        dis.append('record')
    if m['detectors'] != b2s(r['sim']['det']):
        dis.append('detector values')
    if m['observable'] != str(r['sim']['obs']):
        dis.append('observable')
    prep = '.'.join('Z' + ('?' if r['prep'].get(q, r['prep'].get(str(q))) is None else str(r['prep'].get(q, r['prep'].get(str(q)))))
                    for q in r['desc']['all'])
    if m['prepared'] != prep:
        dis.append('prepared state')
    if (m['closedrec'], m['closeddet'], m['closedobs']) != (m['record'], m['detectors'], m['observable']):
        dis.append('closed form vs model run')
    return dis


# ----------------------------------------------------------------------------- (v) table, (vi) semantics

def check_table() -> tuple[int, list[str]]:
    """Generated/RepLayouts.lean == live descriptions (through the driver: `repcode tablecheck`)."""
    lines, n = [], 0
    problems = []
    for name in L.LAYOUTS:
        for k, ids in enumerate(L.sub_chains(name)):
            dd = L.describe(L.make_description({'kind': 'layout', 'layout': name, 'ids': ids, 'refocus': True}))
            lines.append(f'repcode table {name} {k} {L.explicit_tokens(dd)}')
            n += 1
    for ln, ans in zip(lines, common.run_driver(lines)):
        if ans != 'same':
            problems.append(f'{ln} -> {ans}')
    return n, problems


GATES1 = ['X', 'Y', 'I', 'H', 'SQRT_X', 'SQRT_X_DAG', 'SQRT_Y', 'SQRT_Y_DAG', 'R']


def gen_sem_program(rng: random.Random, nq: int, n: int) -> list[str]:
    prog = []
    for _ in range(n):
        x = rng.random()
        if x < 0.55:
            prog.append(f'{rng.choice(GATES1)} {rng.randrange(nq)}')
        elif x < 0.8 and nq > 1:
            a, b = rng.sample(range(nq), 2)
            prog.append(f'CZ {a} {b}')
        elif x < 0.95:
            prog.append(f'M {rng.randrange(nq)}')
        else:
            prog.append('TICK')
    return prog


def sem_reference(nq: int, prog: list[str]):
    """stim: returns ('ok', record) when every measurement is deterministic, ('random', k) at the first random one"""
    import stim
    sim = stim.TableauSimulator()
    sim.set_num_qubits(nq)
    rec = []
    for ins in prog:
        t = ins.split()
        if t[0] == 'M':
            res, kick = sim.measure_kickback(int(t[1]))
            if kick is not None:
                return 'random', len(rec)
            rec.append(int(res))
        elif t[0] == 'TICK':
            pass
        else:
            sim.do(stim.Circuit(ins))
    return 'ok', rec


def check_semantics(tier: str, seed: int) -> dict:
    rng = common.rng_for(seed, 'C09-sem')
    n = 20000 if tier == 'thorough' else 3000
    progs = []
    for _ in range(n):
        nq = rng.randrange(1, 5)
        progs.append((nq, gen_sem_program(rng, nq, rng.randrange(1, 14))))
    lines = [f"repcode sem {nq} {' ; '.join(p)}" for nq, p in progs]
    out = common.run_driver(lines)
    stats = Counter()
    bad = []
    for (nq, p), ans in zip(progs, out):
        kind, val = sem_reference(nq, p)
        if ans == 'undef':
            # the model may give up (entangled / non-Z measurement); it must never claim a wrong value
            stats['model-undefined'] += 1
            if kind == 'ok':
                stats['model-undefined-but-stim-deterministic'] += 1
            continue
        if not ans.startswith('rec='):
            bad.append({'program': p, 'nq': nq, 'model': ans})
            continue
        rec = ans.split()[0][4:]
        if kind != 'ok' or b2s(val) != rec:
            bad.append({'program': p, 'nq': nq, 'model': ans, 'stim': [kind, val]})
        stats['defined-and-equal'] += 1
    return {'programs': n, 'stats': dict(stats), 'bad': bad}


# ----------------------------------------------------------------------------- run

def shrink(case: dict, still_fails) -> dict:
    """fewer cycles first, then zero the states one by one"""
    best = dict(case)
    for c in range(0, best['cycles']):
        cand = dict(best, cycles=c, deep=best.get('deep', False))
        if still_fails(cand):
            best = cand
            break
    for key in ('ds', 'as'):
        for i in range(len(best[key])):
            if best[key][i]:
                cand = dict(best)
                cand[key] = list(best[key])
                cand[key][i] = 0
                if still_fails(cand):
                    best = cand
    return best


def regenerate_layout_table() -> dict:
    p = subprocess.run(['/venv/bin/python', str(common.VERIF / 'tools' / 'extract_repcode.py')], capture_output=True,
                       text=True, timeout=600, cwd=str(common.VERIF))
    if p.returncode != 0:
        return {'error': (p.stdout + p.stderr)[-2000:]}
    try:
        return json.loads(p.stdout.strip().splitlines()[-1])
    except Exception:
        return {'raw': p.stdout[-500:]}


def run(tier: str, seed: int) -> int:
    t0 = time.time()
    oc = common.Outcome(PROP)
    table_report = regenerate_layout_table()
    lean = common.proof_obligations(PROP)
    proof_ok = bool(lean['build_ok']) and not lean['failed']
    if not common.driver_available():
        print(f'model driver missing: {lean.get("build_output", "")[-800:]}')
        return 2
    probe = common.run_driver(['repcode stim chain 1 1 0 0 _'])
    if probe == ['bad-op']:
        print('model driver has no module `repcode` (register ("repcode", RepCode.handle) in lean/Main.lean)')
        return 2

    corpus = []
    cdir = common.CORPUS / PROP
    if cdir.exists():
        for f in sorted(cdir.glob('*.json')):
            try:
                corpus.append(dict(json.loads(f.read_text())['case'], stream='corpus'))
            except Exception:
                common.log(f'corpus file unreadable: {f}')
    cases = corpus + gen_cases(tier, seed)
    malformed = gen_malformed(tier, seed)

    ctx = mp.get_context('fork')
    with ctx.Pool(min(16, mp.cpu_count())) as pool:
        results = pool.map(L.run_case, cases, chunksize=4)
        mal_results = pool.map(L.run_case, malformed, chunksize=2)

    # model answers
    lines, owners = [], []
    for k, r in enumerate(results):
        if 'error' in r:
            continue
        lines.append(model_line('all', r['desc'], r['case']))
        owners.append((k, 'explicit'))
        if r['case']['spec']['kind'] == 'chain':
            lines.append(chain_line('all', r['case']))
            owners.append((k, 'chain'))
    answers = common.run_driver(lines)

    n_dis = 0
    impl_errors = Counter()
    reported = set()
    distinct, nontrivial = set(), set()
    dist = {'stream': Counter(), 'data_qubits': Counter(), 'cycles': Counter(), 'refocus': Counter(),
            'ancilla_states_given': Counter(), 'deep': Counter(), 'layers': Counter(), 'reversed_listing': 0,
            'custom_index_map': 0}
    n_shift_displaced = 0

    def evaluate_one(case):
        r = L.run_case(case)
        if 'error' in r:
            return r, [{'what': 'constructor-raises', 'error': r['error']}], ['implementation raised']
        ans = common.run_driver([model_line('all', r['desc'], r['case'])])[0]
        return r, predicate_failures(r), correspondence(r, parse_all(ans), ans)

    by_case: dict[int, list] = {}
    for (k, how), ans in zip(owners, answers):
        by_case.setdefault(k, []).append((how, ans))

    for k, r in enumerate(results):
        case = r['case']
        key = json.dumps({x: case[x] for x in ('spec', 'cycles', 'ds', 'as')}, sort_keys=True)
        distinct.add(key)
        dist['stream'][case['stream']] += 1
        dist['cycles'][case['cycles']] += 1
        dist['refocus'][str(case['spec']['refocus'])] += 1
        dist['deep'][str(bool(case.get('deep')))] += 1
        if 'error' in r:
            impl_errors[r['error'].split(':')[0]] += 1
            # a well-formed request must not raise
            if 'constructor-raises' not in reported:
                reported.add('constructor-raises')
                oc.violation({'property': PROP, 'kind': 'predicate-fails-on-implementation',
                              'failure': {'what': 'constructor-raises', 'error': r['error'], 'trace': r.get('trace')},
                              'case': case})
            continue
        dd = r['desc']
        dist['data_qubits'][len(dd['data'])] += 1
        if case['spec'].get('index_map') is not None:
            dist['custom_index_map'] += 1
        dist['layers'][len(dd['layers'])] += 1
        dist['ancilla_states_given'][('none' if not case['as'] else 'all' if len(case['as']) == len(dd['anc']) else 'some')] += 1
        if case['spec']['kind'] == 'layout' and dd['data'] and case['spec']['ids'] != sorted(
                case['spec']['ids'], key=L.layout_chain(case['spec']['layout']).index):
            dist['reversed_listing'] += 1
        if dd['anc'] and case['cycles'] >= 1 and (any(case['ds']) or any(case['as'])):
            nontrivial.add(key)
        for label in ('applied', 'flattened'):
            if label in r and 'stim' in r[label] and r[label]['stim'] != r['stim']:
                n_shift_displaced += 1
        fails = predicate_failures(r)
        dis_all = []
        for how, ans in by_case.get(k, []):
            d_ = correspondence(r, parse_all(ans), ans)
            if d_:
                dis_all.append((how, d_))
        # 1. the property predicate fails on the implementation itself
        for fl in fails:
            res_for_match = {'case': case, 'desc': dd, 'dis': (dis_all or None)}
            kf = findings.attribute(PROP, res_for_match, fl)
            if kf is not None:
                oc.known_finding(kf)
                continue
            if fl['what'] in reported:
                continue
            reported.add(fl['what'])
            small = shrink(case, lambda c, w=fl['what']: any(f['what'] == w for f in evaluate_one(c)[1]))
            rr, ff, dd_ = evaluate_one(small)
            oc.violation({'property': PROP, 'kind': 'predicate-fails-on-implementation',
                          'failure': [f for f in ff if f['what'] == fl['what']][:1] or fl, 'case': small,
                          'description': rr.get('desc'), 'model_agrees_with_implementation': not dd_,
                          'export': rr.get('stim'), 'replay': 'python -c "from harness import c09; c09.replay(<this file>)"'})
        # 2. model and implementation disagree
        if dis_all:
            n_dis += 1
            if 'dis' in reported or fails:
                continue
            reported.add('dis')
            small = shrink(case, lambda c: bool(evaluate_one(c)[2]))
            rr, ff, dd_ = evaluate_one(small)
            # search: an input near the disagreement on which the real code violates the property itself
            witness = None
            if not ff:
                srng = common.rng_for(seed, 'C09-search')
                for t in range(40):
                    cand = dict(small, cycles=small['cycles'] + (t % 3),
                                ds=[srng.randrange(2) for _ in small['ds']] if small['ds'] else
                                [srng.randrange(2) for _ in (rr.get('desc') or {}).get('data', [])],
                                as_=None)
                    cand.pop('as_')
                    cand['as'] = [srng.randrange(2) for _ in (rr.get('desc') or {}).get('anc', [])] if t % 2 else small['as']
                    r2, f2, _ = evaluate_one(cand)
                    if f2 and 'error' not in r2:
                        witness = {'case': cand, 'failures': f2}
                        break
            oc.violation({'property': PROP, 'kind': 'correspondence-broken',
                          'unchecked': 'Qco.RepCode.program / Qco.StimSem.run <-> to_stim(construct_repetition_code_circuit) + stim',
                          'case': (witness or {}).get('case', small), 'disagreeing_case': small, 'differences': dd_,
                          'description': rr.get('desc'), 'implementation_export': rr.get('stim'),
                          'predicate_failures': ff or (witness or {}).get('failures', [])},
                         found_input=bool(ff or witness))

    # malformed stream: the constructor must refuse (raise); the model must not be asked
    mal_stats = Counter()
    for r in mal_results:
        kind = r['case']['stream']
        if 'error' in r:
            mal_stats[f"{kind}: raises {r['error'].split(':')[0]}"] += 1
        else:
            mal_stats[f'{kind}: accepted'] += 1
    lines = [chain_line('stim', r['case']) for r in mal_results if r['case']['stream'] == 'too-many-states']
    mal_model = Counter(common.run_driver(lines)) if lines else Counter()
    too_many_ok = set(mal_model) <= {'error'} and all(
        'error' in r for r in mal_results if r['case']['stream'] == 'too-many-states')
    if not too_many_ok and 'too-many' not in reported:
        n_dis += 1
        oc.violation({'property': PROP, 'kind': 'correspondence-broken', 'unchecked': 'IndexError on a state index beyond the qubit list',
                      'model': dict(mal_model), 'implementation': dict(mal_stats)}, found_input=False)

    # (v) generated table == live descriptions
    n_table, table_problems = check_table()
    if table_problems:
        n_dis += 1
        oc.violation({'property': PROP, 'kind': 'correspondence-broken', 'unchecked': 'Generated/RepLayouts.lean == live descriptions',
                      'problems': table_problems[:5]}, found_input=False)
    # (v') the gate layers of every shipped layout realise its chain: each ancilla couples once with each of its two neighbours
    for name in L.LAYOUTS:
        for prob in L.layout_gate_problems(name):
            oc.violation({'property': PROP, 'kind': 'predicate-fails-on-implementation',
                          'failure': {'what': 'layout gate layers do not couple every ancilla once with each chain neighbour', **prob}})
    # (vi) semantics == stim
    sem = check_semantics(tier, seed)
    if sem['bad']:
        n_dis += 1
        oc.violation({'property': PROP, 'kind': 'correspondence-broken', 'unchecked': 'Qco.StimSem.run == stim tableau simulator',
                      'first': sem['bad'][:3]}, found_input=False)

    if not proof_ok and not oc.violations:
        oc.violation({'property': PROP, 'kind': 'proof-obligation-broken', 'unchecked': lean.get('failed'),
                      'build_output': lean.get('build_output', '')[-3000:], 'axioms': lean.get('axioms')},
                     found_input=False)

    wall = time.time() - t0
    ok_results = [r for r in results if 'error' not in r]
    samples = []
    pick = [r for r in ok_results if r['case']['stream'] == 'chain' and len(r['desc']['data']) == 3 and r['case']['cycles'] == 4
            and any(r['case']['ds'])][:1] + \
           [r for r in ok_results if r['case']['stream'] == 'layout' and len(r['desc']['data']) >= 3 and r['case']['cycles'] >= 2][:1]
    for r in pick or ok_results[:1]:
        samples.append({'case': r['case'], 'description': r['desc'], 'export_first_lines': r['stim'][:24],
                        'record': b2s(r['sim']['rec']), 'detectors': b2s(r['sim']['det']), 'observable': r['sim']['obs']})
    coverage = {}
    if lean['obligations']:
        coverage.update({'obligations': lean['obligations'], 'discharged': lean['discharged']})
    coverage.update({
        'checker_cmd': '/venv/bin/python tools/extract_repcode.py && ' + lean['checker_cmd'],
        'trusted_base': common.TRUSTED_BASE + [
            'stim 1.16: tableau simulator (oracle for StimSem.run, 600+ random product-state programs per run), '
            'flattened(), detector_error_model(), samplers',
            'tools/extract_repcode.py (live from_connectivity descriptions -> Generated/RepLayouts.lean), re-compared '
            'with the live objects through the driver on every run'],
        'theorems': lean.get('theorems', []),
        'axioms': lean.get('axioms', {}),
        'evaluations': len(results) + len(mal_results) + sem['programs'] + n_table,
        'distinct_nontrivial': len(nontrivial),
        'rule': 'cases = (description, cycles, data states, ancilla states): chain descriptions d = 0..%d x cycles 0..%d x '
                'refocusing on/off x all 2^d data states for d <= 4 (random above) with random / absent ancilla states; every '
                'contiguous data-terminated sub-chain of the three Surface-17 repetition layouts (from_connectivity, forward or '
                'reversed listing) with random cycles / states; containers covering only part of the qubits; a malformed stream '
                '(ancilla-terminated sub-chains, too many states). Each case: export text, flattened() text, record, detector '
                'values, observable, prepared state compared between implementation+stim, Lean model, Lean closed form and the '
                'protocol written in Python; a "deep" subset again after apply_modifiers() and flatten(). distinct = distinct '
                '(spec, cycles, states); non-trivial = at least one ancilla, at least one QEC cycle and at least one qubit '
                'prepared in |1>' % ((9 if tier == 'thorough' else 5), (12 if tier == 'thorough' else 6)),
        'samples': samples,
        'distinct_cases': len(distinct),
        'traces_validated_against_impl': len(ok_results) - n_dis,
        'disagreements': n_dis,
        'model_lines_compared': len(answers),
        'deep_cases': sum(1 for r in ok_results if r['case'].get('deep')),
        'shift_coords_displaced_after_unrolling': n_shift_displaced,
        'corpus_cases': len(corpus),
        'input_distribution': {k: (dict(v) if isinstance(v, Counter) else v) for k, v in dist.items()},
        'implementation_exceptions': dict(impl_errors),
        'malformed_stream': dict(mal_stats),
        'layout_table': {'entries_compared_with_live_code': n_table, 'translator': table_report},
        'semantics_vs_stim': {'programs': sem['programs'], **sem['stats']},
        'known_findings_printed': oc.known,
        'lean': {k: lean.get(k) for k in ('build_ok', 'build_s', 'lean_s', 'failed', 'forbidden_hits', 'translator')},
    })
    common.write_evidence(PROP, tier, seed, coverage, wall, len(oc.violations), assumptions=[
        'theorems cover the table descriptions (chains of <= 9 data qubits, forward sub-chains of the three layouts, all or no '
        'ancilla states given) for ALL cycle counts and ALL states; other lengths / container shapes / listing orders are '
        'covered by this correspondence run only',
        'noise-free execution; initial states restricted to the computational basis (the property\'s quantifier)',
        'SHIFT_COORDS displacement after unrolling is R5 (C06/C08/C11), irrelevant here by Qco.C09.run_ignores_annotation_position'])
    return oc.emit()


def replay(path: str) -> int:
    """Re-runs the case of a replay file on the implementation and prints what the predicate says."""
    doc = json.loads(open(path).read())
    case = doc['case']
    r = L.run_case(case)
    if 'error' in r:
        print('implementation raises:', r['error'])
        return 1
    fails = predicate_failures(r)
    print(json.dumps({'case': case, 'failures': fails, 'record': b2s(r['sim']['rec'])}, indent=1, default=str))
    return 1 if fails else 0
