"""C04 — a (sub-)circuit's duration spans everything it contains."""
import random
from . import common, progs, streamcheck

PROP = 'C04'


def nontrivial(prog, f):
    return ('JE' in f['rel'] or 'JS' in f['rel']) and f['ops'] >= 3


def forced(rng, tier):
    """programs forcing the two shapes of the quantifier: a non-leaf ends last; an operation starts before the heads."""
    out = []
    n = 150 if tier == 'quick' else 3000
    cfg = progs.GenConfig(n_cmds=(2, 10), p_rel=0.2, reps=[0, 1, 1, 2, 3])
    for _ in range(n):
        r = random.Random(rng.getrandbits(64))
        base = progs.gen_program(r, cfg)
        base = [c for c in base if c[0] != 'list' or r.random() < 0.3]
        nh = sum(1 for c in base if c[0] in ('op', 'sub'))
        nc = sum(1 for c in base if c[0] in ('new', 'copy'))
        c = r.randrange(nc)
        long_ = r.choice([16, 24, 40])
        short = r.choice([0, 2, 4, 8])
        q = r.randrange(3)
        x = r.random()
        extra_handles = 0
        if x < 0.2:
            # ONE JOINED_END link object carried by two operations of different durations (two cooperating users)
            base.append(['op', c, 'Wait', [q], 'A', f'f{long_}', 0, 0, [], None])
            base.append(['op', c, 'Wait', [(q + 1) % 3], 'A', f'f{short}', 0, 0, [], [nh, 'JE']])
            base.append(['op', c, 'Wait', [(q + 2) % 3], 'A', f'f{r.choice([6, 12, 20])}', 0, 0, [], [nh + 1, 'SAME']])
            if r.random() < 0.5:
                base.append(['op', c, 'Wait', [(q + 2) % 3], 'A', 'f8', 0, 0, [], [nh + 2, 'FB']])
                extra_handles += 1
            extra_handles += 1
        elif x < 0.6:
            base.append(['op', c, 'Wait', [q], 'A', f'f{long_}', 0, 0, [], None])
            base.append(['op', c, 'Wait', [(q + 1) % 3], 'A', f'f{short}', 0, 0, [], [nh, r.choice(['JS', 'JE', 'FB'])]])
        else:
            base.append(['op', c, 'Wait', [q], 'A', f'f{short}', 0, 0, [], None])
            base.append(['op', c, 'Wait', [(q + 1) % 3], 'A', f'f{long_}', 0, 0, [], [nh, 'JE']])
        if nc > 1 and r.random() < 0.6:
            other = r.choice([x for x in range(nc) if x != c])
            base.append(['sub', other, c])
            base.append(['op', other, 'Rx180', [q], 'A', None, 0, 0, [], [nh + 2 + extra_handles, 'FB']])
        for i in range(nc):
            base.append(['list', i])
        out.append(base)
    return out


SPEC = streamcheck.StreamSpec(
    PROP, probes=['C04'],
    # counts include 0 (a registry sweep reaching 0 rounds): the duration of a block does not depend on its count (C04-m5)
    cfg=progs.GenConfig(n_cmds=(4, 30), p_list=0.10, p_rel=0.55, reps=[0, 1, 1, 2, 3], p_huge=0.04, allow_zero_gdur=True),
    n_quick=900, n_thorough=30000,
    nontrivial=nontrivial,
    pysem=dict(groups=['timing']),
    evalcheck=True,
    extra_programs=forced,
    rule='random build programs plus a forced stream in which a long operation has a shorter JOINED_START/JOINED_END/'
         'FOLLOWED_BY successor or a JOINED_END operation is longer than its reference, nested and followed; at every '
         'listing the duration of the circuit and of every sub-circuit is compared with latest end - earliest start '
         'over its expanded leaves; non-trivial = a JOINED_START/JOINED_END relation and >= 3 operations',
    assumptions=['times are exact multiples of 1/8'])


def run(tier, seed):
    return streamcheck.run(SPEC, tier, seed)
