"""C08 — Stim export is the in-order image of the circuit.

Parts of the check
  A. proof obligations (Properties/C08.lean) + axiom audit;
  B. per-class correspondence: the model's class→gate table (`heap stimtable`) against the live
     `StimFactoryManager()._factory.factory_lookup`, and `heap stimop` (one free-standing operation) against the real
     exporter for every class and for thousands of detector / observable / coordinate-shift field combinations
     (offsets −8..8 and None; accepted and rejected ones);
  C. build programs over all 26 operation kinds, nesting, counts 1–3 (fixed and registry), `stim c` observed at
     random points, before and after `apply c`, after `flatten c`; model answer vs `to_stim` (REPEAT blocks multiplied
     out, fused targets split); a separate malformed stream where the exporter must raise exactly when the model
     answers `error`;
  D. property predicates evaluated on the implementation only (probe `C08`):
       P1  export == independent translation of the tree (documented table, sub-circuits in place × count, nothing else);
       P2  all counts 1 ⇒ export == independent translation of `c.operations`;
       P3  `apply_modifiers()` keeps the multiset of instructions and the number of measurements;
  E. library clause: `construct_repetition_code_circuit` for small sizes — the program before and after unrolling must
     be identical; a difference that only displaces SHIFT_COORDS is the recorded finding R5.
"""
from __future__ import annotations
import json
import random
import time
from collections import Counter

from . import common, progs, stream, streamcheck, probes, exportrun

PROP = 'C08'

# documented gate names (the property statement: "each supported operation becomes the documented Stim gate")
DOC_TABLE = {
    'Reset': 'R', 'Barrier': 'TICK', 'Hadamard': 'H', 'Identity': 'I', 'CPhase': 'CZ', 'DispersiveMeasure': 'M',
    'Rx180': 'X', 'Rx90': 'SQRT_X', 'Rxm90': 'SQRT_X_DAG', 'Ry180': 'Y', 'Ry90': 'SQRT_Y', 'Rym90': 'SQRT_Y_DAG',
    'DetectorOperation': 'DETECTOR', 'LogicalObservableOperation': 'OBSERVABLE_INCLUDE',
    'CoordinateShiftOperation': 'SHIFT_COORDS',
}
REC_MIN = -16777215


# ----------------------------------------------------------------------------- independent translation (Python)

class Rejected(Exception):
    """the documented translation is undefined for this operation (the exporter is expected to raise)."""


def detector_recs(last, main, sec, ref, sec_off):
    """record lookbacks of a detector as documented (5 target shapes + the empty fall-through)."""
    if main is None:
        return []
    if last is None:
        raise Rejected('last_acquisition_index is None')
    base = last + 1
    if sec is None and ref is None:
        return [main - base]
    if sec is None:
        return [main - base, main - base - ref]
    if ref is None:
        return [main - base, sec - base]
    if sec_off is None:
        return [main - base, sec - base, -ref]
    return [main - base, sec - base, -ref, -ref - sec_off]


def detector_branch(ints):
    last, main, sec, ref, so = ints
    if main is None:
        return 'empty'
    if sec is None:
        return 'main' if ref is None else 'main+ref'
    if ref is None:
        return 'main+sec'
    return 'main+sec+ref' if so is None else 'main+sec+ref+secoff'


def _recs_ok(rs):
    return all(REC_MIN <= r <= -1 for r in rs)


def translate_fields(cls, qs, ints):
    """(name, targets, args) | None (unsupported) ; raises Rejected."""
    name = DOC_TABLE.get(cls)
    if name is None:
        return None
    if cls == 'Barrier':
        return (name, (), ())
    if cls == 'CoordinateShiftOperation':
        if ints[0] is None or ints[1] is None:
            raise Rejected('shift is None')
        return (name, (), (ints[1], ints[0]))          # (space_shift, time_shift)
    if cls == 'DetectorOperation':
        rs = detector_recs(*ints)
        if not _recs_ok(rs):
            raise Rejected('record lookback out of range')
        return (name, tuple(f'r{r}' for r in rs), (qs[0], 0) if ints[1] is not None else ())
    if cls == 'LogicalObservableOperation':
        if ints[0] is None or ints[1] is None:
            raise Rejected('observable without target')
        r = ints[1] - (ints[0] + 1)
        if not _recs_ok([r]):
            raise Rejected('record lookback out of range')
        return (name, (f'r{r}',), (0,))
    if cls == 'CPhase':
        if qs[0] == qs[1] or min(qs) < 0:
            raise Rejected('CZ pair')
        return (name, (str(qs[0]), str(qs[1])), ())
    if qs[0] < 0:
        raise Rejected('negative qubit')
    return (name, (str(qs[0]),), ())


def translate_op(op):
    return translate_fields(type(op).__name__, progs.qubits_of(op), progs.ints_of(op))


def expected_tree(structure):
    """documented export of a composite: nodes in listing order, sub-circuits in place × count."""
    a = progs.api()
    out = []
    for o in progs.graph_nodes(structure):
        if isinstance(o, a.CircuitCompositeOperation):
            out.extend(expected_tree(o) * o.nr_of_repetitions)
        else:
            t = translate_op(o)
            if t is not None:
                out.append(t)
    return out


def counts_below(structure):
    a = progs.api()
    out = []
    for o in progs.graph_nodes(structure):
        if isinstance(o, a.CircuitCompositeOperation):
            out.append(o.nr_of_repetitions)
            out.extend(counts_below(o))
    return out


def n_meas(flat):
    return sum(1 for i in flat if i[0] == 'M')


@probes.register
class StimProbe(probes.Probe):
    name = 'C08'

    def __init__(self):
        self.prev = None
        self.pre_apply = None

    def before(self, run, i, cmd):
        self.pre_apply = None
        if cmd[0] == 'apply':
            try:
                self.pre_apply = exportrun.export_stim(run.circs[cmd[1]])
            except RecursionError:
                raise
            except Exception:  # noqa
                self.pre_apply = None

    def after(self, run, i, cmd, ans):
        fails = []
        k = cmd[0]
        if k == 'stim' and run.last_stim is not None:
            c, flat, n = run.last_stim
            st = run.circs[c].circuit_structure
            try:
                exp = expected_tree(st) * st.nr_of_repetitions
            except Rejected as e:
                fails.append({'what': 'exporter accepted an operation the documented translation rejects', 'why': str(e)})
                exp = None
            if exp is not None:
                if flat != exp:
                    pos = next((j for j, (x, y) in enumerate(zip(flat, exp)) if x != y), min(len(flat), len(exp)))
                    fails.append({'what': 'export is not the in-order translation of the circuit tree',
                                  'first_difference': pos, 'exported': repr(flat[pos:pos + 2]),
                                  'expected': repr(exp[pos:pos + 2]), 'lengths': [len(flat), len(exp)]})
                if n != n_meas(exp):
                    fails.append({'what': 'number of measurements differs from the number of translated measurements'})
            ones = st.nr_of_repetitions == 1 and all(x == 1 for x in counts_below(st))
            self.prev = (i, c, flat, ones)
        elif k == 'list' and self.prev is not None and self.prev[0] == i - 1 and self.prev[1] == cmd[1] \
                and self.prev[3] and ans not in (None, 'undef') and run.last_ops is not None:
            flat = self.prev[2]
            try:
                exp = [t for t in (translate_op(o) for o in run.last_ops) if t is not None]
            except Rejected:
                exp = None
            if exp is not None and flat != exp:
                fails.append({'what': 'all counts 1, yet export != translation of c.operations',
                              'lengths': [len(flat), len(exp)]})
        elif k == 'apply' and self.pre_apply is not None:
            try:
                post = exportrun.export_stim(run.circs[cmd[1]])
            except RecursionError:
                raise
            except Exception as e:  # noqa
                fails.append({'what': 'export raises after apply_modifiers() but not before', 'exc': type(e).__name__})
                post = None
            if post is not None:
                f0, n0 = self.pre_apply
                f1, n1 = post
                if Counter(f0) != Counter(f1):
                    d = Counter(f0)
                    d.subtract(Counter(f1))
                    fails.append({'what': 'apply_modifiers() changes the multiset of exported instructions',
                                  'difference': repr([(k_, v) for k_, v in d.items() if v][:4])})
                if n0 != n1:
                    fails.append({'what': 'apply_modifiers() changes the number of measurements', 'before': n0, 'after': n1})
        if k != 'stim' and k != 'list':
            self.prev = None
        return fails


# ----------------------------------------------------------------------------- generator

def draw_field(rng, p_none=0.3):
    return None if rng.random() < p_none else rng.randint(-8, 8)


def draw_ints(rng, cls, valid=True):
    """fields of an annotation operation. valid=True: only combinations the documented translation accepts."""
    for _ in range(200):
        if cls == 'CoordinateShiftOperation':
            ints = [draw_field(rng, 0.0 if valid else 0.3), draw_field(rng, 0.0 if valid else 0.3)]
        elif cls == 'DetectorOperation':
            ints = [draw_field(rng, 0.15)] + [draw_field(rng, 0.35) for _ in range(4)]
        else:
            ints = [draw_field(rng, 0.1 if not valid else 0.0), draw_field(rng, 0.1 if not valid else 0.0)]
        if not valid:
            return ints
        try:
            translate_fields(cls, [0], ints)
            return ints
        except Rejected:
            continue
    return {'CoordinateShiftOperation': [0, 0], 'DetectorOperation': [None] * 5}.get(cls, [0, 0])


MAX_UNROLLED = 160   # leaf operations after unrolling, for the forced `apply` (cost of unrolling is super-linear)
ANNOT = ('CoordinateShiftOperation', 'DetectorOperation', 'LogicalObservableOperation')


def gen_program(rng, malformed=False, cfg=None):
    cfg = cfg or progs.GenConfig(n_cmds=(4, 34), p_list=0.04, p_apply=0.05, p_flatten=0.03, p_gdur=0.01,
                                 p_setreg=0.05, p_new=0.14, p_sub=0.13, p_copy=0.02, final_list=False)
    base = progs.gen_program(rng, cfg)
    # a third of the programs use the qubit indices 1, 12, 11 (and 2 / 0): pairs whose decimal digits run together to the same
    # string — (1, 12) and (11, 2) — (seeded change C08-m8: exported instructions cached under a tag built without a separator)
    qmap = rng.choice([None, None, {0: 1, 1: 12, 2: 11, 3: 2}, {0: 11, 1: 2, 2: 1, 3: 12}])
    prog = []
    nc = 0
    bad = 0
    for cmd in base:
        cmd = json.loads(json.dumps(cmd))
        if qmap is not None and cmd[0] == 'op':
            cmd[3] = [qmap.get(q, q) for q in cmd[3]]
        if cmd[0] in ('new', 'copy'):
            nc += 1
        if cmd[0] == 'op' and cmd[2] in ANNOT:
            ok = not (malformed and rng.random() < 0.5)
            cmd[8] = draw_ints(rng, cmd[2], valid=ok)
            bad += 0 if ok else 1
        if malformed and cmd[0] == 'op' and rng.random() < 0.04:
            if cmd[2] == 'CPhase':
                cmd[3] = [cmd[3][0], cmd[3][0]]
            elif cmd[2] in progs.SINGLE_MW or cmd[2] == 'Reset':
                cmd[3] = [-1 - rng.randrange(2)]
        prog.append(cmd)
        r = rng.random()
        c = rng.randrange(nc)
        if r < 0.10:
            prog.append(['stim', c])
            if rng.random() < 0.4:
                prog.append(['list', c])
        elif r < 0.12:
            prog.append(['stimcount', c])
    # closing sequence: every circuit exported; one circuit exported around apply / flatten
    order = list(range(nc))
    rng.shuffle(order)
    for c in order:
        prog.append(['stim', c])
        if rng.random() < 0.3:
            prog.append(['list', c])
    sizes = exportrun.expanded_sizes(prog)
    cands = [c for c in range(nc) if sizes[c] <= MAX_UNROLLED] or [min(range(nc), key=lambda c: sizes[c])]
    c = rng.choice(cands)
    prog += [['stim', c], ['apply', c], ['stim', c], ['list', c]]
    if rng.random() < 0.5:
        prog += [['flatten', c], ['stim', c], ['list', c]]
    return prog


def forced_programs(rng, tier):
    """hand-shaped programs: the witness shapes of the theorems and the R5 shape as a generic build program."""
    out = []
    M = lambda c, q, reg=None: ['op', c, 'DispersiveMeasure', [q], 'A', None, 0, c if reg is None else reg, [], None]
    G = lambda c, cls, qs: ['op', c, cls, qs, 'A', None, 0, 0, [], None]
    # every supported class once, flat
    p = [['new', 'f1']]
    for cls in ['Reset', 'Hadamard', 'Identity', 'Rx180', 'Rx90', 'Rxm90', 'Ry180', 'Ry90', 'Rym90']:
        p.append(G(0, cls, [0]))
    p += [G(0, 'CPhase', [0, 1]), M(0, 0), M(0, 1), G(0, 'Barrier', [0, 1]),
          ['op', 0, 'DetectorOperation', [1], 'A', None, 0, 0, [1, 0, 1, None, None], None],
          ['op', 0, 'LogicalObservableOperation', [0], 'A', None, 0, 0, [1, 1], None],
          ['op', 0, 'CoordinateShiftOperation', [0, 1], 'A', None, 0, 0, [1, 0], None],
          ['stim', 0], ['list', 0]]
    out.append(p)
    # nested repetition: top(×2){ X; mid(×3){ M; inner(×2){ H; M } ; DETECTOR } ; Y }
    p = [['new', 'f2'], ['new', 'f3'], ['new', 'f2'],
         G(2, 'Hadamard', [0]), M(2, 0),
         M(1, 1), ['sub', 1, 2], ['op', 1, 'DetectorOperation', [1], 'A', None, 0, 0, [2, 2, 1, 1, 2], None],
         G(0, 'Rx180', [0]), ['sub', 0, 1], G(0, 'Ry180', [0]),
         ['stim', 0], ['stim', 1], ['stim', 2], ['stimcount', 0], ['apply', 0], ['stim', 0], ['list', 0],
         ['flatten', 0], ['stim', 0], ['list', 0]]
    out.append(p)
    # R5 shape as a build program: round(×3) with two detectors and a coordinate shift
    p = [['new', 'f1'], ['new', 'f3'],
         M(1, 1, 0), M(1, 2, 0),
         ['op', 1, 'DetectorOperation', [1], 'A', None, 0, 0, [1, 0, None, 2, None], None],
         ['op', 1, 'DetectorOperation', [2], 'A', None, 0, 0, [1, 1, None, 2, None], None],
         ['op', 1, 'CoordinateShiftOperation', [1, 2], 'A', None, 0, 0, [1, 0], None],
         G(0, 'Reset', [1]), ['sub', 0, 1], M(0, 0),
         ['stim', 0], ['apply', 0], ['stim', 0], ['list', 0], ['flatten', 0], ['stim', 0]]
    out.append(p)
    # empty circuits and empty repeated blocks
    out.append([['new', 'f3'], ['new', 'f2'], ['sub', 0, 1], ['stim', 0], ['stim', 1], ['apply', 0], ['stim', 0]])
    # registry-provided counts changed between exports
    out.append([['new', 'f1'], ['new', 'r0'], M(1, 0), ['sub', 0, 1], ['stim', 0], ['setrep', 0, 3], ['stim', 0],
                ['stimcount', 0], ['setrep', 0, 2], ['apply', 0], ['stim', 0], ['setrep', 0, 3], ['stim', 0]])
    return out


# ----------------------------------------------------------------------------- per-class correspondence

def class_cases(rng, n_random):
    """(class, qubits, ints) cases for `heap stimop`."""
    cases = []
    for cls in progs.ALL_LEAF:
        if cls in progs.TWO:
            qs = [1, 2]
        elif cls in ('Barrier', 'CoordinateShiftOperation'):
            qs = [0, 2]
        else:
            qs = [2]
        ints = {'CoordinateShiftOperation': [1, 2], 'DetectorOperation': [3, 2, None, None, None],
                'LogicalObservableOperation': [3, 1]}.get(cls, [])
        cases.append((cls, qs, ints))
    vals = [None] + list(range(-8, 9))
    # all 2-field combinations for observable and shift
    for cls in ('LogicalObservableOperation', 'CoordinateShiftOperation'):
        for a in vals:
            for b in vals:
                cases.append((cls, [1] if cls[0] == 'L' else [0, 1], [a, b]))
    for _ in range(n_random):
        cases.append(('DetectorOperation', [rng.randrange(4)], draw_ints(rng, 'DetectorOperation', valid=rng.random() < 0.6)))
    cases.append(('CPhase', [1, 1], []))
    cases.append(('Rx180', [-1], []))
    cases.append(('DetectorOperation', [-2], [0, 0, None, None, None]))
    return cases


def impl_single(cls, qs, ints):
    """the real exporter on a circuit holding just this operation."""
    r = exportrun.ExportRun()
    try:
        r.step(['new', 'f1'])
        op = r.make_op(cls, qs, 'A', None, 0, 0, ints, None)
        # exported through the manager's own construct on a structure that contains only `op`
        r.circs[0].add(op)
        try:
            flat, n = exportrun.export_stim(r.circs[0])
        except RecursionError:
            raise
        except Exception:  # noqa
            return 'error'
        if not flat:
            return 'none'
        if len(flat) != 1:
            return 'multi:' + exportrun.show_program(flat, n)
        return exportrun.show_instr(flat[0])
    finally:
        r.close()


def live_table():
    _, Mgr = exportrun.stim_api()
    lookup = Mgr()._factory.factory_lookup
    out = {}
    for cls, fac in lookup.items():
        nm = getattr(fac, '_operation_name', None)
        out[cls.__name__] = nm if nm is not None else type(fac).__name__
    return out


FACTORY_NAMES = {'TickOperationsFactory': 'TICK', 'DetectorOperationsFactory': 'DETECTOR',
                 'LogicalObservableOperationsFactory': 'OBSERVABLE_INCLUDE',
                 'CoordinateShiftOperationsFactory': 'SHIFT_COORDS'}


def check_tables(oc, rng, tier, stats):
    """B. Returns number of disagreements."""
    import contextlib, io, warnings
    n_bad = 0
    model_tab = dict(x.split('=') for x in common.run_driver(['heap stimtable'])[0].split(','))
    live = {k: FACTORY_NAMES.get(v, v) for k, v in live_table().items()}
    stats['table_entries'] = len(live)
    if model_tab != live or live != DOC_TABLE:
        n_bad += 1
        diff = {k: (model_tab.get(k), live.get(k), DOC_TABLE.get(k)) for k in set(model_tab) | set(live) | set(DOC_TABLE)
                if not (model_tab.get(k) == live.get(k) == DOC_TABLE.get(k))}
        oc.violation({'property': PROP, 'kind': 'gate-table', 'unchecked': 'C08.translate_table (class → gate name)',
                      'difference (model, live, documented)': diff}, found_input=live != DOC_TABLE)
    cases = class_cases(rng, 1500 if tier == 'quick' else 20000)
    lines = []
    for cls, qs, ints in cases:
        ints_s = ','.join('n' if x is None else str(x) for x in ints) if ints else '-'
        lines.append(f'heap stimop {cls} {progs._ints(qs)} {ints_s}')
    model = common.run_driver(lines)
    branches = Counter()
    with contextlib.redirect_stderr(io.StringIO()), warnings.catch_warnings():
        warnings.simplefilter('ignore')
        for (cls, qs, ints), mo in zip(cases, model):
            io_ = impl_single(cls, qs, ints)
            if cls == 'DetectorOperation':
                branches[detector_branch(ints) + (':error' if io_ == 'error' else '')] += 1
            try:
                t = translate_fields(cls, qs, ints)
                doc = 'none' if t is None else exportrun.show_instr(t)
            except Rejected:
                doc = 'error'
            if io_ != mo or io_ != doc:
                n_bad += 1
                if n_bad <= 3:
                    oc.violation({'property': PROP, 'kind': 'single-operation translation',
                                  'operation': [cls, qs, ints], 'implementation': io_, 'model': mo, 'documented': doc,
                                  'unchecked': 'C08.translate_table / detector_targets / observable_targets'},
                                 found_input=io_ != doc)
    stats['single_operation_cases'] = len(cases)
    stats['detector_branches'] = dict(branches)
    return n_bad


# ----------------------------------------------------------------------------- library clause (R5)

R5_INPUT_CLASS = 'library_circuit_ge2_detector_ancillas_and_repeated_block'
R5_SIGNATURE = 'only-coordinate-shift-displaced'


def r5_entry():
    for f in common.load_findings():
        if f.get('id') == 'R5' and f.get('status') == 'open' and PROP in f.get('properties', []):
            return f
    return None


def library_clause(oc, tier, stats):
    import contextlib, io, warnings
    progs.api()
    with contextlib.redirect_stderr(io.StringIO()):
        from qce_circuit.library.repetition_code.circuit_constructors import construct_repetition_code_circuit
        from qce_circuit.language import InitialStateContainer, InitialStateEnum
    sizes = [(d, c) for d in (1, 2, 3) for c in range(0, 5)] if tier == 'quick' else \
            [(d, c) for d in (1, 2, 3, 4, 5) for c in range(0, 7)]
    states = [InitialStateEnum.ZERO, InitialStateEnum.ONE]
    rows = []
    reported = False
    with contextlib.redirect_stderr(io.StringIO()), warnings.catch_warnings():
        warnings.simplefilter('ignore')
        for d, cyc in sizes:
            init = InitialStateContainer.from_ordered_list([states[(i + cyc) % 2] for i in range(d)])
            circ = construct_repetition_code_circuit(qec_cycles=cyc, initial_state=init)
            st = circ.circuit_structure
            f0, n0 = exportrun.export_stim(circ)
            exp = expected_tree(st) * st.nr_of_repetitions
            counts = counts_below(st)
            det_qubits = {i[2][0] for i in f0 if i[0] == 'DETECTOR' and i[2]}
            unrolled = circ.apply_modifiers()
            f1, n1 = exportrun.export_stim(unrolled)
            ops = unrolled.operations
            listing = [t for t in (translate_op(o) for o in ops) if t is not None]
            row = {'data_qubits': d, 'cycles': cyc, 'instructions': len(f0), 'measurements': n0, 'counts': sorted(set(counts)),
                   'detector_qubits': len(det_qubits), 'identical': f0 == f1}
            rows.append(row)
            problems = []
            if f0 != exp:
                problems.append('export is not the in-order translation of the circuit tree')
            if f1 != listing:
                problems.append('unrolled export is not the translation of the unrolled listing')
            if Counter(f0) != Counter(f1) or n0 != n1:
                problems.append('unrolling changes the multiset of instructions or the number of measurements')
            if problems:
                oc.violation({'property': PROP, 'kind': 'library circuit', 'input': {'data_qubits': d, 'qec_cycles': cyc},
                              'problems': problems})
                continue
            if f0 != f1:
                noshift = lambda f: [x for x in f if x[0] != 'SHIFT_COORDS']
                only_shift = noshift(f0) == noshift(f1)
                in_class = len(det_qubits) >= 2 and any(c > 1 for c in counts)
                row['signature'] = R5_SIGNATURE if only_shift else 'other'
                ent = r5_entry()
                if only_shift and in_class and ent is not None:
                    oc.known_finding(f"R5: {ent.get('what_fails', 'library circuit: unrolling displaces SHIFT_COORDS only')}")
                elif not reported:
                    reported = True
                    pos = next(j for j, (x, y) in enumerate(zip(f0, f1)) if x != y)
                    oc.violation({'property': PROP, 'kind': 'library circuit: program differs after unrolling',
                                  'input': {'constructor': 'construct_repetition_code_circuit', 'data_qubits': d,
                                            'qec_cycles': cyc, 'initial_state': [s.name for s in
                                                                                 [states[(i + cyc) % 2] for i in range(d)]]},
                                  'input_class': R5_INPUT_CLASS if in_class else 'other',
                                  'signature': R5_SIGNATURE if only_shift else 'other',
                                  'first_difference': pos, 'before': [exportrun.show_instr(x) for x in f0[pos:pos + 6]],
                                  'after': [exportrun.show_instr(x) for x in f1[pos:pos + 6]],
                                  'note': 'matches finding R5 (input class + signature) but known_findings.json has no '
                                          'open entry R5 listing C08' if (only_shift and in_class) else ''})
    stats['library'] = rows
    return rows


# ----------------------------------------------------------------------------- the check

def nontrivial(prog, f):
    kinds = set(f['cls'])
    sup = kinds & set(DOC_TABLE)
    return len(sup) >= 3 and (len(kinds - sup) >= 1 or f['sub'] >= 1) and any(c[0] == 'stim' for c in prog)


RULE = ('random build programs over all 26 operation classes (15 exported, 11 skipped), nesting <= 4, counts 1-3 fixed '
        'and registry-provided, detector/observable/coordinate-shift fields drawn from {None} + -8..8 restricted to the '
        'combinations the documented translation accepts (valid stream) or unrestricted plus equal-qubit CZ and negative '
        'qubit indices (malformed stream, exporter must raise iff the model answers error); `stim c` at random points, '
        'for every circuit at the end, before/after `apply c` and after `flatten c`, followed by `list c`; '
        'non-trivial = >= 3 distinct exported kinds and (>= 1 skipped kind or a sub-circuit) and an export observed; '
        'distinct = distinct program text')


def evaluate(programs, ambient):
    impl = exportrun.run_impl_many(programs, ['C08'])
    model = stream.run_model_many(programs, ambient)
    res = []
    for p, (out, fails), mo in zip(programs, impl, model):
        to = exportrun.timed_out(out)
        res.append({'prog': p, 'impl': out, 'model': mo, 'dis': None if to else exportrun.compare(p, out, mo),
                    'fails': fails, 'timeout': to})
    return res


def run(tier: str, seed: int) -> int:
    t0 = time.time()
    oc = common.Outcome(PROP)
    lean = common.proof_obligations(PROP)
    proof_ok = lean['build_ok'] and not lean['failed']
    if not common.driver_available():
        print(f'model driver missing: {lean.get("build_output", "")[-800:]}')
        return 2
    ambient = progs.ambient_durations()
    rng = common.rng_for(seed, PROP)
    stats = {}
    n_valid, n_mal = (700, 250) if tier == 'quick' else (24000, 8000)
    corpus = streamcheck.load_corpus(PROP)
    programs = list(corpus) + forced_programs(rng, tier)
    n_fixed = len(programs)
    kinds = ['fixed'] * n_fixed
    for _ in range(n_valid):
        programs.append(gen_program(random.Random(rng.getrandbits(64)), malformed=False))
        kinds.append('valid')
    for _ in range(n_mal):
        programs.append(gen_program(random.Random(rng.getrandbits(64)), malformed=True))
        kinds.append('malformed')
    results = evaluate(programs, ambient)

    feats = {}
    distinct, nontriv = set(), set()
    obs = Counter()
    n_dis = 0
    exc = Counter()
    for r, kind in zip(results, kinds):
        f = progs.features(r['prog'])
        progs.merge_features(feats, f)
        key = streamcheck.canon(r['prog'])
        distinct.add(key)
        if nontrivial(r['prog'], f):
            nontriv.add(key)
        prev = None
        for cmd, ans in zip(r['prog'], r['impl']):
            if cmd[0] in ('stim', 'stimcount') and ans is not None:
                tag = 'error' if ans == 'error' else ('empty' if ans.startswith('- #') else 'program')
                obs[f'{cmd[0]}:{tag}'] += 1
                obs[f'{kind}:{tag}'] += 1
                if cmd[0] == 'stim' and prev in ('apply', 'flatten') and tag == 'program':
                    obs[f'after-{prev}'] += 1
                if cmd[0] == 'stim' and tag == 'program':
                    body = ans.rsplit(' # ', 1)[0].split(';')
                    obs['instructions'] += len(body)
            if ans and ans.startswith('EXC:'):
                exc[ans.split(':')[1]] += 1
            prev = cmd[0]

    def still_fails_probe(what):
        return lambda cand: any(x['what'] == what for x in evaluate([cand], ambient)[0]['fails'])

    def still_disagrees(cand):
        return evaluate([cand], ambient)[0]['dis'] is not None

    reported = set()
    for r in results:
        for fl in r['fails']:
            if fl['what'] in reported:
                continue
            reported.add(fl['what'])
            small = stream.shrink(r['prog'][:fl['at'] + 1], still_fails_probe(fl['what']))
            rr = evaluate([small], ambient)[0]
            oc.violation({'property': PROP, 'kind': 'predicate-fails-on-implementation', 'failure': fl, 'program': small,
                          'implementation_answers': rr['impl'], 'model_answers': rr['model']})
        if r['dis'] is not None:
            n_dis += 1
            if 'dis' in reported or r['fails']:
                continue
            reported.add('dis')
            i, _, _ = r['dis']
            small = stream.shrink(r['prog'][:i + 1], still_disagrees)
            rr = evaluate([small], ambient)[0]
            oc.violation({'property': PROP, 'kind': 'correspondence-broken',
                          'unchecked': 'correspondence model<->implementation (stim export of build programs)',
                          'program': small, 'first_difference': rr['dis'], 'implementation_answers': rr['impl'],
                          'model_answers': rr['model'], 'predicate_failures': rr['fails']}, found_input=bool(rr['fails']))
    n_tab = check_tables(oc, rng, tier, stats)
    library_clause(oc, tier, stats)
    sem = common.pysem_stage(oc, PROP, ['export'], seed, tier)
    if not proof_ok and not oc.violations:
        oc.violation({'property': PROP, 'kind': 'proof-obligation-broken', 'unchecked': lean.get('failed'),
                      'build_output': lean.get('build_output', '')[-3000:], 'axioms': lean.get('axioms')},
                     found_input=False)

    wall = time.time() - t0
    coverage = {}
    if lean['obligations']:
        coverage.update({'obligations': lean['obligations'], 'discharged': lean['discharged']})
    coverage.update({
        'checker_cmd': lean['checker_cmd'],
        'trusted_base': common.TRUSTED_BASE + ['stim: instruction canonicalisation (fusing of adjacent equal gates), '
                                               'REPEAT blocks, num_measurements, target_rec range check'],
        'theorems': lean.get('theorems', []),
        'axioms': lean.get('axioms', {}),
        **sem,
        'evaluations': len(results) + stats.get('single_operation_cases', 0) + len(stats.get('library', [])),
        'distinct_nontrivial': len(nontriv),
        'rule': RULE,
        'samples': [r['prog'] for r in results[n_fixed:n_fixed + 2]],
        'traces_validated_against_impl': len(results) - n_dis - sum(1 for r in results if r['timeout']),
        'disagreements': n_dis,
        'table_or_single_operation_disagreements': n_tab,
        'corpus_programs': len(corpus),
        'program_streams': dict(Counter(kinds)),
        'programs_cut_off_by_timeout': sum(1 for r in results if r['timeout']),
        'runs_ended_by_unbounded_recursion_in_a_mutator': sum(1 for r in results if exportrun.ended_in_mutator(r['prog'], r['impl']) is not None),
        'input_distribution': feats,
        'export_observations': dict(obs),
        'implementation_exceptions': dict(exc),
        'per_class': stats,
        'known_findings_printed': oc.known,
        'r5_matcher': {'input_class': R5_INPUT_CLASS, 'signature': R5_SIGNATURE},
        'lean': {k: lean.get(k) for k in ('build_ok', 'build_s', 'lean_s', 'failed', 'forbidden_hits', 'translator')},
    })
    common.write_evidence(PROP, tier, seed, coverage, wall, len(oc.violations), [
        'qubit indices below 2^24 and record lookbacks within stim.target_rec\'s range are the accepted inputs; outside, '
        'model and code agree on "raises"',
        'gate arguments the exporter emits are integral (a non-integral argument is reported)',
        'theorems are stated for nesting depth within the walk\'s fuel (number of heap objects + 2); the driver answers '
        '`undef` otherwise, which no run reached'])
    return oc.emit()
