import QcoVerif.Lemmas.Kernel
import QcoVerif.Model.KernelCircuit
/-
  Helper lemmas relating the tag sequence of the multi-round circuit (Model/KernelCircuit.lean) to the index
  kernels (Model/Kernel.lean). Core Lean only.
-/
namespace Qco.Kernel.Circuit

open Qco.Kernel

/-! ### `positionsFrom` -/

theorem positionsFrom_append (t : Tag) (off : Nat) (l₁ l₂ : List Tag) :
    positionsFrom t off (l₁ ++ l₂) = positionsFrom t off l₁ ++ positionsFrom t (off + l₁.length) l₂ := by
  induction l₁ generalizing off with
  | nil => simp [positionsFrom]
  | cons x xs ih =>
    simp only [List.cons_append, positionsFrom, List.length_cons]
    have : off + 1 + xs.length = off + (xs.length + 1) := by omega
    split <;> simp [ih, this]

theorem positionsFrom_replicate_self (t : Tag) (off n : Nat) :
    positionsFrom t off (List.replicate n t) = List.range' off n := by
  induction n generalizing off with
  | zero => simp [positionsFrom]
  | succ m ih => simp [List.replicate_succ, positionsFrom, ih, List.range'_succ]

theorem positionsFrom_replicate_ne {t u : Tag} (hne : u ≠ t) (off n : Nat) :
    positionsFrom t off (List.replicate n u) = [] := by
  induction n generalizing off with
  | zero => simp [positionsFrom]
  | succ m ih => simp [List.replicate_succ, positionsFrom, hne, ih]

/-- two strictly ascending lists with the same elements are equal -/
theorem sorted_ext {l₁ l₂ : List Int} (h₁ : List.Pairwise (· < ·) l₁) (h₂ : List.Pairwise (· < ·) l₂)
    (h : ∀ x, x ∈ l₁ ↔ x ∈ l₂) : l₁ = l₂ := by
  induction l₁ generalizing l₂ with
  | nil =>
    cases l₂ with
    | nil => rfl
    | cons b bs => exact absurd ((h b).mpr (by simp)) (by simp)
  | cons a as ih =>
    cases l₂ with
    | nil => exact absurd ((h a).mp (by simp)) (by simp)
    | cons b bs =>
      rw [List.pairwise_cons] at h₁ h₂
      have hab : a = b := by
        have ha := (h a).mp (by simp)
        have hb := (h b).mpr (by simp)
        rcases List.mem_cons.mp ha with rfl | ha'
        · rfl
        · rcases List.mem_cons.mp hb with rfl | hb'
          · rfl
          · have := h₂.1 a ha'
            have := h₁.1 b hb'
            omega
      subst hab
      congr 1
      apply ih h₁.2 h₂.2
      intro x
      constructor
      · intro hx
        have hlt := h₁.1 x hx
        rcases List.mem_cons.mp ((h x).mp (List.mem_cons_of_mem _ hx)) with rfl | hx'
        · omega
        · exact hx'
      · intro hx
        have hlt := h₂.1 x hx
        rcases List.mem_cons.mp ((h x).mpr (List.mem_cons_of_mem _ hx)) with rfl | hx'
        · omega
        · exact hx'

/-! ### one block of the circuit against one repetition kernel (heralded, ancilla) -/

section block

variable (r : Nat) (strat : Strategy) (d a : List QId) (e : QId) (off : Nat)

/-- the kernel the constructor makes for a rounds entry `r` -/
abbrev blockKernel : RepKernel :=
  { nr := r, heralded := true, strategy := strat, dataIds := d, ancIds := a }

theorem ancillaBlock_length : ((ancillaBlock r).length : Int) = slotLen true r := by
  unfold ancillaBlock slotLen
  split
  · subst_vars; simp only [List.length_cons, List.length_nil, hInt_true]; omega
  · simp only [List.length_cons, List.length_replicate, hInt_true]; omega

theorem block_heralded (he : e ∈ a) (hoff : strat.getIndex = (off : Int)) :
    (positionsFrom .heralded off (ancillaBlock r)).map Int.ofNat = (blockKernel r strat d a).heraldedIdx e := by
  have hinv : e ∈ (blockKernel r strat d a).involved := RepKernel.anc_involved he
  have hrest : positionsFrom .heralded (off + 1) (if r = 0 then [Tag.final] else List.replicate r Tag.parity) = [] := by
    split
    · simp [positionsFrom]
    · exact positionsFrom_replicate_ne (by decide) _ _
  simp only [ancillaBlock, positionsFrom, if_true, hrest, List.map_cons, List.map_nil]
  simp only [RepKernel.heraldedIdx, hinv, not_true_eq_false, if_false, Bool.true_eq_false,
    RepKernel.exclStart, RepKernel.startIndex, RepKernel.dHer, hoff, if_true, List.cons.injEq, and_true]
  simp only [Int.ofNat_eq_natCast]; omega

theorem block_parity (he : e ∈ a) (hoff : strat.getIndex = (off : Int)) :
    (positionsFrom .parity off (ancillaBlock r)).map Int.ofNat
      = (blockKernel r strat d a).stabIdx e ++ (blockKernel r strat d a).finalIdx e := by
  have hk := (blockKernel r strat d a).all_sorted e
  rw [RepKernel.all, List.append_assoc] at hk
  have hsorted := (List.pairwise_append.mp hk).2.1
  have hstop := (blockKernel r strat d a).stop_eq
  have hstart : (blockKernel r strat d a).startIndex = (off : Int) := hoff
  apply sorted_ext _ hsorted
  · intro x
    rw [List.mem_append, RepKernel.mem_stabIdx, RepKernel.mem_finalIdx]
    have hinv : e ∈ (blockKernel r strat d a).involved := RepKernel.anc_involved he
    simp only [he, hinv, true_and, hstart, hInt_true]
    simp only [slotLen, hInt_true, hstart] at hstop
    simp only [ancillaBlock, positionsFrom, if_false, reduceCtorEq, List.mem_map]
    by_cases hr : r = 0
    · subst hr
      simp [positionsFrom]
    · simp only [hr, if_false, positionsFrom_replicate_self, List.mem_range'_1, not_false_eq_true, true_and]
      constructor
      · rintro ⟨i, ⟨h1, h2⟩, rfl⟩
        simp only [Int.ofNat_eq_natCast]
        omega
      · intro hx
        refine ⟨x.toNat, ⟨?_, ?_⟩, ?_⟩ <;> first | omega | (simp only [Int.ofNat_eq_natCast]; omega)
  · rw [List.pairwise_map]
    simp only [ancillaBlock, positionsFrom, if_false, reduceCtorEq]
    split
    · simp [positionsFrom]
    · rw [positionsFrom_replicate_self]
      exact List.Pairwise.imp (fun {a b} (h : a < b) => by simp only [Int.ofNat_eq_natCast]; omega)
        List.pairwise_lt_range'

theorem block_final (hoff : strat.getIndex = (off : Int)) :
    (positionsFrom .final off (ancillaBlock r)).map Int.ofNat
      = if r = 0 then [(blockKernel r strat d a).stopIndex] else [] := by
  have hstop := (blockKernel r strat d a).stop_eq
  have hstart : (blockKernel r strat d a).startIndex = (off : Int) := hoff
  simp only [ancillaBlock, positionsFrom, if_false, reduceCtorEq]
  split
  · rename_i hr
    subst hr
    simp only [slotLen, hInt_true, hstart] at hstop
    simp only [positionsFrom, if_true, List.map_cons, List.map_nil, List.cons.injEq, and_true, hstop,
      Int.ofNat_eq_natCast]
    omega
  · rw [positionsFrom_replicate_ne (by decide)]; rfl

end block

/-! ### all blocks against the chain of repetition kernels -/

/-- the tags of the rounds part of the ancilla sequence -/
def blocksTags (rounds : List Nat) : List Tag := (rounds.map ancillaBlock).flatten

theorem blocksTags_length (rounds : List Nat) :
    ((blocksTags rounds).length : Int) = (rounds.map (slotLen true)).sum := by
  induction rounds with
  | nil => rfl
  | cons r rs ih =>
    have := ancillaBlock_length r
    simp only [blocksTags, List.map_cons, List.flatten_cons, List.length_append, List.sum_cons] at ih ⊢
    omega

/-- per kernel: what the circuit's tag `t` corresponds to -/
def category (e : QId) : Tag → RepKernel → List Int
  | .heralded, k => k.heraldedIdx e
  | .parity, k => k.stabIdx e ++ k.finalIdx e
  | .final, k => if k.nr = 0 then [k.stopIndex] else []

theorem blocks_eq_kernels (d a : List QId) (e : QId) (he : e ∈ a) (t : Tag) (rounds : List Nat)
    (strat : Strategy) (off : Nat) (hoff : strat.getIndex = (off : Int)) :
    (positionsFrom t off (blocksTags rounds)).map Int.ofNat
      = ((buildReps true d a strat rounds).map (category e t)).flatten := by
  induction rounds generalizing strat off with
  | nil => simp [blocksTags, positionsFrom, buildReps]
  | cons r rs ih =>
    have hlen := ancillaBlock_length r
    have hstop := (blockKernel r strat d a).stop_eq
    have hstart : (blockKernel r strat d a).startIndex = (off : Int) := hoff
    have hnext : (Strategy.relative (blockKernel r strat d a).stopIndex).getIndex
        = ((off + (ancillaBlock r).length : Nat) : Int) := by
      simp only [Strategy.getIndex, hstop, hstart, Int.natCast_add, hlen]; omega
    have ih' := ih (.relative (blockKernel r strat d a).stopIndex) (off + (ancillaBlock r).length) hnext
    simp only [blocksTags] at ih' ⊢
    simp only [List.map_cons, List.flatten_cons, positionsFrom_append, List.map_append, buildReps]
    rw [ih']
    congr 1
    cases t with
    | heralded => exact block_heralded r strat d a e off he hoff
    | parity => exact block_parity r strat d a e off he hoff
    | final => exact block_final r strat d a off hoff

end Qco.Kernel.Circuit
