import QcoVerif.Lemmas.RepCode
import QcoVerif.Generated.RepLayouts
/- C09: the per-description facts of the generated layout table `Qco.Generated.RepLayouts.repetition9Code`, each by one symbolic run. -/
namespace Qco.RepCode

theorem factsA : checkAll (entries Qco.Generated.RepLayouts.repetition9Code) = true := by decide +kernel

end Qco.RepCode
