"""C12 — index kernels tile the acquisition index range without gaps or overlap.

Three things happen on every run (DESIGN.md §4 C12, docs/CONTRIBUTING.md):
  1. the theorems of lean/QcoVerif/Properties/C12.lean are rebuilt and their axioms audited;
  2. correspondence: every getter of the REAL `RepetitionExperimentKernel` (and of the `RepetitionIndexKernel`s /
     `QutritCalibrationIndexKernel` it is made of, and `estimate_experiment_repetitions`) is compared with the Lean
     model through the driver module `kernel` — exhaustively over all lists of distinct rounds of length <= 4 over
     {0..5} x heralded x calibration flag x repetitions {1,2,3} x several identifier-set shapes, plus random longer
     lists and a malformed stream (empty list, 0 repetitions, repeated rounds, unknown qubit / count); the corpus
     (corpus/C12) holds the former failing input of R22 (calibration flag ignored by the constructor) as a regression case;
  3. the property predicates (contiguity, disjointness, category in kernel, categories disjoint, ancilla cover,
     cycle length, translation, estimate inverse) are evaluated in Python directly on the implementation's answers.
What happens when something breaks is the same as in harness/streamcheck.py.
"""
from __future__ import annotations
import itertools
import json
import multiprocessing as mp
import os
import time
from collections import Counter

from . import common, findings

PROP = 'C12'
FLOAT_EXACT = 2 ** 53

# ----------------------------------------------------------------------------- cases

# identifier-set shapes: (data ids, ancilla ids, qubits asked about)
ID_SHAPES = {
    'std':     ([1, 2], [10], [1, 10, 99]),          # data, ancilla, unknown
    'overlap': ([1, 5], [10, 5], [5, 10]),           # qubit 5 is data AND ancilla
    'noanc':   ([1, 2], [], [1, 10]),                # no ancilla at all (10 unknown)
    'nodata':  ([], [10, 11], [11, 1]),
}


def case(rounds, h, q, reps, shape='std', kind='valid', extra_counts=(7,)):
    data, anc, qs = ID_SHAPES[shape]
    counts = sorted(set(rounds)) + [c for c in extra_counts if c not in rounds]
    return {'rounds': list(rounds), 'h': int(h), 'q': int(q), 'reps': int(reps), 'data': list(data),
            'anc': list(anc), 'qs': list(qs), 'counts': counts, 'shape': shape, 'kind': kind}


def all_round_lists(max_len=4, values=range(6)):
    out = []
    for n in range(1, max_len + 1):
        out.extend(itertools.permutations(values, n))
    return [list(x) for x in out]


def exhaustive_cases(tier, rng):
    lists = all_round_lists(4 if tier == 'quick' else 5)      # 516 lists; thorough: 1236 (length <= 5)
    cases = []
    for rounds in lists:
        for h in (0, 1):
            for q in (1, 0):
                for reps in (1, 2, 3):
                    cases.append(case(rounds, h, q, reps))
    # the other identifier shapes on a deterministic pseudo-random subset (all of them in the thorough tier)
    other = [s for s in ID_SHAPES if s != 'std']
    for rounds in lists:
        for shape in other:
            if tier == 'thorough' or rng.random() < 0.25:
                cases.append(case(rounds, rng.randrange(2), 1, rng.choice([1, 2, 3]), shape))
    return cases


def random_long_cases(n, rng):
    cases = []
    for _ in range(n):
        ln = rng.randrange(5, 13)
        rounds = rng.sample(range(0, 31), ln)
        shape = rng.choice(list(ID_SHAPES))
        cases.append(case(rounds, rng.randrange(2), rng.choice([1, 1, 0]), rng.randrange(1, 7), shape, kind='long',
                          extra_counts=(31,)))
    cases.append(case(list(range(1, 61)), 1, 1, 2, kind='long', extra_counts=(0,)))   # the suite's own list
    return cases


def malformed_cases():
    out = [case([], 1, 1, 1, kind='malformed-empty'), case([], 0, 0, 2, kind='malformed-empty')]
    for rounds in ([2], [0, 3], [1, 0, 4]):
        out.append(case(rounds, 1, 1, 0, kind='malformed-zero-reps'))
        out.append(case(rounds, 0, 1, 0, kind='malformed-zero-reps'))
    for rounds in ([2, 2], [0, 3, 0], [1, 4, 4, 1], [3, 0, 3]):
        for h in (0, 1):
            out.append(case(rounds, h, 1, 2, kind='malformed-duplicates'))
    return out


def exp_line(c, query):
    def csv(xs):
        return ','.join(str(x) for x in xs) if xs else '-'
    return f"kernel exp {csv(c['rounds'])} {c['h']} {c['q']} {csv(c['data'])} {csv(c['anc'])} {c['reps']} {query}"


def all_line(c):
    def csv(xs):
        return ','.join(str(x) for x in xs) if xs else '-'
    return exp_line(c, f"all {csv(c['qs'])} {csv(c['counts'])}")


def est_line(rounds, h, q, dataset):
    r = ','.join(str(x) for x in rounds) if rounds else '-'
    return f'kernel est {r} {h} {q} {dataset}'


# ----------------------------------------------------------------------------- implementation side

def _qid(n):
    from qce_circuit.connectivity.intrf_channel_identifier import QubitIDObj
    return QubitIDObj(f'Q{n}')


def _ints(xs):
    return '[' + ','.join(str(int(x)) for x in xs) + ']'


def _rows(arr):
    import numpy as np
    arr = np.asarray(arr)
    if arr.ndim == 1:
        return 'none' if arr.size == 0 else 'ONE-DIM' + _ints(arr)
    if arr.ndim != 2:
        return f'NDIM{arr.ndim}'
    if arr.size and arr.dtype.kind not in 'iu':
        return 'NON-INTEGER' + str(arr.tolist())
    return ''.join(_ints(row) for row in arr) if arr.shape[0] else 'none'


def _flat(f):
    import numpy as np
    try:
        arr = np.asarray(f())
    except ValueError:
        return 'ValueError'
    if arr.size and arr.dtype.kind not in 'iu':
        return 'NON-INTEGER' + str(arr.tolist())
    return _ints(arr)


def build_kernel(c, reps=None):
    from qce_circuit.structure.acquisition_indexing.kernel_repetition_code import RepetitionExperimentKernel
    return RepetitionExperimentKernel(
        rounds=list(c['rounds']), heralded_initialization=bool(c['h']), qutrit_calibration_points=bool(c['q']),
        involved_data_qubit_ids=[_qid(n) for n in c['data']], involved_ancilla_qubit_ids=[_qid(n) for n in c['anc']],
        experiment_repetitions=c['reps'] if reps is None else reps)


def impl_all(c):
    """The implementation's answers in the canonical form of `allAnswers` (Driver/Kernel.lean)."""
    from qce_circuit.structure.acquisition_indexing.intrf_stabilizer_index_kernel import StateKey
    try:
        k = build_kernel(c)
    except IndexError:
        return 'IndexError'
    parts = ['summary %d %d %d %d spans=%s' % (
        k.start_index, k.stop_index, k.kernel_cycle_length, k.kernel_length,
        ','.join(f'{x.start_index}:{x.stop_index}' for x in k.indexing_kernels))]
    states = [StateKey.STATE_0, StateKey.STATE_1, StateKey.STATE_2]
    for e in c['qs']:
        qe = _qid(e)
        for cnt in c['counts']:
            parts.append(f'her {e} {cnt} ' + _rows(k.get_heralded_cycle_acquisition_indices(qe, cnt)))
            parts.append(f'sp {e} {cnt} ' + _rows(k.get_stabilizer_and_projected_cycle_acquisition_indices(qe, cnt)))
            parts.append(f'proj {e} {cnt} ' + _rows(k.get_projected_cycle_acquisition_indices(qe, cnt)))
        for i, s in enumerate(states):
            parts.append(f'pcal {e} {i} ' + _flat(lambda: k.get_projected_calibration_acquisition_indices(qe, s)))
            parts.append(f'hcal {e} {i} ' + _flat(lambda: k.get_heralded_calibration_acquisition_indices(qe, s)))
        for i, rk in enumerate(k._repetition_kernels):
            parts.append(f'kern {i} {e} her={_ints(rk.get_heralded_measurement_index(qe))} '
                         f'stab={_ints(rk.get_ordered_stabilizer_measurement_indices(qe))} '
                         f'final={_ints(rk.get_final_measurement_index(qe))} contains={_ints(rk.contains(qe))} '
                         f'{rk.start_index} {rk.stop_index} {rk.kernel_length}')
        ck = k._calibration_kernel
        parts.append(f'cal {e} h0={_ints(ck.get_heralded_state_0_measurement_index(qe))} '
                     f'h1={_ints(ck.get_heralded_state_1_measurement_index(qe))} '
                     f'h2={_ints(ck.get_heralded_state_2_measurement_index(qe))} '
                     f's0={_ints(ck.get_state_0_measurement_index(qe))} '
                     f's1={_ints(ck.get_state_1_measurement_index(qe))} '
                     f's2={_ints(ck.get_state_2_measurement_index(qe))} contains={_ints(ck.contains(qe))} '
                     f'{ck.start_index} {ck.stop_index} {ck.kernel_length}')
    return ';'.join(parts)


def impl_estimate(rounds, h, q, dataset):
    from qce_circuit.structure.acquisition_indexing.kernel_repetition_code import RepetitionExperimentKernel
    try:
        return 'value %d' % RepetitionExperimentKernel.estimate_experiment_repetitions(
            rounds=list(rounds), heralded_initialization=bool(h), qutrit_calibration_points=bool(q),
            dataset_size=dataset)
    except AssertionError:
        return 'AssertionError'
    except IndexError:
        return 'IndexError'
    except Exception as e:  # noqa — any other exception is an answer the model does not give: a disagreement, not a crash
        return 'EXC:' + type(e).__name__


def estimate_queries(c):
    """(rounds, h, q', dataset) tuples asked for a case; needs the implementation's cycle length."""
    if not c['rounds'] or c['kind'].startswith('malformed-zero'):
        return [(c['rounds'], c['h'], 1, 12), (c['rounds'], c['h'], 0, 12)]
    cyc = build_kernel(c).kernel_cycle_length
    n = c['reps'] * cyc
    out = [(c['rounds'], c['h'], c['q'], n)]                       # the property's own question
    if c['reps'] == 1:                                             # the rest once per (rounds, h, q)
        out += [(c['rounds'], c['h'], 1 - c['q'], n), (c['rounds'], c['h'], c['q'], n + 1),
                (c['rounds'], c['h'], c['q'], 0), (c['rounds'], c['h'], 1, 7 * cyc), (c['rounds'], c['h'], 0, 7 * cyc)]
    return out


# ----------------------------------------------------------------------------- the property, on the implementation

def predicates(c):
    """Evaluates the clauses of C12 directly on what the implementation answers. Returns a list of failures
    (dicts with `what` and `detail`); an empty list means the property holds on this input."""
    import numpy as np
    from qce_circuit.structure.acquisition_indexing.intrf_stabilizer_index_kernel import StateKey
    fails = []

    def fail(what, **detail):
        fails.append({'what': what, 'detail': detail})

    rounds, h, reps = c['rounds'], c['h'], c['reps']
    k = build_kernel(c)
    kernels = list(k.indexing_kernels)
    spans = [(x.start_index, x.stop_index) for x in kernels]
    cyc = k.kernel_cycle_length
    # kernels_contiguous
    if spans[0][0] != 0 or k.start_index != 0:
        fail('contiguous', reason='first kernel does not start at 0', spans=spans)
    for (s0, e0), (s1, e1) in zip(spans, spans[1:]):
        if s1 != e0 + 1:
            fail('contiguous', reason='start_{i+1} != stop_i + 1', spans=spans)
            break
    if spans[-1][1] != cyc - 1:
        fail('contiguous', reason='last stop != cycle - 1', spans=spans, cycle=cyc)
    if len(spans) != len(rounds) + (1 if c['q'] else 0):   # the calibration kernel belongs to the cycle iff the flag is set
        fail('contiguous', reason='number of kernels', spans=spans)
    # kernels_disjoint (as sets of indices, not via the ordering)
    seen = set()
    for s, e in spans:
        if s > e:
            fail('disjoint', reason='empty kernel', spans=spans)
        rng_ = set(range(s, e + 1))
        if rng_ & seen:
            fail('disjoint', reason='kernels overlap', spans=spans)
        seen |= rng_
    if seen != set(range(cyc)):
        fail('tile', reason='kernels do not cover [0, cycle)', spans=spans, cycle=cyc)
    # cycle_length
    want = sum(h + max(0, r - 1) + 1 for r in rounds) + ((3 * h + 3) if c['q'] else 0)
    if cyc != want:
        fail('cycle-length', cycle=cyc, formula=want)
    if k.stop_index != reps * cyc:
        fail('cycle-length', reason='stop_index != repetitions * cycle', stop=k.stop_index, cycle=cyc)
    states = [StateKey.STATE_0, StateKey.STATE_1, StateKey.STATE_2]
    distinct = len(set(rounds)) == len(rounds)
    k1 = build_kernel(c, reps=1)
    for e in c['qs']:
        qe = _qid(e)
        everything = []
        for rk, r in zip(k._repetition_kernels, rounds):
            cats = {'heralded': [int(x) for x in rk.get_heralded_measurement_index(qe)],
                    'stabilizer': [int(x) for x in rk.get_ordered_stabilizer_measurement_indices(qe)],
                    'final': [int(x) for x in rk.get_final_measurement_index(qe)]}
            for name, xs in cats.items():               # category_in_kernel
                if any(not (rk.start_index <= x <= rk.stop_index) for x in xs):
                    fail('category-in-kernel', qubit=e, rounds_entry=r, category=name, indices=xs,
                         kernel=(rk.start_index, rk.stop_index))
            flat = cats['heralded'] + cats['stabilizer'] + cats['final']
            if len(set(flat)) != len(flat):             # categories_disjoint (one kernel)
                fail('categories-disjoint', qubit=e, rounds_entry=r, categories=cats)
            if e in c['anc']:                           # ancilla_cover (one kernel)
                expect = set(range(rk.start_index, rk.stop_index + 1)) - ({rk.stop_index} if r == 0 else set())
                if set(flat) != expect:
                    fail('ancilla-cover', qubit=e, rounds_entry=r, categories=cats,
                         kernel=(rk.start_index, rk.stop_index))
            everything += flat
        ck = k._calibration_kernel
        cal = {'h0': ck.get_heralded_state_0_measurement_index(qe), 's0': ck.get_state_0_measurement_index(qe),
               'h1': ck.get_heralded_state_1_measurement_index(qe), 's1': ck.get_state_1_measurement_index(qe),
               'h2': ck.get_heralded_state_2_measurement_index(qe), 's2': ck.get_state_2_measurement_index(qe)}
        for name, xs in cal.items():
            if any(not (ck.start_index <= x <= ck.stop_index) for x in xs):
                fail('category-in-kernel', qubit=e, category=name, indices=list(xs),
                     kernel=(ck.start_index, ck.stop_index))
        calflat = [int(x) for xs in cal.values() for x in xs]
        if (e in c['anc'] or e in c['data']) and set(calflat) != set(range(ck.start_index, ck.stop_index + 1)):
            fail('ancilla-cover', qubit=e, reason='calibration categories do not cover the calibration kernel',
                 categories={n: list(v) for n, v in cal.items()})
        if c['q']:
            everything += calflat
        else:   # flag off: the public calibration getters must not attribute any index
            pub = [int(x) for s_ in states for g in (k.get_projected_calibration_acquisition_indices,
                                                     k.get_heralded_calibration_acquisition_indices) for x in g(qe, s_)]
            if pub:
                fail('category-in-kernel', qubit=e, reason='calibration indices although the flag is off', indices=pub)
        if len(set(everything)) != len(everything):     # categories_disjoint (whole cycle)
            fail('categories-disjoint', qubit=e, reason='an index is attributed twice in one cycle', indices=everything)
        if e in c['anc']:                               # ancilla_cover (whole cycle)
            missing = {rk.stop_index for rk, r in zip(k._repetition_kernels, rounds) if r == 0}
            if set(everything) != set(range(cyc)) - missing:
                fail('ancilla-cover', qubit=e, indices=sorted(everything), cycle=cyc, missing=sorted(missing))
        # getters: own kernel (distinct rounds), repetition_translate, window
        for cnt in c['counts']:
            getters = {'her': k.get_heralded_cycle_acquisition_indices,
                       'sp': k.get_stabilizer_and_projected_cycle_acquisition_indices,
                       'proj': k.get_projected_cycle_acquisition_indices}
            for name, g in getters.items():
                arr = np.asarray(g(qe, cnt))
                one = np.asarray(getattr(k1, g.__name__)(qe, cnt))
                if cnt not in rounds:
                    if arr.size != 0 or arr.ndim != 1:
                        fail('getter-missing-count', qubit=e, count=cnt, getter=name, answer=arr.tolist())
                    continue
                if arr.ndim != 2 or arr.shape[0] != reps:
                    fail('translate', qubit=e, count=cnt, getter=name, reason='one row per repetition expected',
                         shape=list(arr.shape))
                    continue
                for j in range(reps):
                    if [int(x) for x in arr[j]] != [int(x) + j * cyc for x in arr[0]] or \
                            [int(x) for x in arr[j]] != [int(x) + j * cyc for x in one[0]]:
                        fail('translate', qubit=e, count=cnt, getter=name, row=j, answer=arr.tolist(), cycle=cyc)
                        break
                    if any(not (j * cyc <= int(x) < (j + 1) * cyc) for x in arr[j]):
                        fail('translate', qubit=e, count=cnt, getter=name, row=j, reason='outside its window',
                             answer=arr.tolist(), cycle=cyc)
                        break
                if distinct:
                    rk = k._repetition_kernels[rounds.index(cnt)]
                    own = {'her': rk.get_heralded_measurement_index(qe),
                           'sp': list(rk.get_ordered_stabilizer_measurement_indices(qe)) + rk.get_final_measurement_index(qe),
                           'proj': rk.get_final_measurement_index(qe)}[name]
                    if [int(x) for x in arr[0]] != [int(x) for x in own]:
                        fail('getter-own-kernel', qubit=e, count=cnt, getter=name, answer=arr.tolist(), own=list(own))
        if reps >= 1:
            for s in states:
                for name, g, g1 in (('pcal', k.get_projected_calibration_acquisition_indices,
                                     k1.get_projected_calibration_acquisition_indices),
                                    ('hcal', k.get_heralded_calibration_acquisition_indices,
                                     k1.get_heralded_calibration_acquisition_indices)):
                    arr = [int(x) for x in g(qe, s)]
                    one = [int(x) for x in g1(qe, s)]
                    if arr != [x + j * cyc for j in range(reps) for x in one]:
                        fail('translate', qubit=e, state=s.value, getter=name, answer=arr, single_cycle=one, cycle=cyc)
    # estimate_inverts: dataset size = repetitions x cycle length
    n = reps * cyc
    if n < FLOAT_EXACT:
        got = impl_estimate(rounds, h, c['q'], n)
        if got != f'value {reps}':
            fail('estimate-inverse', dataset=n, cycle=cyc, repetitions=reps, estimate=got, flag=c['q'])
    return fails


def big_estimates(rng, n):
    """dataset sizes at and beyond 2^53: the code must answer the exact quotient or trip its own assertion."""
    out = []
    for _ in range(n):
        rounds = rng.sample(range(0, 12), rng.randrange(1, 5))
        h = rng.randrange(2)
        q = rng.randrange(2)
        cyc = build_kernel(case(rounds, h, q, 1)).kernel_cycle_length
        reps = rng.choice([FLOAT_EXACT // cyc - 1, FLOAT_EXACT // cyc, FLOAT_EXACT // cyc + 1,
                           rng.randrange(FLOAT_EXACT // cyc, 8 * FLOAT_EXACT // cyc), 3 * (2 ** 60) + 1])
        got = impl_estimate(rounds, h, q, reps * cyc)
        ok = got in (f'value {reps}', 'AssertionError')
        out.append({'rounds': rounds, 'h': h, 'q': q, 'dataset': reps * cyc, 'repetitions': reps, 'answer': got, 'ok': ok})
    return out


# ----------------------------------------------------------------------------- workers

def _work(c):
    os.environ.setdefault('TQDM_DISABLE', '1')
    import warnings
    warnings.simplefilter('ignore')
    res = {'all': impl_all(c)}
    if c['kind'] in ('valid', 'long') or c['kind'] == 'malformed-duplicates':
        try:
            res['fails'] = predicates(c)
        except Exception as ex:   # the predicate evaluation itself must not hide an implementation exception
            res['fails'] = [{'what': 'exception', 'detail': {'type': type(ex).__name__, 'text': str(ex)[:300]}}]
    else:
        res['fails'] = []
    eq = estimate_queries(c)
    res['est'] = [(list(r), h, q, d, impl_estimate(r, h, q, d)) for (r, h, q, d) in eq]
    return res


def run_impl(cases, procs=None):
    procs = procs or min(16, os.cpu_count() or 1)
    if len(cases) < 64 or procs == 1:
        return [_work(c) for c in cases]
    ctx = mp.get_context('fork')
    with ctx.Pool(procs) as pool:
        return pool.map(_work, cases, chunksize=max(1, len(cases) // (procs * 8)))


def diff_all(impl: str, model: str):
    """first differing `;`-separated item of two `all` answers"""
    a, b = impl.split(';'), model.split(';')
    for i, (x, y) in enumerate(zip(a, b)):
        if x != y:
            return {'item': i, 'implementation': x, 'model': y}
    if len(a) != len(b):
        return {'item': min(len(a), len(b)), 'implementation': a[len(b):][:2], 'model': b[len(a):][:2]}
    return None


# ----------------------------------------------------------------------------- shrinking, findings

def shrink(c, still_fails):
    """Greedy reduction of a failing case: fewer rounds entries, smaller rounds, fewer repetitions, standard ids."""
    cur = dict(c)
    changed = True
    while changed:
        changed = False
        cands = []
        for i in range(len(cur['rounds'])):
            if len(cur['rounds']) > 1:
                cands.append({**cur, 'rounds': cur['rounds'][:i] + cur['rounds'][i + 1:]})
        for i, r in enumerate(cur['rounds']):
            for r2 in (0, 1, 2, r - 1):
                if 0 <= r2 < r and r2 not in cur['rounds']:
                    cands.append({**cur, 'rounds': cur['rounds'][:i] + [r2] + cur['rounds'][i + 1:]})
        if cur['reps'] > 1:
            cands.append({**cur, 'reps': 1})
            cands.append({**cur, 'reps': cur['reps'] - 1})
        if cur['h']:
            cands.append({**cur, 'h': 0})
        for cand in cands:
            cand = case(cand['rounds'], cand['h'], cand['q'], cand['reps'], cand['shape'], cand['kind'])
            try:
                if still_fails(cand):
                    cur = cand
                    changed = True
                    break
            except Exception:
                continue
    return cur


def python_snippet(c):
    return ("from qce_circuit.structure.acquisition_indexing.kernel_repetition_code import RepetitionExperimentKernel as K; "
            "from qce_circuit.connectivity.intrf_channel_identifier import QubitIDObj as Q; "
            f"k = K({c['rounds']}, {bool(c['h'])}, {bool(c['q'])}, {[f'Q{n}' for n in c['data']]!r}, "
            f"{[f'Q{n}' for n in c['anc']]!r}, {c['reps']})  # ids: Q(name) objects; "
            f"K.estimate_experiment_repetitions({c['rounds']}, {bool(c['h'])}, {bool(c['q'])}, "
            "k.experiment_repetitions * k.kernel_cycle_length)")


# ----------------------------------------------------------------------------- run

def load_corpus():
    d = common.CORPUS / PROP
    out = []
    if d.exists():
        for f in sorted(d.glob('*.json')):
            try:
                doc = json.loads(f.read_text())
                cc = doc['case']
                out.append(case(cc['rounds'], cc['h'], cc['q'], cc['reps'], cc.get('shape', 'std'),
                                cc.get('kind', 'valid')))
            except Exception:
                common.log(f'corpus file unreadable: {f}')
    return out


def evaluate(cases):
    """implementation + model on the cases → list of result dicts (case, impl, model, dis, fails, est)."""
    impl = run_impl(cases)
    lines, owner = [], []
    for i, (c, r) in enumerate(zip(cases, impl)):
        lines.append(all_line(c))
        owner.append((i, 'all', None))
        for j, (rr, h, q, d, _) in enumerate(r['est']):
            lines.append(est_line(rr, h, q, d))
            owner.append((i, 'est', j))
    answers = common.run_driver(lines)
    res = [{'case': c, 'impl': r['all'], 'model': None, 'dis': None, 'fails': r['fails'], 'est': r['est'],
            'est_model': [None] * len(r['est'])} for c, r in zip(cases, impl)]
    for (i, what, j), ans in zip(owner, answers):
        if what == 'all':
            res[i]['model'] = ans
            if ans != res[i]['impl']:
                res[i]['dis'] = {'query': lines[[o[0] for o in owner].index(i)], **(diff_all(res[i]['impl'], ans) or {})}
        else:
            res[i]['est_model'][j] = ans
            rr, h, q, d, got = res[i]['est'][j]
            if ans != got and ans != 'inexact' and res[i]['dis'] is None:
                res[i]['dis'] = {'query': est_line(rr, h, q, d), 'implementation': got, 'model': ans}
    return res


def run(tier: str, seed: int) -> int:
    t0 = time.time()
    oc = common.Outcome(PROP)
    lean = common.proof_obligations(PROP)
    proof_ok = lean['build_ok'] and not lean['failed']
    if not common.driver_available():
        print(f'model driver missing: {lean.get("build_output", "")[-800:]}')
        return 2
    rng = common.rng_for(seed, PROP)
    corpus = load_corpus()
    cases = list(corpus)
    cases += malformed_cases()
    cases += exhaustive_cases(tier, rng)
    cases += random_long_cases(150 if tier == 'quick' else 20000, rng)
    results = evaluate(cases)
    big = big_estimates(rng, 200 if tier == 'quick' else 5000)

    # ------------------------------------------------------------------ verdicts
    reported = set()
    n_dis = 0
    fail_counter = Counter()

    def still_fails(what):
        def f(cand):
            return any(x['what'] == what for x in _work(cand)['fails'])
        return f

    def still_disagrees(cand):
        return evaluate([cand])[0]['dis'] is not None

    for r in results:
        for fl in r['fails']:
            fail_counter[fl['what']] += 1
            kf = None
            if r['dis'] is None:   # attribution requires that the model shows the same behaviour
                for f in findings.open_findings(PROP):
                    m = findings.MATCHERS.get(f.get('matcher'))
                    if m is not None and m(PROP, r, fl, f):
                        kf = f"{f['id']}: {f['what_fails']}"
            if kf is not None:
                oc.known_finding(kf)
                continue
            if fl['what'] in reported:
                continue
            reported.add(fl['what'])
            small = shrink(r['case'], still_fails(fl['what']))
            rr = evaluate([small])[0]
            flr = next((x for x in rr['fails'] if x['what'] == fl['what']), fl)
            oc.violation({'property': PROP, 'kind': 'predicate-fails-on-implementation', 'failure': flr,
                          'case': small, 'implementation_answers': rr['impl'], 'model_answers': rr['model'],
                          'estimates': rr['est'], 'python': python_snippet(small),
                          'replay': './check replay <this file>'})
        if r['dis'] is not None:
            n_dis += 1
            if 'dis' in reported or r['fails']:
                continue
            reported.add('dis')
            small = shrink(r['case'], still_disagrees)
            rr = evaluate([small])[0]
            # search: does the implementation violate the property on this input, its reductions or the neighbours?
            found = bool(rr['fails'])
            oc.violation({'property': PROP, 'kind': 'correspondence-broken',
                          'unchecked': 'correspondence model<->implementation on index-kernel getters',
                          'case': small, 'first_difference': rr['dis'], 'implementation_answers': rr['impl'],
                          'model_answers': rr['model'], 'predicate_failures': rr['fails'],
                          'python': python_snippet(small)}, found_input=found)
    bad_big = [b for b in big if not b['ok']]
    if bad_big and 'big' not in reported:
        oc.violation({'property': PROP, 'kind': 'predicate-fails-on-implementation',
                      'failure': {'what': 'estimate-beyond-2^53', 'detail': bad_big[0]},
                      'note': 'dataset >= 2^53: the answer is neither the exact quotient nor an AssertionError'})
    sem = common.pysem_stage(oc, PROP, ['kernels'], seed, tier)
    if not proof_ok and not oc.violations:
        # a proof obligation no longer checks; the run above was the search for a failing input
        oc.violation({'property': PROP, 'kind': 'proof-obligation-broken', 'unchecked': lean.get('failed'),
                      'build_output': lean.get('build_output', '')[-3000:], 'axioms': lean.get('axioms')},
                     found_input=False)

    # ------------------------------------------------------------------ evidence
    wall = time.time() - t0
    kinds = Counter(c['kind'] for c in cases)
    shapes = Counter(c['shape'] for c in cases)
    lens = Counter(len(c['rounds']) for c in cases)
    distinct = {json.dumps({k: c[k] for k in ('rounds', 'h', 'q', 'reps', 'shape')}, sort_keys=True) for c in cases}
    nontrivial = {json.dumps({k: c[k] for k in ('rounds', 'h', 'q', 'reps', 'shape')}, sort_keys=True) for c in cases
                  if len(c['rounds']) >= 2 and (0 in c['rounds'] or 1 in c['rounds']) and max(c['rounds']) >= 2}
    n_getter = sum(r['impl'].count(';') + 1 for r in results)
    n_est = sum(len(r['est']) for r in results)
    coverage = {}
    if lean['obligations']:
        coverage.update({'obligations': lean['obligations'], 'discharged': lean['discharged']})
    valid = [r for r in results if r['case']['kind'] == 'valid']
    coverage.update({
        'checker_cmd': lean['checker_cmd'],
        'trusted_base': common.TRUSTED_BASE + ['numpy array construction/concatenation (shapes and dtypes of the getters)'],
        'theorems': lean.get('theorems', []),
        'axioms': lean.get('axioms', {}),
        'evaluations': len(results),
        'distinct_nontrivial': len(nontrivial),
        'distinct_cases': len(distinct),
        **sem,
        'exhaustive': True,
        'rule': 'cases = (rounds list, heralded, calibration flag, repetitions, identifier-set shape). Exhaustive: all '
                '516 lists of distinct rounds of length <= 4 over {0..5} (thorough: the 1236 of length <= 5) x heralded x flag x repetitions {1,2,3} with '
                'a data, an ancilla and an unknown qubit, every round count of the list plus one absent count; the '
                'other identifier shapes (qubit both data and ancilla, no ancilla, no data) on a seeded subset (all in '
                'the thorough tier); random lists of 5-12 distinct rounds over {0..30}; malformed stream (empty list, '
                '0 repetitions, repeated rounds). Per case every getter of the experiment kernel, of each repetition '
                'kernel and of the calibration kernel is compared with the Lean model, the C12 predicates are '
                'evaluated on the implementation, and estimate_experiment_repetitions is asked for repetitions x '
                'cycle (both flag values), a non-multiple, 0 and 7 x cycle. non-trivial = >= 2 rounds entries, one of '
                'them 0 or 1 (the special cases) and one >= 2; distinct = distinct (rounds, heralded, flag, '
                'repetitions, shape).',
        'samples': [r['case'] for r in valid[1000:1002]] + [r['case'] for r in results if r['case']['kind'] == 'long'][:1],
        'sample_answer': (valid[1000]['impl'][:400] if len(valid) > 1000 else None),
        'traces_validated_against_impl': len(results) - n_dis,
        'disagreements': n_dis,
        'getter_answers_compared': n_getter,
        'estimate_answers_compared': n_est,
        'estimates_beyond_2^53_checked': len(big),
        'predicate_failures': dict(fail_counter),
        'corpus_cases': len(corpus),
        'input_distribution': {'kind': dict(kinds), 'id_shape': dict(shapes),
                               'rounds_length': {str(k): v for k, v in sorted(lens.items())},
                               'heralded': dict(Counter(c['h'] for c in cases)),
                               'calibration_flag': dict(Counter(c['q'] for c in cases)),
                               'repetitions': {str(k): v for k, v in sorted(Counter(c['reps'] for c in cases).items())}},
        'known_findings_printed': oc.known,
        'lean': {k: lean.get(k) for k in ('build_ok', 'build_s', 'lean_s', 'failed', 'forbidden_hits', 'translator')},
    })
    common.write_evidence(PROP, tier, seed, coverage, wall, len(oc.violations), [
        'estimate_experiment_repetitions is modelled on naturals; model = code only for dataset sizes < 2^53 (float '
        'division exact); beyond, the harness checks "exact quotient or AssertionError" on the implementation',
        'rounds >= 0 (negative rounds only warn in the code and are outside the quantifier)',
        'qubit identifiers are compared by equality only (QubitIDObj names); hash collisions ignored'])
    return oc.emit()
