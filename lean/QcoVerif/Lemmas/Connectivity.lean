import QcoVerif.Model.Connectivity
/-
  Helper lemmas for C16 / C17 (generic list facts about the model's combinators; no tables here).
-/
namespace Qco.Conn

theorem any_congr_mem {α} {l : List α} {p q : α → Bool} (h : ∀ a ∈ l, p a = q a) : l.any p = l.any q := by
  induction l with
  | nil => rfl
  | cons x xs ih =>
    simp only [List.any_cons]
    rw [h x (List.mem_cons_self), ih (fun a ha => h a (List.mem_cons_of_mem _ ha))]

theorem all_congr_mem {α} {l : List α} {p q : α → Bool} (h : ∀ a ∈ l, p a = q a) : l.all p = l.all q := by
  induction l with
  | nil => rfl
  | cons x xs ih =>
    simp only [List.all_cons]
    rw [h x (List.mem_cons_self), ih (fun a ha => h a (List.mem_cons_of_mem _ ha))]

/-- device edges in either orientation: the inputs the properties quantify over -/
def orientedEdges : List Edge := deviceEdges ++ deviceEdges.map Edge.swap

/-- the per-gate part of `get_requires_parking`'s final `any`: some end `x` of `e` neighbours `q`, is of a higher
group than `q`, and is on the moving side of `e` -/
def parkPair (q : Qubit) (e : Edge) : Bool :=
  e.qubits.any (fun x => memBy qEq x (neighbors q) && ((freqOf x).isHigher (freqOf q) && onMovingSide x e))

/-- the `spectator` test of `get_requires_parking` for one gate -/
def spectates (q : Qubit) (e : Edge) : Bool := memBy qEq q (edgeNeighbors e)

theorem parkPairs_any (q : Qubit) (es : List Edge) :
    (es.flatMap (fun e => e.qubits.filterMap (fun x => if memBy qEq x (neighbors q) then some (x, e) else none))).any
      (fun p => (freqOf p.1).isHigher (freqOf q) && onMovingSide p.1 p.2) = es.any (parkPair q) := by
  rw [List.any_flatMap]
  apply any_congr_mem
  intro e _
  simp only [Edge.qubits, parkPair, List.filterMap_cons, List.filterMap_nil, List.any_cons, List.any_nil, Bool.or_false]
  cases h1 : memBy qEq e.1 (neighbors q) <;> cases h2 : memBy qEq e.2 (neighbors q) <;> simp

theorem requiresParking_unfold (q : Qubit) (es : List Edge) :
    requiresParking q es =
      (if !(es.any (spectates q)) then false else if es.any (fun e => e.has q) then false else es.any (parkPair q)) := by
  unfold requiresParking
  simp only [parkPairs_any]
  rfl

/-- lifting lemma for parking: if, gate by gate, the code's pair test agrees with a predicate `T` and implies the
spectator test, the whole function is "not gated ∧ some gate triggers" -/
theorem requiresParking_lift (T : Qubit → Edge → Bool) (q : Qubit) (es : List Edge)
    (h1 : ∀ e ∈ es, parkPair q e = T q e) (h2 : ∀ e ∈ es, parkPair q e = true → spectates q e = true) :
    requiresParking q es = (!(es.any (fun e => e.has q)) && es.any (T q)) := by
  rw [requiresParking_unfold]
  have hc : es.any (parkPair q) = es.any (T q) := any_congr_mem h1
  rw [← hc]
  cases ha : es.any (parkPair q)
  · cases es.any (spectates q) <;> cases es.any (fun e => e.has q) <;> simp
  · have : es.any (spectates q) = true := by
      rw [List.any_eq_true] at ha ⊢
      obtain ⟨e, he, hp⟩ := ha
      exact ⟨e, he, h2 e he hp⟩
    rw [this]
    cases es.any (fun e => e.has q) <;> simp

/-- pairwise lifting lemma for acceptance: `get_mutually_allowed` on gates is the conjunction over all ordered
pairs of its inner test -/
theorem allowedGates_pairwise (es : List Edge) :
    allowedGates es = es.all (fun t => es.all (fun s => okPair (.gate t) (.gate s))) := by
  simp [allowedGates, mutuallyAllowed, List.all_map, Function.comp_def]

theorem allowedGates_lift (P : Edge → Edge → Bool) (es : List Edge)
    (h : ∀ t ∈ es, ∀ s ∈ es, okPair (.gate t) (.gate s) = P t s) :
    allowedGates es = es.all (fun t => es.all (fun s => P t s)) := by
  rw [allowedGates_pairwise]
  apply all_congr_mem
  intro t ht
  apply all_congr_mem
  intro s hs
  exact h t ht s hs

/-! ### the sequence generator -/

theorem combos_spec {α} : ∀ (k : Nat) (l c : List α), c ∈ combos k l → c.length = k ∧ c.Sublist l
  | 0, l, c, h => by
    simp [combos] at h
    subst h
    exact ⟨rfl, List.nil_sublist l⟩
  | k + 1, [], c, h => by simp [combos] at h
  | k + 1, x :: xs, c, h => by
    simp only [combos, List.mem_append, List.mem_map] at h
    rcases h with ⟨c', hc', rfl⟩ | h
    · obtain ⟨hl, hs⟩ := combos_spec k xs c' hc'
      exact ⟨by simp [hl], hs.cons_cons x⟩
    · obtain ⟨hl, hs⟩ := combos_spec (k + 1) xs c h
      exact ⟨hl, hs.cons x⟩

theorem foldl_erase_perm : ∀ (c l : List Nat), c.Sublist l → (c ++ c.foldl List.erase l).Perm l
  | [], l, _ => by simp
  | x :: c, l, h => by
    have hx : x ∈ l := h.subset (List.mem_cons_self)
    have hc : c.Sublist (l.erase x) := by
      have := List.Sublist.erase x h
      simpa using this
    have ih := foldl_erase_perm c (l.erase x) hc
    simp only [List.foldl_cons, List.cons_append]
    exact (List.Perm.cons x ih).trans (List.perm_cons_erase hx).symm

theorem orderedInsert_perm {α} (le : α → α → Bool) (x : α) : ∀ l : List α, (orderedInsert le x l).Perm (x :: l)
  | [] => List.Perm.refl _
  | y :: ys => by
    unfold orderedInsert
    split
    · exact List.Perm.refl _
    · exact ((orderedInsert_perm le x ys).cons y).trans (List.Perm.swap x y ys)

theorem isort_perm {α} (le : α → α → Bool) : ∀ l : List α, (isort le l).Perm l
  | [] => List.Perm.refl _
  | x :: xs => (orderedInsert_perm le x _).trans ((isort_perm le xs).cons x)

theorem flatten_map_sort_perm (le : Nat → Nat → Bool) : ∀ g : List (List Nat),
    (g.map (fun s => isort le s)).flatten.Perm g.flatten
  | [] => by simp
  | s :: g => by
    simp only [List.map_cons, List.flatten_cons]
    exact (isort_perm le s).append (flatten_map_sort_perm le g)

theorem canonGroups_flatten (g : List (List Nat)) : (canonGroups g).flatten.Perm g.flatten := by
  unfold canonGroups
  exact (isort_perm _ _).flatten.trans (flatten_map_sort_perm natLe g)

theorem canonGroups_length (k : Nat) (g : List (List Nat)) (h : ∀ s ∈ g, s.length = k) :
    ∀ s ∈ canonGroups g, s.length = k := by
  intro s hs
  unfold canonGroups at hs
  rw [(isort_perm _ _).mem_iff] at hs
  simp only [List.mem_map] at hs
  obtain ⟨s', hs', rfl⟩ := hs
  rw [(isort_perm _ _).length_eq]
  exact h s' hs'

theorem genCombos_spec (k : Nat) : ∀ (fuel : Nat) (rem : List Nat) (cur out : List (List Nat)),
    out ∈ genCombos k fuel rem cur → (∀ s ∈ cur, s.length = k) →
    out.flatten.Perm (cur.flatten ++ rem) ∧ ∀ s ∈ out, s.length = k
  | _, [], cur, out, h, hk => by
    have : out = canonGroups cur := by
      cases ‹Nat› <;> simpa [genCombos] using h
    subst this
    exact ⟨by simpa using canonGroups_flatten cur, canonGroups_length k cur hk⟩
  | 0, _ :: _, cur, out, h, _ => by simp [genCombos] at h
  | fuel + 1, r :: rs, cur, out, h, hk => by
    simp only [genCombos, List.mem_flatMap] at h
    obtain ⟨c, hc, hout⟩ := h
    obtain ⟨hl, hsub⟩ := combos_spec k (r :: rs) c hc
    have hk' : ∀ s ∈ cur ++ [c], s.length = k := by
      intro s hs
      rcases List.mem_append.mp hs with h1 | h1
      · exact hk s h1
      · simp at h1; subst h1; exact hl
    obtain ⟨hp, hlen⟩ := genCombos_spec k fuel _ (cur ++ [c]) out hout hk'
    refine ⟨?_, hlen⟩
    refine hp.trans ?_
    simp only [List.flatten_append, List.flatten_cons, List.flatten_nil, List.append_nil, List.append_assoc]
    exact List.Perm.append_left _ (foldl_erase_perm c (r :: rs) hsub)

theorem mem_uniqAux {α} (eq : α → α → Bool) : ∀ (l seen : List α) (x : α), x ∈ uniqAux eq seen l → x ∈ l
  | [], _, x, h => by simp [uniqAux] at h
  | y :: ys, seen, x, h => by
    unfold uniqAux at h
    split at h
    · exact List.mem_cons_of_mem _ (mem_uniqAux eq ys seen x h)
    · rcases List.mem_cons.mp h with rfl | h
      · exact List.mem_cons_self
      · exact List.mem_cons_of_mem _ (mem_uniqAux eq ys _ x h)

theorem subgroupCombinations_spec (els : List Nat) (k : Nat) (g : List (List Nat))
    (h : g ∈ subgroupCombinations els k) : g.flatten.Perm els ∧ ∀ s ∈ g, s.length = k := by
  unfold subgroupCombinations at h
  split at h
  · simp at h
  · rw [(isort_perm _ _).mem_iff] at h
    have := mem_uniqAux groupsEq _ [] g h
    have := genCombos_spec k _ els [] g this (by simp)
    simpa using this

theorem constructAllowed_spec (es : List Edge) (k mx : Nat) (seqs : List (List (List Nat)))
    (h : constructAllowed es k mx = some seqs) (seq : List (List Nat)) (hs : seq ∈ seqs) :
    (∀ step ∈ seq, step.length = k) ∧ seq.flatten.Perm (List.range es.length) ∧
    (∀ step ∈ seq, mutuallyAllowed (stepOps es step) = true) := by
  unfold constructAllowed at h
  split at h
  · cases h
  · cases h
    rw [List.mem_filter] at hs
    obtain ⟨hm, ha⟩ := hs
    obtain ⟨hp, hl⟩ := subgroupCombinations_spec _ k seq hm
    exact ⟨hl, hp, List.all_eq_true.mp ha⟩

/-! ### layers (C17) -/

theorem swap_swap (e : Edge) : e.swap.swap = e := rfl

theorem isDeviceEdge_iff (e : Edge) : Spec.isDeviceEdge e = true ↔ e ∈ orientedEdges := by
  simp only [Spec.isDeviceEdge, orientedEdges, List.any_eq_true, List.mem_append, List.mem_map, Bool.or_eq_true,
    beq_iff_eq]
  constructor
  · rintro ⟨d, hd, h | h⟩
    · exact Or.inl (h ▸ hd)
    · exact Or.inr ⟨d, hd, by rw [h]; rfl⟩
  · rintro (h | ⟨d, hd, rfl⟩)
    · exact ⟨e, h, Or.inl rfl⟩
    · exact ⟨d, hd, Or.inr rfl⟩

theorem accepted_of_subset {es es' : List Edge} (h : ∀ e ∈ es', e ∈ es) (ha : Spec.accepted es = true) :
    Spec.accepted es' = true := by
  simp only [Spec.accepted, List.all_eq_true] at ha ⊢
  intro e he f hf
  exact ha e (h e he) f (h f hf)

theorem gateQubits_filter_sublist (p : Edge → Bool) : ∀ es : List Edge,
    (Spec.gateQubits (es.filter p)).Sublist (Spec.gateQubits es)
  | [] => by simp [Spec.gateQubits]
  | e :: es => by
    simp only [List.filter_cons]
    split
    · simp only [Spec.gateQubits, List.flatMap_cons]
      exact List.Sublist.append (List.Sublist.refl _) (gateQubits_filter_sublist p es)
    · simp only [Spec.gateQubits, List.flatMap_cons]
      exact (gateQubits_filter_sublist p es).trans (List.sublist_append_right _ _)

theorem nodupB_iff : ∀ l : List Nat, Spec.nodupB l = true ↔ l.Nodup
  | [] => by simp [Spec.nodupB]
  | x :: xs => by simp [Spec.nodupB, nodupB_iff xs, List.nodup_cons]

theorem mem_gateQubits (q : Qubit) (es : List Edge) :
    q ∈ Spec.gateQubits es ↔ ∃ e ∈ es, e.has q = true := by
  simp only [Spec.gateQubits, List.mem_flatMap, Edge.qubits, Edge.has, List.mem_cons, List.not_mem_nil, or_false,
    Bool.or_eq_true, beq_iff_eq]

theorem requiresParking_not_gated (q : Qubit) (es : List Edge) (h : requiresParking q es = true) :
    es.any (fun e => e.has q) = false := by
  rw [requiresParking_unfold] at h
  cases hg : es.any (fun e => e.has q)
  · rfl
  · rw [hg] at h
    cases hs : es.any (spectates q) <;> simp [hs] at h

theorem requiresParking_not_mem_gateQubits (q : Qubit) (es : List Edge) (h : requiresParking q es = true) :
    q ∉ Spec.gateQubits es := by
  intro hq
  obtain ⟨e, he, hh⟩ := (mem_gateQubits q es).mp hq
  have := requiresParking_not_gated q es h
  rw [List.any_eq_false] at this
  exact this e he hh

/-! ### index maps (C17) -/

theorem lookupLast_none_of_not_mem (q : Qubit) : ∀ (s : Nat) (l : List Qubit), q ∉ l → lookupLast (enumFrom s l) q = none
  | _, [], _ => rfl
  | s, x :: xs, h => by
    have hx : x ≠ q := fun hxq => h (hxq ▸ List.mem_cons_self)
    have hq : q ∉ xs := fun hm => h (List.mem_cons_of_mem _ hm)
    simp [enumFrom, lookupLast, lookupLast_none_of_not_mem q (s + 1) xs hq, hx]

/-- default map = position: for a duplicate-free list of involved qubits the `i`-th qubit is mapped to `i` -/
theorem lookupLast_enumFrom : ∀ (s : Nat) (l : List Qubit), l.Nodup → ∀ (i : Nat) (h : i < l.length),
    lookupLast (enumFrom s l) l[i] = some (s + i)
  | _, [], _, i, h => by simp at h
  | s, x :: xs, hnd, 0, _ => by
    have hx : x ∉ xs := (List.nodup_cons.mp hnd).1
    simp [enumFrom, lookupLast, lookupLast_none_of_not_mem x (s + 1) xs hx]
  | s, x :: xs, hnd, i + 1, h => by
    have ih := lookupLast_enumFrom (s + 1) xs (List.nodup_cons.mp hnd).2 i (by simpa using h)
    simp only [enumFrom, lookupLast, List.getElem_cons_succ, ih]
    congr 1
    omega

/-- `dict` lookups after one assignment -/
theorem dictGet_dictSet_self {β} : ∀ (d : List (Nat × β)) (k : Nat) (v : β), dictGet (dictSet d k v) k = some v
  | [], k, v => by simp [dictSet, dictGet]
  | (k', v') :: rest, k, v => by
    unfold dictSet
    split
    · simp [dictGet]
    · rename_i hne
      have := dictGet_dictSet_self rest k v
      simp only [dictGet, List.find?_cons, hne] at this ⊢
      exact this

theorem dictGet_dictSet_other {β} : ∀ (d : List (Nat × β)) (k k' : Nat) (v : β), k' ≠ k →
    dictGet (dictSet d k v) k' = dictGet d k'
  | [], k, k', v, h => by
    have : (k == k') = false := by simp [Ne.symm h]
    simp [dictSet, dictGet, this]
  | (k0, v0) :: rest, k, k', v, h => by
    unfold dictSet
    split
    · rename_i heq
      have h0 : k0 = k := by simpa using heq
      have h1 : (k == k') = false := by simp [Ne.symm h]
      have h2 : (k0 == k') = false := by simp [h0, Ne.symm h]
      simp [dictGet, h1, h2]
    · have ih := dictGet_dictSet_other rest k k' v h
      simp only [dictGet, List.find?_cons] at ih ⊢
      cases hk : (k0 == k') <;> simp [ih]

theorem dictSet_length_new {β} : ∀ (d : List (Nat × β)) (k : Nat) (v : β), dictGet d k = none →
    (dictSet d k v).length = d.length + 1
  | [], _, _, _ => rfl
  | (k0, v0) :: rest, k, v, h => by
    simp only [dictGet, List.find?_cons] at h
    cases hk : (k0 == k)
    · rw [hk] at h
      have ih := dictSet_length_new rest k v (by simpa [dictGet] using h)
      simp [dictSet, hk, ih]
    · rw [hk] at h
      simp at h

theorem memBy_qEq_iff (q : Qubit) (l : List Qubit) : memBy qEq q l = true ↔ q ∈ l := by
  simp only [memBy, qEq, List.any_eq_true, beq_iff_eq]
  constructor
  · rintro ⟨x, hx, rfl⟩; exact hx
  · intro h; exact ⟨q, h, rfl⟩

theorem interleave_perm : ∀ a b : List Qubit, (interleave a b).Perm (a ++ b)
  | [], b => by simp [interleave]
  | a :: as, [] => by simp [interleave]
  | a :: as, b :: bs => by
    simp only [interleave, List.cons_append]
    refine List.Perm.cons a ?_
    refine ((interleave_perm as bs).cons b).trans ?_
    exact (List.perm_middle (l₁ := as) (l₂ := bs) (a := b)).symm

/-- the channel map built over duplicate-free qubit ids with an index that is defined and injective on them is the
inverse of the index: same size, every qubit found back under its own index -/
theorem buildChannelMap_spec (index : Qubit → Option Nat) : ∀ (ids : List Qubit) (m : List (Nat × Qubit)),
    (∀ q ∈ ids, ∃ i, index q = some i) → ids.Nodup →
    (∀ q ∈ ids, ∀ q' ∈ ids, index q = index q' → q = q') →
    (∀ q ∈ ids, ∀ i, index q = some i → dictGet m i = none) →
    ∃ m', buildChannelMap index m ids = some m' ∧ m'.length = m.length + ids.length ∧
      (∀ q ∈ ids, ∃ i, index q = some i ∧ dictGet m' i = some q) ∧
      (∀ k, (∀ q ∈ ids, index q ≠ some k) → dictGet m' k = dictGet m k)
  | [], m, _, _, _, _ => ⟨m, rfl, by simp, by simp, fun _ _ => rfl⟩
  | q :: qs, m, hdef, hnd, hinj, hfresh => by
    obtain ⟨i, hi⟩ := hdef q List.mem_cons_self
    have hq : q ∉ qs := (List.nodup_cons.mp hnd).1
    have hne : ∀ q' ∈ qs, index q' ≠ some i := by
      intro q' hq' h
      have : q' = q := hinj q' (List.mem_cons_of_mem _ hq') q List.mem_cons_self (h.trans hi.symm)
      exact hq (this ▸ hq')
    have hmi : dictGet m i = none := hfresh q List.mem_cons_self i hi
    obtain ⟨m', hb, hlen, hfind, hrest⟩ := buildChannelMap_spec index qs (dictSet m i q)
      (fun q' h => hdef q' (List.mem_cons_of_mem _ h)) (List.nodup_cons.mp hnd).2
      (fun a ha b hb => hinj a (List.mem_cons_of_mem _ ha) b (List.mem_cons_of_mem _ hb))
      (by
        intro q' hq' j hj
        have hji : j ≠ i := fun h => hne q' hq' (h ▸ hj)
        rw [dictGet_dictSet_other m i j q hji]
        exact hfresh q' (List.mem_cons_of_mem _ hq') j hj)
    refine ⟨m', by simp [buildChannelMap, hi, hb], ?_, ?_, ?_⟩
    · rw [hlen, dictSet_length_new m i q hmi]; simp; omega
    · intro q' hq'
      rcases List.mem_cons.mp hq' with rfl | h
      · exact ⟨i, hi, by rw [hrest i hne, dictGet_dictSet_self]⟩
      · exact hfind q' h
    · intro k hk
      have hki : k ≠ i := fun h => hk q List.mem_cons_self (h ▸ hi)
      rw [hrest k (fun q' h => hk q' (List.mem_cons_of_mem _ h)), dictGet_dictSet_other m i k q hki]

end Qco.Conn
