import QcoVerif.Lemmas.BuilderSrc
import QcoVerif.Model.Timing
/-
  Source tie of `CircuitCompositeOperation._lead_and_span` (C04): the loop with running minimum/maximum from ±infinity computes
  the model's `leadSpan`.  Core Lean only.
-/
set_option linter.unusedSimpArgs false
namespace Qco.SpanSrc
open Qco Qco.Py Qco.Gen.PySrc Qco.TimingSrc Qco.ScanSrc Qco.BuilderSrc

/-- a node of the block: identity, composite?, (lead, span) of its operation, start time its link reports. -/
structure SNode where
  id : Nat
  comp : Bool
  lead : Int
  span : Int
  start : Int

def spanOp (n : SNode) : Val :=
  if n.comp then
    .obj "CircuitCompositeOperation" n.id
      [("_lead_and_span()", .tuple [.int n.lead, .int n.span]),
       ("relation_link", .obj "Link" (3000 + n.id) [("get_start_time()", .int n.start)])]
  else
    .obj "Operation" n.id
      [("duration", .int n.span), ("relation_link", .obj "Link" (3000 + n.id) [("get_start_time()", .int n.start)])]

def spanNode (n : SNode) : Val := .obj "Node" (1000 + n.id) [("operation", spanOp n)]

/-- `isinstance(op, CircuitCompositeOperation)` by class name; other pure queries from pseudo-fields. -/
def spanEnv : Env :=
  { func := fun f args => match f, args with
      | "isinstance", [.obj c _ _, .str want] => some (.bool (c == want))
      | _, _ => Option.none
    method := fun recv m _ => match recv with | .obj _ _ fs => lookupField fs (m ++ "()") | _ => Option.none }

/-- lead of a leaf is 0 (the source's `0.0, operation.duration`). -/
def SNode.leadEff (n : SNode) : Int := if n.comp then n.lead else 0

def spanSelf (nodes : List SNode) (heads : List Nat) : Val :=
  .obj "CircuitCompositeOperation" 1
    [("empty_composite", .bool nodes.isEmpty),
     ("_circuit_graph", .obj "Graph" 2
        [("get_nodes_at()", .list ((nodes.filter (fun n => heads.contains n.id)).map spanNode)),
         ("get_node_iterator()", .list (nodes.map spanNode))])]

/-- running value: `none` = still ±infinity. -/
def optInf (neg : Bool) : Option Int → Val
  | none => .enum "float" (if neg then "-inf" else "inf")
  | some i => .int i

def rmin (acc : Option Int) (x : Int) : Option Int :=
  some (match acc with | none => x | some a => if x < a then x else a)
def rmax (acc : Option Int) (x : Int) : Option Int :=
  some (match acc with | none => x | some a => if x > a then x else a)

theorem rmin_fold (l : List Int) (a : Int) : l.foldl rmin (some a) = some (l.foldl (fun m y => if y < m then y else m) a) := by
  induction l generalizing a with
  | nil => rfl
  | cons x xs ih => simp only [List.foldl_cons, rmin]; exact ih _

theorem rmax_fold (l : List Int) (a : Int) : l.foldl rmax (some a) = some (l.foldl (fun m y => if y > m then y else m) a) := by
  induction l generalizing a with
  | nil => rfl
  | cons x xs ih => simp only [List.foldl_cons, rmax]; exact ih _

theorem rmin_minOf (x : Int) (xs : List Int) : (x :: xs).foldl rmin none = some (minOf (x :: xs)) := by
  simp only [List.foldl_cons, rmin, minOf]; exact rmin_fold xs x

theorem rmax_maxOf (x : Int) (xs : List Int) : (x :: xs).foldl rmax none = some (maxOf (x :: xs)) := by
  simp only [List.foldl_cons, rmax, maxOf]; exact rmax_fold xs x

def spanBody : List Stmt :=
  [.assign "operation" (.attr (.name "node") "operation"),
   .ifs (.call "isinstance" [.name "operation", .str "CircuitCompositeOperation"])
     [.assignTuple ["lead", "span"] (.mcall (.name "operation") "_lead_and_span" [])]
     [.assignTuple ["lead", "span"] (.tuple [.flt 0 1, .attr (.name "operation") "duration"])],
   .assign "start_time" (.mcall (.attr (.name "operation") "relation_link") "get_start_time" [.name "span"]),
   .ifs (.call "any" [.comp (.cmp .is_ (.name "node") (.name "head_node")) "head_node" (.name "head_nodes")])
     [.assign "head_start_time" (.call "min" [.name "head_start_time", .name "start_time"])] [],
   .assign "earliest_start_time" (.call "min" [.name "earliest_start_time", .bin .sub (.name "start_time") (.name "lead")]),
   .assign "latest_end_time" (.call "max" [.name "latest_end_time",
      .bin .add (.bin .sub (.name "start_time") (.name "lead")) (.name "span")])]

/-- the running values of the loop. -/
structure SpanVars (vs : Vars) (headNodes : List SNode) (h e l : Option Int) : Prop where
  heads : vs.get "head_nodes" = .list (headNodes.map spanNode)
  h : vs.get "head_start_time" = optInf false h
  e : vs.get "earliest_start_time" = optInf false e
  l : vs.get "latest_end_time" = optInf true l

/-- `any(node is head_node for head_node in head_nodes)`: identity of node objects. -/
theorem is_head_eval (vs : Vars) (headNodes : List SNode) (n : SNode)
    (hh : vs.get "head_nodes" = .list (headNodes.map spanNode)) (hn : vs.get "node" = spanNode n) :
    eval spanEnv vs (.call "any" [.comp (.cmp .is_ (.name "node") (.name "head_node")) "head_node" (.name "head_nodes")]) =
      .bool (headNodes.any (fun m => m.id == n.id)) := by
  have this : ∀ m : SNode, evalCmp .is_ ((vs.set "head_node" (spanNode m)).get "node")
      ((vs.set "head_node" (spanNode m)).get "head_node") = .bool (m.id == n.id) := by
    intro m
    have h1 : (vs.set "head_node" (spanNode m)).get "node" = spanNode n := by rw [get_set_ne _ _ _ _ (by decide)]; exact hn
    rw [h1, vars_get_set_same]
    simp only [evalCmp, spanNode, val_beq_eq, Val.beq]
    by_cases hmn : m.id = n.id
    · simp [hmn]
    · have h2 : ¬ (n.id = m.id) := fun h => hmn h.symm
      have h3 : (1000 + n.id == 1000 + m.id) = false := by simp [h2]
      have h4 : (m.id == n.id) = false := by simp [hmn]
      rw [h3, h4]
  have hany : ∀ l : List SNode, (List.map (fun m => Val.bool (m.id == n.id)) l).any (fun x => x.truthy == some true) =
      l.any (fun m => m.id == n.id) := by
    intro l
    induction l with
    | nil => rfl
    | cons a as ih =>
      rw [List.map_cons, List.any_cons, ih, List.any_cons]
      cases (a.id == n.id) <;> rfl
  simp only [eval, evalList, hh, Val.elems?, builtin, List.map_map, Function.comp_def, this, Option.map_some, hany]

theorem min_opt (h : Option Int) (x : Int) : builtin "min" [optInf false h, .int x] = some (optInf false (rmin h x)) := by
  cases h <;> simp [builtin, optInf, rmin, minMaxInf, intsOf?, Val.asInt?, minInts]

theorem max_opt (l : Option Int) (x : Int) : builtin "max" [optInf true l, .int x] = some (optInf true (rmax l x)) := by
  cases l <;> simp [builtin, optInf, rmax, minMaxInf, intsOf?, Val.asInt?, maxInts]

theorem optInf_ok (b : Bool) (o : Option Int) : (optInf b o).isErr = false := by
  cases o <;> cases b <;> rfl

/-- one round of the loop. -/
theorem span_step (vs : Vars) (hd : List SNode) (h e l : Option Int) (n : SNode) (hv : SpanVars vs hd h e l) :
    ∃ vs1, execBlock spanEnv (vs.set "node" (spanNode n)) spanBody = .cont vs1 ∧
      SpanVars vs1 hd (if hd.any (fun m => m.id == n.id) then rmin h n.start else h)
        (rmin e (n.start - n.leadEff)) (rmax l (n.start - n.leadEff + n.span)) := by
  have hn0 : (vs.set "node" (spanNode n)).get "node" = spanNode n := vars_get_set_same _ _ _
  have hh0 : (vs.set "node" (spanNode n)).get "head_nodes" = .list (hd.map spanNode) := by
    rw [get_set_ne _ _ _ _ (by decide)]; exact hv.heads
  -- the store after the first three statements
  obtain ⟨vs3, e3, k1, k2, k3, k4, k5, k6, k7⟩ : ∃ vs3,
      execBlock spanEnv (vs.set "node" (spanNode n)) spanBody = execBlock spanEnv vs3 (spanBody.drop 3) ∧
      vs3.get "node" = spanNode n ∧ vs3.get "head_nodes" = .list (hd.map spanNode) ∧
      vs3.get "head_start_time" = optInf false h ∧ vs3.get "earliest_start_time" = optInf false e ∧
      vs3.get "latest_end_time" = optInf true l ∧ vs3.get "start_time" = .int n.start ∧
      (vs3.get "lead" = .int n.leadEff ∧ vs3.get "span" = .int n.span) := by
    cases hc : n.comp
    · refine ⟨((((vs.set "node" (spanNode n)).set "operation" (spanOp n)).set "lead" (.int 0)).set "span" (.int n.span)).set
        "start_time" (.int n.start), ?_, ?_, ?_, ?_, ?_, ?_, ?_, ?_⟩
      · simp [spanBody, execBlock, exec, eval, evalList, vars_get_set_same, get_set_ne, spanNode, spanOp, hc, getAttr, lookupField,
          spanEnv, Val.truthy, Val.isErr, Val.elems?, bindTuple, builtin]
      all_goals simp [vars_get_set_same, get_set_ne, hv.heads, hv.h, hv.e, hv.l, SNode.leadEff, hc]
    · refine ⟨((((vs.set "node" (spanNode n)).set "operation" (spanOp n)).set "lead" (.int n.lead)).set "span" (.int n.span)).set
        "start_time" (.int n.start), ?_, ?_, ?_, ?_, ?_, ?_, ?_, ?_⟩
      · simp [spanBody, execBlock, exec, eval, evalList, vars_get_set_same, get_set_ne, spanNode, spanOp, hc, getAttr, lookupField,
          spanEnv, Val.truthy, Val.isErr, Val.elems?, bindTuple, builtin]
      all_goals simp [vars_get_set_same, get_set_ne, hv.heads, hv.h, hv.e, hv.l, SNode.leadEff, hc]
  rw [e3]
  have hany := is_head_eval vs3 hd n k2 k1
  simp only [spanBody, List.drop]
  cases hb : hd.any (fun m => m.id == n.id)
  · refine ⟨(vs3.set "earliest_start_time" (optInf false (rmin e (n.start - n.leadEff)))).set "latest_end_time"
      (optInf true (rmax l (n.start - n.leadEff + n.span))), ?_, ?_⟩
    · simp only [execBlock, exec, hany, hb, Val.truthy]
      simp [eval, evalList, k3, k4, k5, k6, k7.1, k7.2, get_set_ne, vars_get_set_same, evalBin, Val.asInt?, intBin, min_opt, max_opt,
        optInf_ok]
    · exact ⟨by simp [get_set_ne, k2], by simp [get_set_ne, k3], by simp [get_set_ne, vars_get_set_same],
        by simp [vars_get_set_same]⟩
  · refine ⟨((vs3.set "head_start_time" (optInf false (rmin h n.start))).set "earliest_start_time"
      (optInf false (rmin e (n.start - n.leadEff)))).set "latest_end_time" (optInf true (rmax l (n.start - n.leadEff + n.span))), ?_, ?_⟩
    · simp only [execBlock, exec, hany, hb, Val.truthy]
      simp [eval, evalList, k3, k4, k5, k6, k7.1, k7.2, get_set_ne, vars_get_set_same, evalBin, Val.asInt?, intBin, min_opt, max_opt,
        optInf_ok]
    · exact ⟨by simp [get_set_ne, k2], by simp [get_set_ne, vars_get_set_same], by simp [get_set_ne, vars_get_set_same],
        by simp [vars_get_set_same]⟩

def isHead (hd : List SNode) (n : SNode) : Bool := hd.any (fun m => m.id == n.id)

theorem span_loop (hd : List SNode) : ∀ (nodes : List SNode) (vs : Vars) (h e l : Option Int), SpanVars vs hd h e l →
    ∃ vs', forLoop (fun vs' v => execBlock spanEnv (vs'.set "node" v) spanBody) (nodes.map spanNode) vs = .cont vs' ∧
      SpanVars vs' hd (nodes.foldl (fun acc n => if isHead hd n then rmin acc n.start else acc) h)
        (nodes.foldl (fun acc n => rmin acc (n.start - n.leadEff)) e)
        (nodes.foldl (fun acc n => rmax acc (n.start - n.leadEff + n.span)) l) := by
  intro nodes
  induction nodes with
  | nil => intro vs h e l hv; exact ⟨vs, rfl, hv⟩
  | cons n rest ih =>
    intro vs h e l hv
    obtain ⟨vs1, s1, s2⟩ := span_step vs hd h e l n hv
    obtain ⟨vs', t1, t2⟩ := ih vs1 _ _ _ s2
    exact ⟨vs', by simp only [List.map_cons, forLoop, s1]; exact t1, by simpa [List.foldl_cons, isHead] using t2⟩

theorem fold_filter_rmin (p : SNode → Bool) (f : SNode → Int) : ∀ (nodes : List SNode) (acc : Option Int),
    nodes.foldl (fun acc n => if p n then rmin acc (f n) else acc) acc = ((nodes.filter p).map f).foldl rmin acc := by
  intro nodes
  induction nodes with
  | nil => intro acc; rfl
  | cons n rest ih =>
    intro acc
    cases hp : p n <;> simp [List.foldl_cons, List.filter_cons, hp, ih]

theorem fold_map_rmin (f : SNode → Int) : ∀ (nodes : List SNode) (acc : Option Int),
    nodes.foldl (fun acc n => rmin acc (f n)) acc = (nodes.map f).foldl rmin acc := by
  intro nodes; induction nodes with
  | nil => intro acc; rfl
  | cons n rest ih => intro acc; simp [List.foldl_cons, ih]

theorem fold_map_rmax (f : SNode → Int) : ∀ (nodes : List SNode) (acc : Option Int),
    nodes.foldl (fun acc n => rmax acc (f n)) acc = (nodes.map f).foldl rmax acc := by
  intro nodes; induction nodes with
  | nil => intro acc; rfl
  | cons n rest ih => intro acc; simp [List.foldl_cons, ih]

/-- **`_lead_and_span`: the source text computes the model's `leadSpan`** of the head starts and the node intervals (a nested
    block's interval shifted by its own lead, a leaf's lead 0), for every non-empty block with at least one depth-1 node among
    its nodes; `(0, 0)` for an empty block.  (`hd`: the depth-1 nodes, a sub-list of `nodes` by identity.) -/
theorem lead_and_span_matches_source (nodes hd : List SNode) (hne : nodes ≠ [])
    (hhead : (nodes.filter (isHead hd)).map (·.start) ≠ []) :
    callFn spanEnv Composite_lead_and_span
        [.obj "CircuitCompositeOperation" 1
          [("empty_composite", .bool false),
           ("_circuit_graph", .obj "Graph" 2 [("get_nodes_at()", .list (hd.map spanNode)),
                                               ("get_node_iterator()", .list (nodes.map spanNode))])]] =
      .tuple [.int (leadSpan ((nodes.filter (isHead hd)).map (·.start))
                      (nodes.map (fun n => (n.start - n.leadEff, n.start - n.leadEff + n.span)))).1,
              .int (leadSpan ((nodes.filter (isHead hd)).map (·.start))
                      (nodes.map (fun n => (n.start - n.leadEff, n.start - n.leadEff + n.span)))).2] := by
  let selfV : Val := .obj "CircuitCompositeOperation" 1
          [("empty_composite", .bool false),
           ("_circuit_graph", .obj "Graph" 2 [("get_nodes_at()", .list (hd.map spanNode)),
                                               ("get_node_iterator()", .list (nodes.map spanNode))])]
  have hbodyEq : Composite_lead_and_span.body =
      [.ifs (.attr (.name "self") "empty_composite") [.ret (.tuple [.flt 0 1, .flt 0 1])] [],
       .assign "head_nodes" (.mcall (.attr (.name "self") "_circuit_graph") "get_nodes_at" [.int 1]),
       .assign "head_start_time" (.enumc "float" "inf"),
       .assign "earliest_start_time" (.enumc "float" "inf"),
       .assign "latest_end_time" (.neg (.enumc "float" "inf")),
       .for_ "node" (.mcall (.attr (.name "self") "_circuit_graph") "get_node_iterator" []) spanBody,
       .ret (.tuple [.bin .sub (.name "head_start_time") (.name "earliest_start_time"),
                     .bin .sub (.name "latest_end_time") (.name "earliest_start_time")])] := rfl
  let vs0 : Vars := bindParams Composite_lead_and_span.params [selfV] []
  let vs5 : Vars := (((vs0.set "head_nodes" (.list (hd.map spanNode))).set "head_start_time" (.enum "float" "inf")).set
      "earliest_start_time" (.enum "float" "inf")).set "latest_end_time" (.enum "float" "-inf")
  have hself0 : vs0.get "self" = selfV := by simp [vs0, Composite_lead_and_span, bindParams, Vars.get, Vars.set]
  have hpre : execBlock spanEnv vs0 Composite_lead_and_span.body =
      execBlock spanEnv vs5 [.for_ "node" (.mcall (.attr (.name "self") "_circuit_graph") "get_node_iterator" []) spanBody,
       .ret (.tuple [.bin .sub (.name "head_start_time") (.name "earliest_start_time"),
                     .bin .sub (.name "latest_end_time") (.name "earliest_start_time")])] := by
    rw [hbodyEq]
    simp [vs5, execBlock, exec, eval, evalList, hself0, selfV, getAttr, lookupField, spanEnv, Val.truthy, Val.isErr,
      vars_get_set_same, get_set_ne]
  have hv5 : SpanVars vs5 hd none none none :=
    ⟨by simp [vs5, get_set_ne, vars_get_set_same], by simp [vs5, get_set_ne, vars_get_set_same, optInf],
     by simp [vs5, get_set_ne, vars_get_set_same, optInf], by simp [vs5, vars_get_set_same, optInf]⟩
  have hself5 : vs5.get "self" = selfV := by simp [vs5, get_set_ne, hself0]
  have hiter : (eval spanEnv vs5 (.mcall (.attr (.name "self") "_circuit_graph") "get_node_iterator" [])).elems? =
      some (nodes.map spanNode) := by
    simp [eval, evalList, hself5, selfV, getAttr, lookupField, spanEnv, Val.elems?]
  obtain ⟨vs', l1, l2⟩ := span_loop hd nodes vs5 none none none hv5
  rw [fold_filter_rmin (isHead hd) (·.start), fold_map_rmin, fold_map_rmax] at l2
  obtain ⟨x, xs, hx⟩ : ∃ x xs, (nodes.filter (isHead hd)).map (·.start) = x :: xs := by
    cases hq : (nodes.filter (isHead hd)).map (·.start) with
    | nil => exact absurd hq hhead
    | cons x xs => exact ⟨x, xs, rfl⟩
  obtain ⟨n0, ns, hn⟩ : ∃ n0 ns, nodes = n0 :: ns := by
    cases nodes with
    | nil => exact absurd rfl hne
    | cons n0 ns => exact ⟨n0, ns, rfl⟩
  unfold callFn
  rw [show (Composite_lead_and_span.params.length != [selfV].length) = false from rfl]
  show (match execBlock spanEnv vs0 Composite_lead_and_span.body with | .ret v => v | .cont _ => Val.none | .raised what => _) = _
  rw [hpre, execBlock_for _ _ _ _ _ _ _ hiter, l1]
  have hH := l2.h; have hE := l2.e; have hL := l2.l
  rw [hx, rmin_minOf] at hH
  subst hn
  rw [List.map_cons, rmin_minOf] at hE
  rw [List.map_cons, rmax_maxOf] at hL
  simp only [execBlock, exec, eval, evalList, hH, hE, hL, optInf, evalBin, Val.asInt?, intBin, leadSpan, hx, List.map_cons,
    List.map_map, Function.comp_def]

/-- an empty block: `(0, 0)`. -/
theorem lead_and_span_empty_matches_source :
    callFn spanEnv Composite_lead_and_span [.obj "CircuitCompositeOperation" 1 [("empty_composite", .bool true)]] =
      .tuple [.int 0, .int 0] := by
  simp [callFn, Composite_lead_and_span, execBlock, exec, eval, evalList, bindParams, Vars.set, Vars.get, getAttr, lookupField,
    Val.truthy]

end Qco.SpanSrc
