"""C13 — index kernels agree with the experiment circuit they describe.

Every run
  1. rebuilds lean/QcoVerif/Properties/C13.lean (kernel_eq_circuit, count_eq_cycle_length, … about the Lean kernel model
     and the Lean model of the per-ancilla tag sequence) and audits the axioms;
  2. builds REAL circuits with `construct_repetition_code_multi_round_circuit` (code distance d = number of data qubits,
     rounds lists of <= 3 distinct entries over {0..4}, several computational initial states), reads
     `DeclarativeCircuit.get_acquisition_indices(AcquisitionTag(qubit, tag))` for every qubit and tag and
       (a) evaluates the property in Python on the implementation: the circuit's indices against the getters of the real
           `RepetitionExperimentKernel(rounds, heralded=True, qutrit=True, data ids, ancilla ids, repetitions=1)`;
       (b) compares the circuit with the Lean tag-sequence model (driver `kernel circ <rounds> anc|data`);
       (c) compares the real kernel with the Lean kernel model (driver `kernel exp … all`, as in C12).
Breakage is handled as in harness/streamcheck.py.
"""
from __future__ import annotations
import itertools
import json
import multiprocessing as mp
import os
import time
from collections import Counter

from . import common, c12

PROP = 'C13'
TAGS = ('heralded', 'parity', 'final')


# ----------------------------------------------------------------------------- cases

def round_lists(max_len=3, values=range(5)):
    out = []
    for n in range(1, max_len + 1):
        out.extend(list(p) for p in itertools.permutations(values, n))
    return out


def states_for(d, tier, rng):
    """data-qubit bit strings (+ optional ancilla bit strings): computational initial states"""
    zeros, ones = [0] * d, [1] * d
    alt = [i % 2 for i in range(d)]
    out = [(zeros, None), (ones, None), (alt, None)]
    out.append(([rng.randrange(2) for _ in range(d)], [rng.randrange(2) for _ in range(d - 1)]))
    if tier == 'quick' and d >= 3:
        out = [out[0], out[2], out[3]]      # sized for <= 90 s on a loaded 16-core machine (measured 0.15-0.8 s per circuit)
    if tier == 'thorough':
        if d <= 3:
            out = [(list(b), None) for b in itertools.product((0, 1), repeat=d)]
        else:
            out += [([rng.randrange(2) for _ in range(d)], None) for _ in range(3)]
        out += [([rng.randrange(2) for _ in range(d)], [rng.randrange(2) for _ in range(d - 1)]) for _ in range(2)]
    seen, res = set(), []
    for s in out:
        k = json.dumps(s)
        if k not in seen:
            seen.add(k)
            res.append(s)
    return res


def make_cases(tier, rng):
    """Sized by measurement: building a circuit takes 0.02-2.7 s, but every `get_acquisition_indices` call re-evaluates
    the schedule, so reading one circuit costs ~0.1 s (d=2, one entry) … 5 s (d=4, three entries) … 20-90 s (d=5, 3-5
    entries). d in {2,3}: all 85 lists; d in {4,5} (thorough only): all 25 lists of <= 2 entries plus a seeded sample
    of the 3-entry lists, two states each."""
    cases = []
    ds = (2, 3) if tier == 'quick' else (2, 3, 4, 5)
    lists = round_lists()
    for d in ds:
        sts = states_for(d, tier, rng)
        use = lists
        if d >= 4:
            short = [l for l in lists if len(l) <= 2]
            use = short + rng.sample([l for l in lists if len(l) == 3], 12 if d == 4 else 6)
            sts = [sts[0], sts[-1]]
        for rounds in use:
            for data_bits, anc_bits in sts:
                cases.append({'d': d, 'rounds': rounds, 'data_state': data_bits, 'anc_state': anc_bits, 'kind': 'valid'})
    # a few longer lists / larger round counts (beyond the three blocks of get_circuit_qec_with_detectors)
    extra = [[5, 0, 7], [0, 1, 2, 3, 4], [6], [4, 3, 2, 1, 0], [8, 1]]
    if tier == 'thorough':
        extra += [rng.sample(range(0, 10), rng.randrange(2, 5)) for _ in range(24)]
    for rounds in extra:
        for d in ds[:2]:
            cases.append({'d': d, 'rounds': rounds, 'data_state': [0] * d, 'anc_state': None, 'kind': 'long'})
    # repeated rounds (outside the quantifier; the per-kernel statement still holds, the getters see the first match)
    for rounds in ([2, 2], [0, 3, 0]):
        cases.append({'d': 2, 'rounds': rounds, 'data_state': [0, 0], 'anc_state': None, 'kind': 'malformed-duplicates'})
    return cases


# ----------------------------------------------------------------------------- implementation side

def build(c):
    from qce_circuit.library.repetition_code.circuit_constructors import construct_repetition_code_multi_round_circuit
    from qce_circuit.library.repetition_code.circuit_components import RepetitionCodeDescription
    from qce_circuit.language import InitialStateContainer, InitialStateEnum
    enum = {0: InitialStateEnum.ZERO, 1: InitialStateEnum.ONE}
    anc = None if c['anc_state'] is None else [enum[b] for b in c['anc_state']]
    state = InitialStateContainer.from_ordered_list([enum[b] for b in c['data_state']], anc)
    desc = RepetitionCodeDescription.from_initial_state(state)
    # Other library circuits over the same qubits are built FIRST in the same process (what a calibration/analysis script does):
    # state kept between constructor calls (seeded change C13-m4: a memo of calibration circuits keyed on the qubit indices only)
    # must not leak into the experiment circuit.
    try:
        from qce_circuit.library.state_calibration.circuit_components import CalibrationDescription, CalibrateType
        from qce_circuit.library.state_calibration.circuit_constructors import construct_calibration_circuit
        from qce_circuit.library.repetition_code.circuit_constructors import construct_repetition_code_circuit
        cmap = desc.circuit_channel_map
        for typ in (CalibrateType.QUBIT, CalibrateType.QUQUAD):
            construct_calibration_circuit(description=CalibrationDescription(
                _qubit_ids=desc.calibration_qubit_ids, _qubit_index_map={v: k for k, v in cmap.items()}, _type=typ))
        construct_repetition_code_circuit(qec_cycles=2, description=desc, initial_state=state)
    except Exception:  # noqa — the warm-up is not what is judged
        pass
    t = time.time()
    circuit = construct_repetition_code_multi_round_circuit(list(c['rounds']), desc, state)
    return circuit, desc, time.time() - t


def observe(c):
    """What the implementation says: per qubit the indices per tag (circuit) and the kernel getters."""
    import numpy as np
    from qce_circuit.structure.intrf_acquisition_operation import AcquisitionTag
    from qce_circuit.structure.acquisition_indexing.kernel_repetition_code import RepetitionExperimentKernel
    from qce_circuit.structure.acquisition_indexing.intrf_stabilizer_index_kernel import StateKey
    circuit, desc, dt = build(c)
    t = time.time()
    kernel = RepetitionExperimentKernel(
        rounds=list(c['rounds']), heralded_initialization=True, qutrit_calibration_points=True,
        involved_data_qubit_ids=desc.data_qubit_ids, involved_ancilla_qubit_ids=desc.ancilla_qubit_ids,
        experiment_repetitions=1)
    states = [StateKey.STATE_0, StateKey.STATE_1, StateKey.STATE_2]
    qubits = []
    # every ancilla (the property), plus the first and the last data qubit (tag-sequence model of a data qubit only);
    # each getter call re-evaluates the whole schedule, which dominates the run time (measured: 0.2-0.5 s per call at d=4)
    watched = list(desc.ancilla_qubit_ids) + [desc.data_qubit_ids[0], desc.data_qubit_ids[-1]]
    for qid in desc.qubit_ids:
        if qid not in watched:
            continue
        qi = desc.map_qubit_id_to_circuit_index(qid)
        role = 'anc' if qid in desc.ancilla_qubit_ids else 'data'
        circ = {tag: [int(x) for x in circuit.get_acquisition_indices(AcquisitionTag(qi, tag))] for tag in TAGS}
        allq = [int(x) for x in circuit.get_acquisition_indices(qi)]
        kern = {'her': {}, 'sp': {}, 'proj': {}}
        for r in c['rounds']:
            for name, g in (('her', kernel.get_heralded_cycle_acquisition_indices),
                            ('sp', kernel.get_stabilizer_and_projected_cycle_acquisition_indices),
                            ('proj', kernel.get_projected_cycle_acquisition_indices)):
                arr = np.asarray(g(qid, r))
                kern[name][str(r)] = [[int(x) for x in row] for row in arr] if arr.ndim == 2 else 'none'
        kern['hcal'] = [[int(x) for x in kernel.get_heralded_calibration_acquisition_indices(qid, s)] for s in states]
        kern['pcal'] = [[int(x) for x in kernel.get_projected_calibration_acquisition_indices(qid, s)] for s in states]
        kern['missing'] = [int(rk.stop_index) for rk in kernel._repetition_kernels if rk.nr_repeated_parities == 0]
        qubits.append({'id': qid.id, 'index': qi, 'role': role, 'circuit': circ, 'all': allq, 'kernel': kern})
    # The same experiment built AGAIN from the same description, after the kernel has been queried (an analysis script asks the
    # kernel first and builds the circuit later): the kernel must not have changed what it was given (seeded change C13-m6 — a
    # getter that extends the caller's data-qubit list in place, so the description gains qubits).
    again = None
    try:
        from qce_circuit.library.repetition_code.circuit_constructors import construct_repetition_code_multi_round_circuit as _mk
        from qce_circuit.language import InitialStateContainer, InitialStateEnum
        enum = {0: InitialStateEnum.ZERO, 1: InitialStateEnum.ONE}
        anc = None if c['anc_state'] is None else [enum[b] for b in c['anc_state']]
        state = InitialStateContainer.from_ordered_list([enum[b] for b in c['data_state']], anc)
        import warnings as _w
        with _w.catch_warnings():
            _w.simplefilter('ignore')
            c2 = _mk(list(c['rounds']), desc, state)
            again = {q['id']: [int(x) for x in c2.get_acquisition_indices(q['index'])] for q in qubits}
        again['#qubits'] = [len(desc.data_qubit_ids), len(desc.ancilla_qubit_ids)]
    except Exception as ex:  # noqa
        again = {'exc': f'{type(ex).__name__}: {str(ex)[:200]}'}
    return {'qubits': qubits, 'cycle': int(kernel.kernel_cycle_length), 'build_s': dt, 'rest_s': time.time() - t, 'again': again,
            'data_idx': [desc.map_qubit_id_to_circuit_index(q) for q in desc.data_qubit_ids],
            'anc_idx': [desc.map_qubit_id_to_circuit_index(q) for q in desc.ancilla_qubit_ids]}


def predicates(c, obs):
    """C13 on the implementation's own answers (ancilla qubits only — that is what the property speaks about)."""
    fails = []

    def fail(what, **detail):
        fails.append({'what': what, 'detail': detail})

    rounds = c['rounds']
    distinct = len(set(rounds)) == len(rounds)
    cyc = obs['cycle']
    ag = obs.get('again')
    if ag is not None:
        first = {qb['id']: qb['all'] for qb in obs['qubits']}
        first['#qubits'] = [len(obs['data_idx']), len(obs['anc_idx'])]
        if ag != first:
            fail('rebuild', reason='the same experiment built from the same description after the kernel queries differs',
                 first={k: (v if k == '#qubits' else len(v)) for k, v in first.items()},
                 again={k: (v if k in ('#qubits', 'exc') else len(v)) for k, v in ag.items()})
    for qb in obs['qubits']:
        if qb['role'] != 'anc':
            continue
        circ, kern = qb['circuit'], qb['kernel']
        # count = cycle length; the ancilla's indices are 0..cycle-1, each measurement carries exactly one of the tags
        if len(qb['all']) != cyc or sorted(qb['all']) != list(range(cyc)):
            fail('count', qubit=qb['id'], acquisitions=len(qb['all']), cycle=cyc)
        tagged = sorted(circ['heralded'] + circ['parity'] + circ['final'])
        if tagged != sorted(qb['all']):
            fail('count', qubit=qb['id'], reason='tagged indices are not all indices', tagged=tagged, all=qb['all'])
        if not distinct:
            continue
        rows = {name: [kern[name][str(r)] for r in rounds] for name in ('her', 'sp', 'proj')}
        if any(x == 'none' or len(x) != 1 for name in rows for x in rows[name]):
            fail('getter-shape', qubit=qb['id'], kernel=kern)
            continue
        k_her = sorted([x for r in rows['her'] for x in r[0]] + [x for s in kern['hcal'] for x in s])
        k_par = [x for r in rows['sp'] for x in r[0]]
        k_cal = [x for s in kern['pcal'] for x in s]
        if circ['heralded'] != k_her:
            fail('heralded', qubit=qb['id'], circuit=circ['heralded'], kernel=k_her)
        if circ['parity'] != k_par:
            fail('parity', qubit=qb['id'], circuit=circ['parity'], kernel=k_par)
        extra = sorted(set(circ['final']) - set(k_cal))
        if not set(k_cal) <= set(circ['final']) or extra != sorted(kern['missing']) or \
                len(extra) != sum(1 for r in rounds if r == 0):
            fail('final', qubit=qb['id'], circuit=circ['final'], kernel_calibration=k_cal,
                 zero_round_slots=kern['missing'])
        # projected (last stabilizer) index of an r >= 1 entry is the circuit's last parity index of that entry
        for r, sp, pj in zip(rounds, rows['sp'], rows['proj']):
            if r >= 1 and (pj[0] != sp[0][-1:] or pj[0][0] not in circ['parity']):
                fail('projected', qubit=qb['id'], rounds_entry=r, projected=pj, stabilizer_and_projected=sp)
            if r == 0 and (pj[0] != [] or sp[0] != []):
                fail('projected', qubit=qb['id'], rounds_entry=0, projected=pj, stabilizer_and_projected=sp)
    return fails


def circ_line(rounds, role):
    return f"kernel circ {','.join(str(r) for r in rounds)} {role}"


def canon_circ(qb):
    c = qb['circuit']
    f = lambda xs: '[' + ','.join(str(x) for x in xs) + ']'
    return f"n={len(qb['all'])} heralded={f(c['heralded'])} parity={f(c['parity'])} final={f(c['final'])}"


def _work(c):
    os.environ.setdefault('TQDM_DISABLE', '1')
    import warnings
    warnings.simplefilter('ignore')
    try:
        obs = observe(c)
    except Exception as ex:
        return {'exc': f'{type(ex).__name__}: {str(ex)[:300]}', 'fails': [], 'obs': None, 'kall': None}
    fails = predicates(c, obs)
    kc = c12.case(c['rounds'], 1, 1, 1)
    kc.update({'data': obs['data_idx'], 'anc': obs['anc_idx'], 'qs': obs['data_idx'][:1] + obs['anc_idx'][:2],
               'counts': sorted(set(c['rounds'])) + [9]})
    return {'exc': None, 'fails': fails, 'obs': obs, 'kcase': kc, 'kall': c12.impl_all(kc)}


def run_impl(cases, procs=None):
    procs = procs or min(16, os.cpu_count() or 1)
    if len(cases) < 8 or procs == 1:
        return [_work(c) for c in cases]
    order = sorted(range(len(cases)), key=lambda i: -(cases[i]['d'] ** 2 * (sum(cases[i]['rounds']) + 3)))
    ctx = mp.get_context('fork')
    with ctx.Pool(procs) as pool:
        res = pool.map(_work, [cases[i] for i in order], chunksize=1)
    out = [None] * len(cases)
    for i, r in zip(order, res):
        out[i] = r
    return out


def evaluate(cases):
    impl = run_impl(cases)
    lines, owner = [], []
    for i, (c, r) in enumerate(zip(cases, impl)):
        if r['obs'] is None:
            continue
        lines.append(circ_line(c['rounds'], 'anc'))
        owner.append((i, 'anc'))
        lines.append(circ_line(c['rounds'], 'data'))
        owner.append((i, 'data'))
        lines.append(c12.all_line(r['kcase']))
        owner.append((i, 'kall'))
    answers = common.run_driver(lines)
    res = [{'case': c, 'exc': r['exc'], 'obs': r['obs'], 'fails': r['fails'], 'dis': None, 'model': {}}
           for c, r in zip(cases, impl)]
    for (i, what), ans in zip(owner, answers):
        res[i]['model'][what] = ans
        if res[i]['dis'] is not None:
            continue
        if what == 'kall':
            if ans != impl[i]['kall']:
                res[i]['dis'] = {'what': 'kernel getters', **(c12.diff_all(impl[i]['kall'], ans) or {})}
        else:
            for qb in res[i]['obs']['qubits']:
                if qb['role'] == what and canon_circ(qb) != ans:
                    res[i]['dis'] = {'what': f'tag sequence ({what} qubit {qb["id"]})', 'implementation': canon_circ(qb),
                                     'model': ans}
                    break
    return res


def shrink(c, still_fails):
    cur = dict(c)
    changed = True
    while changed:
        changed = False
        cands = []
        if cur['d'] > 2:
            cands.append({**cur, 'd': cur['d'] - 1, 'data_state': cur['data_state'][:-1],
                          'anc_state': None if cur['anc_state'] is None else cur['anc_state'][:-1]})
        for i in range(len(cur['rounds'])):
            if len(cur['rounds']) > 1:
                cands.append({**cur, 'rounds': cur['rounds'][:i] + cur['rounds'][i + 1:]})
        for i, r in enumerate(cur['rounds']):
            for r2 in (0, 1, r - 1):
                if 0 <= r2 < r and r2 not in cur['rounds']:
                    cands.append({**cur, 'rounds': cur['rounds'][:i] + [r2] + cur['rounds'][i + 1:]})
        if any(cur['data_state']) or cur['anc_state'] is not None:
            cands.append({**cur, 'data_state': [0] * cur['d'], 'anc_state': None})
        for cand in cands:
            try:
                if still_fails(cand):
                    cur, changed = cand, True
                    break
            except Exception:
                continue
    return cur


def python_snippet(c):
    return ("from qce_circuit.library.repetition_code.circuit_constructors import construct_repetition_code_multi_round_circuit as mk; "
            "from qce_circuit.library.repetition_code.circuit_components import RepetitionCodeDescription as D; "
            "from qce_circuit.language import InitialStateContainer as S, InitialStateEnum as E; "
            "from qce_circuit.structure.intrf_acquisition_operation import AcquisitionTag as T; "
            f"s = S.from_ordered_list([E.ONE if b else E.ZERO for b in {c['data_state']}]); d = D.from_initial_state(s); "
            f"c = mk({c['rounds']}, d, s); print([c.get_acquisition_indices(T(1, t)) for t in ('heralded', 'parity', 'final')])")


def load_corpus():
    d = common.CORPUS / PROP
    out = []
    if d.exists():
        for f in sorted(d.glob('*.json')):
            try:
                cc = json.loads(f.read_text())['case']
                out.append({'d': cc['d'], 'rounds': cc['rounds'], 'data_state': cc['data_state'],
                            'anc_state': cc.get('anc_state'), 'kind': cc.get('kind', 'valid')})
            except Exception:
                common.log(f'corpus file unreadable: {f}')
    return out


def run(tier: str, seed: int) -> int:
    t0 = time.time()
    oc = common.Outcome(PROP)
    lean = common.proof_obligations(PROP)
    proof_ok = lean['build_ok'] and not lean['failed']
    if not common.driver_available():
        print(f'model driver missing: {lean.get("build_output", "")[-800:]}')
        return 2
    rng = common.rng_for(seed, PROP)
    corpus = load_corpus()
    cases = corpus + make_cases(tier, rng)
    t1 = time.time()
    results = evaluate(cases)
    t_eval = time.time() - t1

    reported = set()
    n_dis = 0
    fail_counter = Counter()
    exc_counter = Counter()

    def still_fails(what):
        def f(cand):
            return any(x['what'] == what for x in _work(cand)['fails'])
        return f

    def still_disagrees(cand):
        return evaluate([cand])[0]['dis'] is not None

    for r in results:
        if r['exc'] is not None:
            exc_counter[r['exc'].split(':')[0]] += 1
            if 'exc' not in reported:
                reported.add('exc')
                oc.violation({'property': PROP, 'kind': 'predicate-fails-on-implementation',
                              'failure': {'what': 'constructor-raises', 'detail': r['exc']}, 'case': r['case'],
                              'python': python_snippet(r['case'])})
            continue
        for fl in r['fails']:
            fail_counter[fl['what']] += 1
            if fl['what'] in reported:
                continue
            reported.add(fl['what'])
            small = shrink(r['case'], still_fails(fl['what']))
            rr = evaluate([small])[0]
            flr = next((x for x in rr['fails'] if x['what'] == fl['what']), fl)
            oc.violation({'property': PROP, 'kind': 'predicate-fails-on-implementation', 'failure': flr, 'case': small,
                          'implementation_answers': rr['obs'], 'model_answers': rr['model'],
                          'python': python_snippet(small), 'replay': './check replay <this file>'})
        if r['dis'] is not None:
            n_dis += 1
            if 'dis' in reported or r['fails']:
                continue
            reported.add('dis')
            small = shrink(r['case'], still_disagrees)
            rr = evaluate([small])[0]
            oc.violation({'property': PROP, 'kind': 'correspondence-broken',
                          'unchecked': 'correspondence Lean tag-sequence / kernel model <-> real circuit / real kernel',
                          'case': small, 'first_difference': rr['dis'], 'implementation_answers': rr['obs'],
                          'model_answers': rr['model'], 'predicate_failures': rr['fails'],
                          'python': python_snippet(small)}, found_input=bool(rr['fails']))
    if not proof_ok and not oc.violations:
        oc.violation({'property': PROP, 'kind': 'proof-obligation-broken', 'unchecked': lean.get('failed'),
                      'build_output': lean.get('build_output', '')[-3000:], 'axioms': lean.get('axioms')},
                     found_input=False)

    # ------------------------------------------------------------------ evidence
    wall = time.time() - t0
    ok = [r for r in results if r['obs'] is not None]
    per_d = {}
    for r in ok:
        per_d.setdefault(r['case']['d'], []).append(r['obs']['build_s'])
    timing = {str(d): {'circuits': len(v), 'mean_build_s': round(sum(v) / len(v), 3), 'max_build_s': round(max(v), 3)}
              for d, v in sorted(per_d.items())}
    anc_cases = sum(sum(1 for q in r['obs']['qubits'] if q['role'] == 'anc') for r in ok)
    data_agree = data_total = 0
    for r in ok:   # informational: data qubits (outside the property) agree with the kernel only while all rounds <= 1
        for q in r['obs']['qubits']:
            if q['role'] == 'data' and len(set(r['case']['rounds'])) == len(r['case']['rounds']):
                data_total += 1
                proj = sorted(x for rr in r['case']['rounds'] for x in q['kernel']['proj'][str(rr)][0])
                cal = [x for s in q['kernel']['pcal'] for x in s]
                data_agree += int(sorted(proj + cal) == q['circuit']['final'])
    key = lambda c: json.dumps([c['d'], c['rounds'], c['data_state'], c['anc_state']])
    distinct = {key(c) for c in cases}
    nontrivial = {key(c) for c in cases if len(c['rounds']) >= 2}
    coverage = {}
    if lean['obligations']:
        coverage.update({'obligations': lean['obligations'], 'discharged': lean['discharged']})
    sample = next((r for r in ok if r['case']['rounds'] == [0, 3] and r['case']['d'] == 2), ok[0] if ok else None)
    coverage.update({
        'checker_cmd': lean['checker_cmd'],
        'trusted_base': common.TRUSTED_BASE + [
            'the builder (DeclarativeCircuit.add / apply_modifiers / flatten / acquisition registry) is exercised, not '
            'modelled here: the Lean tag sequence is compared with what the real constructor produces'],
        'theorems': lean.get('theorems', []),
        'axioms': lean.get('axioms', {}),
        'evaluations': len(results),
        'distinct_nontrivial': len(nontrivial),
        'distinct_cases': len(distinct),
        'ancilla_cases': anc_cases,
        'rule': 'cases = (code distance d = number of data qubits, rounds list, computational initial state). All 85 '
                'lists of <= 3 distinct rounds over {0..4} x d in {2,3} (thorough: also d in {4,5} on the 25 lists of <= 2 entries and '
                'a seeded sample of 3-entry lists) x initial states (all-0, all-1, '
                'alternating, one random with ancilla states; thorough: all 2^d for d <= 3 plus random ones), some longer '
                'lists with round counts up to 8, two lists with repeated rounds (outside the quantifier). Per case the '
                'real circuit is built, every qubit x tag is read, and compared with (a) the real kernel getters by the '
                'C13 predicates, (b) the Lean tag-sequence model, (c) the Lean kernel model. non-trivial = >= 2 rounds '
                'entries (relative offsets matter); distinct = distinct (d, rounds, state).',
        'samples': [r['case'] for r in ok[:2]] + ([{'case': sample['case'], 'qubits': sample['obs']['qubits'][:2]}] if sample else []),
        'traces_validated_against_impl': len(ok) - n_dis,
        'disagreements': n_dis,
        'predicate_failures': dict(fail_counter),
        'constructor_exceptions': dict(exc_counter),
        'circuit_construction_timing': timing,
        'evaluate_wall_s': round(t_eval, 1),
        'data_qubit_kernel_vs_circuit': {'agree': data_agree, 'of': data_total,
                                         'note': 'informational, outside the property: a data qubit is measured twice per '
                                                 'entry in the circuit; the kernel places its final index after r slots'},
        'corpus_cases': len(corpus),
        'input_distribution': {'d': dict(Counter(c['d'] for c in cases)), 'kind': dict(Counter(c['kind'] for c in cases)),
                               'rounds_length': dict(Counter(len(c['rounds']) for c in cases)),
                               'with_zero_round_entry': sum(1 for c in cases if 0 in c['rounds']),
                               'with_ancilla_state': sum(1 for c in cases if c['anc_state'] is not None)},
        'known_findings_printed': oc.known,
        'lean': {k: lean.get(k) for k in ('build_ok', 'build_s', 'lean_s', 'failed', 'forbidden_hits', 'translator')},
    })
    common.write_evidence(PROP, tier, seed, coverage, wall, len(oc.violations), [
        'the circuit always heralds and always calibrates the three qutrit states: the kernel is taken with '
        'heralded_initialization=True, qutrit_calibration_points=True, experiment_repetitions=1',
        'the per-ancilla tag sequence is a hand-written Lean model of the constructor, validated against the real circuits '
        'of this run (not derived from the heap model of the builder)',
        'code distance d = number of data qubits of RepetitionCodeDescription.from_initial_state (chain of 2d-1 qubits)'])
    return oc.emit()
