import QcoVerif.Lemmas.C10Timing
/-
  Helper lemmas for C10: `pickLatest`, the reference of a multi link, one relation step.
-/
namespace Qco.C10

open Qco

/-! ### `pickLatest` -/

theorem pickLatest_ge_best (best : Nat × Int) (xs : List (Nat × Int)) : best.2 ≤ (pickLatest best xs).2 := by
  unfold pickLatest
  induction xs generalizing best with
  | nil => exact Int.le_refl _
  | cons x xs ih =>
    simp only [List.foldl_cons]
    by_cases h : x.2 > best.2
    · rw [if_pos h]; exact Int.le_trans (Int.le_of_lt h) (ih x)
    · rw [if_neg h]; exact ih best

theorem pickLatest_ge_mem (best : Nat × Int) (xs : List (Nat × Int)) :
    ∀ x ∈ xs, x.2 ≤ (pickLatest best xs).2 := by
  induction xs generalizing best with
  | nil => intro x hx; cases hx
  | cons y ys ih =>
    intro x hx
    have hstep : pickLatest best (y :: ys) = pickLatest (if y.2 > best.2 then y else best) ys := by
      simp [pickLatest]
    rw [hstep]
    cases hx with
    | head =>
      by_cases h : y.2 > best.2
      · rw [if_pos h]; exact pickLatest_ge_best y ys
      · rw [if_neg h]; exact Int.le_trans (Int.not_lt.mp h) (pickLatest_ge_best best ys)
    | tail _ hx' => exact ih _ x hx'

theorem pickLatest_mem (best : Nat × Int) (xs : List (Nat × Int)) :
    pickLatest best xs = best ∨ pickLatest best xs ∈ xs := by
  induction xs generalizing best with
  | nil => exact Or.inl rfl
  | cons y ys ih =>
    have hstep : pickLatest best (y :: ys) = pickLatest (if y.2 > best.2 then y else best) ys := by
      simp [pickLatest]
    rw [hstep]
    by_cases h : y.2 > best.2
    · rw [if_pos h]
      rcases ih y with h1 | h1
      · rw [h1]; exact Or.inr List.mem_cons_self
      · exact Or.inr (List.mem_cons_of_mem _ h1)
    · rw [if_neg h]
      rcases ih best with h1 | h1
      · exact Or.inl h1
      · exact Or.inr (List.mem_cons_of_mem _ h1)

/-! ### reference of a multi link -/

/-- The reference chosen by a multi link ends no earlier than any of the link's references. -/
theorem RefV.multi {w : World} {l : Nat} {r : Option Nat} (h : RefV w l r)
    (hm : (w.lnk l).multi = true) (hne : (w.lnk l).refs ≠ []) :
    ∃ r' e', r = some r' ∧ End w r' e' ∧ ∀ x ∈ (w.lnk l).refs, ∃ e, End w x e ∧ e ≤ e' := by
  obtain ⟨f, hf⟩ := h
  cases f with
  | zero => rw [evRef.eq_1] at hf; cases hf
  | succ f =>
    rw [evRef.eq_2, hm] at hf
    simp only [Bool.not_true, Bool.false_eq_true, if_false] at hf
    cases hr : (w.lnk l).refs with
    | nil => exact absurd hr hne
    | cons r0 rs =>
      rw [hr] at hf
      simp only at hf
      cases h1 : (r0 :: rs).mapM (fun r => (evEnd w f r).map (fun e => (r, e))) with
      | none => rw [h1] at hf; cases hf
      | some es =>
        rw [h1] at hf
        cases h2 : evEnd w f r0 with
        | none => rw [h2] at hf; cases hf
        | some e0 =>
          rw [h2] at hf
          simp only [Option.bind_eq_bind, Option.bind_some, Option.some.injEq] at hf
          -- every pair of `es` is (reference, its end)
          have hes : ∀ p ∈ es, p.1 ∈ (r0 :: rs) ∧ evEnd w f p.1 = some p.2 := by
            intro p hp
            obtain ⟨x, hx, hfx⟩ := mapM_mem_right _ _ es h1 p hp
            cases hx' : evEnd w f x with
            | none => rw [hx'] at hfx; cases hfx
            | some e =>
              rw [hx'] at hfx
              simp only [Option.map_some, Option.some.injEq] at hfx
              subst hfx
              exact ⟨hx, hx'⟩
          have hbest : evEnd w f (pickLatest (r0, e0) es).1 = some (pickLatest (r0, e0) es).2 := by
            rcases pickLatest_mem (r0, e0) es with hb | hb
            · rw [hb]; exact h2
            · exact (hes _ hb).2
          refine ⟨(pickLatest (r0, e0) es).1, (pickLatest (r0, e0) es).2, hf.symm, ⟨f, hbest⟩, ?_⟩
          intro x hx
          obtain ⟨p, hp, hfx⟩ := mapM_mem_left _ _ es h1 x hx
          cases hx' : evEnd w f x with
          | none => rw [hx'] at hfx; cases hfx
          | some e =>
            rw [hx'] at hfx
            simp only [Option.map_some, Option.some.injEq] at hfx
            subst hfx
            exact ⟨e, ⟨f, hx'⟩, pickLatest_ge_mem (r0, e0) es _ hp⟩

/-! ### one relation step -/

/-- `b`'s link is a single (non-multi) link of type `rel` whose reference is `a`. -/
def DirectRel (w : World) (rel : Rel) (a b : Nat) : Prop :=
  (w.lnk (w.op b).link).multi = false ∧ (w.lnk (w.op b).link).refs.head? = some a ∧
  (w.lnk (w.op b).link).rel = rel

/-- `b` is FOLLOWED_BY-linked to `a`: through a single link, or through a multi link (as created by
    `extend` when repetitions are unrolled) that lists `a` among its references. -/
def FbStep (w : World) (a b : Nat) : Prop :=
  (w.lnk (w.op b).link).rel = .fb ∧
  (((w.lnk (w.op b).link).multi = false ∧ (w.lnk (w.op b).link).refs.head? = some a) ∨
   ((w.lnk (w.op b).link).multi = true ∧ a ∈ (w.lnk (w.op b).link).refs))

theorem DirectRel.fbStep {w a b} (h : DirectRel w .fb a b) : FbStep w a b :=
  ⟨h.2.2, Or.inl ⟨h.1, h.2.1⟩⟩

/-- the start of an operation with a single link, in terms of its reference. -/
theorem start_of_direct {w : World} {rel : Rel} {a b : Nat} (h : DirectRel w rel a b) {sb : Int}
    (hb : Start w b sb) :
    ∃ sa ea d, Start w a sa ∧ End w a ea ∧ DurV w b d ∧ sb = linkStart rel (some (sa, ea)) d := by
  obtain ⟨d, r, hd, hr, hcase⟩ := hb.decompose
  have hr' := hr.single h.1
  rw [h.2.1] at hr'
  rcases hcase with ⟨hnone, _⟩ | ⟨r', sr, er, hsome, hs, he, heq⟩
  · rw [hnone] at hr'; cases hr'
  · rw [hsome] at hr'
    cases hr'
    exact ⟨sr, er, d, hs, he, hd, by rw [heq, h.2.2]⟩

/-- one FOLLOWED_BY step: the predecessor has ended when the successor starts. -/
theorem fbStep_end_le_start {w : World} {a b : Nat} (h : FbStep w a b) {sb : Int} (hb : Start w b sb) :
    ∃ ea, End w a ea ∧ ea ≤ sb := by
  obtain ⟨hrel, hkind⟩ := h
  rcases hkind with ⟨hs, hhead⟩ | ⟨hm, hmem⟩
  · obtain ⟨sa, ea, d, _, hea, _, heq⟩ := start_of_direct (rel := .fb) ⟨hs, hhead, hrel⟩ hb
    exact ⟨ea, hea, by rw [heq]; exact Int.le_refl _⟩
  · obtain ⟨d, r, _, hr, hcase⟩ := hb.decompose
    obtain ⟨r', e', hr', he', hall⟩ := hr.multi hm (List.ne_nil_of_mem hmem)
    rcases hcase with ⟨hnone, _⟩ | ⟨r'', sr, er, hsome, _, he, heq⟩
    · rw [hnone] at hr'; cases hr'
    · rw [hsome] at hr'
      cases hr'
      have : er = e' := he.unique he'
      obtain ⟨e, hea, hle⟩ := hall a hmem
      refine ⟨e, hea, ?_⟩
      rw [heq, hrel]
      simp only [linkStart]
      omega

theorem IntervalV.of_start_leadSpan {w o s l d} (hs : Start w o s) (hl : LeadSpanV w o (l, d)) :
    IntervalV w o (s - l, s - l + d) := by
  obtain ⟨f, hf⟩ := hs; obtain ⟨g, hg⟩ := hl
  refine ⟨max f g + 1, ?_⟩
  rw [evInterval.eq_2, (ev_mono_le w (Nat.le_max_left f g)).2.2.2.1 o s hf,
      (ev_mono_le w (Nat.le_max_right f g)).1 o (l, d) hg]
  rfl

end Qco.C10
