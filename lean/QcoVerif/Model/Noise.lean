/-
  Noise dressing (C14): `apply_noise` of `addon_stim/noise_factory_manager.py`, i.e.
  `StimNoiseDresserFactoryManager.construct` (intrf_noise_factory.py) with the default factories
  `{'M': MeasurementNoiseDresserFactory('MZ')}` and `[PauliAdditiveCircuitNoiseFactory('PAULI_CHANNEL_1')]`,
  over `IndexedNoiseSettings` (noise_settings_manager.py).  Core Lean only — NO Mathlib, NO Float.

  What is modelled, in the order the manager does it:
    0. the input is `circuit.flattened()` (Stim's own REPEAT unrolling / SHIFT_COORDS folding is trusted, the
       harness sends the flattened instruction list; instructions may still carry fused targets);
    1. every instruction named `M` is replaced by one `M(assignment_error(q)) q` per target `q`
       (`MeasurementNoiseDresserFactory.construct`; Stim reports the `MZ` it is given under the name `M`);
    2. `PauliAdditiveCircuitNoiseFactory.construct` on the result: `qubit_targets = sorted(set(all targets))`
       (parsed from the text of every instruction except DETECTOR / OBSERVABLE_INCLUDE / SHIFT_COORDS);
       the list is cut into TICK-terminated blocks plus the trailing (possibly empty) one; for each block
       `max_duration = max(duration(name) …, default=0)`; then for each target IN ASCENDING ORDER
       `instructions = [noise(q), *instructions, noise(q)]`, `noise(q) = PAULI_CHANNEL_1(get_pauli_error(
       t = max_duration/2, T1(q), T2(q))) q`.
  `stim.Circuit.append` fuses neighbouring instructions with equal name and arguments; the comparison is made
  after splitting fused targets (`splitTargets`), which makes fusion invisible.

  The code parses targets with `int(token)` over `str(instruction).split()[1:]`; it raises `ValueError` on a
  record / inverted / Pauli target and on an instruction with two or more arguments (the text `(a, b)` contains a
  blank) outside the three annotation names.  `dress` answers `none` there (`Instr.parseable`).

  Probabilities are symbolic: the argument of a noise instruction is `Arg.pauli axis d t1 t2` = the `axis`
  component of `get_pauli_error(t = d/2, t1, t2)`; the harness evaluates the formula in Python, the real-valued
  statements are in `Lemmas/PauliError.lean`.
-/
namespace Qco.Noise

/-- an exact rational `num/den` as sent by the harness (`den > 0`, not normalised by the model). -/
structure Q where
  num : Int
  den : Nat
  deriving DecidableEq, Repr, Inhabited

inductive Target
  | q (n : Nat)          -- plain qubit target
  | mrec (k : Int)       -- `rec[k]`
  | other (tag : Nat)    -- inverted / Pauli / sweep target: anything `int()` does not parse
  deriving DecidableEq, Repr, Inhabited

inductive Axis | x | y | z
  deriving DecidableEq, Repr, Inhabited

inductive Arg
  | lit (v : Q)                                  -- an argument of the input circuit (coordinates, observable index)
  | assign (v : Q)                               -- measurement: the configured assignment error
  | pauli (a : Axis) (d : Int) (t1 t2 : Q)       -- component `a` of get_pauli_error(t = d/2, t1, t2)
  deriving DecidableEq, Repr, Inhabited

structure Instr where
  name : String
  targets : List Target := []
  args : List Arg := []
  deriving DecidableEq, Repr, Inhabited

/-! ### settings -/

/-- `QubitNoiseModelParameters` (the fields the dressing reads). -/
structure QNoise where
  t1 : Q
  t2 : Q
  assign : Q
  deriving DecidableEq, Repr, Inhabited

/-- `OperationDurationParameters`. -/
structure DurParams where
  mz : Int
  cz : Int
  h : Int
  x : Int
  deriving DecidableEq, Repr, Inhabited

/-- `OperationDurationParameters.duration_mapper` (with the committed repair: `M` answers like `MZ`).
    The harness compares this table with the live property on every run. -/
def DurParams.table (p : DurParams) : List (String × Int) :=
  [("MZ", p.mz), ("M", p.mz), ("CZ", p.cz), ("H", p.h), ("X", p.x)]

/-- `IndexedNoiseSettings`: `NoiseSettings` (defaults, `individual_noise` keyed by qubit id,
    `operation_durations`) plus `qubit_index_lookup`. Dictionaries are association lists, first key wins
    (the harness sends each key once). -/
structure Settings where
  default : QNoise
  individual : List (String × QNoise) := []
  indexMap : List (Nat × String) := []
  durations : DurParams
  deriving Repr, Inhabited

/-- `IndexedNoiseSettings.get_noise_settings(index)`. -/
def Settings.noiseOf (s : Settings) (q : Nat) : QNoise :=
  match s.indexMap.lookup q with
  | some id => (s.individual.lookup id).getD s.default
  | none => s.default

/-- `IndexedNoiseSettings.get_operation_duration(identifier)`; `default_duration = 0.0`. -/
def Settings.duration (s : Settings) (name : String) : Int :=
  (s.durations.table.lookup name).getD 0

/-! ### instructions -/

/-- the names `extract_instruction_targets` answers `[]` for without looking at the text. -/
def isAnnotation (n : String) : Bool := n == "DETECTOR" || n == "OBSERVABLE_INCLUDE" || n == "SHIFT_COORDS"

def Target.isQ : Target → Bool
  | .q _ => true
  | _ => false

def Target.q? : Target → Option Nat
  | .q n => some n
  | _ => none

/-- `[int(t) for t in str(instruction).split()[1:]]` succeeds. -/
def Instr.parseable (i : Instr) : Bool :=
  isAnnotation i.name || (i.targets.all Target.isQ && i.args.length ≤ 1)

/-- `extract_instruction_targets`. -/
def Instr.qubits (i : Instr) : List Nat :=
  if isAnnotation i.name then [] else i.targets.filterMap Target.q?

/-- number of targets one application of the gate takes (0 = never split: annotations, TICK, unknown names). -/
def arity (n : String) : Nat :=
  if n ∈ ["CZ", "CX", "CY", "CNOT", "SWAP", "ISWAP", "XCX", "XCY", "XCZ", "YCX", "YCY", "YCZ", "ZCX", "ZCY", "ZCZ",
          "SQRT_XX", "SQRT_YY", "SQRT_ZZ", "DEPOLARIZE2", "PAULI_CHANNEL_2"] then 2
  else if n ∈ ["TICK", "DETECTOR", "OBSERVABLE_INCLUDE", "SHIFT_COORDS", "QUBIT_COORDS", "MPP", "REPEAT",
               "E", "CORRELATED_ERROR", "ELSE_CORRELATED_ERROR"] then 0
  else 1

def pairUp {α} : List α → List (List α)
  | a :: b :: rest => [a, b] :: pairUp rest
  | [a] => [[a]]
  | [] => []

/-- un-fuse: one instruction per application. -/
def splitTargets (i : Instr) : List Instr :=
  match arity i.name with
  | 0 => [i]
  | 1 => i.targets.map (fun t => { i with targets := [t] })
  | _ => (pairUp i.targets).map (fun ts => { i with targets := ts })

/-- the flattened, un-fused circuit. -/
def flatten (c : List Instr) : List Instr := c.flatMap splitTargets

/-- Stim's noise channels (`without_noise()` removes them). -/
def isNoise (n : String) : Bool :=
  n ∈ ["PAULI_CHANNEL_1", "PAULI_CHANNEL_2", "DEPOLARIZE1", "DEPOLARIZE2", "X_ERROR", "Y_ERROR", "Z_ERROR",
       "E", "CORRELATED_ERROR", "ELSE_CORRELATED_ERROR", "HERALDED_ERASE", "HERALDED_PAULI_CHANNEL_1"]

def isMeasure (n : String) : Bool := n == "M"

/-- remove noise instructions and measurement arguments. -/
def stripInstr (i : Instr) : Option Instr :=
  if isNoise i.name then none
  else if isMeasure i.name then some { i with args := [] }
  else some i

def strip (c : List Instr) : List Instr := c.filterMap stripInstr

/-! ### step 1: measurement noise -/

def measInstr (s : Settings) (q : Nat) : Instr :=
  { name := "M", targets := [.q q], args := [.assign (s.noiseOf q).assign] }

def measDressInstr (s : Settings) (i : Instr) : List Instr :=
  if isMeasure i.name then i.qubits.map (measInstr s) else [i]

def measDress (s : Settings) (c : List Instr) : List Instr := c.flatMap (measDressInstr s)

/-! ### step 2: idle noise around TICK-delimited blocks -/

def isTick (i : Instr) : Bool := i.name == "TICK"

/-- `split_instruction_blocks`: maximal TICK-terminated segments, then the trailing (possibly empty) one. -/
def splitBlocks : List Instr → List (List Instr)
  | [] => [[]]
  | i :: rest =>
    if isTick i then [i] :: splitBlocks rest
    else match splitBlocks rest with
      | b :: bs => (i :: b) :: bs
      | [] => [[i]]

/-- the loop as written (an accumulator `sub_set`), kept to show it is the same function. -/
def splitBlocksLoop (cur : List Instr) : List Instr → List (List Instr)
  | [] => [cur]
  | i :: rest =>
    if isTick i then (cur ++ [i]) :: splitBlocksLoop [] rest
    else splitBlocksLoop (cur ++ [i]) rest

/-- Python's `max(xs, default=0)`. -/
def maxDefault : List Int → Int
  | [] => 0
  | x :: xs => xs.foldl max x

def blockDuration (s : Settings) (b : List Instr) : Int :=
  maxDefault (b.map (fun i => s.duration i.name))

def insertNat (x : Nat) : List Nat → List Nat
  | [] => [x]
  | y :: ys => if x < y then x :: y :: ys else if x = y then y :: ys else y :: insertNat x ys

/-- `sorted(set(xs))`. -/
def sortDedup (l : List Nat) : List Nat := l.foldr insertNat []

/-- `extract_all_targets`. -/
def allTargets (c : List Instr) : List Nat := sortDedup (c.flatMap Instr.qubits)

/-- the idle-noise instruction of qubit `q` for a block of duration `d`. -/
def noiseInstr (s : Settings) (d : Int) (q : Nat) : Instr :=
  let n := s.noiseOf q
  { name := "PAULI_CHANNEL_1", targets := [.q q],
    args := [.pauli .x d n.t1 n.t2, .pauli .y d n.t1 n.t2, .pauli .z d n.t1 n.t2] }

/-- `for q in qubit_targets: instructions = [noise(q), *instructions, noise(q)]`. -/
def wrapBlock (noise : Nat → Instr) (targets : List Nat) (b : List Instr) : List Instr :=
  targets.foldl (fun acc q => [noise q] ++ acc ++ [noise q]) b

def idleDress (s : Settings) (m : List Instr) : List Instr :=
  (splitBlocks m).flatMap (fun b => wrapBlock (noiseInstr s (blockDuration s b)) (allTargets m) b)

/-- `apply_noise`: `none` where the code raises `ValueError` while parsing targets. -/
def dress (s : Settings) (c : List Instr) : Option (List Instr) :=
  if c.all Instr.parseable then some (idleDress s (measDress s c)) else none

end Qco.Noise
