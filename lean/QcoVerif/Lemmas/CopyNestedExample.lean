import QcoVerif.Lemmas.CopyNested
import QcoVerif.Lemmas.CopyGraphExample
/-
  Non-vacuity of the hypotheses of the nested copy theorem (`NestedOk`): a circuit `c` holding a leaf `a`, a sub-circuit `s`
  (two leaves `x`, `y`), a measurement `d` with an explicit JOINED_START relation to `a` and a two-qubit gate `b` that `add`
  links behind the sub-circuit — built by the model's own `newCircuit / newLink / newOp / add`, real semantics
  (`identKeys = false`).  Evaluated step by step as in CopyGraphExample.lean.  Core Lean only.
-/
namespace Qco

/-- channel identifiers of a sub-circuit whose nodes are leaf operations. -/
theorem chansOf_flatcomp (w : World) (o : Nat) (hc : (w.op o).isComp = true)
    (hleaf : ∀ n ∈ listing (w.op o).graph, (w.op n).isComp = false) :
    w.chansOf o = dedupChans ((listing (w.op o).graph).flatMap (fun n => (w.op n).leafChans)) := by
  show w.chans (w.ops.size + 1 + 1) o = _
  rw [World.chans]
  simp only [hc, if_true]
  congr 1
  apply flatMap_congr'
  intro n hn
  rw [World.chans]
  simp only [hleaf n hn, Bool.false_eq_true, if_false]

def nxC : Op := { cls := .comp }
def nxS : Op := { cls := .comp, rep := .fixed 2 }
def nxX : Op := { cls := .rx180, qs := [0], dur := .glob .mw, link := 1 }
def nxA : Op := { cls := .rx90, qs := [1], dur := .glob .mw, link := 4 }
def nxD : Op := { cls := .measure, qs := [1], dur := .glob .ro, link := 5 }
def nxSg : List Entry := [⟨2, none, [0]⟩, ⟨3, some 2, [0, 0]⟩]
def nxL5 : Link := { refs := [4], rel := .js }

/-- `c = DeclarativeCircuit(); s = DeclarativeCircuit(repetitions 2); x = Rx180(0); s.add(x)`. -/
def nxBuild1 : World :=
  let w0 : World := {}
  let (w, _) := w0.newCircuit (.fixed 1)
  let (w, s) := w.newCircuit (.fixed 2)
  let (w, l1) := w.newLink {}
  let (w, x) := w.newOp { cls := .rx180, qs := [0], dur := .glob .mw, link := l1 }
  w.add s x

/-- `y = Ry90(0); s.add(y)` — linked FOLLOWED_BY behind `x` by `add`. -/
def nxBuild2 : World :=
  let w := nxBuild1
  let (w, l2) := w.newLink {}
  let (w, y) := w.newOp { cls := .ry90, qs := [0], dur := .glob .mw, link := l2 }
  w.add 1 y

/-- `a = Rx90(1); c.add(a)`. -/
def nxBuild3 : World :=
  let w := nxBuild2
  let (w, l3) := w.newLink {}
  let (w, a) := w.newOp { cls := .rx90, qs := [1], dur := .glob .mw, link := l3 }
  w.add 0 a

/-- `c.add(s)` — the sub-circuit object itself becomes a node of `c` (no shared channel with `a`: depth 1). -/
def nxBuild4 : World := nxBuild3.add 0 1

/-- `d = DispersiveMeasure(1, relation=RelationLink(a, JOINED_START)); c.add(d)`. -/
def nxBuild5 : World :=
  let w := nxBuild4
  let (w, l4) := w.newLink { refs := [4], rel := .js }
  let (w, d) := w.newOp { cls := .measure, qs := [1], dur := .glob .ro, link := l4 }
  w.add 0 d

/-- `b = CPhase(0, 1); c.add(b)` — linked FOLLOWED_BY behind the sub-circuit `s` (last node sharing a channel). -/
def nxWorld : World :=
  let w := nxBuild5
  let (w, l5) := w.newLink {}
  let (w, b) := w.newOp { cls := .cphase, qs := [0, 1], dur := .glob .fl, link := l5 }
  w.add 0 b

def nxS1 : World := { ops := #[nxC, nxS, nxX], links := #[{}, {}] }
def nxS1' : World := { ops := #[nxC, { nxS with graph := [⟨2, none, [0]⟩] }, nxX], links := #[{}, {}] }
def nxS2 : World :=
  { ops := #[nxC, { nxS with graph := [⟨2, none, [0]⟩] }, nxX, { cls := .ry90, qs := [0], dur := .glob .mw, link := 2 }],
    links := #[{}, {}, {}] }
def nxY : Op := { cls := .ry90, qs := [0], dur := .glob .mw, link := 3 }
def nxS2' : World :=
  { ops := #[nxC, { nxS with graph := nxSg }, nxX, nxY], links := #[{}, {}, {}, { refs := [2] }] }
def nxS3 : World :=
  { ops := #[nxC, { nxS with graph := nxSg }, nxX, nxY, nxA], links := #[{}, {}, {}, { refs := [2] }, {}] }
def nxS3' : World :=
  { ops := #[{ nxC with graph := [⟨4, none, [0]⟩] }, { nxS with graph := nxSg }, nxX, nxY, nxA],
    links := #[{}, {}, {}, { refs := [2] }, {}] }
def nxS4' : World :=
  { ops := #[{ nxC with graph := [⟨4, none, [0]⟩, ⟨1, none, [1]⟩] }, { nxS with graph := nxSg }, nxX, nxY, nxA],
    links := #[{}, {}, {}, { refs := [2] }, {}] }
def nxS5 : World :=
  { ops := #[{ nxC with graph := [⟨4, none, [0]⟩, ⟨1, none, [1]⟩] }, { nxS with graph := nxSg }, nxX, nxY, nxA, nxD],
    links := #[{}, {}, {}, { refs := [2] }, {}, nxL5] }
def nxS5' : World :=
  { ops := #[{ nxC with graph := [⟨4, none, [0]⟩, ⟨1, none, [1]⟩, ⟨5, some 4, [0, 0]⟩] }, { nxS with graph := nxSg },
             nxX, nxY, nxA, nxD],
    links := #[{}, {}, {}, { refs := [2] }, {}, nxL5] }
def nxS6 : World :=
  { ops := #[{ nxC with graph := [⟨4, none, [0]⟩, ⟨1, none, [1]⟩, ⟨5, some 4, [0, 0]⟩] }, { nxS with graph := nxSg },
             nxX, nxY, nxA, nxD, { cls := .cphase, qs := [0, 1], dur := .glob .fl, link := 6 }],
    links := #[{}, {}, {}, { refs := [2] }, {}, nxL5, {}] }
def nxCg : List Entry := [⟨4, none, [0]⟩, ⟨1, none, [1]⟩, ⟨5, some 4, [0, 0]⟩, ⟨6, some 1, [1, 0]⟩]
/-- the heap the build program produces. -/
def nxLit : World :=
  { ops := #[{ nxC with graph := nxCg }, { nxS with graph := nxSg }, nxX, nxY, nxA, nxD,
             { cls := .cphase, qs := [0, 1], dur := .glob .fl, link := 7 }],
    links := #[{}, {}, {}, { refs := [2] }, {}, nxL5, {}, { refs := [1] }] }

theorem nxStep1 : nxS1.add 1 2 = nxS1' := by
  rw [add_root_eq nxS1 1 2 (by decide) (by
    unfold World.leafAtAny
    rw [listing_lit _ (by decide)]
    rfl)]
  rfl

theorem nxStep2 : nxS2.add 1 3 = nxS2' := by
  rw [add_relink_eq nxS2 1 3 2 (by decide) (by
    rw [chansOf_leaf nxS2 3 (by decide)]
    unfold World.leafAtAny
    rw [listing_lit _ (by decide)]
    simp [nxS2, nxS, nxX, World.op, chansOf_leaf, Op.isComp, Op.leafChans, ChId.matches])]
  rfl

theorem nxStep3 : nxS3.add 0 4 = nxS3' := by
  rw [add_root_eq nxS3 0 4 (by decide) (by
    unfold World.leafAtAny
    rw [listing_lit _ (by decide)]
    rfl)]
  rfl

theorem nxSg_listing : listing nxSg = [2, 3] := by rw [listing_lit _ (by decide)]; rfl

theorem nxStep4 : nxS3'.add 0 1 = nxS4' := by
  have hs : nxS3'.chansOf 1 = [⟨0, .mw⟩] := by
    rw [chansOf_flatcomp nxS3' 1 (by decide) (by
      show ∀ n ∈ listing nxSg, _
      rw [nxSg_listing]; decide)]
    show dedupChans ((listing nxSg).flatMap _) = _
    rw [nxSg_listing]; rfl
  rw [add_root_eq nxS3' 0 1 (by decide) (by
    rw [hs]
    unfold World.leafAtAny
    rw [listing_lit _ (by decide)]
    simp [nxS3', nxA, World.op, chansOf_leaf, Op.isComp, Op.leafChans, ChId.matches])]
  rfl

theorem nxStep5 : nxS5.add 0 5 = nxS5' := by
  rw [add_child_eq nxS5 0 5 4 (by decide) (by decide) (by decide) (by decide)]
  rfl

theorem nxStep6 : nxS6.add 0 6 = nxLit := by
  have hs : nxS6.chansOf 1 = [⟨0, .mw⟩] := by
    rw [chansOf_flatcomp nxS6 1 (by decide) (by
      show ∀ n ∈ listing nxSg, _
      rw [nxSg_listing]; decide)]
    show dedupChans ((listing nxSg).flatMap _) = _
    rw [nxSg_listing]; rfl
  have hl : listing (nxS6.op 0).graph = [4, 1, 5] := by rw [listing_lit _ (by decide)]; rfl
  have h5 : nxS6.chansOf 5 = [⟨1, .ro⟩] := by rw [chansOf_leaf nxS6 5 (by decide)]; rfl
  have h6 : nxS6.chansOf 6 = [⟨0, .fl⟩, ⟨0, .mw⟩, ⟨1, .fl⟩, ⟨1, .mw⟩] := by rw [chansOf_leaf nxS6 6 (by decide)]; rfl
  rw [add_relink_eq nxS6 0 6 1 (by decide) (by
    unfold World.leafAtAny
    rw [hl, h6]
    simp [h5, hs, ChId.matches])]
  rfl

theorem nxBuild1_eq : nxBuild1 = nxS1' := nxStep1
theorem nxBuild2_eq : nxBuild2 = nxS2' := by unfold nxBuild2; rw [nxBuild1_eq]; exact nxStep2
theorem nxBuild3_eq : nxBuild3 = nxS3' := by unfold nxBuild3; rw [nxBuild2_eq]; exact nxStep3
theorem nxBuild4_eq : nxBuild4 = nxS4' := by unfold nxBuild4; rw [nxBuild3_eq]; exact nxStep4
theorem nxBuild5_eq : nxBuild5 = nxS5' := by unfold nxBuild5; rw [nxBuild4_eq]; exact nxStep5
/-- the build program evaluates to the literal heap. -/
theorem nxWorld_eq : nxWorld = nxLit := by unfold nxWorld; rw [nxBuild5_eq]; exact nxStep6

theorem treeOk_leaf (w : World) (f n : Nat) (h1 : n < w.ops.size) (h2 : (w.op n).link < w.links.size)
    (h3 : (w.lnk (w.op n).link).multi = false) (h4 : (w.op n).isComp = false) : TreeOk w (f + 1) n := by
  unfold TreeOk
  exact ⟨h1, h2, h3, fun hc => by rw [h4] at hc; cases hc⟩

theorem nxLit_sub_tree : TreeOk nxLit 2 1 := by
  unfold TreeOk
  refine ⟨by decide, by decide, by decide, fun _ => ⟨?_, ?_, ?_, ?_, ?_⟩⟩
  · show Built (attach (attach [] none 2) (some 2) 3)
    apply built_attach
    · apply built_attach built_nil
      · intro q h; cases h
      · decide
    · intro q h; cases h; decide
    · decide
  · intro e he
    have he' : e ∈ [(⟨2, none, [0]⟩ : Entry), ⟨3, some 2, [0, 0]⟩] := he
    simp only [List.mem_cons, List.mem_nil_iff, or_false] at he'
    rcases he' with rfl | rfl
    · exact treeOk_leaf nxLit 0 2 (by decide) (by decide) (by decide) (by decide)
    · exact treeOk_leaf nxLit 0 3 (by decide) (by decide) (by decide) (by decide)
  · intro e he p hp
    have he' : e ∈ [(⟨2, none, [0]⟩ : Entry), ⟨3, some 2, [0, 0]⟩] := he
    simp only [List.mem_cons, List.mem_nil_iff, or_false] at he'
    rcases he' with rfl | rfl
    · cases hp
    · cases hp; decide
  · intro e he hp r hr
    have he' : e ∈ [(⟨2, none, [0]⟩ : Entry), ⟨3, some 2, [0, 0]⟩] := he
    simp only [List.mem_cons, List.mem_nil_iff, or_false] at he'
    rcases he' with rfl | rfl
    · have h0 : (nxLit.lnk (nxLit.op 2).link).refs.head? = none := by decide
      rw [h0] at hr; cases hr
    · cases hp
  · show RootsApart nxLit nxSg
    unfold RootsApart heads
    rw [sortedEntries_lit _ (by decide)]
    decide

theorem nxLit_chans1 : nxLit.chansOf 1 = [⟨0, .mw⟩] := by
  rw [chansOf_flatcomp nxLit 1 (by decide) (by
    show ∀ n ∈ listing nxSg, _
    rw [nxSg_listing]; decide)]
  show dedupChans ((listing nxSg).flatMap _) = _
  rw [nxSg_listing]; rfl

theorem nxLit_tree : TreeOk nxLit 3 0 := by
  unfold TreeOk
  refine ⟨by decide, by decide, by decide, fun _ => ⟨?_, ?_, ?_, ?_, ?_⟩⟩
  · show Built (attach (attach (attach (attach [] none 4) none 1) (some 4) 5) (some 1) 6)
    apply built_attach
    · apply built_attach
      · apply built_attach
        · apply built_attach built_nil
          · intro q h; cases h
          · decide
        · intro q h; cases h
        · decide
      · intro q h; cases h; decide
      · decide
    · intro q h; cases h; decide
    · decide
  · intro e he
    have he' : e ∈ [(⟨4, none, [0]⟩ : Entry), ⟨1, none, [1]⟩, ⟨5, some 4, [0, 0]⟩, ⟨6, some 1, [1, 0]⟩] := he
    simp only [List.mem_cons, List.mem_nil_iff, or_false] at he'
    rcases he' with rfl | rfl | rfl | rfl
    · exact treeOk_leaf nxLit 1 4 (by decide) (by decide) (by decide) (by decide)
    · exact nxLit_sub_tree
    · exact treeOk_leaf nxLit 1 5 (by decide) (by decide) (by decide) (by decide)
    · exact treeOk_leaf nxLit 1 6 (by decide) (by decide) (by decide) (by decide)
  · intro e he p hp
    have he' : e ∈ [(⟨4, none, [0]⟩ : Entry), ⟨1, none, [1]⟩, ⟨5, some 4, [0, 0]⟩, ⟨6, some 1, [1, 0]⟩] := he
    simp only [List.mem_cons, List.mem_nil_iff, or_false] at he'
    rcases he' with rfl | rfl | rfl | rfl
    · cases hp
    · cases hp
    · cases hp; decide
    · cases hp; decide
  · intro e he hp r hr
    have he' : e ∈ [(⟨4, none, [0]⟩ : Entry), ⟨1, none, [1]⟩, ⟨5, some 4, [0, 0]⟩, ⟨6, some 1, [1, 0]⟩] := he
    simp only [List.mem_cons, List.mem_nil_iff, or_false] at he'
    rcases he' with rfl | rfl | rfl | rfl
    · have h0 : (nxLit.lnk (nxLit.op 4).link).refs.head? = none := by decide
      rw [h0] at hr; cases hr
    · have h0 : (nxLit.lnk (nxLit.op 1).link).refs.head? = none := by decide
      rw [h0] at hr; cases hr
    · cases hp
    · cases hp
  · show RootsApart nxLit nxCg
    unfold RootsApart heads
    rw [sortedEntries_lit _ (by decide)]
    show [4, 1].Pairwise _
    rw [List.pairwise_cons]
    refine ⟨?_, by simp⟩
    intro y hy
    simp only [List.mem_cons, List.mem_nil_iff, or_false] at hy
    subst hy
    rw [nxLit_chans1, chansOf_leaf nxLit 4 (by decide)]
    decide

theorem nxLit_desc : nxLit.desc 3 0 = [4, 1, 2, 3, 5, 6] := by
  have hd1 : nxLit.desc 2 1 = [2, 3] := by
    rw [desc_comp nxLit 1 1 (by decide), sortedEntries_lit _ (by decide)]; rfl
  rw [desc_comp nxLit 2 0 (by decide), sortedEntries_lit _ (by decide)]
  show (nxCg.flatMap fun m => m.node :: nxLit.desc 2 m.node) = _
  simp only [nxCg, List.flatMap_cons, List.flatMap_nil, hd1]
  rfl

/-- **the hypotheses of the nested copy theorem hold for the example** (real semantics). -/
theorem nxLit_nestedOk : NestedOk nxLit 3 0 := by
  refine ⟨by decide, nxLit_tree, ?_⟩
  rw [nxLit_desc]
  decide

theorem nxWorld_nestedOk : NestedOk nxWorld 3 0 := by rw [nxWorld_eq]; exact nxLit_nestedOk

theorem nxWorld_real : nxWorld.identKeys = false := by rw [nxWorld_eq]; rfl

end Qco
