import QcoVerif.Properties.C02
import QcoVerif.Lemmas.FlattenIdem
/-
  C11 — flattening keeps the operations.

  About `World.flatten` (what the driver executes): the flattened graph lists exactly the operations of the
  (mutating) listing — same multiset, each once (`flatten_listing_perm`) —, every one of them is a leaf operation
  and adding them changes nothing but relation links, so no sub-circuit remains (`flatten_no_composite`), and kind,
  qubits, duration strategy, tag and fields of every object are untouched (`flatten_shape`).
  Idempotence of `flatten` on the listing ORDER (and entries, relations, schedule) is proved in the last section for
  circuits whose listed operations carry no group link with a reference (`flatten_idempotent_partial`,
  `flatten_twice_graph`, `flatten_twice_links`, `flatten_twice_schedule`; helper lemmas in Lemmas/FlattenIdem.lean).
  NOT proved: idempotence in the presence of group links, and the library clause (listing order, schedule,
  indices and export unchanged) — the latter is false of model and code for d ≥ 3, cycles ≥ 3 (known finding R5),
  and after an unrolling flatten can even create a cyclic relation (known finding R14); these clauses are evaluated
  on the implementation and compared with the model on every generated program.
-/
namespace Qco.C11

open Qco

/-- `add_to_graph` only allocates links and rewrites the link of the added operation. -/
theorem addToGraph_shape (w : World) (g : List Entry) (o : Nat) {w0 : World} (h : Shape w w0) :
    Shape (w.addToGraph g o).1 w0 := by
  have newLink_shape : ∀ (w : World) (L : Link), Shape w w0 → Shape (w.newLink L).1 w0 := by
    intro w L h; exact ⟨h.1, fun j => h.2 j⟩
  have warn_shape : ∀ (w : World) (n : Nat), Shape w w0 → Shape { w with warnings := n } w0 := by
    intro w n h; exact ⟨h.1, fun j => h.2 j⟩
  have undef_shape : ∀ (w : World) (n : Nat), Shape w w0 → Shape { w with warnings := n, undef := true } w0 := by
    intro w n h; exact ⟨h.1, fun j => h.2 j⟩
  unfold World.addToGraph
  simp only
  split
  · split
    · exact h
    · split
      · exact (newLink_shape _ _ h).setLink _ _
      · exact (newLink_shape _ _ h).setLink _ _
  · split
    · split
      · exact h
      · split
        · exact (newLink_shape _ _ (warn_shape _ _ h)).setLink _ _
        · exact (newLink_shape _ _ (warn_shape _ _ h)).setLink _ _
    · split
      · exact (newLink_shape _ _ (undef_shape _ _ h)).setLink _ _
      · exact (newLink_shape _ _ (undef_shape _ _ h)).setLink _ _

/-- rebuilding a graph from a list of operations lists exactly those operations (plus what was there). -/
theorem rebuild_perm (w0 : World) : ∀ (ops : List Nat) (w : World) (g : List Entry), Shape w w0 →
    let r := ops.foldl (fun (acc : World × List Entry) o => acc.1.addToGraph acc.2 o) (w, g)
    (listing r.2).Perm (ops.reverse ++ listing g) ∧ Shape r.1 w0 := by
  intro ops
  induction ops with
  | nil => intro w g h; exact ⟨by simp, h⟩
  | cons o os ih =>
    intro w g h
    simp only [List.foldl_cons, List.reverse_cons, List.append_assoc, List.singleton_append]
    have h1 := C02.add_listing w g o
    have hs := addToGraph_shape w g o h
    obtain ⟨h2, h3⟩ := ih (w.addToGraph g o).1 (w.addToGraph g o).2 hs
    exact ⟨h2.trans (List.Perm.append_left _ h1), h3⟩

theorem setGraph_graph (w : World) (c : Nat) (g : List Entry) (h : c < w.ops.size) :
    ((w.setGraph c g).op c).graph = g := by
  simp [World.setGraph, World.setOp, World.op, Array.getD, h]

theorem setGraph_size (w : World) (c : Nat) (g : List Entry) : (w.setGraph c g).ops.size = w.ops.size := by
  simp [World.setGraph, World.setOp]

/-- **the flattened circuit lists exactly the operations of the listing, each once**
    (`c` is a heap object: `c < ops.size`). -/
theorem flatten_listing_perm (w : World) (c : Nat) (hc : c < (w.flatten c).ops.size) :
    (listing ((w.flatten c).op c).graph).Perm (w.operations c).2 := by
  have hr := (rebuild_perm w (w.operations c).2 (w.operations c).1 [] (operations_shape w c)).1
  simp only [listing, sortedEntries, List.mergeSort_nil, List.map_nil, List.append_nil] at hr
  unfold World.flatten at hc ⊢
  simp only at hc ⊢
  generalize ((w.operations c).2.foldl (fun (acc : World × List Entry) o => acc.1.addToGraph acc.2 o)
      ((w.operations c).1, [])) = r at hr hc ⊢
  rw [setGraph_size] at hc
  rw [setGraph_graph _ _ _ hc]
  exact hr.trans (List.reverse_perm _)

/-- every entry of the operation listing is a leaf operation. -/
theorem leafListing_leaves (w : World) : ∀ (f c o : Nat), o ∈ w.leafListing f c → (w.op o).isComp = false := by
  intro f
  induction f with
  | zero => intro c o h; simp [World.leafListing] at h
  | succ f ih =>
    intro c o h
    unfold World.leafListing at h
    simp only [List.mem_flatMap] at h
    obtain ⟨n, _, hn⟩ := h
    by_cases hc : (w.op n).isComp = true
    · rw [if_pos hc] at hn; exact ih n o hn
    · rw [if_neg hc] at hn
      simp only [List.mem_singleton] at hn
      subst hn; simpa using hc

/-- **no sub-circuit remains**: every node of the flattened graph is a leaf operation (kind unchanged). -/
theorem flatten_no_composite (w : World) (c : Nat) (hc : c < (w.flatten c).ops.size) :
    ∀ n ∈ listing ((w.flatten c).op c).graph, (w.op n).isComp = false := by
  intro n hn
  have := (flatten_listing_perm w c hc).mem_iff.mp hn
  rw [operations_eq_leafListing] at this
  exact leafListing_leaves w _ c n this

/-- flattening changes nothing but relation links and the graph of the flattened circuit itself: kind, qubits,
    channel, duration strategy, tag, fields, counts of every object are untouched. -/
theorem flatten_shape (w : World) (c : Nat) :
    ∀ j, ((w.flatten c).op j).cls = (w.op j).cls ∧ ((w.flatten c).op j).qs = (w.op j).qs ∧
      ((w.flatten c).op j).dur = (w.op j).dur ∧ ((w.flatten c).op j).tag = (w.op j).tag ∧
      ((w.flatten c).op j).ints = (w.op j).ints ∧ ((w.flatten c).op j).rep = (w.op j).rep := by
  intro j
  unfold World.flatten
  simp only
  have hr := (rebuild_perm w (w.operations c).2 (w.operations c).1 [] (operations_shape w c)).2
  generalize ((w.operations c).2.foldl (fun (acc : World × List Entry) o => acc.1.addToGraph acc.2 o)
      ((w.operations c).1, [])) = r at hr
  have key : ∀ k, ((r.1.setGraph c r.2).op k).noLink = { (r.1.op k).noLink with graph := ((r.1.setGraph c r.2).op k).graph } := by
    intro k
    simp only [World.setGraph, World.setOp, World.op, Op.noLink]
    by_cases hk : k = c
    · subst hk
      by_cases hb : k < r.1.ops.size
      · simp [Array.getD, hb]
      · simp [Array.getD, hb]
    · simp [Array.getD, Array.getElem_setIfInBounds_ne, hk, Ne.symm hk]
      split <;> simp_all [Array.getElem_setIfInBounds_ne, Ne.symm hk]
  have hj := hr.2 j
  have kj := key j
  have c1 := congrArg Op.cls kj; have c2 := congrArg Op.qs kj; have c3 := congrArg Op.dur kj
  have c4 := congrArg Op.tag kj; have c5 := congrArg Op.ints kj; have c6 := congrArg Op.rep kj
  have d1 := congrArg Op.cls hj; have d2 := congrArg Op.qs hj; have d3 := congrArg Op.dur hj
  have d4 := congrArg Op.tag hj; have d5 := congrArg Op.ints hj; have d6 := congrArg Op.rep hj
  simp only [Op.noLink] at c1 c2 c3 c4 c5 c6 d1 d2 d3 d4 d5 d6
  exact ⟨c1.trans d1, c2.trans d2, c3.trans d3, c4.trans d4, c5.trans d5, c6.trans d6⟩

/-! ### flattening again changes nothing (circuits without group links)

With `(w₁, ops) = w.operations c` (the mutating listing the first flatten starts from):
hypotheses `hc` (`c` is a heap object), `htop` (`c` is a top-level circuit: its own link names no reference), `hsingle` (no
listed operation carries a group link that names a reference — weaker than "no group link among the listed operations";
for a group link `add_to_graph` evaluates end times and flatten can even create a cycle, known finding R14) and the
identifier well-formedness `Flat.FlattenWf w c` (Lemmas/FlattenIdem.lean: the link of `c` and the links of the listed
operations are existing links, the listed operations are existing, pairwise distinct objects, `c` is not one of them and
listing `c` does not re-link `c` itself).

FULL statement (NOT proved):
  `∀ w c, c < w.ops.size → listing (((w.flatten c).flatten c).op c).graph = listing ((w.flatten c).op c).graph`.
  Missing: the case of a listed operation whose link is a group link with references (there the reference is the result
  of evaluating end times in the heap under construction, undefined on the cyclic heaps of R14), and heaps with
  ill-formed identifiers / circuits nested in themselves (excluded by `FlattenWf`).
Proved: the same under `htop`, `hsingle`, `FlattenWf` (`flatten_idempotent_partial`); moreover the second flatten stores
exactly the entries of the first in listing order (`flatten_twice_graph`), allocates no link and changes no reference of
any object (`flatten_twice_links`), and changes no start, end or duration (`flatten_twice_schedule`).  The literal "the link *object* of every operation is unchanged" is FALSE of the
model (`flatten_twice_link_ids_witness`): a root operation that got a fresh empty link in the first flatten is handed the
(equally reference-free) link of the circuit by the listing of the second flatten — same references, same schedule,
different link identity. -/

/-- the state after the first flatten satisfies the rebuild invariant (Lemmas/FlattenIdem.lean, `Flat.FlatOk`):
    every node under the root has a reference-free link, every node under `p` a plain link with reference `p`,
    keys are sibling indices, roots share no channel with earlier roots. -/
theorem flatten_invariant (w : World) (c : Nat) (hc : c < w.ops.size)
    (htop : (w.lnk (w.op c).link).refs = [])
    (hsingle : ∀ o ∈ (w.operations c).2,
      ((w.operations c).1.lnk (((w.operations c).1.op o).link)).refs = [] ∨
      ((w.operations c).1.lnk (((w.operations c).1.op o).link)).multi = false)
    (hwf : Flat.FlattenWf w c) :
    Flat.FlatOk (w.flatten c) ((w.flatten c).op c).graph ∧ c < (w.flatten c).ops.size ∧
    ((w.flatten c).lnk ((w.flatten c).op c).link).refs = [] := by
  refine Flat.flatten_flatOk w c hc htop hsingle ?_ hwf
  intro o ho
  rw [operations_eq_leafListing] at ho
  exact leafListing_leaves w _ c o ho

/-- **flattening again stores the same entries** (node, parent, path key), in listing order. -/
theorem flatten_twice_graph (w : World) (c : Nat) (hc : c < w.ops.size)
    (htop : (w.lnk (w.op c).link).refs = [])
    (hsingle : ∀ o ∈ (w.operations c).2,
      ((w.operations c).1.lnk (((w.operations c).1.op o).link)).refs = [] ∨
      ((w.operations c).1.lnk (((w.operations c).1.op o).link)).multi = false)
    (hwf : Flat.FlattenWf w c) :
    (((w.flatten c).flatten c).op c).graph = sortedEntries ((w.flatten c).op c).graph := by
  obtain ⟨h1, h2, h3⟩ := flatten_invariant w c hc htop hsingle hwf
  exact (Flat.flatten_of_flatOk (w.flatten c) c h2 h1 h3).1

/-- **flattening again changes nothing** (`_partial`: no group link with a reference among the listed operations,
    identifiers well formed): the listing order of the flattened circuit is a fixed point of `flatten`. -/
theorem flatten_idempotent_partial (w : World) (c : Nat) (hc : c < w.ops.size)
    (htop : (w.lnk (w.op c).link).refs = [])
    (hsingle : ∀ o ∈ (w.operations c).2,
      ((w.operations c).1.lnk (((w.operations c).1.op o).link)).refs = [] ∨
      ((w.operations c).1.lnk (((w.operations c).1.op o).link)).multi = false)
    (hwf : Flat.FlattenWf w c) :
    listing (((w.flatten c).flatten c).op c).graph = listing ((w.flatten c).op c).graph := by
  rw [flatten_twice_graph w c hc htop hsingle hwf]
  exact Flat.listing_sortedEntries _

/-- the same with the hypothesis "no group links among the listed operations" as in the property text. -/
theorem flatten_idempotent_no_group (w : World) (c : Nat) (hc : c < w.ops.size)
    (htop : (w.lnk (w.op c).link).refs = [])
    (hsingle : ∀ o ∈ (w.operations c).2,
      ((w.operations c).1.lnk (((w.operations c).1.op o).link)).multi = false)
    (hwf : Flat.FlattenWf w c) :
    listing (((w.flatten c).flatten c).op c).graph = listing ((w.flatten c).op c).graph :=
  flatten_idempotent_partial w c hc htop (fun o ho => Or.inr (hsingle o ho)) hwf

/-- **the second flatten keeps every relation**: it allocates no link, every object refers to the same operations as
    before, and an object that has a relation keeps its link object (hence same relation type, same schedule). -/
theorem flatten_twice_links (w : World) (c : Nat) (hc : c < w.ops.size)
    (htop : (w.lnk (w.op c).link).refs = [])
    (hsingle : ∀ o ∈ (w.operations c).2,
      ((w.operations c).1.lnk (((w.operations c).1.op o).link)).refs = [] ∨
      ((w.operations c).1.lnk (((w.operations c).1.op o).link)).multi = false)
    (hwf : Flat.FlattenWf w c) :
    ((w.flatten c).flatten c).links = (w.flatten c).links ∧
    ∀ o, (((w.flatten c).flatten c).lnk (((w.flatten c).flatten c).op o).link).refs =
        ((w.flatten c).lnk ((w.flatten c).op o).link).refs ∧
      ((w.flatten c).hasRel o = true → (((w.flatten c).flatten c).op o).link = ((w.flatten c).op o).link) := by
  obtain ⟨h1, h2, h3⟩ := flatten_invariant w c hc htop hsingle hwf
  exact (Flat.flatten_of_flatOk (w.flatten c) c h2 h1 h3).2

/-- **the second flatten leaves the schedule alone**: start, end and duration of every object (evaluated with any fuel;
    `none` = undefined) are the same after the second flatten as after the first. -/
theorem flatten_twice_schedule (w : World) (c : Nat) (hc : c < w.ops.size)
    (htop : (w.lnk (w.op c).link).refs = [])
    (hsingle : ∀ o ∈ (w.operations c).2,
      ((w.operations c).1.lnk (((w.operations c).1.op o).link)).refs = [] ∨
      ((w.operations c).1.lnk (((w.operations c).1.op o).link)).multi = false)
    (hwf : Flat.FlattenWf w c) (f o : Nat) :
    evStart ((w.flatten c).flatten c) f o = evStart (w.flatten c) f o ∧
    evEnd ((w.flatten c).flatten c) f o = evEnd (w.flatten c) f o ∧
    evDur ((w.flatten c).flatten c) f o = evDur (w.flatten c) f o := by
  obtain ⟨h1, h2, h3⟩ := flatten_invariant w c hc htop hsingle hwf
  have key := Flat.sched_congr (Flat.flatten_of_flatOk_sched (w.flatten c) c h2 h1 h3) f
  exact ⟨key.2.2.2.1 o, key.2.2.2.2.1 o, key.2.2.1 o⟩

/-- the same from conditions on the heap `w` itself (no reference to the heap after the listing): no group link
    anywhere, every object's link is an existing link, `c` is a sub-circuit object that is not a node of any graph
    (a top-level circuit), and the leaf listing of `c` (pure walk, `operations_expand`) names existing objects, none
    twice. -/
theorem flatten_idempotent_tree (w : World) (c : Nat) (hc : c < w.ops.size) (hcomp : (w.op c).isComp = true)
    (htop : (w.lnk (w.op c).link).refs = [])
    (hplain : ∀ l, (w.lnk l).multi = false)
    (hlin : ∀ j, (w.op j).link < w.links.size)
    (hcnode : ∀ o, ∀ e ∈ (w.op o).graph, e.node ≠ c)
    (hnd : (w.leafListing w.depthFuel c).Nodup)
    (hin : ∀ o ∈ w.leafListing w.depthFuel c, o < w.ops.size) :
    Flat.FlattenWf w c ∧
    listing (((w.flatten c).flatten c).op c).graph = listing ((w.flatten c).op c).graph := by
  have hwf : Flat.FlattenWf w c := by
    refine Flat.flattenWf_of_tree w c hlin hcnode hnd hin ?_
    intro hmem
    have := leafListing_leaves w _ c c hmem
    rw [hcomp] at this; cases this
  refine ⟨hwf, flatten_idempotent_partial w c hc htop ?_ hwf⟩
  intro o _
  rw [Flat.operations_lnk]
  exact Or.inr (hplain _)

/-- non-vacuity.  The heap built by the program
    `c = circuit(); a = Rx180(q0); c.add(a); s = circuit(); x = Ry90(q1); s.add(x); y = Measure(q1, after x); s.add(y);
     c.add_sub_circuit(s); b = Hadamard(q0); c.add(b)`  (in the model: `newCircuit/newLink/newOp/add/addSub`; `#eval` of
    that program prints exactly this literal): circuit `0` holds `1 = Rx180(q0)`, the nested copy `5` of the
    sub-circuit (`6 = Ry90(q1)`, `7 = Measure(q1)` with the explicit relation "after `6`") and `8 = Hadamard(q0)`
    under `1`; objects `2,3,4` are the original sub-circuit.  Its first flatten stores the entries in the insertion order
    `1, 6, 7, 8` (keys `[0], [1], [1,0], [0,0]`), listed `1, 6, 8, 7`; the second flatten stores them in that order. -/
def exIdem : World :=
  { ops := #[
      { cls := .comp, graph := [⟨1, none, [0]⟩, ⟨5, none, [1]⟩, ⟨8, some 1, [0, 0]⟩] },
      { cls := .rx180, qs := [0], dur := .glob .mw, link := 1 },
      { cls := .comp, graph := [⟨3, none, [0]⟩, ⟨4, some 3, [0, 0]⟩] },
      { cls := .ry90, qs := [1], dur := .glob .mw, link := 2 },
      { cls := .measure, qs := [1], dur := .glob .ro, link := 3 },
      { cls := .comp, link := 4, graph := [⟨6, none, [0]⟩, ⟨7, some 6, [0, 0]⟩] },
      { cls := .ry90, qs := [1], dur := .glob .mw, link := 5 },
      { cls := .measure, qs := [1], dur := .glob .ro, link := 6 },
      { cls := .hadamard, qs := [0], dur := .glob .mw, link := 8 }],
    links := #[{}, {}, {}, { refs := [3] }, {}, {}, { refs := [6] }, {}, { refs := [1] }] }

/-- all hypotheses of `flatten_idempotent_tree` hold of it, and so do those of `flatten_idempotent_partial`,
    `flatten_idempotent_no_group`, `flatten_twice_graph`, `flatten_twice_links`, `flatten_twice_schedule`
    (`hc`, `htop`, `hsingle` in its strong form, `FlattenWf`). -/
example :
    (0 < exIdem.ops.size ∧ (exIdem.op 0).isComp = true ∧ (exIdem.lnk (exIdem.op 0).link).refs = [] ∧
     (∀ l, (exIdem.lnk l).multi = false) ∧ (∀ j, (exIdem.op j).link < exIdem.links.size) ∧
     (∀ o, ∀ e ∈ (exIdem.op o).graph, e.node ≠ 0) ∧
     (exIdem.leafListing exIdem.depthFuel 0).Nodup ∧
     (∀ o ∈ exIdem.leafListing exIdem.depthFuel 0, o < exIdem.ops.size)) ∧
    (∀ o ∈ (exIdem.operations 0).2,
      ((exIdem.operations 0).1.lnk (((exIdem.operations 0).1.op o).link)).multi = false) ∧
    Flat.FlattenWf exIdem 0 ∧
    (exIdem.operations 0).2 = [1, 6, 7, 8] := by
  have exIdem_leafListing : exIdem.leafListing exIdem.depthFuel 0 = [1, 6, 7, 8] := by
    have hl := listing_of_graphsSorted exIdem (by decide)
    have hf : exIdem.depthFuel = 11 := rfl
    simp only [hf, World.leafListing, hl]
    decide
  have h0 : 0 < exIdem.ops.size := by decide
  have hcomp : (exIdem.op 0).isComp = true := by decide
  have htop : (exIdem.lnk (exIdem.op 0).link).refs = [] := by decide
  have hplain : ∀ l, (exIdem.lnk l).multi = false := by
    intro l
    have := Flat.forall_lnk exIdem (fun L => !L.multi) (by decide) (by decide) l
    simpa using this
  have hlin : ∀ j, (exIdem.op j).link < exIdem.links.size := by
    intro j
    have := Flat.forall_op exIdem (fun o => decide (o.link < exIdem.links.size)) (by decide) (by decide) j
    simpa using this
  have hcnode : ∀ o, ∀ e ∈ (exIdem.op o).graph, e.node ≠ 0 := by
    intro o e he
    have := Flat.forall_op exIdem (fun o => o.graph.all (fun e => e.node != 0)) (by decide) (by decide) o
    simp only [List.all_eq_true, bne_iff_ne, ne_eq] at this
    exact this e he
  have hnd : (exIdem.leafListing exIdem.depthFuel 0).Nodup := by rw [exIdem_leafListing]; decide
  have hin : ∀ o ∈ exIdem.leafListing exIdem.depthFuel 0, o < exIdem.ops.size := by
    rw [exIdem_leafListing]; decide
  refine ⟨⟨h0, hcomp, htop, hplain, hlin, hcnode, hnd, hin⟩, ?_,
    (flatten_idempotent_tree exIdem 0 h0 hcomp htop hplain hlin hcnode hnd hin).1, ?_⟩
  · intro o _; rw [Flat.operations_lnk]; exact hplain _
  · rw [operations_eq_leafListing, exIdem_leafListing]

/-- the circuit of the witness below, built by the program
    `c = circuit(); s1 = circuit(); s1.add(Rx180(q0)); s2 = circuit(relation = after s1); s2.add(Rx180(q1)); c.add(s1);
     c.add(s2)`: sub-circuit `1` (operation `2`) and sub-circuit `3` (operation `4`), the second one related to the first
    one as a whole. -/
def exLinkIds : World :=
  { ops := #[
      { cls := .comp, graph := [⟨1, none, [0]⟩, ⟨3, some 1, [0, 0]⟩] },
      { cls := .comp, graph := [⟨2, none, [0]⟩] },
      { cls := .rx180, qs := [0], dur := .glob .mw, link := 1 },
      { cls := .comp, link := 2, graph := [⟨4, none, [0]⟩] },
      { cls := .rx180, qs := [1], dur := .glob .mw, link := 3 }],
    links := #[{}, {}, { refs := [1] }, {}] }

/-- the literal reading of "no link of any operation changes in the second flatten" (`(w''.op o).link = (w'.op o).link`
    for every listed `o`) is FALSE of the model although all hypotheses hold: operation `4` refers (through its
    sub-circuit) to a sub-circuit, which is not a node of the flattened graph, so the first flatten gives it a fresh empty
    link `4`; the listing of the second flatten hands it the link `0` of the circuit.  Both links are reference-free
    (`flatten_twice_links`), the schedule is the same. -/
theorem flatten_twice_link_ids_witness :
    0 < exLinkIds.ops.size ∧ (exLinkIds.lnk (exLinkIds.op 0).link).refs = [] ∧
    (∀ o ∈ (exLinkIds.operations 0).2,
      ((exLinkIds.operations 0).1.lnk (((exLinkIds.operations 0).1.op o).link)).multi = false) ∧
    Flat.FlattenWf exLinkIds 0 ∧
    4 ∈ listing ((exLinkIds.flatten 0).op 0).graph ∧
    ((exLinkIds.flatten 0).op 4).link = 4 ∧ (((exLinkIds.flatten 0).flatten 0).op 4).link = 0 := by
  have hl := listing_of_graphsSorted exLinkIds (by decide)
  have hf : exLinkIds.depthFuel = 7 := rfl
  have exLinkIds_leafListing : exLinkIds.leafListing exLinkIds.depthFuel 0 = [2, 4] := by
    simp only [hf, World.leafListing, hl]
    decide
  have hplain : ∀ l, (exLinkIds.lnk l).multi = false := by
    intro l
    have := Flat.forall_lnk exLinkIds (fun L => !L.multi) (by decide) (by decide) l
    simpa using this
  have hsingle : ∀ o ∈ (exLinkIds.operations 0).2,
      ((exLinkIds.operations 0).1.lnk (((exLinkIds.operations 0).1.op o).link)).multi = false := by
    intro o _; rw [Flat.operations_lnk]; exact hplain _
  have hwf : Flat.FlattenWf exLinkIds 0 := by
    refine Flat.flattenWf_of_tree exLinkIds 0 ?_ ?_ ?_ ?_ ?_
    · intro j
      have := Flat.forall_op exLinkIds (fun o => decide (o.link < exLinkIds.links.size)) (by decide) (by decide) j
      simpa using this
    · intro o e he
      have := Flat.forall_op exLinkIds (fun o => o.graph.all (fun e => e.node != 0)) (by decide) (by decide) o
      simp only [List.all_eq_true, bne_iff_ne, ne_eq] at this
      exact this e he
    · rw [exLinkIds_leafListing]; decide
    · rw [exLinkIds_leafListing]; decide
    · rw [exLinkIds_leafListing]; decide
  have htop : (exLinkIds.lnk (exLinkIds.op 0).link).refs = [] := by decide
  have hc : 0 < exLinkIds.ops.size := by decide
  obtain ⟨h1, _, h3⟩ := flatten_invariant exLinkIds 0 hc htop (fun o ho => Or.inr (hsingle o ho)) hwf
  have hmem : 4 ∈ listing ((exLinkIds.flatten 0).op 0).graph := by
    have hc' : 0 < (exLinkIds.flatten 0).ops.size := by
      simp only [World.flatten, World.operations, hf, World.decomposed, hl]
      decide +kernel
    rw [(flatten_listing_perm exLinkIds 0 hc').mem_iff, operations_eq_leafListing, exLinkIds_leafListing]
    decide
  have e1 : ((exLinkIds.flatten 0).op 4).link = 4 := by
    simp only [World.flatten, World.operations, hf, World.decomposed, hl]
    decide +kernel
  have e2 : ((exLinkIds.flatten 0).op 0).link = 0 := by
    simp only [World.flatten, World.operations, hf, World.decomposed, hl]
    decide +kernel
  have e3 : (exLinkIds.flatten 0).hasRel 4 = false := by
    simp only [World.flatten, World.operations, hf, World.decomposed, hl]
    decide +kernel
  have e4 : 4 < (exLinkIds.flatten 0).ops.size := by
    simp only [World.flatten, World.operations, hf, World.decomposed, hl]
    decide +kernel
  have root := Flat.flatten_of_flatOk_root (exLinkIds.flatten 0) 0 h1 h3 4 hmem e3 e4
  rw [e2] at root
  exact ⟨hc, htop, hsingle, hwf, hmem, e1, root⟩


end Qco.C11
