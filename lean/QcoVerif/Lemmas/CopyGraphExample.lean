import QcoVerif.Lemmas.CopyGraph
/-
  Non-vacuity of the hypotheses of the flat copy theorem (`FlatOk`): a block of four leaf operations on two qubits with
  one explicit JOINED_START relation, built by the model's own `newCircuit / newLink / newOp / add` (the calls the driver
  makes for `new` and `op` lines), under the real semantics (`identKeys := false`).  The heap is evaluated step by step
  (the merge-sort based `listing` does not reduce in the kernel, so each `add` is evaluated through `listing_of_sorted`).
  Core Lean only.
-/
namespace Qco

/-! ### evaluating `add` -/

theorem add_root_eq (w : World) (c o : Nat) (hr : w.hasRel o = false)
    (hl : w.leafAtAny (w.op c).graph (w.chansOf o) = none) :
    w.add c o = w.setGraph c (attach (w.op c).graph none o) := by
  unfold World.add
  rw [addToGraph_root w _ _ hr hl]

theorem add_child_eq (w : World) (c o r : Nat) (hr : w.hasRel o = true)
    (hm : (w.lnk (w.op o).link).multi = false) (hh : (w.lnk (w.op o).link).refs.head? = some r)
    (hin : inGraph (w.op c).graph r = true) :
    w.add c o = w.setGraph c (attach (w.op c).graph (some r) o) := by
  unfold World.add
  rw [addToGraph_child w _ _ r hr hm hh hin]

theorem add_relink_eq (w : World) (c o lf : Nat) (hr : w.hasRel o = false)
    (hl : w.leafAtAny (w.op c).graph (w.chansOf o) = some lf) :
    w.add c o = (((w.newLink { refs := [lf] }).1.setLink o w.links.size).setGraph c
      (attach (w.op c).graph (some lf) o)) := by
  unfold World.add World.addToGraph
  simp only [hr, hl, Bool.not_false, if_true]
  rfl

theorem listing_lit (g : List Entry) (h : decide (g.Pairwise (fun a b => entryLe a b = true)) = true) :
    listing g = g.map (·.node) := listing_of_sorted g (of_decide_eq_true h)

/-! ### the example -/

/-- `c = DeclarativeCircuit(); a = Rx180(0); c.add(a)` — `a` becomes a depth-1 node. -/
def exBuild1 : World :=
  let w0 : World := {}
  let (w, c) := w0.newCircuit (.fixed 1)
  let (w, l1) := w.newLink {}
  let (w, a) := w.newOp { cls := .rx180, qs := [0], dur := .glob .mw, link := l1 }
  w.add c a

/-- `b = Rx90(1); c.add(b)` — no shared channel: a second depth-1 node. -/
def exBuild2 : World :=
  let w := exBuild1
  let (w, l2) := w.newLink {}
  let (w, b) := w.newOp { cls := .rx90, qs := [1], dur := .glob .mw, link := l2 }
  w.add 0 b

/-- `d = DispersiveMeasure(1, relation=RelationLink(a, JOINED_START)); c.add(d)` — hangs under `a` by its explicit relation. -/
def exBuild3 : World :=
  let w := exBuild2
  let (w, l3) := w.newLink { refs := [1], rel := .js }
  let (w, d) := w.newOp { cls := .measure, qs := [1], dur := .glob .ro, link := l3 }
  w.add 0 d

/-- `e = Ry180(0); c.add(e)` — no relation; `add` links it FOLLOWED_BY under `a`, the last node sharing a channel. -/
def exCopyWorld : World :=
  let w := exBuild3
  let (w, l4) := w.newLink {}
  let (w, e) := w.newOp { cls := .ry180, qs := [0], dur := .glob .mw, link := l4 }
  w.add 0 e

def exOpA : Op := { cls := .rx180, qs := [0], dur := .glob .mw, link := 1 }
def exOpB : Op := { cls := .rx90, qs := [1], dur := .glob .mw, link := 2 }
def exOpD : Op := { cls := .measure, qs := [1], dur := .glob .ro, link := 3 }

/-- the heap the build program produces. -/
def exCopyLit : World :=
  { ops := #[{ cls := .comp, graph := [⟨1, none, [0]⟩, ⟨2, none, [1]⟩, ⟨3, some 1, [0, 0]⟩, ⟨4, some 1, [0, 1]⟩] },
             exOpA, exOpB, exOpD, { cls := .ry180, qs := [0], dur := .glob .mw, link := 5 }],
    links := #[{}, {}, {}, { refs := [1], rel := .js }, {}, { refs := [1] }] }

def exS1 : World := { ops := #[{ cls := .comp }, exOpA], links := #[{}, {}] }
def exS1' : World := { ops := #[{ cls := .comp, graph := [⟨1, none, [0]⟩] }, exOpA], links := #[{}, {}] }
def exS2 : World := { ops := #[{ cls := .comp, graph := [⟨1, none, [0]⟩] }, exOpA, exOpB], links := #[{}, {}, {}] }
def exS2' : World :=
  { ops := #[{ cls := .comp, graph := [⟨1, none, [0]⟩, ⟨2, none, [1]⟩] }, exOpA, exOpB], links := #[{}, {}, {}] }
def exS3 : World :=
  { ops := #[{ cls := .comp, graph := [⟨1, none, [0]⟩, ⟨2, none, [1]⟩] }, exOpA, exOpB, exOpD],
    links := #[{}, {}, {}, { refs := [1], rel := .js }] }
def exS3' : World :=
  { ops := #[{ cls := .comp, graph := [⟨1, none, [0]⟩, ⟨2, none, [1]⟩, ⟨3, some 1, [0, 0]⟩] }, exOpA, exOpB, exOpD],
    links := #[{}, {}, {}, { refs := [1], rel := .js }] }
def exS4 : World :=
  { ops := #[{ cls := .comp, graph := [⟨1, none, [0]⟩, ⟨2, none, [1]⟩, ⟨3, some 1, [0, 0]⟩] }, exOpA, exOpB, exOpD,
             { cls := .ry180, qs := [0], dur := .glob .mw, link := 4 }],
    links := #[{}, {}, {}, { refs := [1], rel := .js }, {}] }

theorem exStep1 : exS1.add 0 1 = exS1' := by
  rw [add_root_eq exS1 0 1 (by decide) (by
    unfold World.leafAtAny
    rw [listing_lit _ (by decide)]
    rfl)]
  rfl

theorem exStep2 : exS2.add 0 2 = exS2' := by
  rw [add_root_eq exS2 0 2 (by decide) (by
    rw [chansOf_leaf exS2 2 (by decide)]
    unfold World.leafAtAny
    rw [listing_lit _ (by decide)]
    simp [exS2, exOpA, exOpB, World.op, chansOf_leaf, Op.isComp, Op.leafChans, ChId.matches])]
  rfl

theorem exStep3 : exS3.add 0 3 = exS3' := by
  rw [add_child_eq exS3 0 3 1 (by decide) (by decide) (by decide) (by decide)]
  rfl

theorem exStep4 : exS4.add 0 4 = exCopyLit := by
  rw [add_relink_eq exS4 0 4 1 (by decide) (by
    rw [chansOf_leaf exS4 4 (by decide)]
    unfold World.leafAtAny
    rw [listing_lit _ (by decide)]
    simp [exS4, exOpA, exOpB, exOpD, World.op, chansOf_leaf, Op.isComp, Op.leafChans, ChId.matches])]
  rfl

theorem exBuild1_eq : exBuild1 = exS1' := exStep1

theorem exBuild2_eq : exBuild2 = exS2' := by
  unfold exBuild2
  rw [exBuild1_eq]
  exact exStep2

theorem exBuild3_eq : exBuild3 = exS3' := by
  unfold exBuild3
  rw [exBuild2_eq]
  exact exStep3

/-- the build program evaluates to the literal heap. -/
theorem exCopyWorld_eq : exCopyWorld = exCopyLit := by
  unfold exCopyWorld
  rw [exBuild3_eq]
  exact exStep4

theorem sortedEntries_lit (g : List Entry) (h : decide (g.Pairwise (fun a b => entryLe a b = true)) = true) :
    sortedEntries g = g := List.mergeSort_of_pairwise (of_decide_eq_true h)

theorem exCopyLit_listing : listing (exCopyLit.op 0).graph = [1, 2, 3, 4] := by
  rw [listing_lit _ (by decide)]; rfl

/-- **the hypotheses H1–H4 hold for the example block** (real semantics: `identKeys = false`). -/
theorem exCopyLit_flatOk : FlatOk exCopyLit 0 := by
  refine ⟨by decide, ?_, ?_, ?_, ?_, ?_, ?_, ?_, ?_⟩
  · show Built (attach (attach (attach (attach [] none 1) none 2) (some 1) 3) (some 1) 4)
    apply built_attach
    · apply built_attach
      · apply built_attach
        · apply built_attach built_nil
          · intro q h; cases h
          · decide
        · intro q h; cases h
        · decide
      · intro q h; cases h; decide
      · decide
    · intro q h; cases h; decide
    · decide
  · rw [exCopyLit_listing]; decide
  · rw [exCopyLit_listing]; decide
  · rw [exCopyLit_listing]; decide
  · rw [exCopyLit_listing]; decide
  · intro e he p hp
    have he' : e ∈ [(⟨1, none, [0]⟩ : Entry), ⟨2, none, [1]⟩, ⟨3, some 1, [0, 0]⟩, ⟨4, some 1, [0, 1]⟩] := he
    simp only [List.mem_cons, List.mem_nil_iff, or_false] at he'
    rcases he' with rfl | rfl | rfl | rfl
    · cases hp
    · cases hp
    · cases hp; decide
    · cases hp; decide
  · intro e he hp r hr
    have he' : e ∈ [(⟨1, none, [0]⟩ : Entry), ⟨2, none, [1]⟩, ⟨3, some 1, [0, 0]⟩, ⟨4, some 1, [0, 1]⟩] := he
    simp only [List.mem_cons, List.mem_nil_iff, or_false] at he'
    rcases he' with rfl | rfl | rfl | rfl
    · have h0 : (exCopyLit.lnk (exCopyLit.op 1).link).refs.head? = none := by decide
      rw [h0] at hr; cases hr
    · have h0 : (exCopyLit.lnk (exCopyLit.op 2).link).refs.head? = none := by decide
      rw [h0] at hr; cases hr
    · cases hp
    · cases hp
  · unfold heads
    rw [sortedEntries_lit _ (by decide)]
    decide

theorem exCopyWorld_flatOk : FlatOk exCopyWorld 0 := by
  rw [exCopyWorld_eq]; exact exCopyLit_flatOk

theorem exCopyWorld_real : exCopyWorld.identKeys = false := by
  rw [exCopyWorld_eq]; rfl

end Qco
