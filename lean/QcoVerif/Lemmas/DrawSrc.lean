import QcoVerif.Model.Draw
import QcoVerif.Lemmas.PyBridge
/-
  C18 — source tie of `reorder_indices` (display_circuit.py): the translated text evaluates, for ALL lists of
  qubit indices, to `Draw.reorder`.  Core Lean only.
-/
namespace Qco.DrawSrc
open Qco Qco.Py Qco.Gen.PySrc

theorem memVal_ints (l : List Int) (e : Int) : memVal (Val.int e) (l.map Val.int) = l.contains e := by
  unfold memVal
  induction l with
  | nil => rfl
  | cons a as ih =>
    rw [List.map_cons, List.any_cons, ih, List.contains_cons]
    show (Val.beq (Val.int a) (Val.int e) || as.contains e) = (e == a || as.contains e)
    unfold Val.beq
    cases h : (a == e) <;> cases h' : (e == a) <;> simp_all

theorem filter_notin (orig order : List Int) :
    List.filter (fun v => !memVal v (List.map Val.int order)) (List.map Val.int orig)
      = List.map Val.int (List.filter (fun x => !decide (x ∈ order)) orig) := by
  induction orig with
  | nil => rfl
  | cons a as ih =>
    simp only [List.map_cons, List.filter_cons, ih, memVal_ints, List.contains_eq_mem]
    cases decide (a ∈ order) <;> simp

/-- `reorder_indices(original_order, specific_order)` as written in the source = `Draw.reorder`;
    `ValueError` exactly where the model rejects. -/
theorem reorder_matches_source (orig order : List Int) :
    callFn {} Draw_reorder_indices [ints orig, ints order] =
      (match Draw.reorder orig order with
       | some r => ints r
       | none => .err "raised: ValueError") := by
  unfold Draw.reorder
  simp only [List.contains_eq_mem]
  cases h : order.all (fun x => decide (x ∈ orig))
  · py_simp [Draw_reorder_indices, Function.comp_def, memVal_ints, h]
  · py_simp [Draw_reorder_indices, Function.comp_def, memVal_ints, h]
    exact filter_notin orig order

end Qco.DrawSrc
