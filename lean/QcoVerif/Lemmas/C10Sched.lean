import QcoVerif.Lemmas.C10Order
/-
  C10, library clause: a *verified checker of symbolic schedules*.

  A world (the heap the model builds for a recorded constructor program) is given as data.  A `Table` assigns
  to every object a start, a lead and a span as LINEAR FORMS in four non-negative variables; a `Regime` says
  how the four global durations (and the decoupling wait) are expressed in those variables.  `checkTable`
  checks the table against the LOCAL equations of the evaluator (duration strategy, `linkStart`, `leadSpan`
  with minima / maxima justified by coefficient-wise dominance).  `agree_all`: if the check succeeds then,
  for EVERY non-negative value of the variables, whenever the evaluator `evStart/evEnd/…` answers on the
  world with those durations, it answers the value of the table.  The table itself is an untrusted
  certificate (tools/gen_c10_programs.py computes it).
-/
namespace Qco.C10

open Qco

/-! ### linear forms -/

structure Vars where
  x : Int
  y : Int
  fl : Int
  rs : Int

def Vars.Nonneg (v : Vars) : Prop := 0 ≤ v.x ∧ 0 ≤ v.y ∧ 0 ≤ v.fl ∧ 0 ≤ v.rs

/-- `c + a·x + b·y + f·fl + r·rs`. -/
structure LinForm where
  c : Int := 0
  a : Int := 0
  b : Int := 0
  f : Int := 0
  r : Int := 0
  deriving DecidableEq, Repr, Inhabited

namespace LinForm

def eval (p : LinForm) (v : Vars) : Int := p.c + p.a * v.x + p.b * v.y + p.f * v.fl + p.r * v.rs
def zero : LinForm := {}
def const (k : Int) : LinForm := { c := k }
def add (p q : LinForm) : LinForm := ⟨p.c + q.c, p.a + q.a, p.b + q.b, p.f + q.f, p.r + q.r⟩
def sub (p q : LinForm) : LinForm := ⟨p.c - q.c, p.a - q.a, p.b - q.b, p.f - q.f, p.r - q.r⟩
/-- all coefficients non-negative: the form is non-negative for all non-negative variables. -/
def isNonneg (p : LinForm) : Bool :=
  decide (0 ≤ p.c) && decide (0 ≤ p.a) && decide (0 ≤ p.b) && decide (0 ≤ p.f) && decide (0 ≤ p.r)
def isZero (p : LinForm) : Bool := decide (p = zero)

@[simp] theorem eval_zero (v : Vars) : zero.eval v = 0 := by simp [eval, zero]
@[simp] theorem eval_const (k : Int) (v : Vars) : (const k).eval v = k := by simp [eval, const]
theorem eval_add (p q : LinForm) (v : Vars) : (p.add q).eval v = p.eval v + q.eval v := by
  simp only [eval, add, Int.add_mul]; omega
theorem eval_sub (p q : LinForm) (v : Vars) : (p.sub q).eval v = p.eval v - q.eval v := by
  simp only [eval, sub, Int.sub_mul]; omega

theorem eval_nonneg {p : LinForm} (h : p.isNonneg = true) {v : Vars} (hv : v.Nonneg) : 0 ≤ p.eval v := by
  simp only [isNonneg, Bool.and_eq_true, decide_eq_true_eq] at h
  obtain ⟨⟨⟨⟨h1, h2⟩, h3⟩, h4⟩, h5⟩ := h
  obtain ⟨v1, v2, v3, v4⟩ := hv
  have := Int.mul_nonneg h2 v1
  have := Int.mul_nonneg h3 v2
  have := Int.mul_nonneg h4 v3
  have := Int.mul_nonneg h5 v4
  simp only [eval]; omega

/-- `q - p` non-negative coefficient-wise ⇒ `p ≤ q` pointwise. -/
theorem le_of_sub_nonneg {p q : LinForm} (h : (q.sub p).isNonneg = true) {v : Vars} (hv : v.Nonneg) :
    p.eval v ≤ q.eval v := by
  have := eval_nonneg h hv
  rw [eval_sub] at this; omega

end LinForm

/-! ### tables, regimes -/

structure Row where
  start : LinForm := {}
  lead : LinForm := {}
  span : LinForm := {}
  lo : Nat := 0      -- composite: node whose interval starts earliest
  hi : Nat := 0      -- composite: node whose interval ends latest
  hd : Nat := 0      -- composite: depth-1 node that starts earliest
  deriving Inhabited, Repr

abbrev Table := Array Row

def Table.row (T : Table) (o : Nat) : Row := T.getD o default

def ivLo (T : Table) (m : Nat) : LinForm := (T.row m).start.sub (T.row m).lead
def ivHi (T : Table) (m : Nat) : LinForm := (ivLo T m).add (T.row m).span
def endF (T : Table) (m : Nat) : LinForm := (T.row m).start.add (T.row m).span

/-- how the readout / microwave durations and the decoupling wait read in the variables `x, y`
    (flux and reset are the variables `fl`, `rs`). -/
structure Regime where
  ro : LinForm
  mw : LinForm
  wait : LinForm

def Regime.world (R : Regime) (w : World) (v : Vars) : World :=
  { w with gRo := R.ro.eval v, gMw := R.mw.eval v, gFl := v.fl, gRs := v.rs }

/-- the regime's `wait` really is the decoupling wait `max 0 ((readout − microwave) / 2)`. -/
def Regime.Valid (R : Regime) (v : Vars) : Prop :=
  max 0 ((R.ro.eval v - R.mw.eval v) / 2) = R.wait.eval v

def durForm (R : Regime) (w : World) : Dur → LinForm
  | .fixed d => .const d
  | .glob .ro => R.ro
  | .glob .mw => R.mw
  | .glob .fl => { f := 1 }
  | .glob .rs => { r := 1 }
  | .reg key => .const (((w.dreg.find? (·.1 == key)).map (·.2)).getD 0)
  | .decoupling => R.wait

theorem leafDur_eq (R : Regime) (w : World) (v : Vars) (hR : R.Valid v) (d : Dur) :
    (R.world w v).leafDur d = (durForm R w d).eval v := by
  cases d with
  | fixed d => simp [World.leafDur, durForm]
  | glob k => cases k <;> simp [World.leafDur, World.gdur, Regime.world, durForm, LinForm.eval]
  | reg key => simp [World.leafDur, durForm, Regime.world]
  | decoupling => simp only [World.leafDur, durForm, Regime.world]; exact hR

@[simp] theorem world_op (R : Regime) (w : World) (v : Vars) (o : Nat) : (R.world w v).op o = w.op o := rfl
@[simp] theorem world_lnk (R : Regime) (w : World) (v : Vars) (l : Nat) : (R.world w v).lnk l = w.lnk l := rfl

/-! ### the checker -/

def linkStartForm (rel : Rel) (s e d : LinForm) : LinForm :=
  match rel with
  | .fb => e
  | .js => s
  | .je => e.sub d

theorem linkStartForm_eval (rel : Rel) (s e d : LinForm) (v : Vars) :
    (linkStartForm rel s e d).eval v = linkStart rel (some (s.eval v, e.eval v)) (d.eval v) := by
  cases rel <;> simp [linkStartForm, linkStart, LinForm.eval_sub]

def nodesOf (g : List Entry) : List Nat := g.map (·.node)
def headsOf (g : List Entry) : List Nat := (g.filter (fun e => e.parent.isNone)).map (·.node)

/-- lead / span of object `o`. -/
def checkSpan (w : World) (R : Regime) (T : Table) (o : Nat) : Bool :=
  let op := w.op o
  let row := T.row o
  if op.isComp then
    if op.graph.isEmpty then decide (row.lead = .zero) && decide (row.span = .zero)
    else
      (nodesOf op.graph).all (fun m => decide (m < w.ops.size)) &&
      (nodesOf op.graph).contains row.lo && (nodesOf op.graph).contains row.hi &&
      (headsOf op.graph).contains row.hd &&
      (nodesOf op.graph).all (fun m => ((ivLo T m).sub (ivLo T row.lo)).isNonneg) &&
      (nodesOf op.graph).all (fun m => ((ivHi T row.hi).sub (ivHi T m)).isNonneg) &&
      (headsOf op.graph).all (fun h => ((T.row h).start.sub (T.row row.hd).start).isNonneg) &&
      decide (row.lead = (T.row row.hd).start.sub (ivLo T row.lo)) &&
      decide (row.span = (ivHi T row.hi).sub (ivLo T row.lo))
  else decide (row.lead = .zero) && decide (row.span = durForm R w op.dur)

/-- start of object `o` (single links, and multi links without references; see `checkTable`). -/
def checkStart (w : World) (T : Table) (o : Nat) : Bool :=
  let row := T.row o
  let L := w.lnk (w.op o).link
  if L.multi then L.refs.isEmpty && decide (row.start = .zero)
  else
    match L.refs.head? with
    | none => decide (row.start = .zero)
    | some r => decide (r < w.ops.size) &&
        decide (row.start = linkStartForm L.rel (T.row r).start (endF T r) row.span)

def checkTable (w : World) (R : Regime) (T : Table) : Bool :=
  (List.range w.ops.size).all (fun o => checkSpan w R T o && checkStart w T o)

theorem checkTable_obj {w : World} {R : Regime} {T : Table} (h : checkTable w R T = true) {o : Nat}
    (ho : o < w.ops.size) : checkSpan w R T o = true ∧ checkStart w T o = true := by
  unfold checkTable at h
  rw [List.all_eq_true] at h
  have := h o (List.mem_range.mpr ho)
  simpa [Bool.and_eq_true] using this

theorem mem_nodesOf {g : List Entry} {n : Nat} : n ∈ nodesOf g ↔ n ∈ listing g := by
  rw [mem_listing]; unfold nodesOf; rw [List.mem_map]

theorem mem_headsOf {g : List Entry} {n : Nat} : n ∈ headsOf g ↔ n ∈ heads g := by
  rw [mem_heads]; unfold headsOf; rw [List.mem_map]
  constructor
  · rintro ⟨e, he, rfl⟩
    rw [List.mem_filter] at he
    refine ⟨e, he.1, ?_, rfl⟩
    cases hp : e.parent with
    | none => rfl
    | some p => have := he.2; simp [hp] at this
  · rintro ⟨e, he, hp, rfl⟩
    exact ⟨e, List.mem_filter.mpr ⟨he, by simp [hp]⟩, rfl⟩

/-! ### soundness: the evaluator agrees with a checked table -/

structure Agree (w' : World) (T : Table) (v : Vars) (n f : Nat) : Prop where
  ls : ∀ o, o < n → ∀ l s, evLeadSpan w' f o = some (l, s) →
        l = (T.row o).lead.eval v ∧ s = (T.row o).span.eval v
  st : ∀ o, o < n → ∀ s, evStart w' f o = some s → s = (T.row o).start.eval v
  en : ∀ o, o < n → ∀ e, evEnd w' f o = some e → e = (endF T o).eval v
  iv : ∀ o, o < n → ∀ a b, evInterval w' f o = some (a, b) →
        a = (ivLo T o).eval v ∧ b = (ivHi T o).eval v

theorem agree_zero (w' : World) (T : Table) (v : Vars) (n : Nat) : Agree w' T v n 0 :=
  ⟨fun o _ l s h => (by rw [evLeadSpan.eq_1] at h; cases h),
   fun o _ s h => (by rw [evStart.eq_1] at h; cases h),
   fun o _ e h => (by rw [evEnd.eq_1] at h; cases h),
   fun o _ a b h => (by rw [evInterval.eq_1] at h; cases h)⟩

theorem agree_succ {w : World} {R : Regime} {T : Table} (hok : checkTable w R T = true) {v : Vars}
    (hv : v.Nonneg) (hR : R.Valid v) {f : Nat} (ih : Agree (R.world w v) T v w.ops.size f) :
    Agree (R.world w v) T v w.ops.size (f + 1) := by
  refine ⟨?_, ?_, ?_, ?_⟩
  · -- lead / span
    intro o ho l s h
    have hc := (checkTable_obj hok ho).1
    unfold checkSpan at hc
    rw [evLeadSpan.eq_2] at h
    rw [show (R.world w v).op o = w.op o from rfl] at h
    by_cases hcomp : (w.op o).isComp = true
    · rw [if_pos hcomp] at h
      simp only [hcomp, if_true] at hc
      by_cases hemp : (w.op o).graph.isEmpty = true
      · rw [if_pos hemp] at h
        simp only [hemp, if_true, Bool.and_eq_true, decide_eq_true_eq] at hc
        simp only [Option.some.injEq, Prod.mk.injEq] at h
        rw [hc.1, hc.2]; simp [h.1.symm, h.2.symm]
      · rw [if_neg hemp] at h
        simp only [hemp, Bool.false_eq_true, if_false, Bool.and_eq_true, decide_eq_true_eq,
          List.all_eq_true, List.contains_iff_mem] at hc
        obtain ⟨⟨⟨⟨⟨⟨⟨⟨hlt, hlo⟩, hhi⟩, hhd⟩, hdomLo⟩, hdomHi⟩, hdomHd⟩, hlead⟩, hspan⟩ := hc
        cases h1 : (heads (w.op o).graph).mapM (fun n => evStart (R.world w v) f n) with
        | none => rw [h1] at h; cases h
        | some hs =>
          rw [h1] at h
          cases h2 : (listing (w.op o).graph).mapM (fun n => evInterval (R.world w v) f n) with
          | none => rw [h2] at h; cases h
          | some ivs =>
            rw [h2] at h
            simp only [Option.bind_eq_bind, Option.bind_some, Option.some.injEq, leadSpan,
              Prod.mk.injEq] at h
            -- minimum of the head starts
            have hmin : minOf hs = (T.row (T.row o).hd).start.eval v := by
              apply minOf_eq
              · obtain ⟨s', hs', hf'⟩ := mapM_mem_left _ _ hs h1 _ (mem_headsOf.mp hhd)
                have hlt' : (T.row o).hd < w.ops.size :=
                  hlt _ (mem_nodesOf.mpr (heads_subset_listing (mem_headsOf.mp hhd)))
                rw [← ih.st _ hlt' _ hf']; exact hs'
              · intro x hx
                obtain ⟨n', hn', hf'⟩ := mapM_mem_right _ _ hs h1 x hx
                have hlt' : n' < w.ops.size := hlt _ (mem_nodesOf.mpr (heads_subset_listing hn'))
                rw [ih.st _ hlt' _ hf']
                exact LinForm.le_of_sub_nonneg (hdomHd _ (mem_headsOf.mpr hn')) hv
            -- earliest interval start
            have hearly : minOf (ivs.map (·.1)) = (ivLo T (T.row o).lo).eval v := by
              apply minOf_eq
              · obtain ⟨iv', hiv', hf'⟩ := mapM_mem_left _ _ ivs h2 _ (mem_nodesOf.mp hlo)
                have := (ih.iv _ (hlt _ hlo) iv'.1 iv'.2 hf').1
                rw [← this]; exact List.mem_map.mpr ⟨iv', hiv', rfl⟩
              · intro x hx
                obtain ⟨iv', hiv', rfl⟩ := List.mem_map.mp hx
                obtain ⟨n', hn', hf'⟩ := mapM_mem_right _ _ ivs h2 iv' hiv'
                have hn'' := mem_nodesOf.mpr hn'
                rw [(ih.iv _ (hlt _ hn'') iv'.1 iv'.2 hf').1]
                exact LinForm.le_of_sub_nonneg (hdomLo _ hn'') hv
            -- latest interval end
            have hlate : maxOf (ivs.map (·.2)) = (ivHi T (T.row o).hi).eval v := by
              apply maxOf_eq
              · obtain ⟨iv', hiv', hf'⟩ := mapM_mem_left _ _ ivs h2 _ (mem_nodesOf.mp hhi)
                have := (ih.iv _ (hlt _ hhi) iv'.1 iv'.2 hf').2
                rw [← this]; exact List.mem_map.mpr ⟨iv', hiv', rfl⟩
              · intro x hx
                obtain ⟨iv', hiv', rfl⟩ := List.mem_map.mp hx
                obtain ⟨n', hn', hf'⟩ := mapM_mem_right _ _ ivs h2 iv' hiv'
                have hn'' := mem_nodesOf.mpr hn'
                rw [(ih.iv _ (hlt _ hn'') iv'.1 iv'.2 hf').2]
                exact LinForm.le_of_sub_nonneg (hdomHi _ hn'') hv
            rw [hlead, hspan, LinForm.eval_sub, LinForm.eval_sub, ← hmin, ← hearly, ← hlate]
            exact ⟨h.1.symm, h.2.symm⟩
    · rw [if_neg hcomp] at h
      simp only [hcomp, Bool.false_eq_true, if_false, Bool.and_eq_true, decide_eq_true_eq] at hc
      simp only [Option.some.injEq, Prod.mk.injEq] at h
      rw [hc.1, hc.2, ← leafDur_eq R w v hR]
      simp [h.1.symm, h.2.symm]
  · -- start
    intro o ho s h
    have hc := (checkTable_obj hok ho).2
    unfold checkStart at hc
    rw [evStart_succ] at h
    rw [show (R.world w v).op o = w.op o from rfl,
        show (R.world w v).lnk (w.op o).link = w.lnk (w.op o).link from rfl] at h
    cases h1 : evDur (R.world w v) f o with
    | none => rw [h1] at h; cases h
    | some d =>
      rw [h1] at h
      -- the duration agrees with the table's span
      have hd : d = (T.row o).span.eval v := by
        cases f with
        | zero => rw [evDur.eq_1] at h1; cases h1
        | succ f' =>
          -- use monotonicity to read the lead/span at fuel f'+1
          rw [evDur.eq_2] at h1
          cases h3 : evLeadSpan (R.world w v) f' o with
          | none => rw [h3] at h1; cases h1
          | some ls =>
            rw [h3] at h1
            simp only [Option.map_some, Option.some.injEq] at h1
            have h4 := (ev_mono_step (R.world w v) f').1 o ls h3
            have := (ih.ls o ho ls.1 ls.2 h4).2
            rw [← h1]; exact this
      simp only [Option.bind_some] at h
      by_cases hm : (w.lnk (w.op o).link).multi = true
      · simp only [hm, if_true, Bool.and_eq_true, decide_eq_true_eq, List.isEmpty_iff] at hc
        cases f with
        | zero => rw [evRef.eq_1] at h; cases h
        | succ f' =>
          rw [evRef.eq_2] at h
          simp only [world_lnk, hm, Bool.not_true, Bool.false_eq_true, if_false, hc.1] at h
          simp only [Option.bind_some, Option.some.injEq] at h
          rw [hc.2]; simp [linkStart] at h; simp [h.symm]
      · have hm' : (w.lnk (w.op o).link).multi = false := by simpa using hm
        simp only [hm', Bool.false_eq_true, if_false] at hc
        cases f with
        | zero => rw [evRef.eq_1] at h; cases h
        | succ f' =>
          rw [evRef.eq_2] at h
          simp only [world_lnk, hm', Bool.not_false, if_true, Option.bind_some] at h
          cases hr : (w.lnk (w.op o).link).refs.head? with
          | none =>
            rw [hr] at h hc
            simp only [decide_eq_true_eq] at hc
            simp only [Option.some.injEq] at h
            rw [hc]; simp [linkStart] at h; simp [h.symm]
          | some r =>
            rw [hr] at h hc
            simp only [Bool.and_eq_true, decide_eq_true_eq] at hc
            obtain ⟨hrlt, hstart⟩ := hc
            simp only at h
            cases h5 : evStart (R.world w v) (f' + 1) r with
            | none => rw [h5] at h; cases h
            | some sr =>
              rw [h5] at h
              cases h6 : evEnd (R.world w v) (f' + 1) r with
              | none => rw [h6] at h; cases h
              | some er =>
                rw [h6] at h
                simp only [Option.bind_some, Option.some.injEq] at h
                rw [hstart, linkStartForm_eval, ← ih.st r hrlt sr h5, ← ih.en r hrlt er h6, ← hd]
                exact h.symm
  · -- end
    intro o ho e h
    rw [evEnd.eq_2] at h
    cases h1 : evStart (R.world w v) f o with
    | none => rw [h1] at h; cases h
    | some s =>
      rw [h1] at h
      cases h2 : evDur (R.world w v) f o with
      | none => rw [h2] at h; cases h
      | some d =>
        rw [h2] at h
        simp only [Option.bind_eq_bind, Option.bind_some, Option.some.injEq] at h
        have hd : d = (T.row o).span.eval v := by
          cases f with
          | zero => rw [evDur.eq_1] at h2; cases h2
          | succ f' =>
            rw [evDur.eq_2] at h2
            cases h3 : evLeadSpan (R.world w v) f' o with
            | none => rw [h3] at h2; cases h2
            | some ls =>
              rw [h3] at h2
              simp only [Option.map_some, Option.some.injEq] at h2
              have h4 := (ev_mono_step (R.world w v) f').1 o ls h3
              have := (ih.ls o ho ls.1 ls.2 h4).2
              rw [← h2]; exact this
        rw [endF, LinForm.eval_add, ← ih.st o ho s h1, ← hd]; exact h.symm
  · -- interval
    intro o ho a b h
    rw [evInterval.eq_2] at h
    cases h1 : evStart (R.world w v) f o with
    | none => rw [h1] at h; cases h
    | some s =>
      rw [h1] at h
      cases h2 : evLeadSpan (R.world w v) f o with
      | none => rw [h2] at h; cases h
      | some ls =>
        rw [h2] at h
        obtain ⟨l, d⟩ := ls
        simp only [Option.bind_eq_bind, Option.bind_some, Option.some.injEq, Prod.mk.injEq] at h
        have hs := ih.st o ho s h1
        have hls := ih.ls o ho l d h2
        rw [ivHi, LinForm.eval_add, ivLo, LinForm.eval_sub, ← hs, ← hls.1, ← hls.2]
        exact ⟨h.1.symm, h.2.symm⟩

/-- **Soundness of the table check**: every answer of the evaluator, under every non-negative value of the
    variables, is the value of the table. -/
theorem agree_all {w : World} {R : Regime} {T : Table} (hok : checkTable w R T = true) {v : Vars}
    (hv : v.Nonneg) (hR : R.Valid v) : ∀ f, Agree (R.world w v) T v w.ops.size f := by
  intro f
  induction f with
  | zero => exact agree_zero _ _ _ _
  | succ f ih => exact agree_succ hok hv hR ih

theorem start_eq_table {w : World} {R : Regime} {T : Table} (hok : checkTable w R T = true) {v : Vars}
    (hv : v.Nonneg) (hR : R.Valid v) {o : Nat} (ho : o < w.ops.size) {s : Int}
    (h : Start (R.world w v) o s) : s = (T.row o).start.eval v := by
  obtain ⟨f, hf⟩ := h
  exact (agree_all hok hv hR f).st o ho s hf

theorem end_eq_table {w : World} {R : Regime} {T : Table} (hok : checkTable w R T = true) {v : Vars}
    (hv : v.Nonneg) (hR : R.Valid v) {o : Nat} (ho : o < w.ops.size) {e : Int}
    (h : End (R.world w v) o e) : e = (endF T o).eval v := by
  obtain ⟨f, hf⟩ := h
  exact (agree_all hok hv hR f).en o ho e hf

/-! ### the no-overlap check on a table -/

/-- leaf operations below composite `c` (sub-circuits expanded), by recursion on the nesting depth. -/
def contents (w : World) : Nat → Nat → List Nat
  | 0, _ => []
  | f+1, c => (w.op c).graph.flatMap (fun e =>
      if (w.op e.node).isComp then contents w f e.node else [e.node])

/-- two leaf operations share a channel (`ChannelIdentifier` matching, `ALL` matches everything). -/
def sharesChannel (a b : Op) : Bool := a.leafChans.any (fun x => b.leafChans.any (fun y => x.matches y))

/-- symbolic disjointness of two rows: one ends (coefficient-wise) before the other starts. -/
def disjointRows (T : Table) (a b : Nat) : Bool :=
  ((T.row b).start.sub (endF T a)).isNonneg || ((T.row a).start.sub (endF T b)).isNonneg

/-- does the pair have to be disjoint? both of non-zero length, or one of them a barrier. -/
def mustBeDisjoint (w : World) (T : Table) (a b : Nat) : Bool :=
  sharesChannel (w.op a) (w.op b) &&
  ((w.op a).cls == .barrier || (w.op b).cls == .barrier ||
   (!(T.row a).span.isZero && !(T.row b).span.isZero))

def checkPairs (w : World) (T : Table) (xs : List Nat) : Bool :=
  xs.all (fun a => decide (a < w.ops.size) &&
    xs.all (fun b => a == b || !mustBeDisjoint w T a b || disjointRows T a b))

/-- the complete check of one recorded circuit under one regime. -/
def scheduleOk (w : World) (R : Regime) (T : Table) (c : Nat) : Bool :=
  checkTable w R T && checkPairs w T (contents w (w.ops.size + 2) c)

/-- **No double booking** of circuit `c` in world `w`: any two distinct leaf operations below `c` that share a
    channel and are both of non-zero length, or one of which is a barrier, occupy disjoint intervals. -/
def NoDoubleBooking (w : World) (c : Nat) : Prop :=
  ∀ a ∈ contents w (w.ops.size + 2) c, ∀ b ∈ contents w (w.ops.size + 2) c, a ≠ b →
    sharesChannel (w.op a) (w.op b) = true →
    ∀ sa ea sb eb, Start w a sa → End w a ea → Start w b sb → End w b eb →
      ((sa < ea ∧ sb < eb) ∨ (w.op a).cls = .barrier ∨ (w.op b).cls = .barrier) →
      ¬ (sa < eb ∧ sb < ea)

theorem contents_world (R : Regime) (w : World) (v : Vars) (f c : Nat) :
    contents (R.world w v) f c = contents w f c := by
  induction f generalizing c with
  | zero => rfl
  | succ f ih =>
    show ((w.op c).graph.flatMap (fun e =>
      if (w.op e.node).isComp then contents (R.world w v) f e.node else [e.node])) = _
    simp only [ih]
    rfl

/-- **Soundness of `scheduleOk`**: a successful check excludes double booking for every non-negative value
    of the variables. -/
theorem scheduleOk_sound {w : World} {R : Regime} {T : Table} {c : Nat} (hok : scheduleOk w R T c = true)
    {v : Vars} (hv : v.Nonneg) (hR : R.Valid v) : NoDoubleBooking (R.world w v) c := by
  unfold scheduleOk at hok
  rw [Bool.and_eq_true] at hok
  obtain ⟨htab, hpairs⟩ := hok
  intro a ha b hb hab hsh sa ea sb eb hsa hea hsb heb hreq
  have hsz : (R.world w v).ops.size = w.ops.size := rfl
  rw [hsz, contents_world] at ha hb
  unfold checkPairs at hpairs
  rw [List.all_eq_true] at hpairs
  have hpa := hpairs a ha
  have hpb := hpairs b hb
  rw [Bool.and_eq_true, decide_eq_true_eq, List.all_eq_true] at hpa hpb
  have halt := hpa.1
  have hblt := hpb.1
  have hpab := hpa.2 b hb
  have e1 := start_eq_table htab hv hR halt hsa
  have e2 := end_eq_table htab hv hR halt hea
  have e3 := start_eq_table htab hv hR hblt hsb
  have e4 := end_eq_table htab hv hR hblt heb
  simp only [world_op] at hsh hreq
  -- the pair must be disjoint according to the checker
  have hmust : mustBeDisjoint w T a b = true := by
    unfold mustBeDisjoint
    rw [Bool.and_eq_true]
    refine ⟨hsh, ?_⟩
    rcases hreq with ⟨h1, h2⟩ | h | h
    · have za : (T.row a).span.isZero = false := by
        cases hz : (T.row a).span.isZero with
        | false => rfl
        | true =>
          simp only [LinForm.isZero, decide_eq_true_eq] at hz
          rw [endF, LinForm.eval_add, hz, LinForm.eval_zero] at e2; omega
      have zb : (T.row b).span.isZero = false := by
        cases hz : (T.row b).span.isZero with
        | false => rfl
        | true =>
          simp only [LinForm.isZero, decide_eq_true_eq] at hz
          rw [endF, LinForm.eval_add, hz, LinForm.eval_zero] at e4; omega
      simp [za, zb]
    · simp [h]
    · simp [h]
  have hne : (a == b) = false := by simpa using hab
  rw [hne, hmust] at hpab
  simp only [Bool.not_true, Bool.false_or] at hpab
  unfold disjointRows at hpab
  rw [Bool.or_eq_true] at hpab
  rcases hpab with h | h
  · have := LinForm.le_of_sub_nonneg h hv
    omega
  · have := LinForm.le_of_sub_nonneg h hv
    omega

/-! ### the two regimes of the decoupling wait -/

/-- readout ≥ microwave with an even difference: microwave = y, readout = y + 2x, wait = x. -/
def regimeA : Regime := { ro := { a := 2, b := 1 }, mw := { b := 1 }, wait := { a := 1 } }
/-- readout < microwave: readout = x, microwave = x + y + 1, wait = 0. -/
def regimeB : Regime := { ro := { a := 1 }, mw := { c := 1, a := 1, b := 1 }, wait := {} }

theorem regimeA_valid {v : Vars} (hv : v.Nonneg) : regimeA.Valid v := by
  obtain ⟨h1, _, _, _⟩ := hv
  simp only [Regime.Valid, regimeA, LinForm.eval]
  omega

theorem regimeB_valid {v : Vars} (hv : v.Nonneg) : regimeB.Valid v := by
  obtain ⟨h1, h2, _, _⟩ := hv
  simp only [Regime.Valid, regimeB, LinForm.eval]
  omega

/-- the world with the four global durations set. -/
def withDurations (w : World) (ro mw fl rs : Int) : World :=
  { w with gRo := ro, gMw := mw, gFl := fl, gRs := rs }

/-- A circuit whose schedule checks in both regimes is free of double booking for ALL non-negative
    durations (when readout ≥ microwave the difference has to be even: the integer time unit can always be
    halved, the decoupling wait is half the difference). -/
theorem noDoubleBooking_of_both_regimes {w : World} {c : Nat} {TA TB : Table}
    (hA : scheduleOk w regimeA TA c = true) (hB : scheduleOk w regimeB TB c = true)
    {ro mw fl rs : Int} (hro : 0 ≤ ro) (hmw : 0 ≤ mw) (hfl : 0 ≤ fl) (hrs : 0 ≤ rs)
    (heven : mw ≤ ro → (ro - mw) % 2 = 0) : NoDoubleBooking (withDurations w ro mw fl rs) c := by
  by_cases hle : mw ≤ ro
  · have h0 : 0 ≤ (ro - mw) / 2 := by omega
    have hv : (Vars.mk ((ro - mw) / 2) mw fl rs).Nonneg := ⟨h0, hmw, hfl, hrs⟩
    have := scheduleOk_sound hA hv (regimeA_valid hv)
    have hw : regimeA.world w ⟨(ro - mw) / 2, mw, fl, rs⟩ = withDurations w ro mw fl rs := by
      have := heven hle
      simp only [Regime.world, regimeA, LinForm.eval, withDurations]
      congr 1 <;> omega
    rw [hw] at this; exact this
  · have h0 : 0 ≤ mw - ro - 1 := by omega
    have hv : (Vars.mk ro (mw - ro - 1) fl rs).Nonneg := ⟨hro, h0, hfl, hrs⟩
    have := scheduleOk_sound hB hv (regimeB_valid hv)
    have hw : regimeB.world w ⟨ro, mw - ro - 1, fl, rs⟩ = withDurations w ro mw fl rs := by
      simp only [Regime.world, regimeB, LinForm.eval, withDurations]
      congr 1 <;> omega
    rw [hw] at this; exact this

/-- one recorded library circuit: the world the model builds for the recorded constructor program, the circuit
    that the constructor returned, and a schedule table per regime (certificates). -/
structure Case where
  name : String
  w : World
  c : Nat
  tA : Table
  tB : Table

def Case.ok (x : Case) : Bool := scheduleOk x.w regimeA x.tA x.c && scheduleOk x.w regimeB x.tB x.c

end Qco.C10
