"""Generic correspondence loop over build programs: implementation vs Lean heap model, plus probes
(property predicates evaluated on the implementation's own objects and answers)."""
from __future__ import annotations
import json
import multiprocessing as mp
import os
import time

from . import common, progs


def _run_one(args):
    """Worker: run one program on the implementation with probes. Returns (out, probe_failures, exc)."""
    prog, probe_names, clear_cache = args[:3]
    from . import probes as P
    probe_objs = [P.REGISTRY[n]() for n in probe_names]
    run_cls = progs.ImplRun
    if len(args) > 3 and args[3]:
        import importlib
        mod, name = args[3].rsplit('.', 1)
        run_cls = getattr(importlib.import_module(mod), name)
    r = run_cls(clear_cache=clear_cache)
    out = []
    fails = []
    import contextlib, io, warnings
    try:
        with contextlib.redirect_stderr(io.StringIO()), warnings.catch_warnings():
            warnings.simplefilter('ignore')
            for i, cmd in enumerate(prog):
                try:
                    for p in probe_objs:
                        p.before(r, i, cmd)
                    ans = r.step(cmd)
                    out.append(ans)
                    for p in probe_objs:
                        for f in p.after(r, i, cmd, ans) or []:
                            fails.append({'probe': p.name, 'at': i, **f})
                except RecursionError:
                    # raised by the command itself, or by a probe looking at the state after it (then the command's own answer
                    # is already recorded: appending a second entry for the same command would misalign `out` and `prog`)
                    if len(out) <= i:
                        out.append('undef')
                    fails.append({'probe': 'undef', 'at': i, 'what': 'listing or time query recurses without bound'})
                    break
                except progs.NonDyadic as e:
                    if len(out) > i:
                        out.pop()
                    out.append(f'EXC:NonDyadic:{e}')
                    break
                except AssertionError as e:
                    if len(out) > i:
                        out.pop()
                    out.append(f'EXC:Assert:{e}')
                    break
                except Exception as e:  # noqa
                    if len(out) > i:
                        out.pop()
                    out.append(f'EXC:{type(e).__name__}:{str(e)[:120]}')
                    break
    finally:
        r.close()
    return out, fails


def run_impl_many(programs, probe_names, clear_cache=False, jobs=None, run_cls=None):
    """run_cls: dotted name of an ImplRun subclass (string, so that it pickles)."""
    jobs = jobs or min(16, os.cpu_count() or 1)
    args = [(p, probe_names, clear_cache, run_cls) for p in programs]
    if jobs <= 1 or len(programs) < 32:
        return [_run_one(a) for a in args]
    with mp.get_context('fork').Pool(jobs) as pool:
        return pool.map(_run_one, args, chunksize=max(1, len(args) // (jobs * 8)))


def run_model_many(programs, ambient, ident_keys=False):
    """ident_keys=True runs the diagnostic twin of the model whose copy lookup is keyed by object identity
    (no value equality): the only difference to the model proper, used to attribute failures to finding R3."""
    lines = []
    spans = []
    pre = 3 if ident_keys else 2
    for p in programs:
        l = progs.to_lines(p, ambient)
        if ident_keys:
            l = l[:2] + ['heap identkeys'] + l[2:]
        spans.append((len(lines), len(l)))
        lines += l
    res = common.run_driver(lines)
    return [res[a + pre:a + k] for a, k in spans]


def value_equality_matters(prog, ambient):
    """True iff the heap the model builds for `prog` differs from the heap its identity-keyed twin builds:
    some copy lookup conflated distinct objects that compare equal by value (the mechanism of finding R3)."""
    p = [(['ops', c[1]] if c[0] == 'plot' else c) for c in prog if c[0] != 'collisions'] + [['dump']]
    a = run_model_many([p], ambient)[0][-1]
    b = run_model_many([p], ambient, ident_keys=True)[0][-1]
    return a != b


def compare(prog, impl_out, model_out):
    """First disagreement between implementation and model answers, or None.
    Returns (index, impl, model). 'undef' on both sides ends the comparison."""
    for i, io in enumerate(impl_out):
        if io is None:
            continue
        mo = model_out[i] if i < len(model_out) else '<missing>'
        if io.startswith('EXC:'):
            return (i, io, mo)
        if io == 'undef' and mo == 'undef':
            return None     # both sides cannot answer from here on (cyclic relation)
        if io == 'undef':
            # the implementation recursed without bound at command i; the model must be undefined at
            # its next observation (times are only evaluated there)
            later = [model_out[j] for j in range(i, min(len(model_out), len(prog))) if prog[j][0] in ('list', 'dur')]
            if prog[i][0] in ('list', 'dur'):
                return None if mo == 'undef' else (i, io, mo)
            return None if (not later or 'undef' in later) else (i, io, later[0])
        if io != mo:
            return (i, io, mo)
    return None


def shrink(prog, still_fails, max_steps=400, max_seconds=90):
    """Delta-debugging over program lines; keeps handle/circuit numbering consistent by only dropping
    commands that do not create handles or circuits, or whole suffixes.  Bounded in steps and in time (a program with a
    thousand operations costs seconds per evaluation: the un-minimised program is still a valid replay)."""
    import time as _time
    t_end = _time.time() + max_seconds
    cur = list(prog)
    steps = 0
    # drop suffix after the failing point is handled by the caller; here: try removing single commands
    changed = True
    while changed and steps < max_steps:
        changed = False
        for i in range(len(cur) - 1, -1, -1):
            cand = _drop(cur, i)
            if cand is None:
                continue
            steps += 1
            if steps > max_steps or _time.time() > t_end:
                steps = max_steps + 1
                break
            try:
                if still_fails(cand):
                    cur = cand
                    changed = True
            except Exception:
                pass
    return cur


def _drop(prog, i):
    """Remove command i, renumbering later references to handles / circuits. None if impossible."""
    cmd = prog[i]
    k = cmd[0]
    creates_handle = k in ('op', 'sub')
    creates_circ = k in ('new', 'copy')
    if creates_circ and i == 0:
        return None
    # index of the handle / circuit created by command i
    h = sum(1 for c in prog[:i] if c[0] in ('op', 'sub'))
    ci = sum(1 for c in prog[:i] if c[0] in ('new', 'copy'))
    out = []
    for j, c in enumerate(prog):
        if j == i:
            continue
        c = json.loads(json.dumps(c))
        if j > i:
            if creates_handle and c[0] == 'op' and c[9] is not None:
                if isinstance(c[9][0], list):
                    hs = [x - 1 if x > h else x for x in c[9][0] if x != h]
                    c[9] = [hs, c[9][1]] if hs else None
                elif c[9][0] == h:
                    c[9] = None
                elif c[9][0] > h:
                    c[9][0] -= 1
            if creates_circ:
                def fix(x):
                    if x == ci:
                        return None
                    return x - 1 if x > ci else x
                if c[0] == 'op':
                    a = fix(c[1])
                    b = fix(c[7])
                    if a is None:
                        continue
                    c[1] = a
                    c[7] = a if b is None else b
                elif c[0] == 'sub':
                    a, b = fix(c[1]), fix(c[2])
                    if a is None or b is None:
                        # dropping a sub removes a handle: too intrusive, give up this candidate
                        return None
                    c[1], c[2] = a, b
                elif c[0] in ('list', 'dur', 'chans', 'reps', 'apply', 'flatten', 'copy'):
                    a = fix(c[1])
                    if a is None:
                        if c[0] == 'copy':
                            return None
                        continue
                    c[1] = a
        out.append(c)
    return out
