"""C10 — library circuits never double-book a qubit channel.

Implementation side: every constructor input x its own random POSITIVE global duration setting (multiples of 1/4,
circuit constructed fresh under `temporary_override_get_registry_at`) x before / after `apply_modifiers()`;
the pairwise overlap predicate is evaluated on the implementation's own schedule:
  * two operations of non-zero length that share a channel (ChannelIdentifier matching: same qubit and same
    channel or one side ALL) must not overlap;
  * no operation (of any length) may overlap a Barrier on one of the barrier's qubits.
Model side: the same constructor call is recorded (harness/record.py) into a build program and run through the
Lean heap model under the same durations; both listings (before / after unrolling) must be identical
(times, order, acquisition indices), and the predicate is evaluated on the model's answer too.
Proof side: QcoVerif/Properties/C10.lean (general no-overlap theorems + the verified schedule checker evaluated
on the worlds the model builds for the recorded programs, see tools/gen_c10_programs.py).
"""
from __future__ import annotations
import contextlib
import io
import json
import multiprocessing as mp
import os
import subprocess
import time
import warnings
from collections import Counter

from . import common, findings, progs, record, stream

PROP = 'C10'
RULE = ('constructor input (kind, description, cycles/rounds, initial state) x one random positive duration setting per '
        'input (readout, microwave, flux, reset in {1/4 .. 6} steps of 1/4) x {as constructed, after apply_modifiers}; '
        'non-trivial = at least 2 distinct values among the four durations and cycles >= 2 (multi-round: some round >= 2); '
        'distinct = distinct (input, setting)')


# ----------------------------------------------------------------------------- the predicate

def parse_rows(listing: str):
    """canonical listing -> [(cls, [(qubit, channel)], start, end)]"""
    body = listing.rsplit(' # ', 1)[0]
    rows = []
    if not body:
        return rows
    for r in body.split(';'):
        f = r.split(' ')
        chans = []
        for c in f[2].split('.'):
            if c:
                chans.append((int(c[:-1]), c[-1]))
        s, d = int(f[3]), int(f[4])
        rows.append((f[0], chans, s, s + d))
    return rows


def strip_acq(listing: str) -> str:
    """canonical listing without the acquisition indices (they cost one listing each on the implementation and are
    the subject of C07, not of C10)."""
    body, _, tail = listing.rpartition(' # ')
    rows = []
    for r in body.split(';') if body else []:
        f = r.split(' ')
        f[5] = '-'
        rows.append(' '.join(f))
    return ';'.join(rows) + ' # ' + tail


def share_channel(ca, cb) -> bool:
    for qa, xa in ca:
        for qb, xb in cb:
            if qa == qb and (xa == xb or xa == 'A' or xb == 'A'):
                return True
    return False


def overlaps(listing: str, limit: int = 5):
    """violations of the property on one schedule: list of dicts (at most `limit`)."""
    rows = parse_rows(listing)
    by_qubit = {}
    for i, (_, chans, _, _) in enumerate(rows):
        for q in {q for q, _ in chans}:
            by_qubit.setdefault(q, []).append(i)
    seen = set()
    out = []
    for q, idxs in by_qubit.items():
        for x in range(len(idxs)):
            i = idxs[x]
            ci, chi, si, ei = rows[i]
            for y in range(x + 1, len(idxs)):
                j = idxs[y]
                cj, chj, sj, ej = rows[j]
                if not (si < ej and sj < ei):
                    continue
                if (i, j) in seen or not share_channel(chi, chj):
                    continue
                barrier = ci == 'Barrier' or cj == 'Barrier'
                if barrier or (ei > si and ej > sj):
                    seen.add((i, j))
                    out.append({'what': 'barrier-overlap' if barrier else 'double-booking',
                                'a': [i, ci, si, ei], 'b': [j, cj, sj, ej], 'qubit': q})
                    if len(out) >= limit:
                        return out
    return out


# ----------------------------------------------------------------------------- one case on the implementation

def run_case(args):
    case, g = args
    a = progs.api()
    out = {'case': case, 'g': list(g)}
    try:
        fn, kw = record.build_case(case)
    except Exception as e:  # noqa
        out['error'] = f'description:{type(e).__name__}'
        return out
    vals = {a.GK[k]: v / progs.UNIT for k, v in zip('RMFS', g)}
    try:
        with contextlib.redirect_stderr(io.StringIO()), warnings.catch_warnings():
            warnings.simplefilter('ignore')
            with a.rd.temporary_override_get_registry_at(vals):
                try:
                    prog, idx, real = record.record(fn, **kw)
                except record.Unsupported as e:
                    out['error'] = f'unsupported:{e}'
                    return out
                except Exception as e:  # noqa
                    out['error'] = f'constructor-raises:{type(e).__name__}'
                    return out
                rec = record.last_recorder
                before = record.real_listing(real, rec, with_acq=False)
                real2 = real.apply_modifiers()
                after = record.real_listing(real2, rec, with_acq=False)
    except progs.NonDyadic as e:
        out['error'] = f'nondyadic:{e}'
        return out
    out['prog'] = [['gdur'] + list(g)] + prog + [['list', idx], ['apply', idx], ['list', idx], ['gdur-leave']]
    out['before'], out['after'] = before, after
    out['viol'] = [dict(v, when='constructed') for v in overlaps(before)] + \
                  [dict(v, when='unrolled') for v in overlaps(after)]
    out['n_ops'] = (before.count(';') + 1, after.count(';') + 1)
    out['reps'] = sum(1 for c in prog if c[0] == 'new' and c[1] not in ('f1', 'f0'))
    return out


def draw_setting(rng):
    while True:
        g = [2 * rng.randrange(1, 25) for _ in range(4)]
        if rng.random() < 0.25:
            g[0] = g[1]                         # readout == microwave (decoupling wait 0)
        elif rng.random() < 0.3:
            g[0], g[1] = min(g[0], g[1]), max(g[0], g[1]) + 2   # readout < microwave
        return g


def cases_for(tier: str):
    thorough = tier != 'quick'
    cases = []
    cyc = range(0, 9) if thorough else range(0, 6)
    lengths = (1, 2, 3, 4, 5, 6, 7, 9, 11) if thorough else (1, 2, 3, 4, 5, 6, 7)
    for length in lengths:
        nd = (length + 1) // 2
        for c in cyc:
            for kind in ('full', 'simplified'):
                for refocus in (1, 0):
                    cases.append({'kind': kind, 'cycles': c, 'desc': ['chain', length, refocus],
                                  'data': ('10' * nd)[:nd], 'ancilla': ''})
    for d in ((2, 3, 4, 5) if thorough else (2, 3)):
        for c in cyc:
            for kind in ('full', 'simplified'):
                cases.append({'kind': kind, 'cycles': c, 'desc': None, 'data': ('+1' * d)[:d]})
    for name in record.LAYOUTS:
        n = len(record.layout_chain(name))
        for length in ((3, 5, 7, 9, n) if thorough else (3, 5, 7)):
            starts = range(0, n - length + 1, 2)
            for start in starts:
                for c in ((0, 1, 2, 3, 4, 6) if thorough else (0, 2, 3, 5)):
                    kinds = ('full', 'simplified') if (thorough or (start // 2 + c) % 2 == 0) else ('full',)
                    for kind in kinds:
                        nd = (length + 1) // 2
                        cases.append({'kind': kind, 'cycles': c, 'desc': ['layout', name, start, length, 1],
                                      'data': ('01' * nd)[:nd]})
    # composite descriptions: every single excluded gate (and two pairs) of the chains with 2 and 3 ancillas
    for length in ((5, 7, 9) if thorough else (5, 7)):
        nd = (length + 1) // 2
        excl = [[i] for i in range(length - 1)] + [[0, length - 2], [1, 2]]
        for ex in excl:
            for c in ((1, 2, 3, 4) if thorough else (1, 2, 4)):
                kinds = ('full', 'simplified') if (thorough or (ex[0] + c) % 2 == 0) else ('full',)
                for kind in kinds:
                    cases.append({'kind': kind, 'cycles': c, 'desc': ['composite', ['chain', length, 1], ex],
                                  'data': ('01' * nd)[:nd]})
    for t in ('QUBIT', 'QUTRIT', 'QUQUAD'):
        for n in ((1, 2, 3, 5, 9) if thorough else (1, 3, 5)):
            cases.append({'kind': 'calib', 'type': t, 'n': n})
    for rounds in ([0], [1], [0, 1, 3], [2, 2], [4, 1]) + (([3, 5], [0, 2, 4, 6]) if thorough else ()):
        for desc in (['chain', 3, 1], ['chain', 5, 1], ['layout', 'Repetition9Code', 0, 5, 1],
                     ['layout', 'Repetition5Round4Code', 2, 5, 1]):
            nd = record.n_data(desc)
            cases.append({'kind': 'multi', 'rounds': rounds, 'desc': desc, 'data': ('10' * nd)[:nd]})
    return cases


def expected_error(case):
    """the malformed inputs of the generator and what the code answers to them (documented behaviour, measured on the
    pinned tree): a chain of even length has no description (IndexError), a single data qubit has no simplified circuit.
    Every other input is valid: a description or constructor that raises there is a broken correspondence."""
    d = case.get('desc')
    if d and d[0] == 'chain' and d[1] % 2 == 0:
        return 'description:IndexError'
    if d and d[0] == 'chain' and d[1] == 1 and case['kind'] == 'simplified':
        return 'constructor-raises:NoReferenceOperationException'
    return None


def is_nontrivial(case, g) -> bool:
    if len(set(g)) < 2:
        return False
    if case['kind'] == 'multi':
        return max(case['rounds']) >= 2
    return case.get('cycles', 0) >= 2


def evaluate(jobs_in, njobs=None):
    """implementation (parallel) + model (one driver run). Returns list of result dicts."""
    njobs = njobs or min(16, os.cpu_count() or 1)
    progs.api()
    record.lib()
    if njobs <= 1 or len(jobs_in) < 8:
        res = [run_case(j) for j in jobs_in]
    else:
        with mp.get_context('fork').Pool(njobs) as pool:
            res = pool.map(run_case, jobs_in, chunksize=1)
    ok = [r for r in res if 'prog' in r]
    model = stream.run_model_many([r['prog'] for r in ok], progs.ambient_durations()) if ok else []
    for r, m in zip(ok, model):
        ans = [strip_acq(x) if ' # ' in x else x for x, c in zip(m, r['prog']) if c[0] == 'list']
        r['model'] = ans
        r['dis'] = None
        if len(ans) != 2 or ans[0] != r['before'] or ans[1] != r['after']:
            which = 0 if (len(ans) < 1 or ans[0] != r['before']) else 1
            r['dis'] = {'when': ['constructed', 'unrolled'][which]}
            mo = ans[which] if len(ans) > which else '<missing>'
            io_ = [r['before'], r['after']][which]
            x, y = io_.split(';'), mo.split(';')
            k = next((i for i in range(min(len(x), len(y))) if x[i] != y[i]), min(len(x), len(y)))
            r['dis'].update(entry=k, implementation=x[k:k + 1], model=y[k:k + 1], lengths=[len(x), len(y)])
        r['model_viol'] = sum((overlaps(x, limit=1) for x in ans), [])
    return res


def shrink_case(r):
    """smaller constructor input / simpler setting on which the implementation still violates the predicate."""
    best = r
    case, g = dict(r['case']), list(r['g'])
    cands = []
    if 'cycles' in case:
        cands += [dict(case, cycles=c) for c in range(0, case['cycles'])]
    if case.get('desc') and case['desc'][0] == 'chain':
        for length in range(1, case['desc'][1], 2):
            nd = (length + 1) // 2
            cands.append(dict(case, desc=['chain', length, case['desc'][2]], data=('10' * nd)[:nd]))
    for c in cands:
        rr = run_case((c, g))
        if rr.get('viol'):
            best = rr
            break
    return best


def search(case, rng, budget=24):
    """fresh duration settings aimed at one constructor input: first implementation violation or None."""
    for _ in range(budget):
        rr = run_case((case, draw_setting(rng)))
        if rr.get('viol'):
            return rr
    return None


def regenerate_lean_programs() -> dict:
    """tools/gen_c10_programs.py writes QcoVerif/Generated/C10Worlds.lean from the live code (recorder + driver)."""
    tool = common.VERIF / 'tools' / 'gen_c10_programs.py'
    if not tool.exists():
        return {'skipped': 'tools/gen_c10_programs.py missing'}
    env = dict(os.environ, PYTHONPATH=os.pathsep.join([x for x in (os.environ.get('PYTHONPATH', ''), str(common.VERIF)) if x]), TQDM_DISABLE='1')
    p = subprocess.run(['/venv/bin/python', str(tool)], cwd=str(common.VERIF), capture_output=True, text=True,
                       timeout=1800, env=env)
    try:
        rep = json.loads(p.stdout.strip().splitlines()[-1])
    except Exception:
        return {'rc': p.returncode, 'raw': (p.stdout + p.stderr)[-1500:]}
    # the larger list of the LAYERED clause (Lemmas/C10ParamWorlds0..3.lean; tools/gen_c10_param_worlds.py): same pipeline, the
    # certificate is the layer structure read off the relation trees; an input the model lists differently, that is not layered
    # any more or cannot be generated is a broken obligation like `uncertified`
    tool2 = common.VERIF / 'tools' / 'gen_c10_param_worlds.py'
    if tool2.exists():
        p2 = subprocess.run(['/venv/bin/python', str(tool2)], cwd=str(common.VERIF), capture_output=True, text=True,
                            timeout=1800, env=env)
        try:
            r2 = json.loads(p2.stdout.strip().splitlines()[-1])
            rep['layered_cases'] = r2.get('cases')
            rep['layered_objects'] = r2.get('objects')
            for k in ('model_mismatch', 'not_layered', 'skipped'):
                if r2.get(k):
                    rep.setdefault('uncertified', [])
                    rep['uncertified'] = list(rep['uncertified']) + [f'layered:{k}:{x}' for x in r2[k]]
        except Exception:
            rep['raw'] = (p2.stdout + p2.stderr)[-1500:]
    return rep


def run(tier: str, seed: int) -> int:
    t0 = time.time()
    oc = common.Outcome(PROP)
    # the driver must exist before the generated worlds can be dumped
    if not common.driver_available():
        common.lake_build(['qcodriver'])
    gen = regenerate_lean_programs()
    lean = common.proof_obligations(PROP)
    # a shipped circuit whose schedule can no longer be certified (or generated) is a broken proof obligation
    gen_bad = {k: gen[k] for k in ('uncertified', 'model_mismatch', 'raw', 'skipped') if gen.get(k)}
    if gen.get('error'):
        # infrastructure (e.g. the driver of this tree lacks `dump`): the committed generated file is what lake checks
        common.log(f'C10: generated worlds not refreshed: {gen["error"]}')
    proof_ok = lean['build_ok'] and not lean['failed'] and not gen_bad
    if not common.driver_available():
        print(f'model driver missing: {lean.get("build_output", "")[-800:]}')
        return 2
    rng = common.rng_for(seed, PROP)
    cases = cases_for(tier)
    reps = 1 if tier == 'quick' else 4
    jobs = []
    for _ in range(reps):
        for c in cases:
            jobs.append((c, draw_setting(rng)))
    # corpus: past failures (case + setting) run first
    corpus = []
    d = common.CORPUS / PROP
    if d.exists():
        for f in sorted(d.glob('*.json')):
            try:
                doc = json.loads(f.read_text())
                corpus.append((doc['case'], doc['g']))
            except Exception:
                common.log(f'corpus file unreadable: {f}')
    results = evaluate(corpus + jobs)

    errs = Counter()
    kinds = Counter()
    distinct, nontrivial = set(), set()
    n_dis = n_viol = n_known = 0
    n_sched = 0
    max_ops = 0
    regimes = Counter()
    reported = set()
    for r in results:
        if 'error' in r:
            errs[r['error']] += 1
            if (r['error'].startswith(('unsupported', 'nondyadic')) or r['error'] != expected_error(r['case'])) \
                    and r['error'] not in reported:
                reported.add(r['error'])
                oc.violation({'property': PROP, 'kind': 'correspondence-broken', 'unchecked': r['error'],
                              'case': r['case'], 'g': r['g']}, found_input=False)
            continue
        key = json.dumps([r['case'], r['g']], sort_keys=True)
        distinct.add(key)
        kinds[r['case']['kind']] += 1
        n_sched += 2
        max_ops = max(max_ops, r['n_ops'][1])
        regimes['ro>mw' if r['g'][0] > r['g'][1] else ('ro==mw' if r['g'][0] == r['g'][1] else 'ro<mw')] += 1
        if is_nontrivial(r['case'], r['g']):
            nontrivial.add(key)
        # 1. the predicate fails on the implementation's own schedule
        if r['viol']:
            n_viol += 1
            kf = findings.attribute(PROP, r, r['viol'])
            if kf is not None:
                oc.known_finding(kf)
                n_known += 1
            elif 'viol' not in reported:
                reported.add('viol')
                small = shrink_case(r)
                oc.violation({'property': PROP, 'kind': 'predicate-fails-on-implementation', 'case': small['case'],
                              'g': small['g'], 'durations': {k: v / progs.UNIT for k, v in zip(
                                  ['readout', 'microwave', 'flux', 'reset'], small['g'])},
                              'violations': small['viol'], 'model_shows_same': bool(small.get('model_viol', True)),
                              'how': 'record.build_case(case) under temporary_override_get_registry_at(durations); '
                                     'c10.overlaps(record.real_listing(circuit))'})
        # 2. model and implementation disagree
        if r['dis'] is not None:
            n_dis += 1
            if 'dis' not in reported and not r['viol']:
                reported.add('dis')
                found = search(r['case'], rng)
                payload = {'property': PROP, 'kind': 'correspondence-broken',
                           'unchecked': 'Lean heap model == implementation on the recorded constructor program',
                           'case': r['case'], 'g': r['g'], 'first_difference': r['dis'], 'program': r['prog']}
                if found:
                    payload.update(kind='predicate-fails-on-implementation', case=found['case'], g=found['g'],
                                   violations=found['viol'])
                oc.violation(payload, found_input=bool(found))
    if not proof_ok and not oc.violations:
        # a proof obligation no longer checks; everything above was the search for a failing input
        oc.violation({'property': PROP, 'kind': 'proof-obligation-broken',
                      'unchecked': lean.get('failed') or gen_bad, 'generated': gen, 'build_output': lean.get('build_output', '')[-3000:],
                      'axioms': lean.get('axioms')}, found_input=False)

    wall = time.time() - t0
    ok = [r for r in results if 'prog' in r]
    samples = [{'case': r['case'], 'g': r['g'], 'operations': r['n_ops']} for r in ok[:3]]
    coverage = {}
    if lean['obligations']:
        coverage.update({'obligations': lean['obligations'], 'discharged': lean['discharged']})
    coverage.update({
        'checker_cmd': lean['checker_cmd'],
        'trusted_base': common.TRUSTED_BASE + [
            'harness/record.py (constructor -> build program), checked on every case by model == implementation',
            'tools/gen_c10_programs.py + driver command `dump` (world the model builds -> Lean literal, plain data); '
            'the schedule table in the generated file is an untrusted certificate checked by the kernel'],
        'theorems': lean.get('theorems', []),
        'axioms': lean.get('axioms', {}),
        'evaluations': len(ok),
        'schedules_checked': n_sched,
        'distinct_nontrivial': len(nontrivial),
        'distinct': len(distinct),
        'rule': RULE,
        'samples': samples,
        'traces_validated_against_impl': len(ok) - n_dis,
        'disagreements': n_dis,
        'implementation_violations': n_viol,
        'attributed_to_known_findings': n_known,
        'corpus_cases': len(corpus),
        'input_distribution': {'by_kind': dict(kinds), 'duration_regimes': dict(regimes),
                               'largest_unrolled_listing': max_ops,
                               'not_a_circuit': {k: v for k, v in errs.items()}},
        'generated_lean_worlds': gen,
        'known_findings_printed': oc.known,
        'lean': {k: lean.get(k) for k in ('build_ok', 'build_s', 'lean_s', 'failed', 'forbidden_hits', 'translator')},
    })
    common.write_evidence(PROP, tier, seed, coverage, wall, len(oc.violations), [
        'times are exact multiples of 1/8 (durations drawn as multiples of 1/4)',
        'descriptions that cannot be built (from_chain of even length raises IndexError) and the simplified '
        'constructor on a 1-qubit chain (raises NoReferenceOperationException) are not circuits and are only counted'])
    return oc.emit()
