import QcoVerif.Lemmas.C10Param
/-
  C10, parametric layer lemmas, part 2: NESTED blocks (namespace `Qco.C10Param`).

  A library circuit is a sub-circuit whose nodes are laid out in layers (Lemmas/C10Param.lean) and some of whose
  nodes are again sub-circuits of that kind.  `Nested w cert f X`: below `X`, to depth `f`, every sub-circuit `Y`
  is a block (`BlockOk`) of one or several SEQUENCES of layers `cert Y` (`SeqOk` — first layer: paths whose first
  operations carry `Y`'s own link object, which is what the listing establishes; then layers hanging one below the
  other) in which sub-circuits occur on dominating paths only and operations on two different paths of one layer
  never conflict (share no channel, or need not be disjoint); several sequences describe a relation tree with several
  branches that have children of their own: two nodes that lie on no common sequence must not conflict.  Then
  (`nested_no_double_booking`) no two conflicting leaf operations below `X` overlap: for every number of qubits,
  paths, layers, nesting levels and all non-negative durations.

  On the way: such a block has lead 0 (`nested_lead_zero`), its interval covers everything below it
  (`nested_covers`) and whatever it is FOLLOWED_BY-linked to precedes everything below it (`nested_reach`).
  Definedness: the statements are about defined answers of the evaluator, as everywhere in C10; the end of a
  sub-circuit is needed only where it is implied by the start of a later operation being defined (`EndsBy`).
-/
namespace Qco.C10Param

open Qco Qco.C10

/-! ### list helpers -/

theorem lastOf_append_cons (a : Nat) (l1 : List Nat) (x : Nat) (l2 : List Nat) :
    lastOf a (l1 ++ x :: l2) = lastOf x l2 := by
  induction l1 generalizing a with
  | nil => rfl
  | cons y ys ih => exact ih y

theorem lastOf_eq_or_mem (a : Nat) (l : List Nat) : lastOf a l = a ∨ lastOf a l ∈ l := by
  cases l with
  | nil => exact Or.inl rfl
  | cons x xs => exact Or.inr (lastOf_mem (by simp))

/-! ### predecessors -/

/-- the direct predecessor of an element of a path. -/
theorem FbPath.pred {w : World} {a : Nat} {p s : List Nat} {y : Nat} (h : FbPath w a (p ++ y :: s)) :
    DirectFb w (lastOf a p) y := by
  have := h.suffix
  exact this.1

/-- every element of a path has a predecessor that is the anchor or reachable from it. -/
theorem FbPath.pred_reach {w : World} {a : Nat} {xs : List Nat} (h : FbPath w a xs) {y : Nat} (hy : y ∈ xs) :
    ∃ Q, FbStep w Q y ∧ (Q = a ∨ Reach w a Q) := by
  obtain ⟨p, s, rfl⟩ := List.append_of_mem hy
  refine ⟨lastOf a p, h.pred.fbStep, ?_⟩
  rcases lastOf_eq_or_mem a p with h1 | h1
  · exact Or.inl h1
  · exact Or.inr (h.prefix.reach h1)

/-- in `x :: xs` with `u` strictly before `v`: `v` has a predecessor that is `u` or reachable from `u`. -/
theorem cons_path_pred {w : World} {x : Nat} {xs : List Nat} (h : FbPath w x xs) {l1 l2 l3 : List Nat} {u v : Nat}
    (hsplit : x :: xs = l1 ++ u :: l2 ++ v :: l3) : ∃ Q, FbStep w Q v ∧ (Q = u ∨ Reach w u Q) := by
  -- write `x :: xs = (x :: p) ++ v :: l3`
  have hne : l1 ++ u :: l2 ≠ [] := by simp
  cases hp : l1 ++ u :: l2 with
  | nil => exact absurd hp hne
  | cons z p =>
    have hsplit' : x :: xs = (z :: p) ++ v :: l3 := by rw [← hp]; simpa using hsplit
    simp only [List.cons_append, List.cons.injEq] at hsplit'
    obtain ⟨rfl, rfl⟩ := hsplit'
    refine ⟨lastOf x p, h.pred.fbStep, ?_⟩
    have hl : lastOf x p = lastOf u l2 := by
      have : lastOf 0 (x :: p) = lastOf u l2 := by rw [← hp]; exact lastOf_append_cons 0 l1 u l2
      simpa using this
    rw [hl]
    rcases lastOf_eq_or_mem u l2 with h1 | h1
    · exact Or.inl h1
    · right
      have hsplit2 : x :: (p ++ v :: l3) = l1 ++ u :: (l2 ++ v :: l3) := by
        have : x :: p ++ v :: l3 = (l1 ++ u :: l2) ++ v :: l3 := by rw [hp]
        simpa using this
      exact cons_path_reach_later h hsplit2 (by simp [h1])

/-- every operation of a sequence of layers has a predecessor that is the opener or reachable from it. -/
theorem layers_pred {w : World} : ∀ (Ls : List LayerData) (b : Nat), Layers w b Ls →
    ∀ z ∈ layerOps Ls, ∃ Q, FbStep w Q z ∧ (Q = b ∨ Reach w b Q) := by
  intro Ls
  induction Ls with
  | nil => intro b _ z hz; cases hz
  | cons L rest ih =>
    intro b h z hz
    simp only [layerOps, List.mem_append, List.mem_flatten] at hz
    rcases hz with ⟨c, hc, hzc⟩ | hz
    · cases c with
      | nil => cases hzc
      | cons x xs =>
        have h1 := h.1.step _ hc x xs rfl
        cases hzc with
        | head => exact ⟨b, h1, Or.inl rfl⟩
        | tail _ hz' =>
          obtain ⟨Q, hQ, hr⟩ := (h.1.internal _ hc x xs rfl).pred_reach hz'
          refine ⟨Q, hQ, Or.inr ?_⟩
          rcases hr with rfl | hr
          · exact .step h1
          · exact .head h1 hr
    · obtain ⟨Q, hQ, hr⟩ := ih _ h.2 z hz
      refine ⟨Q, hQ, ?_⟩
      rcases next_reach h.1 with heq | hn
      · rw [heq] at hr; exact hr
      · rcases hr with rfl | hr
        · exact Or.inr hn
        · exact Or.inr (hn.trans hr)

/-! ### separation of two nodes of a block -/

/-- `A` has ended when `Q` ends (whenever `A`'s end is defined), and if `A` is a sub-circuit its end IS defined
    when `Q`'s is. -/
def EndsBy (w : World) (A Q : Nat) : Prop :=
  ∀ eq, End w Q eq → (∀ ea, End w A ea → ea ≤ eq) ∧ ((w.op A).isComp = true → ∃ ea, End w A ea)

/-- `B` is FOLLOWED_BY-linked to an operation `Q` by whose end `A` has ended. -/
def SepAfter (w : World) (A B : Nat) : Prop := ∃ Q, FbStep w Q B ∧ EndsBy w A Q

theorem endsBy_of_reach {w : World} (hd : LeafDurNonneg w) {A Q : Nat} (h : Q = A ∨ Reach w A Q) : EndsBy w A Q := by
  intro eq heq
  rcases h with rfl | h
  · exact ⟨fun ea hea => by rw [hea.unique heq]; exact Int.le_refl _, fun _ => ⟨eq, heq⟩⟩
  · obtain ⟨sq, _, hsq, _, _⟩ := heq.decompose
    have h1 := start_le_end hd hsq heq
    refine ⟨fun ea hea => ?_, fun _ => h.end_defined hsq⟩
    have := h.before hd ea sq hea hsq
    omega

/-- if `Q` is the last operation `M` of the layer's dominating path, or reachable from it, then everything of the
    layer has ended by `Q`. -/
theorem endsBy_of_core {w : World} (hd : LeafDurNonneg w) {L : LayerData} (hL : LayerCore w L) {a0 : Nat}
    (hside : ∀ c ∈ L.chains, c ≠ L.main → ∀ x ∈ c, (w.op x).isComp = false)
    {c : List Nat} (hc : c ∈ L.chains) {A : Nat} (hA : A ∈ c) {Q : Nat}
    (hQ : Q = lastOf a0 L.main ∨ Reach w (lastOf a0 L.main) Q) : EndsBy w A Q := by
  intro eq heq
  -- the end of `M` is defined and at most `eq`
  have hM : ∃ em, End w (lastOf a0 L.main) em ∧ em ≤ eq := by
    rcases hQ with rfl | hQ
    · exact ⟨eq, heq, Int.le_refl _⟩
    · obtain ⟨sq, _, hsq, _, _⟩ := heq.decompose
      obtain ⟨em, hem⟩ := hQ.end_defined hsq
      have := hQ.before hd em sq hem hsq
      have := start_le_end hd hsq heq
      exact ⟨em, hem, by omega⟩
  obtain ⟨em, hem, hle⟩ := hM
  refine ⟨fun ea hea => ?_, fun hcomp => ?_⟩
  · have := core_before_next hL hc hA hea hem
    omega
  · -- a sub-circuit sits on the dominating path
    have hcm : c = L.main := by
      by_cases hcm : c = L.main
      · exact hcm
      · have := hside c hc hcm A hA
        rw [this] at hcomp; cases hcomp
    subst hcm
    have hMmem : lastOf a0 L.main ∈ L.main := lastOf_mem hL.main_ne
    by_cases hAM : A = lastOf a0 L.main
    · exact ⟨em, by rw [hAM]; exact hem⟩
    · -- `A` comes before the last element, hence reaches it
      cases hmain : L.main with
      | nil => exact absurd hmain hL.main_ne
      | cons x xs =>
        have hp := hL.internal _ hc x xs hmain
        obtain ⟨pre, hpre⟩ := eq_append_lastOf (a := a0) hL.main_ne
        rw [hmain] at hA hAM hem hpre
        generalize lastOf a0 (x :: xs) = m at hAM hem hpre
        have hApre : A ∈ pre := by
          rw [hpre, List.mem_append] at hA
          rcases hA with h | h
          · exact h
          · simp only [List.mem_singleton] at h
            exact absurd h hAM
        obtain ⟨l1, l2, rfl⟩ := List.append_of_mem hApre
        have hsplit : x :: xs = l1 ++ A :: (l2 ++ [m]) := by
          rw [hpre]; simp
        have hr := cons_path_reach_later hp hsplit (v := m) (by simp)
        obtain ⟨sm, _, hsm, _, _⟩ := hem.decompose
        exact hr.end_defined hsm

/-- two distinct nodes of one path: the later one is separated after the earlier one. -/
theorem core_path_sep {w : World} (hd : LeafDurNonneg w) {L : LayerData} (hL : LayerCore w L)
    {c : List Nat} (hc : c ∈ L.chains) {u v : Nat} (hu : u ∈ c) (hv : v ∈ c) (huv : u ≠ v) :
    SepAfter w u v ∨ SepAfter w v u := by
  cases c with
  | nil => cases hu
  | cons x xs =>
    have hp := hL.internal _ hc x xs rfl
    rcases split_two hu hv huv with ⟨l1, l2, l3, h⟩ | ⟨l1, l2, l3, h⟩
    · left
      obtain ⟨Q, hQ, hr⟩ := cons_path_pred hp h
      exact ⟨Q, hQ, endsBy_of_reach hd hr⟩
    · right
      obtain ⟨Q, hQ, hr⟩ := cons_path_pred hp h
      exact ⟨Q, hQ, endsBy_of_reach hd hr⟩

/-- sub-circuits occur on dominating paths only. -/
def SideLeaves (w : World) (Ls : List LayerData) : Prop :=
  ∀ L ∈ Ls, ∀ c ∈ L.chains, c ≠ L.main → ∀ x ∈ c, (w.op x).isComp = false

theorem SideLeaves.tail {w : World} {L : LayerData} {Ls : List LayerData} (h : SideLeaves w (L :: Ls)) :
    SideLeaves w Ls := fun L' hL' => h L' (List.mem_cons_of_mem _ hL')

/-- a node of a layer is separated before every node of a later layer. -/
theorem core_sep_later {w : World} (hd : LeafDurNonneg w) {L : LayerData} {rest : List LayerData} {a0 : Nat}
    (hL : LayerCore w L) (hside : ∀ c ∈ L.chains, c ≠ L.main → ∀ x ∈ c, (w.op x).isComp = false)
    (hrest : Layers w (lastOf a0 L.main) rest) {c : List Nat} (hc : c ∈ L.chains) {A : Nat} (hA : A ∈ c)
    {B : Nat} (hB : B ∈ layerOps rest) : SepAfter w A B := by
  obtain ⟨Q, hQ, hr⟩ := layers_pred rest _ hrest B hB
  exact ⟨Q, hQ, endsBy_of_core hd hL hside hc hA hr⟩

/-- **nodes of a sequence of layers**: two distinct nodes are separated (one after the other) unless they sit on
    two different paths of one layer. -/
theorem layers_sep {w : World} (hd : LeafDurNonneg w) : ∀ (Ls : List LayerData) (b : Nat), Layers w b Ls →
    SideLeaves w Ls → ∀ A ∈ layerOps Ls, ∀ B ∈ layerOps Ls, A ≠ B →
      SepAfter w A B ∨ SepAfter w B A ∨ DiffChains Ls A B := by
  intro Ls
  induction Ls with
  | nil => intro b _ _ A hA; cases hA
  | cons L rest ih =>
    intro b h hside A hA B hB hAB
    simp only [layerOps, List.mem_append, List.mem_flatten] at hA hB
    have hcore : ∀ c ∈ L.chains, LayerCore w L := by
      intro c hc
      rcases h.1.main_ok with ⟨_, hnil⟩ | ⟨hne, hmem⟩
      · rw [hnil] at hc; cases hc
      · exact h.1.core hne hmem
    have hsideL := hside L List.mem_cons_self
    rcases hA with ⟨c, hc, hAc⟩ | hA
    · rcases hB with ⟨c', hc', hBc'⟩ | hB
      · by_cases hcc : c = c'
        · subst hcc
          rcases core_path_sep hd (hcore c hc) hc hAc hBc' hAB with h1 | h1
          · exact Or.inl h1
          · exact Or.inr (Or.inl h1)
        · exact Or.inr (Or.inr ⟨L, List.mem_cons_self, c, hc, c', hc', hcc, hAc, hBc'⟩)
      · exact Or.inl (core_sep_later hd (hcore c hc) hsideL h.2 hc hAc hB)
    · rcases hB with ⟨c', hc', hBc'⟩ | hB
      · exact Or.inr (Or.inl (core_sep_later hd (hcore c' hc') hsideL h.2 hc' hBc' hA))
      · rcases ih _ h.2 hside.tail A hA B hB hAB with h1 | h1 | h1
        · exact Or.inl h1
        · exact Or.inr (Or.inl h1)
        · exact Or.inr (Or.inr h1.cons)

/-- the same for a block: a first layer of paths that start together, then layers below it. -/
theorem block_sep {w : World} (hd : LeafDurNonneg w) {L : LayerData} {rest : List LayerData} {a0 : Nat}
    (hL : LayerCore w L) (hrest : Layers w (lastOf a0 L.main) rest) (hside : SideLeaves w (L :: rest)) :
    ∀ A ∈ layerOps (L :: rest), ∀ B ∈ layerOps (L :: rest), A ≠ B →
      SepAfter w A B ∨ SepAfter w B A ∨ DiffChains (L :: rest) A B := by
  intro A hA B hB hAB
  simp only [layerOps, List.mem_append, List.mem_flatten] at hA hB
  have hsideL := hside L List.mem_cons_self
  rcases hA with ⟨c, hc, hAc⟩ | hA
  · rcases hB with ⟨c', hc', hBc'⟩ | hB
    · by_cases hcc : c = c'
      · subst hcc
        rcases core_path_sep hd hL hc hAc hBc' hAB with h1 | h1
        · exact Or.inl h1
        · exact Or.inr (Or.inl h1)
      · exact Or.inr (Or.inr ⟨L, List.mem_cons_self, c, hc, c', hc', hcc, hAc, hBc'⟩)
    · exact Or.inl (core_sep_later hd hL hsideL hrest hc hAc hB)
  · rcases hB with ⟨c', hc', hBc'⟩ | hB
    · exact Or.inr (Or.inl (core_sep_later hd hL hsideL hrest hc' hBc' hA))
    · rcases layers_sep hd rest _ hrest hside.tail A hA B hB hAB with h1 | h1 | h1
      · exact Or.inl h1
      · exact Or.inr (Or.inl h1)
      · exact Or.inr (Or.inr h1.cons)

/-! ### a sub-circuit laid out as a block of layers -/

/-- leaf operations at or below `x` (sub-circuits expanded to depth `f`). -/
def leavesBelow (w : World) (f : Nat) (x : Nat) : List Nat :=
  if (w.op x).isComp then contents w f x else [x]

theorem contents_succ (w : World) (f c : Nat) :
    contents w (f + 1) c = (w.op c).graph.flatMap (fun e => leavesBelow w f e.node) := rfl

theorem contents_leaf (w : World) : ∀ (f c : Nat), ∀ a ∈ contents w f c, (w.op a).isComp = false := by
  intro f
  induction f with
  | zero => intro c a ha; cases ha
  | succ f ih =>
    intro c a ha
    rw [contents_succ, List.mem_flatMap] at ha
    obtain ⟨e, _, hae⟩ := ha
    unfold leavesBelow at hae
    split at hae
    · exact ih _ a hae
    · rename_i hc
      simp only [List.mem_singleton] at hae
      subst hae
      simpa using hc

/-- two leaf operations that must not overlap: they share a channel and one of them is a barrier or both have a
    non-zero duration. -/
def Conflict (w : World) (a b : Nat) : Prop :=
  sharesChannel (w.op a) (w.op b) = true ∧
  ((w.op a).cls = .barrier ∨ (w.op b).cls = .barrier ∨
   (w.leafDur (w.op a).dur ≠ 0 ∧ w.leafDur (w.op b).dur ≠ 0))

/-- One sequence of layers `L :: rest` of sub-circuit `X`: the first operations of the paths of `L` carry `X`'s own
    link object, the other layers hang below; sub-circuits occur on dominating paths only; operations (at any depth
    `≤ f`) on two different paths of one layer never conflict. -/
structure SeqOk (w : World) (X : Nat) (L : LayerData) (rest : List LayerData) (f : Nat) : Prop where
  internal : ∀ c ∈ L.chains, ∀ x xs, c = x :: xs → FbPath w x xs
  headLink : ∀ c ∈ L.chains, ∀ x xs, c = x :: xs → (w.op x).link = (w.op X).link
  main_ne : L.main ≠ []
  main_mem : L.main ∈ L.chains
  dom : Dominated w L.chains L.main
  layers : Layers w (lastOf 0 L.main) rest
  side : SideLeaves w (L :: rest)
  sep : ∀ L' ∈ L :: rest, ∀ c ∈ L'.chains, ∀ c' ∈ L'.chains, c ≠ c' → ∀ x ∈ c, ∀ y ∈ c',
    ∀ a ∈ leavesBelow w f x, ∀ b ∈ leavesBelow w f y, ¬ Conflict w a b

/-- Sub-circuit `X` is a block of layers: one or several sequences of layers (several: independent branches of the
    relation tree, which typically share their first layers) that together contain every node of `X`; one of them
    begins with a depth-1 node; two nodes that do not lie on a common sequence never conflict. -/
structure BlockOk (w : World) (X : Nat) (seqs : List (List LayerData)) (f : Nat) : Prop where
  comp : (w.op X).isComp = true
  notJe : (w.lnk (w.op X).link).rel ≠ .je
  seq : ∀ s ∈ seqs, ∃ L rest, s = L :: rest ∧ SeqOk w X L rest f
  cover : ∀ e ∈ (w.op X).graph, ∃ s ∈ seqs, e.node ∈ layerOps s
  mainHead : ∃ s ∈ seqs, ∃ L rest x xs, s = L :: rest ∧ L.main = x :: xs ∧
    ∃ e ∈ (w.op X).graph, e.parent = none ∧ e.node = x
  cross : ∀ s ∈ seqs, ∀ s' ∈ seqs, ∀ A ∈ layerOps s, ∀ B ∈ layerOps s', A ∉ layerOps s' → B ∉ layerOps s →
    ∀ a ∈ leavesBelow w f A, ∀ b ∈ leavesBelow w f B, ¬ Conflict w a b

theorem SeqOk.head {w : World} {X : Nat} {L : LayerData} {rest : List LayerData} {f : Nat}
    (h : SeqOk w X L rest f) (hje : (w.lnk (w.op X).link).rel ≠ .je) : HeadLayerOk w L where
  internal := h.internal
  link := by
    intro c hc c' hc' x xs x' xs' hcx hcx'
    rw [h.headLink c hc x xs hcx, h.headLink c' hc' x' xs' hcx']
  notJe := by
    intro c hc x xs hcx
    rw [h.headLink c hc x xs hcx]; exact hje
  main_ne := h.main_ne
  main_mem := h.main_mem
  dom := h.dom

theorem fbStep_of_link {w : World} {P x y : Nat} (hl : (w.op x).link = (w.op y).link) (h : FbStep w P y) :
    FbStep w P x := by
  unfold FbStep at *
  rw [hl]; exact h

/-- every node of a sequence is a first operation of the first layer (it carries the block's link) or has a
    predecessor that is such a first operation or reachable from one. -/
theorem SeqOk.pred {w : World} {X : Nat} {L : LayerData} {rest : List LayerData} {f : Nat}
    (h : SeqOk w X L rest f) {n : Nat} (hn : n ∈ layerOps (L :: rest)) :
    (w.op n).link = (w.op X).link ∨
    ∃ Q, FbStep w Q n ∧ ∃ x, (w.op x).link = (w.op X).link ∧ (Q = x ∨ Reach w x Q) := by
  simp only [layerOps, List.mem_append, List.mem_flatten] at hn
  rcases hn with ⟨c, hc, hnc⟩ | hn
  · cases c with
    | nil => cases hnc
    | cons x xs =>
      cases hnc with
      | head => exact Or.inl (h.headLink _ hc n xs rfl)
      | tail _ hn' =>
        obtain ⟨Q, hQ, hr⟩ := (h.internal _ hc x xs rfl).pred_reach hn'
        exact Or.inr ⟨Q, hQ, x, h.headLink _ hc x xs rfl, hr⟩
  · obtain ⟨Q, hQ, hr⟩ := layers_pred rest _ h.layers n hn
    cases hmain : L.main with
    | nil => exact absurd hmain h.main_ne
    | cons x xs =>
      have hx := h.headLink _ h.main_mem x xs hmain
      have hp := h.internal _ h.main_mem x xs hmain
      rw [hmain] at hr
      refine Or.inr ⟨Q, hQ, x, hx, ?_⟩
      -- the last operation of `main` is `x` or reachable from `x`
      have hM : lastOf 0 (x :: xs) = x ∨ Reach w x (lastOf 0 (x :: xs)) := by
        rcases lastOf_eq_or_mem x xs with h1 | h1
        · exact Or.inl h1
        · exact Or.inr (hp.reach h1)
      rcases hM with hM | hM
      · rw [hM] at hr; exact hr
      · rcases hr with rfl | hr
        · exact Or.inr hM
        · exact Or.inr (hM.trans hr)

/-- every node of a sequence starts at or after the start `t0` of any operation `h0` that carries the block's link. -/
theorem SeqOk.start_ge {w : World} (hd : LeafDurNonneg w) {X : Nat} {L : LayerData} {rest : List LayerData}
    {f : Nat} (h : SeqOk w X L rest f) (hje : (w.lnk (w.op X).link).rel ≠ .je) {h0 : Nat}
    (hl0 : (w.op h0).link = (w.op X).link) {t0 : Int} (ht0 : Start w h0 t0)
    {n : Nat} (hn : n ∈ layerOps (L :: rest)) {sn : Int} (hsn : Start w n sn) : t0 ≤ sn := by
  -- all paths of the first layer start at `t0`
  have hch : ∀ c ∈ L.chains, ChainAt w t0 c := by
    intro c hc
    cases c with
    | nil => trivial
    | cons x xs =>
      refine ⟨fun s hs => ?_, h.internal _ hc x xs rfl⟩
      have hlx : (w.op x).link = (w.op h0).link := by rw [h.headLink _ hc x xs rfl, hl0]
      have hje' : (w.lnk (w.op h0).link).rel ≠ .je := by rw [hl0]; exact hje
      exact same_link_same_start hlx hje' hs ht0
  -- nodes of the first layer
  have hfirst : ∀ c ∈ L.chains, ∀ y ∈ c, ∀ sy, Start w y sy → t0 ≤ sy := by
    intro c hc y hy sy hsy
    obtain ⟨pre, suf, rfl⟩ := List.append_of_mem hy
    obtain ⟨D, hD, rfl⟩ := chainAt_start (hch _ hc) hsy
    have := hD.nonneg hd
    omega
  simp only [layerOps, List.mem_append, List.mem_flatten] at hn
  rcases hn with ⟨c, hc, hnc⟩ | hn
  · exact hfirst c hc n hnc sn hsn
  · have hr := layers_reach rest _ h.layers n hn
    obtain ⟨em, hem⟩ := hr.end_defined hsn
    have h1 := hr.before hd em sn hem hsn
    obtain ⟨sm, _, hsm, _, _⟩ := hem.decompose
    have h2 := start_le_end hd hsm hem
    have h3 := hfirst _ h.main_mem _ (lastOf_mem h.main_ne) sm hsm
    omega

/-- a node whose lead is 0: its interval is `[start, end]`. -/
theorem interval_of_lead_zero {w : World} {n : Nat} (hz : ∀ l d, LeadSpanV w n (l, d) → l = 0) {iv : Int × Int}
    (hiv : IntervalV w n iv) : Start w n iv.1 ∧ End w n iv.2 := by
  obtain ⟨s, l, d, hs, hls, rfl⟩ := hiv.decompose
  have hl := hz l d hls
  subst hl
  refine ⟨by simpa using hs, ?_⟩
  have := End.of_start_dur hs (DurV.of_leadSpan hls)
  simpa using this

/-- every node of the block starts at or after `t0`. -/
theorem BlockOk.start_ge {w : World} (hd : LeafDurNonneg w) {X : Nat} {seqs : List (List LayerData)} {f : Nat}
    (h : BlockOk w X seqs f) {h0 : Nat} (hl0 : (w.op h0).link = (w.op X).link) {t0 : Int} (ht0 : Start w h0 t0)
    {e : Entry} (he : e ∈ (w.op X).graph) {sn : Int} (hsn : Start w e.node sn) : t0 ≤ sn := by
  obtain ⟨s, hs, hn⟩ := h.cover e he
  obtain ⟨L, rest, rfl, hseq⟩ := h.seq s hs
  exact hseq.start_ge hd h.notJe hl0 ht0 hn hsn

/-- **A block of layers has lead 0**, and (with `t0` the start of its first operations and `d` its duration)
    every node has ended at `t0 + d`. -/
theorem BlockOk.lead_zero {w : World} (hd : LeafDurNonneg w) {X : Nat} {seqs : List (List LayerData)} {f : Nat}
    (h : BlockOk w X seqs f)
    (hz : ∀ e ∈ (w.op X).graph, ∀ l d, LeadSpanV w e.node (l, d) → l = 0)
    {l d : Int} (hls : LeadSpanV w X (l, d)) :
    l = 0 ∧ ∃ x0 t0, (w.op x0).link = (w.op X).link ∧ Start w x0 t0 ∧
      ∀ n ∈ listing (w.op X).graph, ∀ en, End w n en → en ≤ t0 + d := by
  obtain ⟨s0, hs0, L0, rest0, x0, xs0, rfl, hmain, e0, he0, hpar, hnode⟩ := h.mainHead
  obtain ⟨L0', rest0', hcons, hseq0⟩ := h.seq _ hs0
  simp only [List.cons.injEq] at hcons
  obtain ⟨rfl, rfl⟩ := hcons
  have hl0 : (w.op x0).link = (w.op X).link := hseq0.headLink _ hseq0.main_mem x0 xs0 hmain
  have hne : (w.op X).graph.isEmpty = false := by
    cases hg : (w.op X).graph with
    | nil => rw [hg] at he0; cases he0
    | cons _ _ => rfl
  obtain ⟨hs, ivs, h1, h2, h3, h4, _, hv⟩ := hls.comp h.comp hne
  have hx0head : x0 ∈ heads (w.op X).graph := mem_heads.mpr ⟨e0, he0, hpar, hnode⟩
  have hx0list : x0 ∈ listing (w.op X).graph := heads_subset_listing hx0head
  obtain ⟨t0, ht0mem, ht0⟩ := h1 x0 hx0head
  -- lead 0 of every node
  have hzn : ∀ n ∈ listing (w.op X).graph, ∀ l d, LeadSpanV w n (l, d) → l = 0 := by
    intro n hn l d hl
    obtain ⟨e, he, rfl⟩ := mem_listing.mp hn
    exact hz e he l d hl
  have hge : ∀ n ∈ listing (w.op X).graph, ∀ sn, Start w n sn → t0 ≤ sn := by
    intro n hn sn hsn
    obtain ⟨e, he, rfl⟩ := mem_listing.mp hn
    exact h.start_ge hd hl0 ht0 he hsn
  -- minimum of the head starts
  have hmin : minOf hs = t0 := by
    apply minOf_eq ht0mem
    intro s hs'
    obtain ⟨n, hn, hsn⟩ := h2 s hs'
    exact hge n (heads_subset_listing hn) s hsn
  -- earliest interval start
  have hearly : minOf (ivs.map (·.1)) = t0 := by
    apply minOf_eq
    · obtain ⟨iv, hiv, hivn⟩ := h3 x0 hx0list
      have := (interval_of_lead_zero (hzn x0 hx0list) hivn).1
      exact List.mem_map.mpr ⟨iv, hiv, this.unique ht0⟩
    · intro s hs'
      obtain ⟨iv, hiv, rfl⟩ := List.mem_map.mp hs'
      obtain ⟨n, hn, hivn⟩ := h4 iv hiv
      exact hge n hn _ (interval_of_lead_zero (hzn n hn) hivn).1
  simp only [leadSpan, Prod.mk.injEq] at hv
  obtain ⟨hv1, hv2⟩ := hv
  refine ⟨by omega, x0, t0, hl0, ht0, ?_⟩
  intro n hn en hen
  obtain ⟨iv, hiv, hivn⟩ := h3 n hn
  have h5 := (interval_of_lead_zero (hzn n hn) hivn).2
  have h6 : iv.2 ≤ maxOf (ivs.map (·.2)) := le_maxOf (List.mem_map.mpr ⟨iv, hiv, rfl⟩)
  have := hen.unique h5
  omega

/-- **The interval of a block covers its nodes**: every node has ended when the block ends. -/
theorem BlockOk.covers {w : World} (hd : LeafDurNonneg w) {X : Nat} {seqs : List (List LayerData)} {f : Nat}
    (h : BlockOk w X seqs f)
    (hz : ∀ e ∈ (w.op X).graph, ∀ l d, LeadSpanV w e.node (l, d) → l = 0)
    {ex : Int} (hex : End w X ex) {n : Nat} (hn : n ∈ listing (w.op X).graph) {en : Int} (hen : End w n en) :
    en ≤ ex := by
  obtain ⟨sX, d, hsX, hdX, rfl⟩ := hex.decompose
  obtain ⟨l, hls⟩ := hdX.decompose
  obtain ⟨_, x0, t0, hlink, ht0, hall⟩ := h.lead_zero hd hz hls
  have := same_link_same_start hlink h.notJe ht0 hsX
  have := hall n hn en hen
  omega

/-- when the end of a block is defined so is the end of each of its nodes. -/
theorem node_end_defined {w : World} {X : Nat} (hc : (w.op X).isComp = true) {ex : Int} (hex : End w X ex)
    {n : Nat} (hn : n ∈ listing (w.op X).graph) : ∃ en, End w n en := by
  obtain ⟨sX, d, _, hdX, _⟩ := hex.decompose
  obtain ⟨l, hls⟩ := hdX.decompose
  have hne : (w.op X).graph.isEmpty = false := by
    obtain ⟨e, he, _⟩ := mem_listing.mp hn
    cases hg : (w.op X).graph with
    | nil => rw [hg] at he; cases he
    | cons _ _ => rfl
  obtain ⟨hs, ivs, _, _, h3, _, _, _⟩ := hls.comp hc hne
  obtain ⟨iv, _, hivn⟩ := h3 n hn
  obtain ⟨s, l', d', hs', hls', _⟩ := hivn.decompose
  exact ⟨s + d', End.of_start_dur hs' (DurV.of_leadSpan hls')⟩

/-! ### nested blocks -/

/-- below `X`, to depth `f`, every sub-circuit `Y` is a block of layers `cert Y`. -/
def Nested (w : World) (cert : Nat → List (List LayerData)) : Nat → Nat → Prop
  | 0, _ => False
  | f+1, X => (w.op X).isComp = false ∨
      (BlockOk w X (cert X) f ∧ ∀ e ∈ (w.op X).graph, Nested w cert f e.node)

/-- **nested blocks have lead 0.** -/
theorem nested_lead_zero {w : World} (hd : LeafDurNonneg w) {cert : Nat → List (List LayerData)} :
    ∀ (f X : Nat), Nested w cert f X → ∀ l d, LeadSpanV w X (l, d) → l = 0 := by
  intro f
  induction f with
  | zero => intro X h; cases h
  | succ f ih =>
    intro X h l d hls
    rcases h with hleaf | ⟨hb, hnodes⟩
    · have := hls.leaf hleaf
      simp only [Prod.mk.injEq] at this
      exact this.1
    · exact (hb.lead_zero hd (fun e he => ih e.node (hnodes e he)) hls).1

/-- **the interval of a nested block covers every leaf below it.** -/
theorem nested_covers {w : World} (hd : LeafDurNonneg w) {cert : Nat → List (List LayerData)} :
    ∀ (f X : Nat), Nested w cert f X → ∀ ex, End w X ex →
      ∀ a ∈ leavesBelow w f X, ∀ ea, End w a ea → ea ≤ ex := by
  intro f
  induction f with
  | zero => intro X h; cases h
  | succ f ih =>
    intro X h ex hex a ha ea hea
    rcases h with hleaf | ⟨hb, hnodes⟩
    · simp only [leavesBelow, hleaf, Bool.false_eq_true, if_false, List.mem_singleton] at ha
      subst ha
      rw [hea.unique hex]; exact Int.le_refl _
    · simp only [leavesBelow, hb.comp, if_true] at ha
      rw [contents_succ, List.mem_flatMap] at ha
      obtain ⟨e, he, hae⟩ := ha
      have hn : e.node ∈ listing (w.op X).graph := mem_listing.mpr ⟨e, he, rfl⟩
      obtain ⟨en, hen⟩ := node_end_defined hb.comp hex hn
      have h1 := hb.covers hd (fun e he => nested_lead_zero hd f e.node (hnodes e he)) hex hn hen
      have h2 := ih e.node (hnodes e he) en hen a hae ea hea
      omega

/-- **whatever a nested block is FOLLOWED_BY-linked to precedes every leaf below it** (the first operations of a
    block carry the block's link). -/
theorem nested_reach {w : World} {cert : Nat → List (List LayerData)} :
    ∀ (f X : Nat), Nested w cert f X → ∀ P, FbStep w P X → ∀ a ∈ leavesBelow w f X, Reach w P a := by
  intro f
  induction f with
  | zero => intro X h; cases h
  | succ f ih =>
    intro X h P hP a ha
    rcases h with hleaf | ⟨hb, hnodes⟩
    · simp only [leavesBelow, hleaf, Bool.false_eq_true, if_false, List.mem_singleton] at ha
      subst ha
      exact .step hP
    · simp only [leavesBelow, hb.comp, if_true] at ha
      rw [contents_succ, List.mem_flatMap] at ha
      obtain ⟨e, he, hae⟩ := ha
      obtain ⟨s, hs, hn⟩ := hb.cover e he
      obtain ⟨L, rest, rfl, hseq⟩ := hb.seq s hs
      rcases hseq.pred hn with hl | ⟨Q, hQ, x, hx, hr⟩
      · exact ih e.node (hnodes e he) P (fbStep_of_link hl hP) a hae
      · have h1 := ih e.node (hnodes e he) Q hQ a hae
        have hPx : FbStep w P x := fbStep_of_link hx hP
        rcases hr with rfl | hr
        · exact .head hPx h1
        · exact (Reach.head hPx hr).trans h1

/-- leaf-level consequence of `SepAfter`. -/
theorem sepAfter_leaves {w : World} (hd : LeafDurNonneg w) {cert : Nat → List (List LayerData)} {f A B : Nat}
    (hA : Nested w cert f A) (hB : Nested w cert f B) (h : SepAfter w A B)
    {a : Nat} (ha : a ∈ leavesBelow w f A) {b : Nat} (hb : b ∈ leavesBelow w f B)
    {ea sb : Int} (hea : End w a ea) (hsb : Start w b sb) : ea ≤ sb := by
  obtain ⟨Q, hQ, hends⟩ := h
  have hr := nested_reach f B hB Q hQ b hb
  obtain ⟨eq, heq⟩ := hr.end_defined hsb
  have h1 := hr.before hd eq sb heq hsb
  obtain ⟨hall, hex⟩ := hends eq heq
  by_cases hcomp : (w.op A).isComp = true
  · obtain ⟨eA, heA⟩ := hex hcomp
    have h2 := hall eA heA
    have h3 := nested_covers hd f A hA eA heA a ha ea hea
    omega
  · have hleaf : (w.op A).isComp = false := by simpa using hcomp
    simp only [leavesBelow, hleaf, Bool.false_eq_true, if_false, List.mem_singleton] at ha
    subst ha
    have := hall ea hea
    omega

/-- **No double booking below a nested block**: two distinct conflicting leaf operations are ordered in time. -/
theorem nested_ordered {w : World} (hd : LeafDurNonneg w) {cert : Nat → List (List LayerData)} :
    ∀ (f X : Nat), Nested w cert f X → ∀ a ∈ leavesBelow w f X, ∀ b ∈ leavesBelow w f X, a ≠ b →
      Conflict w a b → ∀ sa ea sb eb, Start w a sa → End w a ea → Start w b sb → End w b eb →
        ea ≤ sb ∨ eb ≤ sa := by
  intro f
  induction f with
  | zero => intro X h; cases h
  | succ f ih =>
    intro X h a ha b hb hab hconf sa ea sb eb hsa hea hsb heb
    rcases h with hleaf | ⟨hbk, hnodes⟩
    · simp only [leavesBelow, hleaf, Bool.false_eq_true, if_false, List.mem_singleton] at ha hb
      exact absurd (ha.trans hb.symm) hab
    · simp only [leavesBelow, hbk.comp, if_true] at ha hb
      rw [contents_succ, List.mem_flatMap] at ha hb
      obtain ⟨eA, heA, haA⟩ := ha
      obtain ⟨eB, heB, hbB⟩ := hb
      by_cases hAB : eA.node = eB.node
      · rw [← hAB] at hbB
        exact ih eA.node (hnodes eA heA) a haA b hbB hab hconf sa ea sb eb hsa hea hsb heb
      · obtain ⟨s, hs, hAs⟩ := hbk.cover eA heA
        obtain ⟨s', hs', hBs'⟩ := hbk.cover eB heB
        -- two nodes on a common sequence are separated; otherwise they do not conflict
        have hcommon : ∀ t ∈ cert X, eA.node ∈ layerOps t → eB.node ∈ layerOps t → ea ≤ sb ∨ eb ≤ sa := by
          intro t ht hAt hBt
          obtain ⟨L, rest, rfl, hseq⟩ := hbk.seq t ht
          rcases block_sep hd (hseq.head hbk.notJe).core hseq.layers hseq.side eA.node hAt eB.node hBt hAB
            with h1 | h1 | h1
          · exact Or.inl (sepAfter_leaves hd (hnodes eA heA) (hnodes eB heB) h1 haA hbB hea hsb)
          · exact Or.inr (sepAfter_leaves hd (hnodes eB heB) (hnodes eA heA) h1 hbB haA heb hsa)
          · obtain ⟨L', hL', c, hc, c', hc', hne, hx, hy⟩ := h1
            exact absurd hconf (hseq.sep L' hL' c hc c' hc' hne _ hx _ hy a haA b hbB)
        by_cases h1 : eB.node ∈ layerOps s
        · exact hcommon s hs hAs h1
        · by_cases h2 : eA.node ∈ layerOps s'
          · exact hcommon s' hs' h2 hBs'
          · exact absurd hconf (hbk.cross s hs s' hs' _ hAs _ hBs' h2 h1 a haA b hbB)

/-- **Nested blocks of layers never double-book a channel** (`C10.NoDoubleBooking`, the predicate of the library
    clause): for every number of qubits, paths, layers and nesting levels and all non-negative durations. -/
theorem nested_no_double_booking {w : World} (hd : LeafDurNonneg w) {cert : Nat → List (List LayerData)} {c : Nat}
    (hc : (w.op c).isComp = true) (h : Nested w cert (w.ops.size + 2) c) : NoDoubleBooking w c := by
  intro a ha b hb hab hsh sa ea sb eb hsa hea hsb heb hreq
  have hla : (w.op a).isComp = false := contents_leaf w _ c a ha
  have hlb : (w.op b).isComp = false := contents_leaf w _ c b hb
  have hconf : Conflict w a b := by
    refine ⟨hsh, ?_⟩
    rcases hreq with ⟨h1, h2⟩ | h1 | h1
    · right; right
      constructor
      · intro h0
        obtain ⟨s, d, hs, hdv, heq⟩ := hea.decompose
        have := hdv.unique (durV_leaf hla)
        have := hs.unique hsa
        omega
      · intro h0
        obtain ⟨s, d, hs, hdv, heq⟩ := heb.decompose
        have := hdv.unique (durV_leaf hlb)
        have := hs.unique hsb
        omega
    · exact Or.inl h1
    · exact Or.inr (Or.inl h1)
  have ha' : a ∈ leavesBelow w (w.ops.size + 2) c := by simpa [leavesBelow, hc] using ha
  have hb' : b ∈ leavesBelow w (w.ops.size + 2) c := by simpa [leavesBelow, hc] using hb
  rcases nested_ordered hd _ c h a ha' b hb' hab hconf sa ea sb eb hsa hea hsb heb with h1 | h1
  · omega
  · omega

end Qco.C10Param
