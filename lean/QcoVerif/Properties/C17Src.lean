import QcoVerif.Properties.C17
import QcoVerif.Lemmas.ParkSrc
/-
  C17 — tie to the SOURCE TEXT (DESIGN.md §2.3b).  Kept in a file of its own that nothing imports.
  The dynamic parking of derived descriptions (`RepetitionCodeDescription.from_connectivity`, composite `gate_sequences`) asks
  `get_requires_parking` for every qubit of a layer: that function, as written, is the model's `Conn.requiresParking`.
-/
namespace Qco.C17
open Qco Qco.Py Qco.Gen.PySrc

theorem requires_parking_matches_source (q : Nat) (es : List (Nat × Nat)) (cls : String) (i : Nat) (fs : List (String × Val)) :
    callFn ParkSrc.parkEnv Conn_get_requires_parking [.int q, .list (es.map FreqSrc.edgeVal), .obj cls i fs] =
      .bool (Conn.requiresParking q es) :=
  ParkSrc.requires_parking_matches_source_obj q es cls i fs

/-- both answers occur on the device (non-vacuity of the tie). -/
example : (List.range Conn.nQubits).any (fun q => Conn.deviceEdges.any (fun e => Conn.requiresParking q [e])) = true := by
  decide +kernel
example : (List.range Conn.nQubits).any (fun q => Conn.deviceEdges.any (fun e => !Conn.requiresParking q [e])) = true := by
  decide +kernel

end Qco.C17
