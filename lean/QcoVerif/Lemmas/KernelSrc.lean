import QcoVerif.Lemmas.PyBridge
import QcoVerif.Model.Kernel
/-
  How the model's kernels are presented to the translated source functions (Generated/PySrc.lean): the `self` objects.
  A `self` carries the dataclass FIELDS and, for every property or method the function under consideration reads, the
  value the MODEL assigns to it — so each `…_matches_source` theorem says "if the other members mean what the model
  says, this member's source text computes what the model says".  The members of one class depend on each other
  acyclically (Properties/C12.lean, `member_dependencies_acyclic`), so the theorems compose to: every member's source
  text computes the model's value.   Core Lean only.
-/
namespace Qco.KernelSrc
open Qco Qco.Py Qco.Kernel

/-- a strategy object: its fields, and the value `get_index` returns as pseudo-field `get_index()`. -/
def strategyObj (s : Strategy) : Val :=
  match s with
  | .fixed i => .obj "FixedIndexStrategy" 1 [("index", .int i), ("get_index()", .int (Strategy.getIndex (.fixed i)))]
  | .relative st => .obj "RelativeIndexStrategy" 1
      [("reference_index_kernel", .obj "IIndexingKernel" 2 [("stop_index", .int st)]),
       ("get_index()", .int (Strategy.getIndex (.relative st)))]

/-- method calls whose arguments the model does not look at are answered from the receiver's `m()` pseudo-field. -/
def fieldMethods : Env :=
  { method := fun recv m _ => match recv with | .obj _ _ fs => lookupField fs (m ++ "()") | _ => Option.none }

/-- `self` of a `RepetitionIndexKernel`. -/
def repFields (k : RepKernel) : List (String × Val) :=
  [("nr_repeated_parities", .int k.nr), ("heralded_initialization", .bool k.heralded),
   ("index_offset_strategy", strategyObj k.strategy),
   ("involved_data_qubit_ids", nats k.dataIds), ("involved_ancilla_qubit_ids", nats k.ancIds),
   ("start_index", .int k.startIndex), ("_exclusive_start_index", .int k.exclStart),
   ("index_delta_heralded_initialization", .int k.dHer),
   ("index_delta_stabilizer_measurements", .int k.dStab),
   ("index_delta_final_measurement", .int k.dFinal),
   ("stop_index", .int k.stopIndex),
   ("involved_qubit_ids", nats k.involved)]

def repSelf (k : RepKernel) : Val := .obj "RepetitionIndexKernel" 0 (repFields k)

/-- the same object with the results of its three element getters for element `e` (pseudo-fields). -/
def repSelfE (k : RepKernel) (e : QId) : Val := .obj "RepetitionIndexKernel" 0
  (repFields k ++
   [("get_heralded_measurement_index()", ints (k.heraldedIdx e)),
    ("get_ordered_stabilizer_measurement_indices()", ints (k.stabIdx e)),
    ("get_final_measurement_index()", ints (k.finalIdx e))])

/-- element getters are answered from the pseudo-fields only when called with exactly the element `e`. -/
def elemMethods (e : QId) : Env :=
  { method := fun recv m args =>
      match args, recv with
      | [.int a], .obj _ _ fs => if a = (e : Int) then lookupField fs (m ++ "()") else Option.none
      | _, _ => Option.none }

/-- `self` of a `QutritCalibrationIndexKernel`. -/
def calFields (c : CalKernel) : List (String × Val) :=
  [("heralded_initialization", .bool c.heralded), ("index_offset_strategy", strategyObj c.strategy),
   ("involved_qubit_ids", nats c.ids),
   ("start_index", .int c.startIndex), ("_exclusive_start_index", .int c.exclStart),
   ("index_delta_heralded_initialization", .int c.dHer),
   ("index_delta_state_0", .int c.d0), ("index_delta_state_1", .int c.d1), ("index_delta_state_2", .int c.d2),
   ("stop_index", .int c.stopIndex)]

def calSelf (c : CalKernel) : Val := .obj "QutritCalibrationIndexKernel" 0 (calFields c)

def calSelfE (c : CalKernel) (e : QId) : Val := .obj "QutritCalibrationIndexKernel" 0
  (calFields c ++
   [("get_heralded_state_0_measurement_index()", ints (c.heralded0 e)),
    ("get_heralded_state_1_measurement_index()", ints (c.heralded1 e)),
    ("get_heralded_state_2_measurement_index()", ints (c.heralded2 e)),
    ("get_state_0_measurement_index()", ints (c.state0 e)),
    ("get_state_1_measurement_index()", ints (c.state1 e)),
    ("get_state_2_measurement_index()", ints (c.state2 e))])

theorem sortInts_eq (l : List Int) : Py.sortInts l = Kernel.sortInts l := by
  unfold Py.sortInts Kernel.sortInts
  induction l with
  | nil => rfl
  | cons a as ih =>
    simp only [List.foldr_cons, ih]
    generalize List.foldr Kernel.insertSorted [] as = m
    induction m with
    | nil => rfl
    | cons b bs ihb => simp only [Py.insertSorted, Kernel.insertSorted, ihb]

end Qco.KernelSrc
