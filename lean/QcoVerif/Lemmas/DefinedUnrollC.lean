import QcoVerif.Lemmas.DefinedUnrollB
/-
  C01, definedness after unrolling — part C: `extend` with a fresh copy keeps the acyclicity certificate.

  * `extend_ranked2` — a variant of `Defined.extend_ranked` that does NOT ask the given ranking to respect the links the
    appended nodes carry BEFORE the `extend` (a plain link of an appended node is validated or replaced by `add`, a missing
    one is replaced by the group link to the leaves): only graph edges and the links of the other objects must be ranked.
  * `fresh_rank`     — a ranking of the heap after `copy()` in which the nodes of the copy increase in listing order
    (rank = listing position of the top-level node an object sits below, then the old rank).
  * `copy_extend_certified` — `(w.copy orig).1.extend c (w.copy orig).2` is closed and acyclic.
-/
namespace Qco.DefinedUnroll

open Qco Qco.Defined

/-! ### finer frame lemmas of `add` -/

theorem add_gdep {w : World} (hc : Closed w) (c o : Nat) {x y : Nat} (h : GDep (w.add c o) x y) :
    GDep w x y ∨ (x = c ∧ y = o) := by
  unfold GDep at h ⊢
  unfold World.add at h
  have ls := addToGraph_linkStep w (w.op c).graph o hc.link
  obtain ⟨e0, he0, hg⟩ := addToGraph_nodes w (w.op c).graph o
  simp only at h
  obtain ⟨hcomp, e, he, rfl⟩ := h
  rw [setGraph_isComp, isComp_noLink (ls.shape x)] at hcomp
  rw [setGraph_graph_cases] at he
  split at he
  · rename_i hcx
    rw [hg] at he
    rcases List.mem_append.mp he with h1 | h1
    · rw [← hcx.1]
      exact Or.inl ⟨by rw [hcx.1]; exact hcomp, e, h1, rfl⟩
    · simp only [List.mem_singleton] at h1
      subst h1
      exact Or.inr ⟨hcx.1.symm, he0⟩
  · rw [graph_noLink (ls.shape x)] at he
    exact Or.inl ⟨hcomp, e, he, rfl⟩

theorem add_refs_other {w : World} (hc : Closed w) (c o j : Nat) (hj : j ≠ o) :
    ((w.add c o).lnk ((w.add c o).op j).link).refs = (w.lnk (w.op j).link).refs := by
  have ls := addToGraph_linkStep w (w.op c).graph o hc.link
  unfold World.add
  simp only
  rw [setGraph_link, lnk_setGraph]
  exact ls.refs_other j hj

theorem add_refs_o {w : World} (hc : Closed w) (c o : Nat) :
    ∀ r ∈ ((w.add c o).lnk ((w.add c o).op o).link).refs,
      r ∈ (w.lnk (w.op o).link).refs ∨ r ∈ listing (w.op c).graph := by
  have ls := addToGraph_linkStep w (w.op c).graph o hc.link
  intro r hr
  unfold World.add at hr
  simp only at hr
  rw [setGraph_link, lnk_setGraph] at hr
  exact ls.refs_o r hr

/-! ### the `extend` loop, links of the appended nodes not ranked beforehand -/

structure ExtInv2 (w0 : World) (rk : Nat → Nat) (c rel : Nat) (N : List Nat) (w : World) (M : List Nat) : Prop where
  closed : Closed w
  clt : c < w.ops.size
  rankedG : ∀ x y, GDep w x y → rk y < rk x
  rankedL : ∀ x, x ∉ M → ∀ y ∈ (w.lnk (w.op x).link).refs, rk y < rk x
  single : ∀ n ∈ M, SingleLink (w.lnk (w.op n).link)
  rel_lt : rel < w.links.size
  rel_rk : ∀ r ∈ (w.lnk rel).refs, ∀ n ∈ N, rk r < rk n
  rel_cl : ∀ r ∈ (w.lnk rel).refs, r < w.ops.size
  nodes : ∀ e ∈ (w.op c).graph, ∀ n ∈ M, rk e.node < rk n
  below : ∀ n ∈ M, rk n < rk c ∧ n < w.ops.size
  sub : ∀ n ∈ M, n ∈ N
  incr : M.Pairwise (fun a b => rk a < rk b)
  links : LinksExt w0 w

theorem extInv2_step {w0 : World} {rk : Nat → Nat} {c rel : Nat} {N : List Nat} {w : World} {n : Nat} {M : List Nat}
    (h : ExtInv2 w0 rk c rel N w (n :: M)) :
    ExtInv2 w0 rk c rel N ((if !w.hasRel n then w.setLink n rel else w).add c n) M := by
  have hn := h.below n List.mem_cons_self
  have hnN := h.sub n List.mem_cons_self
  have hnM : n ∉ M := fun hm => by
    have := (List.pairwise_cons.mp h.incr).1 n hm
    omega
  have hcn : c ≠ n := fun e => by
    have := hn.1
    rw [e] at this
    omega
  have key : ∀ w1 : World, Closed w1 → w1.links = w.links → w1.ops.size = w.ops.size →
      (∀ j, j ≠ n → w1.op j = w.op j) → (w1.op n).noLink = (w.op n).noLink →
      (∀ r ∈ ((w1.add c n).lnk ((w1.add c n).op n).link).refs, rk r < rk n) →
      ExtInv2 w0 rk c rel N (w1.add c n) M := by
    intro w1 hc1 hl1 hs1 hop1 hnl1 hrn
    have hgd1 : ∀ x y, GDep w1 x y → GDep w x y := by
      intro x y hxy
      by_cases hx : x = n
      · subst hx
        unfold GDep at hxy ⊢
        rw [isComp_noLink hnl1, graph_noLink hnl1] at hxy
        exact hxy
      · unfold GDep at hxy ⊢
        rw [hop1 x hx] at hxy
        exact hxy
    have hlnk1 : ∀ l, w1.lnk l = w.lnk l := fun l => lnk_links_eq hl1 l
    have hle : LinksExt w (w1.add c n) := LinksExt.trans (LinksExt.of_eq hl1) (add_linksExt hc1 c n)
    have hsz : (w1.add c n).ops.size = w.ops.size := by rw [add_size hc1, hs1]
    have hc1lt : c < w1.ops.size := by rw [hs1]; exact h.clt
    have hgc1 : (w1.op c).graph = (w.op c).graph := by rw [hop1 c hcn]
    refine ⟨add_closed hc1 c n (by rw [hs1]; exact hn.2), by rw [hsz]; exact h.clt, ?_, ?_, ?_, ?_, ?_, ?_, ?_, ?_,
      ?_, ?_, LinksExt.trans h.links hle⟩
    · intro x y hxy
      rcases add_gdep hc1 c n hxy with hd | ⟨rfl, rfl⟩
      · exact h.rankedG x y (hgd1 x y hd)
      · exact hn.1
    · intro x hx y hy
      by_cases hxn : x = n
      · subst hxn; exact hrn y hy
      · rw [add_refs_other hc1 c n x hxn, hop1 x hxn, hlnk1] at hy
        refine h.rankedL x ?_ y hy
        intro hm
        rcases List.mem_cons.mp hm with e | e
        · exact hxn e
        · exact hx e
    · intro m hm
      have hmn : m ≠ n := fun e => hnM (e ▸ hm)
      have hmc : m ≠ c := fun e => by
        have := (h.below m (List.mem_cons_of_mem _ hm)).1
        rw [e] at this
        omega
      have hop : (w1.add c n).op m = w.op m := by
        rw [Defined.add_op_other hc1 c n m hmn hmc, hop1 m hmn]
      rw [lnk_frame h.closed hle hop]
      exact h.single m (List.mem_cons_of_mem _ hm)
    · have := hle.lsize
      have := h.rel_lt
      omega
    · rw [hle.lnk_old rel h.rel_lt]; exact h.rel_rk
    · rw [hle.lnk_old rel h.rel_lt, hsz]; exact h.rel_cl
    · intro e he m hm
      obtain ⟨e0, he0, hg⟩ := add_graph_c hc1 c n hc1lt
      rw [hg, hgc1] at he
      rcases List.mem_append.mp he with h1 | h1
      · exact h.nodes e h1 m (List.mem_cons_of_mem _ hm)
      · simp only [List.mem_singleton] at h1
        subst h1
        rw [he0]
        exact (List.pairwise_cons.mp h.incr).1 m hm
    · intro m hm
      rw [hsz]
      exact h.below m (List.mem_cons_of_mem _ hm)
    · intro m hm; exact h.sub m (List.mem_cons_of_mem _ hm)
    · exact (List.pairwise_cons.mp h.incr).2
  have hnodes : ∀ r, r ∈ listing (w.op c).graph → rk r < rk n := by
    intro r hr
    obtain ⟨e, he, rfl⟩ := mem_listing_iff.mp hr
    exact h.nodes e he n List.mem_cons_self
  split
  · rename_i hnr
    have hc1 : Closed (w.setLink n rel) := setLink_closed h.closed n rel h.rel_lt h.rel_cl
    apply key _ hc1 (setLink_links w n rel) (setLink_size w n rel)
      (fun j hj => Qco.setLink_op_other w n rel j hj) (noLink_setLink w n rel n)
    intro r hr
    rcases add_refs_o hc1 c n r hr with h1 | h1
    · rw [lnk_setLink, op_setLink, if_pos ⟨rfl, hn.2⟩] at h1
      exact h.rel_rk r h1 n hnN
    · rw [Qco.setLink_op_other w n rel c hcn] at h1
      exact hnodes r h1
  · apply key w h.closed rfl rfl (fun _ _ => rfl) rfl
    intro r hr
    have := add_refs_single h.closed c n hn.2 (h.single n List.mem_cons_self) r hr
    unfold World.kids at this
    exact hnodes r ((listing_perm _).mem_iff.mpr this)

theorem extInv2_fold {w0 : World} {rk : Nat → Nat} {c rel : Nat} {N : List Nat} : ∀ (M : List Nat) (w : World),
    ExtInv2 w0 rk c rel N w M →
    ExtInv2 w0 rk c rel N (M.foldl (fun w n => (if !w.hasRel n then w.setLink n rel else w).add c n) w) [] := by
  intro M
  induction M with
  | nil => intro w h; exact h
  | cons n M ih => intro w h; exact ih _ (extInv2_step h)

/-- **`extend` keeps a ranking** of the graph edges and of the links of all objects but the appended nodes, in which the
    appended nodes lie strictly between the nodes of `c` and `c`, increasing in listing order, and carry plain links. -/
theorem extend_ranked2 {w : World} {rk : Nat → Nat} (hc : Closed w) (c other : Nat) (hcl : c < w.ops.size)
    (hG : ∀ x y, GDep w x y → rk y < rk x)
    (hLk : ∀ x, x ∉ listing (w.op other).graph → ∀ y ∈ (w.lnk (w.op x).link).refs, rk y < rk x)
    (hS : ∀ n ∈ listing (w.op other).graph, SingleLink (w.lnk (w.op n).link))
    (h1 : ∀ n ∈ listing (w.op other).graph, rk n < rk c)
    (h2 : ∀ e ∈ (w.op c).graph, ∀ n ∈ listing (w.op other).graph, rk e.node < rk n)
    (h3 : (listing (w.op other).graph).Pairwise (fun a b => rk a < rk b)) :
    Ranked (w.extend c other) rk ∧ Closed (w.extend c other) ∧ LinksExt w (w.extend c other) := by
  unfold World.extend
  simp only
  have key : ∀ L : Link, (∀ r ∈ L.refs, ∃ e ∈ (w.op c).graph, e.node = r) →
      ExtInv2 w rk c (w.newLink L).2 (listing (w.op other).graph) (w.newLink L).1 (listing (w.op other).graph) := by
    intro L hL
    have hop : ∀ j, (w.newLink L).1.op j = w.op j := fun j => rfl
    have hsz : (w.newLink L).1.ops.size = w.ops.size := rfl
    have hlo : ∀ j, (w.newLink L).1.lnk ((w.newLink L).1.op j).link = w.lnk (w.op j).link :=
      fun j => by rw [hop, lnk_newLink_old w L _ (hc.link j)]
    refine ⟨newLink_closed hc L, hcl, ?_, ?_, ?_, ?_, ?_, ?_, ?_, ?_, fun n hn => hn, h3, ?_⟩
    · intro x y hxy; exact hG x y hxy
    · intro x hx y hy; rw [hlo] at hy; exact hLk x hx y hy
    · intro n hn; rw [hlo]; exact hS n hn
    · unfold World.newLink; simp
    · rw [lnk_newLink_new]
      intro r hr n hn
      obtain ⟨e, he, rfl⟩ := hL r hr
      exact h2 e he n hn
    · rw [lnk_newLink_new, hsz]
      intro r hr
      obtain ⟨e, he, rfl⟩ := hL r hr
      exact hc.node c e he
    · rw [hop]; exact h2
    · intro n hn
      rw [hsz]
      refine ⟨h1 n hn, ?_⟩
      obtain ⟨e, he, rfl⟩ := mem_listing_iff.mp hn
      exact hc.node other e he
    · exact ⟨by unfold World.newLink; simp, fun l hl => lnk_newLink_old w L l hl⟩
  have fin : ∀ {wf : World} {rel : Nat}, ExtInv2 w rk c rel (listing (w.op other).graph) wf [] →
      Ranked wf rk ∧ Closed wf ∧ LinksExt w wf := fun h =>
    ⟨⟨fun o r hr => h.rankedL o (fun hm => by cases hm) r hr,
      fun o hco e he => h.rankedG o e.node ⟨hco, e, he, rfl⟩⟩, h.closed, h.links⟩
  split
  · exact fin (extInv2_fold _ _ (key {} (fun r hr => by cases hr)))
  · exact fin (extInv2_fold _ _ (key { multi := true, refs := leaves (w.op c).graph } (fun r hr => mem_leaves hr)))

/-! ### a ranking of the heap in which the trees of a forest increase in list order -/

theorem mul_step {Q a b : Nat} (h : a < b) : Q * (a + 1) ≤ Q * b := Nat.mul_le_mul_left Q h

/-- given a forest `N` of `Nested` trees in a closed acyclic heap there is a ranking of all graph edges and of the links
    of all objects outside `N`, bounded, in which `N` increases in list order. -/
theorem fresh_rank {w : World} {f : Nat} {N : List Nat} (hc : Closed w) (ha : Acyclic w) (hF : Forest w f N)
    (hN : ∀ n ∈ N, Nested w f n) :
    ∃ (rkF : Nat → Nat) (Mb : Nat), (∀ x, rkF x < Mb) ∧ (∀ x y, GDep w x y → rkF y < rkF x) ∧
      (∀ x, x ∉ N → ∀ y ∈ (w.lnk (w.op x).link).refs, rkF y < rkF x) ∧ N.Pairwise (fun a b => rkF a < rkF b) := by
  obtain ⟨rk0, hrk0⟩ := ha
  obtain ⟨hr, hB⟩ := hrk0.compress hc
  obtain ⟨rk2, hrk2⟩ : ∃ rk2 : Nat → Nat, rk2 = crank w rk0 := ⟨_, rfl⟩
  rw [← hrk2] at hr hB
  obtain ⟨idx, hidx⟩ : ∃ idx : Nat → Nat, ∀ x, idx x = N.findIdx (fun n => decide (x ∈ w.below f n)) :=
    ⟨_, fun _ => rfl⟩
  have I1 : ∀ x, idx x ≤ N.length := fun x => by rw [hidx]; exact List.findIdx_le_length
  have I2 : ∀ x (h : idx x < N.length), x ∈ w.below f N[idx x] := by
    intro x h
    have h' : N.findIdx (fun n => decide (x ∈ w.below f n)) < N.length := by rw [← hidx]; exact h
    have := List.findIdx_getElem (w := h')
    simp only [decide_eq_true_eq] at this
    simp only [hidx]
    exact this
  have I3 : ∀ x i (hi : i < N.length), x ∈ w.below f N[i] → idx x ≤ i := by
    intro x i hi hx
    apply Nat.le_of_not_lt
    intro hlt
    rw [hidx] at hlt
    have := List.not_of_lt_findIdx hlt
    simp only [decide_eq_false_iff_not] at this
    exact this hx
  -- closure: edges never increase the index
  have CG : ∀ x y, GDep w x y → idx y ≤ idx x := by
    intro x y hxy
    by_cases hlt : idx x < N.length
    · obtain ⟨hcx, e, he, rfl⟩ := hxy
      have hmem : N[idx x] ∈ N := List.getElem_mem hlt
      have hyk : e.node ∈ w.kids x := List.mem_map.mpr ⟨e, he, rfl⟩
      exact I3 _ _ hlt (below_kids_closed w f _ (hF.tree _ hmem) x (I2 x hlt) hcx _ hyk)
    · have := I1 y; omega
  have CL : ∀ x, x ∉ N → ∀ y ∈ (w.lnk (w.op x).link).refs, idx y ≤ idx x := by
    intro x hxN y hy
    by_cases hlt : idx x < N.length
    · have hmem : N[idx x] ∈ N := List.getElem_mem hlt
      have hne : x ≠ N[idx x] := fun e => hxN (e ▸ hmem)
      exact I3 _ _ hlt (nested_ref_below w f _ (hF.tree _ hmem) (hN _ hmem) x (I2 x hlt) hne y hy)
    · have := I1 y; omega
  have I4 : ∀ i (hi : i < N.length), idx N[i] = i := by
    intro i hi
    have hmem : N[i] ∈ N := List.getElem_mem hi
    have hle := I3 N[i] i hi (hF.tree _ hmem).self_mem
    by_cases hlt : idx N[i] < i
    · exfalso
      have hj : idx N[i] < N.length := by omega
      have hmemj : N[idx N[i]] ∈ N := List.getElem_mem hj
      have hne : N[idx N[i]] ≠ N[i] := (List.pairwise_iff_getElem.mp hF.nodup) _ _ hj hi hlt
      exact hF.disj _ hmemj _ hmem hne N[i] (I2 N[i] hj) (hF.tree _ hmem).self_mem
    · omega
  refine ⟨fun x => (w.ops.size + 1) * idx x + rk2 x, (w.ops.size + 1) * (N.length + 1), ?_, ?_, ?_, ?_⟩
  · intro x
    have h1 := Nat.mul_le_mul_left (w.ops.size + 1) (I1 x)
    have h2 := hB x
    show (w.ops.size + 1) * idx x + rk2 x < (w.ops.size + 1) * (N.length + 1)
    rw [Nat.mul_succ]
    omega
  · intro x y hxy
    have h1 := Nat.mul_le_mul_left (w.ops.size + 1) (CG x y hxy)
    have h2 := ranked_iff.mp hr x y (Or.inr hxy)
    simp only
    omega
  · intro x hx y hy
    have h1 := Nat.mul_le_mul_left (w.ops.size + 1) (CL x hx y hy)
    have h2 := hr.ref x y hy
    simp only
    omega
  · rw [List.pairwise_iff_getElem]
    intro i j hi hj hij
    simp only
    rw [I4 i hi, I4 j hj]
    have h1 := mul_step (Q := w.ops.size + 1) hij
    have h2 := hB N[i]
    rw [Nat.mul_succ] at h1
    omega

/-! ### `copy()` then `extend` -/

theorem copy_linksExt {w : World} (hc : Closed w) (ha : Acyclic w) (o : Nat) (ho : o < w.ops.size) :
    LinksExt w (w.copy o).1 := by
  have post := copyObj_post w.depthFuel w o [] hc ha (fun p hp => by cases hp) ho (depthOk_depthFuel hc ha o)
  unfold World.copy
  exact ⟨post.lsize_le, post.lnk_old⟩

/-- **extending `c` with a fresh copy of a tree without group links keeps the certificate.** -/
theorem copy_extend_certified {w : World} {f c orig : Nat} (hc : Closed w) (ha : Acyclic w) (hcl : c < w.ops.size)
    (hcc : (w.op c).isComp = true) (ht : TreeBelow w (f + 1) orig) (hoc : (w.op orig).isComp = true)
    (hf : f + 1 ≤ w.depthFuel) (hsu : SingleUnder w (f + 1) orig) :
    Closed ((w.copy orig).1.extend c (w.copy orig).2) ∧ Acyclic ((w.copy orig).1.extend c (w.copy orig).2) ∧
    LinksExt w ((w.copy orig).1.extend c (w.copy orig).2) ∧
    LinksExt (w.copy orig).1 ((w.copy orig).1.extend c (w.copy orig).2) := by
  have hcs := copy_tree w (f + 1) orig ht hf
  obtain ⟨c2, a2, _, _, _⟩ := copy_certified hc ha orig ht.lt
  obtain ⟨hdeps, hnest⟩ := copy_fresh ht hf hc ha hsu
  have hle := copy_linksExt hc ha orig ht.lt
  have hid := hcs.id
  rw [hid] at hcs hnest ⊢
  generalize (w.copy orig).1 = w2 at hcs c2 a2 hdeps hnest hle ⊢
  have hcpc : (w2.op w.ops.size).isComp = true := by rw [hcs.kind]; exact hoc
  have hp : (listing (w2.op w.ops.size).graph).Perm (w2.kids w.ops.size) := listing_perm _
  have hFN : Forest w2 f (listing (w2.op w.ops.size).graph) := (hcs.tree.forest hcpc).perm hp.symm
  have hnestN : ∀ n ∈ listing (w2.op w.ops.size).graph, Nested w2 f n :=
    fun n hn => (hnest hcpc n (hp.mem_iff.mp hn)).2.2
  have hfreshN : ∀ n ∈ listing (w2.op w.ops.size).graph, w.ops.size ≤ n ∧ n < w2.ops.size := by
    intro n hn
    have hk := hp.mem_iff.mp hn
    have hb : n ∈ w2.below (f + 1) w.ops.size :=
      below_kid w2 f _ n n hcpc hk (hcs.tree.kid hcpc hk).self_mem
    exact ⟨hcs.fresh n hb, below_lt w2 (f + 1) _ hcs.tree n hb⟩
  obtain ⟨rkF, Mb, hMb, hFG, hFL, hFP⟩ := fresh_rank c2 a2 hFN hnestN
  obtain ⟨rk0, hrk0⟩ := ha
  obtain ⟨hr, hB⟩ := hrk0.compress hc
  obtain ⟨rk1, hrk1⟩ : ∃ rk1 : Nat → Nat, rk1 = crank w rk0 := ⟨_, rfl⟩
  rw [← hrk1] at hr hB
  -- objects outside the fresh range are as in `w`
  have hold : ∀ x, ¬ (w.ops.size ≤ x ∧ x < w2.ops.size) → w2.op x = w.op x := by
    intro x hx
    by_cases h1 : x < w.ops.size
    · exact hcs.old x h1
    · rw [op_of_ge w2 (by omega), op_of_ge w (by omega)]
  have holdG : ∀ x y, ¬ (w.ops.size ≤ x ∧ x < w2.ops.size) → GDep w2 x y → GDep w x y ∧ y < w.ops.size := by
    intro x y hx hxy
    unfold GDep at hxy ⊢
    rw [hold x hx] at hxy
    obtain ⟨h1, e, he, rfl⟩ := hxy
    exact ⟨⟨h1, e, he, rfl⟩, hc.node x e he⟩
  have holdL : ∀ x y, ¬ (w.ops.size ≤ x ∧ x < w2.ops.size) → y ∈ (w2.lnk (w2.op x).link).refs →
      y ∈ (w.lnk (w.op x).link).refs ∧ y < w.ops.size := by
    intro x y hx hy
    rw [lnk_frame hc hle (hold x hx)] at hy
    exact ⟨hy, hc.ref x y hy⟩
  have hfreshD : ∀ x y, (w.ops.size ≤ x ∧ x < w2.ops.size) → Dep w2 x y → (w.ops.size ≤ y ∧ y < w2.ops.size) := by
    intro x y hx hxy
    refine ⟨hdeps x y hx.1 hx.2 hxy, ?_⟩
    rcases hxy with h | ⟨_, e, he, rfl⟩
    · exact c2.ref x y h
    · exact c2.node x e he
  obtain ⟨rk', hrk'⟩ : ∃ rk' : Nat → Nat, ∀ x, rk' x =
      if w.ops.size ≤ x ∧ x < w2.ops.size then (Mb + 1) * rk1 c + 1 + rkF x else (Mb + 1) * (rk1 x + 1) :=
    ⟨_, fun _ => rfl⟩
  have oldold : ∀ x y, ¬ (w.ops.size ≤ x ∧ x < w2.ops.size) → y < w.ops.size → rk1 y < rk1 x → rk' y < rk' x := by
    intro x y hx hy hlt
    rw [hrk' x, hrk' y, if_neg hx, if_neg (by omega)]
    have := mul_step (Q := Mb + 1) (show rk1 y + 1 < rk1 x + 1 by omega)
    rw [Nat.mul_succ] at this
    omega
  have freshfresh : ∀ x y, (w.ops.size ≤ x ∧ x < w2.ops.size) → (w.ops.size ≤ y ∧ y < w2.ops.size) →
      rkF y < rkF x → rk' y < rk' x := by
    intro x y hx hy hlt
    rw [hrk' x, hrk' y, if_pos hx, if_pos hy]
    omega
  have hcnf : ¬ (w.ops.size ≤ c ∧ c < w2.ops.size) := by omega
  have hopc : w2.op c = w.op c := hcs.old c hcl
  have hc2l : c < w2.ops.size := Nat.lt_trans hcl hcs.size
  have hrk := extend_ranked2 (rk := rk') c2 c w.ops.size hc2l ?_ ?_ ?_ ?_ ?_ ?_
  · exact ⟨hrk.2.1, ⟨rk', hrk.1⟩, LinksExt.trans hle hrk.2.2, hrk.2.2⟩
  · intro x y hxy
    by_cases hx : w.ops.size ≤ x ∧ x < w2.ops.size
    · exact freshfresh x y hx (hfreshD x y hx (Or.inr hxy)) (hFG x y hxy)
    · obtain ⟨h1, h2⟩ := holdG x y hx hxy
      exact oldold x y hx h2 (ranked_iff.mp hr x y (Or.inr h1))
  · intro x hxN y hy
    by_cases hx : w.ops.size ≤ x ∧ x < w2.ops.size
    · exact freshfresh x y hx (hfreshD x y hx (Or.inl hy)) (hFL x hxN y hy)
    · obtain ⟨h1, h2⟩ := holdL x y hx hy
      exact oldold x y hx h2 (hr.ref x y h1)
  · intro n hn
    exact (hnest hcpc n (hp.mem_iff.mp hn)).1
  · intro n hn
    rw [hrk' n, hrk' c, if_pos (hfreshN n hn), if_neg hcnf, Nat.mul_succ]
    have := hMb n
    omega
  · intro e he n hn
    rw [hopc] at he
    have helt : e.node < w.ops.size := hc.node c e he
    have hlt : rk1 e.node < rk1 c := hr.node c hcc e he
    rw [hrk' n, hrk' e.node, if_pos (hfreshN n hn), if_neg (by omega)]
    have := mul_step (Q := Mb + 1) hlt
    omega
  · refine hFP.imp_of_mem ?_
    intro a b ha hb hab
    exact freshfresh b a (hfreshN b hb) (hfreshN a ha) hab

end Qco.DefinedUnroll
