import QcoVerif.Model.Basic
/-
  Relation tree of a (sub-)circuit: entries in insertion order, each with its path key.
  The *listing order* (`GraphBranch._update_branch_iterator`: breadth-first layers, children in
  insertion order) is defined as "sort by (key length, key lexicographic)".
-/
namespace Qco

/-- strict lexicographic order on keys of equal length (total on arbitrary keys). -/
def lexLt : List Nat → List Nat → Bool
  | [], [] => false
  | [], _ :: _ => true
  | _ :: _, [] => false
  | a :: as, b :: bs => a < b || (a == b && lexLt as bs)

/-- breadth-first order on keys: shorter first, then lexicographic. -/
def keyLe (a b : List Nat) : Bool :=
  a.length < b.length || (a.length == b.length && !(lexLt b a))

def entryLe (a b : Entry) : Bool := keyLe a.key b.key

/-- Entries in listing (breadth-first) order. -/
def sortedEntries (g : List Entry) : List Entry := g.mergeSort entryLe

/-- Nodes in listing order (`get_node_iterator`). -/
def listing (g : List Entry) : List Nat := (sortedEntries g).map (·.node)

/-- Does `n` have a child in `g`? -/
def hasChild (g : List Entry) (n : Nat) : Bool := g.any (fun e => e.parent == some n)

/-- Leaf nodes in listing order (`leaf_nodes`, root excluded). -/
def leaves (g : List Entry) : List Nat := (listing g).filter (fun n => !hasChild g n)

/-- Depth-1 nodes in listing order (`get_nodes_at(depth=1)`). -/
def heads (g : List Entry) : List Nat :=
  ((sortedEntries g).filter (fun e => e.parent.isNone)).map (·.node)

def entryOf? (g : List Entry) (n : Nat) : Option Entry := g.find? (fun e => e.node == n)

def inGraph (g : List Entry) (n : Nat) : Bool := g.any (fun e => e.node == n)

/-- number of entries already hanging under `p`. -/
def sibCount (g : List Entry) (p : Option Nat) : Nat := (g.filter (fun e => e.parent == p)).length

/-- `append_pointer_to(parent, node)`: hang `n` under `p` (`none` = root). -/
def attach (g : List Entry) (p : Option Nat) (n : Nat) : List Entry :=
  let base : List Nat := match p with
    | none => []
    | some q => ((entryOf? g q).map (·.key)).getD []
  g ++ [{ node := n, parent := p, key := base ++ [sibCount g p] }]

end Qco
