#!/bin/bash
# usage: tools/file_and_run.sh <Cxx> <suffix>   e.g. C07 m5 — confirms the candidate in /tmp/mut/out_<Cxx> (validate_seed.py), files it as
# seeded/<Cxx>-<suffix>, and runs the property's own quick check against it in a scratch worktree (run_seeded_wt.sh).
cd "$(dirname "$0")/.."
id=$1; sfx=$2
/venv/bin/python tools/validate_seed.py /tmp/mut/out_$id $id-$sfx 2>&1 | tail -1
[ -d seeded/$id-$sfx ] && tools/run_seeded_wt.sh $id-$sfx 2>&1 | tail -1
