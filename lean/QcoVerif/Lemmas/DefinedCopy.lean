import QcoVerif.Lemmas.DefinedBuild
/-
  C01, definedness: `copyObj` (hence `copy`, and `addSub` up to its final `add`) preserves the acyclicity
  certificate of Lemmas/Defined.lean.

  The copy allocates new objects only; a new object refers to values of the lookup (objects that existed before, or
  copies completed earlier) and a new composite contains copies completed earlier.  Every `add` inside the copy
  adds a completed copy (to which nothing refers yet) to the composite under construction (to which nothing
  refers either): `add_acyclic_of_roots` applies at every step.
-/
namespace Qco.Defined

open Qco

/-! ### heaps that differ in diagnostic fields only -/

def Same (w1 w : World) : Prop := w1.ops = w.ops ∧ w1.links = w.links

theorem Same.dep {w1 w : World} (h : Same w1 w) (x y : Nat) : Dep w1 x y ↔ Dep w x y := by
  unfold Dep; rw [op_ops_eq h.1, lnk_links_eq h.2]

theorem Same.closed {w1 w : World} (h : Same w1 w) (hc : Closed w) : Closed w1 := by
  refine ⟨fun o r hr => ?_, fun o e he => ?_, fun o => ?_⟩
  · rw [op_ops_eq h.1, lnk_links_eq h.2] at hr; rw [h.1]; exact hc.ref o r hr
  · rw [op_ops_eq h.1] at he; rw [h.1]; exact hc.node o e he
  · rw [op_ops_eq h.1, h.2]; exact hc.link o

theorem Same.acyclic {w1 w : World} (h : Same w1 w) (ha : Acyclic w) : Acyclic w1 := by
  obtain ⟨rk, hrk⟩ := ha
  refine ⟨rk, ranked_iff.mpr ?_⟩
  intro x y hxy
  exact ranked_iff.mp hrk x y ((h.dep x y).mp hxy)

theorem Same.unref {w1 w : World} (h : Same w1 w) {x : Nat} (hu : Unref w x) : Unref w1 x :=
  fun y hy => hu y ((h.dep y x).mp hy)

/-! ### the lookup -/

/-- every value of the lookup is an existing object. -/
def LkOk (w : World) (lk : Lookup) : Prop := ∀ p ∈ lk, p.2 < w.ops.size

theorem get?_mem {lk : Lookup} {k : EqKey} {v : Nat} (h : lk.get? k = some v) : ∃ p ∈ lk, p.2 = v := by
  unfold Lookup.get? at h
  cases hf : lk.find? (fun p => p.1 == k) with
  | none => rw [hf] at h; cases h
  | some p =>
    rw [hf] at h
    simp only [Option.map_some, Option.some.injEq] at h
    exact ⟨p, List.mem_of_find?_eq_some hf, h⟩

theorem set_vals {lk : Lookup} {k : EqKey} {v : Nat} {p : EqKey × Nat} (h : p ∈ lk.set k v) :
    p.2 = v ∨ ∃ q ∈ lk, q.2 = p.2 := by
  unfold Lookup.set at h
  split at h
  · obtain ⟨q, hq, rfl⟩ := List.mem_map.mp h
    split
    · exact Or.inl rfl
    · exact Or.inr ⟨q, hq, rfl⟩
  · rcases List.mem_append.mp h with h1 | h1
    · exact Or.inr ⟨p, h1, rfl⟩
    · simp only [List.mem_singleton] at h1
      subst h1; exact Or.inl rfl

/-- `copyLink` allocates one link whose references are values of the lookup; the copy of a plain link is plain. -/
theorem copyLink_spec (w : World) (l : Nat) (lk : Lookup) :
    ∃ w1 L, Same w1 w ∧ (∀ r ∈ L.refs, ∃ p ∈ lk, p.2 = r) ∧ (SingleLink (w.lnk l) → SingleLink L) ∧
      w.copyLink l lk = w1.newLink L := by
  unfold World.copyLink
  simp only
  split
  · refine ⟨w, _, ⟨rfl, rfl⟩, ?_, ?_, rfl⟩
    · intro r hr
      simp only at hr
      split at hr
      · cases hr
      · split at hr
        · cases hr
        · rename_i r' hget
          simp only [List.mem_singleton] at hr
          subst hr
          exact get?_mem hget
    · intro _
      refine ⟨rfl, ?_⟩
      simp only
      split
      · exact Nat.zero_le _
      · split
        · exact Nat.zero_le _
        · exact Nat.le_refl _
  · rename_i hm
    refine ⟨{ w with warnings := w.warnings +
        ((w.lnk l).refs.filter (fun r => (lk.get? (w.eqKey r)).isNone)).length }, _, ⟨rfl, rfl⟩, ?_, ?_, rfl⟩
    · intro r hr
      simp only at hr
      obtain ⟨a, _, ha⟩ := List.mem_filterMap.mp hr
      exact get?_mem ha
    · intro hsl
      rw [hsl.1] at hm
      exact absurd rfl hm

theorem copyFields_graph (op : Op) : op.copyFields.graph = [] := by
  unfold Op.copyFields
  split <;> rfl

/-! ### allocation of one object with a fresh link -/

structure AllocSpec (w : World) (lk : Lookup) (op : Op) (w' : World) : Prop where
  closed : Closed w'
  acyclic : Acyclic w'
  size : w'.ops.size = w.ops.size + 1
  lsize : w'.links.size = w.links.size + 1
  op_old : ∀ x, x < w.ops.size → w'.op x = w.op x
  op_new : w'.op w.ops.size = op
  lnk_old : ∀ l, l < w.links.size → w'.lnk l = w.lnk l
  unref_new : Unref w' w.ops.size
  unref_old : ∀ x, (∀ p ∈ lk, p.2 ≠ x) → Unref w x → Unref w' x
  single : SingleLinks w → SingleLinks w'

theorem alloc_spec {w w1 : World} (hs : Same w1 w) (hc : Closed w) (ha : Acyclic w) {lk : Lookup}
    (hlk : LkOk w lk) (L : Link) (hL : ∀ r ∈ L.refs, ∃ p ∈ lk, p.2 = r) (op : Op)
    (hopl : op.link = (w1.newLink L).2) (hg : op.graph = []) (hLs : SingleLinks w → SingleLink L) :
    AllocSpec w lk op ((w1.newLink L).1.newOp op).1 := by
  have hc1 : Closed w1 := hs.closed hc
  have hcl : Closed (w1.newLink L).1 := newLink_closed hc1 L
  have hal : Acyclic (w1.newLink L).1 := by
    obtain ⟨rk, hrk⟩ := hs.acyclic ha
    exact ⟨rk, newLink_ranked hc1 hrk L⟩
  have hszl : (w1.newLink L).1.ops.size = w.ops.size := by show w1.ops.size = _; rw [hs.1]
  have hidx : (w1.newLink L).2 = w.links.size := by show w1.links.size = _; rw [hs.2]
  have hlsz : (w1.newLink L).1.links.size = w.links.size + 1 := by
    unfold World.newLink; simp [hs.2]
  have hrefs : ((w1.newLink L).1.lnk op.link).refs = L.refs := by rw [hopl, lnk_newLink_new]
  have hLlt : ∀ r ∈ L.refs, r < w.ops.size := by
    intro r hr; obtain ⟨p, hp, rfl⟩ := hL r hr; exact hlk p hp
  have h1 : ∀ r ∈ ((w1.newLink L).1.lnk op.link).refs, r < (w1.newLink L).1.ops.size := by
    intro r hr; rw [hrefs] at hr; rw [hszl]; exact hLlt r hr
  have h2 : ∀ e ∈ op.graph, e.node < (w1.newLink L).1.ops.size := by
    intro e he; rw [hg] at he; cases he
  have hopold : ∀ x, x < w.ops.size → ((w1.newLink L).1.newOp op).1.op x = w.op x := by
    intro x hx
    rw [op_newOp, if_neg (by rw [hszl]; omega)]
    exact op_ops_eq hs.1 x
  have hdep : ∀ x y, Dep ((w1.newLink L).1.newOp op).1 x y → Dep w x y ∨ (x = w.ops.size ∧ y ∈ L.refs) := by
    intro x y hxy
    rcases dep_newOp _ op hxy with hd | ⟨hx, hr | ⟨_, e, he, _⟩⟩
    · exact Or.inl ((hs.dep x y).mp ((dep_newLink hc1 L x y).mp hd))
    · rw [hrefs] at hr; rw [hszl] at hx; exact Or.inr ⟨hx, hr⟩
    · rw [hg] at he; cases he
  refine ⟨newOp_closed hcl op (by rw [hopl, hidx, hlsz]; omega) h1 h2, newOp_acyclic hcl hal op h1 h2,
    by rw [newOp_size, hszl], hlsz, hopold, ?_, ?_, ?_, ?_,
    fun h => singleLinks_newLink (singleLinks_congr hs.2 h) (hLs h)⟩
  · rw [op_newOp, if_pos hszl.symm]
  · intro l hl
    rw [lnk_newOp, lnk_newLink_old w1 L l (by rw [hs.2]; exact hl)]
    exact lnk_links_eq hs.2 l
  · intro y hy
    rcases hdep y _ hy with hd | ⟨_, hr⟩
    · rcases hd with hd | ⟨_, e, he, hen⟩
      · exact Nat.lt_irrefl _ (hc.ref y _ hd)
      · have := hc.node y e he; omega
    · exact Nat.lt_irrefl _ (hLlt _ hr)
  · intro x hx hu y hy
    rcases hdep y x hy with hd | ⟨_, hr⟩
    · exact hu y hd
    · obtain ⟨p, hp, hpx⟩ := hL x hr
      exact hx p hp hpx

/-! ### the post-condition of `copyObj` -/

structure CopyPost (w : World) (lk : Lookup) (r : World × Nat × Lookup) : Prop where
  closed : Closed r.1
  acyclic : Acyclic r.1
  new_ge : w.ops.size ≤ r.2.1
  new_lt : r.2.1 < r.1.ops.size
  unref_new : Unref r.1 r.2.1
  lk_ok : LkOk r.1 r.2.2
  lk_vals : ∀ p ∈ r.2.2, (∃ q ∈ lk, q.2 = p.2) ∨ w.ops.size ≤ p.2
  size_le : w.ops.size ≤ r.1.ops.size
  lsize_le : w.links.size ≤ r.1.links.size
  op_old : ∀ x, x < w.ops.size → r.1.op x = w.op x
  lnk_old : ∀ l, l < w.links.size → r.1.lnk l = w.lnk l
  unref_old : ∀ x, x < w.ops.size → (∀ p ∈ lk, p.2 ≠ x) → Unref w x → Unref r.1 x
  single : SingleLinks w → SingleLinks r.1
  inner : SingleLinks w → ∀ x y, w.ops.size ≤ x → x < r.1.ops.size → x ≠ r.2.1 → Dep r.1 x y → w.ops.size ≤ y
  inner_graph : SingleLinks w → ∀ e ∈ (r.1.op r.2.1).graph, w.ops.size ≤ e.node

/-- the fuel of the copy is not exhausted below `o`. -/
def depthOk (w : World) : Nat → Nat → Prop
  | 0, _ => False
  | f+1, o => (w.op o).isComp = true → ∀ n ∈ listing (w.op o).graph, depthOk w f n

theorem depthOk_of_rank {w : World} {rk : Nat → Nat} (h : Ranked w rk) : ∀ f o, rk o < f → depthOk w f o := by
  intro f
  induction f with
  | zero => intro o ho; omega
  | succ f ih =>
    intro o ho
    unfold depthOk
    intro hc n hn
    obtain ⟨e, he, rfl⟩ := mem_listing_iff.mp hn
    have := h.node o hc e he
    exact ih e.node (by omega)

theorem depthOk_frame {w w' : World} (hc : Closed w) (hop : ∀ x, x < w.ops.size → w'.op x = w.op x) :
    ∀ f o, o < w.ops.size → depthOk w f o → depthOk w' f o := by
  intro f
  induction f with
  | zero => intro o _ h; exact h
  | succ f ih =>
    intro o ho h
    unfold depthOk at h ⊢
    rw [hop o ho]
    intro hcomp n hn
    obtain ⟨e, he, rfl⟩ := mem_listing_iff.mp hn
    exact ih e.node (hc.node o e he) (h hcomp e.node hn)

/-! ### unfolding `copyObj` -/

/-- one step of the copy loop. -/
def cStep (f res : Nat) (acc : World × Lookup) (n : Nat) : World × Lookup :=
  let key := acc.1.eqKey n
  let r := acc.1.copyObj f n acc.2
  let w := if r.2.2.any (fun p => p.1 == key) then { r.1 with collisions := r.1.collisions + 1 } else r.1
  (w.add res r.2.1, r.2.2.set key r.2.1)

theorem copyObj_comp' (w : World) (f o : Nat) (lk : Lookup) (h : (w.op o).isComp = true) :
    w.copyObj (f + 1) o lk =
      (((listing (w.op o).graph).foldl (cStep f (w.copyLink (w.op o).link lk).1.ops.size)
          (((w.copyLink (w.op o).link lk).1.newOp
              { cls := .comp, link := (w.copyLink (w.op o).link lk).2, rep := (w.op o).rep }).1, lk)).1,
       (w.copyLink (w.op o).link lk).1.ops.size,
       ((listing (w.op o).graph).foldl (cStep f (w.copyLink (w.op o).link lk).1.ops.size)
          (((w.copyLink (w.op o).link lk).1.newOp
              { cls := .comp, link := (w.copyLink (w.op o).link lk).2, rep := (w.op o).rep }).1, lk)).2) := by
  rw [World.copyObj]
  simp only [h, Bool.not_true, Bool.false_eq_true, if_false]
  rfl

theorem copyObj_leaf' (w : World) (f o : Nat) (lk : Lookup) (h : (w.op o).isComp = false) :
    w.copyObj (f + 1) o lk = ((w.copyLeaf o lk).1, (w.copyLeaf o lk).2, lk) := by
  rw [World.copyObj]
  simp only [h, Bool.not_false, if_true]

/-! ### the copy loop -/

structure LoopInv (w0 : World) (lk0 : Lookup) (res : Nat) (wi : World) (lki : Lookup) : Prop where
  closed : Closed wi
  acyclic : Acyclic wi
  res_lt : res < wi.ops.size
  res_ge : w0.ops.size ≤ res
  res_comp : (wi.op res).isComp = true
  unref_res : Unref wi res
  res_not_lk : ∀ p ∈ lki, p.2 ≠ res
  lk_ok : LkOk wi lki
  lk_vals : ∀ p ∈ lki, (∃ q ∈ lk0, q.2 = p.2) ∨ w0.ops.size ≤ p.2
  size_le : w0.ops.size ≤ wi.ops.size
  lsize_le : w0.links.size ≤ wi.links.size
  op_old : ∀ x, x < w0.ops.size → wi.op x = w0.op x
  lnk_old : ∀ l, l < w0.links.size → wi.lnk l = w0.lnk l
  unref_old : ∀ x, x < w0.ops.size → (∀ p ∈ lk0, p.2 ≠ x) → Unref w0 x → Unref wi x
  single : SingleLinks w0 → SingleLinks wi
  inner : SingleLinks w0 → ∀ x y, w0.ops.size ≤ x → x < wi.ops.size → x ≠ res → Dep wi x y → w0.ops.size ≤ y
  res_nodes : ∀ e ∈ (wi.op res).graph, w0.ops.size ≤ e.node

theorem add_graph_c {w : World} (hc : Closed w) (c o : Nat) (hcl : c < w.ops.size) :
    ∃ e : Entry, e.node = o ∧ ((w.add c o).op c).graph = (w.op c).graph ++ [e] := by
  have ls := addToGraph_linkStep w (w.op c).graph o hc.link
  obtain ⟨e0, he0, hg⟩ := addToGraph_nodes w (w.op c).graph o
  refine ⟨e0, he0, ?_⟩
  unfold World.add; simp only
  rw [setGraph_graph_cases, if_pos ⟨rfl, by rw [ls.size]; exact hcl⟩, hg]

/-- an old object has the same edges after a step that leaves old objects and old links alone. -/
theorem dep_old {w w' : World} (hc : Closed w) (hop : ∀ x, x < w.ops.size → w'.op x = w.op x)
    (hl : ∀ l, l < w.links.size → w'.lnk l = w.lnk l) {x y : Nat} (hx : x < w.ops.size) (h : Dep w' x y) :
    Dep w x y := by
  unfold Dep at h ⊢
  rw [hop x hx, hl _ (hc.link x)] at h
  exact h

theorem loop_step {w0 : World} {lk0 : Lookup} {res f : Nat} {wi : World} {lki : Lookup} {n : Nat}
    (inv : LoopInv w0 lk0 res wi lki) (post : CopyPost wi lki (wi.copyObj f n lki)) :
    LoopInv w0 lk0 res (cStep f res (wi, lki) n).1 (cStep f res (wi, lki) n).2 := by
  unfold cStep
  simp only
  generalize hr : wi.copyObj f n lki = r at post
  obtain ⟨w2, cp, lk2⟩ := r
  simp only at post ⊢
  -- the heap the `add` runs on: `w2` up to the collision counter
  have key : ∀ v : World, Same v w2 → LoopInv w0 lk0 res (v.add res cp) (lk2.set (wi.eqKey n) cp) := by
    intro v hv
    have p_size : wi.ops.size ≤ w2.ops.size := post.size_le
    have p_lsize : wi.links.size ≤ w2.links.size := post.lsize_le
    have p_new_lt : cp < w2.ops.size := post.new_lt
    have p_new_ge : wi.ops.size ≤ cp := post.new_ge
    have p_lk_ok : LkOk w2 lk2 := post.lk_ok
    have p_lk_vals : ∀ p ∈ lk2, (∃ q ∈ lki, q.2 = p.2) ∨ wi.ops.size ≤ p.2 := post.lk_vals
    have p_op_old : ∀ x, x < wi.ops.size → w2.op x = wi.op x := post.op_old
    have p_lnk_old : ∀ l, l < wi.links.size → w2.lnk l = wi.lnk l := post.lnk_old
    have p_unref_old : ∀ x, x < wi.ops.size → (∀ p ∈ lki, p.2 ≠ x) → Unref wi x → Unref w2 x := post.unref_old
    have p_closed : Closed w2 := post.closed
    have p_acyclic : Acyclic w2 := post.acyclic
    have p_unref_new : Unref w2 cp := post.unref_new
    have p_single : SingleLinks wi → SingleLinks w2 := post.single
    have p_inner : SingleLinks wi → ∀ x y, wi.ops.size ≤ x → x < w2.ops.size → x ≠ cp → Dep w2 x y →
        wi.ops.size ≤ y := post.inner
    have p_inner_graph : SingleLinks wi → ∀ e ∈ (w2.op cp).graph, wi.ops.size ≤ e.node := post.inner_graph
    have hcv : Closed v := hv.closed p_closed
    have hav : Acyclic v := hv.acyclic p_acyclic
    have hopv : ∀ x, v.op x = w2.op x := fun x => op_ops_eq hv.1 x
    have hszv : v.ops.size = w2.ops.size := by rw [hv.1]
    have hcp_ge : wi.ops.size ≤ cp := p_new_ge
    have hcp_lt : cp < v.ops.size := by rw [hszv]; exact p_new_lt
    have hne : cp ≠ res := by have := inv.res_lt; omega
    have hures2 : Unref w2 res := p_unref_old res inv.res_lt inv.res_not_lk inv.unref_res
    have hures : Unref v res := hv.unref hures2
    have hucp : Unref v cp := hv.unref p_unref_new
    have hcomp : (v.op res).isComp = true := by rw [hopv, p_op_old res inv.res_lt]; exact inv.res_comp
    have hsz : (v.add res cp).ops.size = w2.ops.size := by rw [add_size hcv, hszv]
    have hvals : ∀ p ∈ lk2.set (wi.eqKey n) cp, p.2 = cp ∨ ∃ q ∈ lk2, q.2 = p.2 := fun p hp => set_vals hp
    refine ⟨add_closed hcv res cp hcp_lt, add_acyclic_of_roots hcv hav res cp hcomp hucp hures hne, ?_, inv.res_ge,
      ?_, ?_, ?_, ?_, ?_, ?_, ?_, ?_, ?_, ?_, ?_, ?_, ?_⟩
    · rw [hsz]; have := p_size; have := inv.res_lt; omega
    · rw [add_isComp hcv]; exact hcomp
    · apply unref_add hcv res cp res hures hne.symm
      intro e he hen
      exact hures res (Or.inr ⟨hcomp, e, he, hen⟩)
    · intro p hp
      rcases hvals p hp with h1 | ⟨q, hq, hqp⟩
      · rw [h1]; exact hne
      · rw [← hqp]
        rcases p_lk_vals q hq with ⟨q', hq', h'⟩ | hge
        · rw [← h']; exact inv.res_not_lk q' hq'
        · have := inv.res_lt; omega
    · intro p hp
      rw [hsz]
      rcases hvals p hp with h1 | ⟨q, hq, hqp⟩
      · rw [h1]; exact p_new_lt
      · rw [← hqp]; exact p_lk_ok q hq
    · intro p hp
      rcases hvals p hp with h1 | ⟨q, hq, hqp⟩
      · rw [h1]; have := inv.size_le; exact Or.inr (by omega)
      · rw [← hqp]
        rcases p_lk_vals q hq with ⟨q', hq', h'⟩ | hge
        · rw [← h']; exact inv.lk_vals q' hq'
        · have := inv.size_le; exact Or.inr (by omega)
    · rw [hsz]; have := p_size; have := inv.size_le; omega
    · have := add_links_size hcv res cp
      rw [hv.2] at this
      have := p_lsize; have := inv.lsize_le; omega
    · intro x hx
      have := inv.size_le
      have := inv.res_ge
      rw [add_op_other hcv res cp x (by omega) (by omega), hopv, p_op_old x (by omega)]
      exact inv.op_old x hx
    · intro l hl
      have := inv.lsize_le
      have := p_lsize
      rw [add_lnk_old hcv res cp l (by rw [hv.2]; omega), lnk_links_eq hv.2, p_lnk_old l (by omega)]
      exact inv.lnk_old l hl
    · intro x hx hxlk hux
      have := inv.size_le
      have hxi : Unref wi x := inv.unref_old x hx hxlk hux
      have hx2 : Unref w2 x := by
        apply p_unref_old x (by omega) _ hxi
        intro p hp
        rcases inv.lk_vals p hp with ⟨q, hq, hqp⟩ | hge
        · rw [← hqp]; exact hxlk q hq
        · omega
      have hxv : Unref v x := hv.unref hx2
      apply unref_add hcv res cp x hxv (by omega)
      intro e he hen
      exact hxv res (Or.inr ⟨hcomp, e, he, hen⟩)
    · intro hs0
      exact add_singleLinks hcv (singleLinks_congr hv.2 (p_single (inv.single hs0))) res cp
    · intro hs0 x y hx hxlt hxres hxy
      have hsv : SingleLinks v := singleLinks_congr hv.2 (p_single (inv.single hs0))
      have := inv.size_le
      rw [hsz] at hxlt
      rcases dep_add_single hcv res cp hcp_lt (hsv _) hxy with ⟨hxcp, hd⟩ | ⟨hxcp, hd⟩ | ⟨hxcp, e, he, hen⟩ | ⟨hxr, _⟩
      · have hd2 : Dep w2 x y := (hv.dep x y).mp hd
        by_cases hxi : x < wi.ops.size
        · exact inv.inner hs0 x y hx hxi hxres (dep_old inv.closed p_op_old p_lnk_old hxi hd2)
        · have := p_inner (inv.single hs0) x y (by omega) hxlt hxcp hd2
          omega
      · obtain ⟨_, e, he, hen⟩ := hd
        rw [hopv] at he
        have := p_inner_graph (inv.single hs0) e he
        rw [← hen]; omega
      · rw [hopv, p_op_old res inv.res_lt] at he
        rw [← hen]; exact inv.res_nodes e he
      · exact absurd hxr hxres
    · intro e he
      obtain ⟨e0, he0, hg⟩ := add_graph_c hcv res cp (by rw [hszv]; have := inv.res_lt; omega)
      rw [hg] at he
      rcases List.mem_append.mp he with h1 | h1
      · rw [hopv, p_op_old res inv.res_lt] at h1
        exact inv.res_nodes e h1
      · simp only [List.mem_singleton] at h1
        subst h1; rw [he0]; have := inv.size_le; omega
  split
  · exact key _ ⟨rfl, rfl⟩
  · exact key _ ⟨rfl, rfl⟩

theorem loop_fold {w0 : World} {lk0 : Lookup} {res f : Nat} (hc0 : Closed w0)
    (ih : ∀ (w : World) (o : Nat) (lk : Lookup), Closed w → Acyclic w → LkOk w lk → o < w.ops.size →
      depthOk w f o → CopyPost w lk (w.copyObj f o lk)) :
    ∀ (Ns : List Nat) (acc : World × Lookup), LoopInv w0 lk0 res acc.1 acc.2 →
      (∀ n ∈ Ns, n < w0.ops.size ∧ depthOk w0 f n) →
      LoopInv w0 lk0 res (Ns.foldl (cStep f res) acc).1 (Ns.foldl (cStep f res) acc).2 := by
  intro Ns
  induction Ns with
  | nil => intro acc h _; exact h
  | cons n Ns ihN =>
    intro acc h hN
    obtain ⟨wi, lki⟩ := acc
    simp only [List.foldl_cons]
    obtain ⟨hn, hd⟩ := hN n List.mem_cons_self
    have hsl : w0.ops.size ≤ wi.ops.size := h.size_le
    have hpost := ih wi n lki h.closed h.acyclic h.lk_ok (by omega)
      (depthOk_frame hc0 h.op_old f n hn hd)
    exact ihN _ (loop_step h hpost) (fun m hm => hN m (List.mem_cons_of_mem _ hm))

/-- **`copyObj` preserves the certificate** and returns a new object to which nothing refers. -/
theorem copyObj_post : ∀ (f : Nat) (w : World) (o : Nat) (lk : Lookup), Closed w → Acyclic w → LkOk w lk →
    o < w.ops.size → depthOk w f o → CopyPost w lk (w.copyObj f o lk) := by
  intro f
  induction f with
  | zero => intro w o lk _ _ _ _ hd; exact absurd hd (by unfold depthOk; exact id)
  | succ f ih =>
    intro w o lk hc ha hlk ho hd
    obtain ⟨w1, L, hs, hL, hLs, hcl⟩ := copyLink_spec w (w.op o).link lk
    by_cases hcomp : (w.op o).isComp = true
    · rw [copyObj_comp' w f o lk hcomp, hcl]
      have hsz1 : (w1.newLink L).1.ops.size = w.ops.size := by show w1.ops.size = _; rw [hs.1]
      have al := alloc_spec hs hc ha hlk L hL { cls := .comp, link := (w1.newLink L).2, rep := (w.op o).rep } rfl rfl
        (fun h => hLs (h _))
      rw [hsz1]
      have inv0 : LoopInv w lk w.ops.size
          ((w1.newLink L).1.newOp { cls := .comp, link := (w1.newLink L).2, rep := (w.op o).rep }).1 lk := by
        refine ⟨al.closed, al.acyclic, by rw [al.size]; omega, Nat.le_refl _, by rw [al.op_new]; rfl, al.unref_new,
          fun p hp => Nat.ne_of_lt (hlk p hp), fun p hp => by rw [al.size]; have := hlk p hp; omega,
          fun p hp => Or.inl ⟨p, hp, rfl⟩, by rw [al.size]; omega, by rw [al.lsize]; omega, al.op_old, al.lnk_old,
          fun x _ hx hu => al.unref_old x hx hu, al.single, ?_, ?_⟩
        · intro _ x y hx hxlt hxres _
          rw [al.size] at hxlt; omega
        · intro e he
          rw [al.op_new] at he; cases he
      have hN : ∀ n ∈ listing (w.op o).graph, n < w.ops.size ∧ depthOk w f n := by
        intro n hn
        obtain ⟨e, he, hen⟩ := mem_listing_iff.mp hn
        refine ⟨by rw [← hen]; exact hc.node o e he, ?_⟩
        unfold depthOk at hd
        exact hd hcomp n hn
      have fin := loop_fold hc ih (listing (w.op o).graph) (_, lk) inv0 hN
      exact ⟨fin.closed, fin.acyclic, Nat.le_refl _, fin.res_lt, fin.unref_res, fin.lk_ok, fin.lk_vals, fin.size_le,
        fin.lsize_le, fin.op_old, fin.lnk_old, fin.unref_old, fin.single, fin.inner, fun _ => fin.res_nodes⟩
    · have hleaf : (w.op o).isComp = false := by simpa using hcomp
      rw [copyObj_leaf' w f o lk hleaf]
      have hcl' : ∃ op : Op, op.link = (w1.newLink L).2 ∧ op.graph = [] ∧
          w.copyLeaf o lk = (w1.newLink L).1.newOp op := by
        unfold World.copyLeaf
        simp only [Cls.copyKeepsLink, if_true]
        rw [hcl]
        refine ⟨_, ?_, ?_, rfl⟩
        · rfl
        · exact copyFields_graph (w.op o)
      obtain ⟨op, hopl, hopg, hcl''⟩ := hcl'
      rw [hcl'']
      have al := alloc_spec hs hc ha hlk L hL op hopl hopg (fun h => hLs (h _))
      have hnew : ((w1.newLink L).1.newOp op).2 = w.ops.size := by
        show w1.ops.size = _; rw [hs.1]
      rw [hnew]
      have hsz : ((w1.newLink L).1.newOp op).1.ops.size = w.ops.size + 1 := al.size
      have hlsz : ((w1.newLink L).1.newOp op).1.links.size = w.links.size + 1 := al.lsize
      refine ⟨al.closed, al.acyclic, Nat.le_refl _, ?_, al.unref_new, ?_,
        fun p hp => Or.inl ⟨p, hp, rfl⟩, ?_, ?_, al.op_old, al.lnk_old,
        fun x _ hx hu => al.unref_old x hx hu, al.single, ?_, ?_⟩
      · show w.ops.size < ((w1.newLink L).1.newOp op).1.ops.size
        omega
      · intro p hp
        show p.2 < ((w1.newLink L).1.newOp op).1.ops.size
        have := hlk p hp; omega
      · show w.ops.size ≤ ((w1.newLink L).1.newOp op).1.ops.size
        omega
      · show w.links.size ≤ ((w1.newLink L).1.newOp op).1.links.size
        omega
      · intro _ x y hx hxlt hxne _
        have hxlt' : x < ((w1.newLink L).1.newOp op).1.ops.size := hxlt
        have hxne' : x ≠ w.ops.size := hxne
        omega
      · intro _ e he
        have he' : e ∈ (((w1.newLink L).1.newOp op).1.op w.ops.size).graph := he
        rw [al.op_new, hopg] at he'; cases he'

/-! ### `copy` and `addSub` -/

theorem depthOk_depthFuel {w : World} (hc : Closed w) (ha : Acyclic w) (o : Nat) : depthOk w w.depthFuel o := by
  obtain ⟨rk, hrk⟩ := ha
  obtain ⟨h1, h2⟩ := hrk.compress hc
  apply depthOk_of_rank h1
  have := h2 o
  unfold World.depthFuel; omega

/-- **`copy` preserves the certificate** (no side condition: the fuel `depthFuel` of the copy always suffices on a
    closed acyclic heap). -/
theorem copy_certified {w : World} (hc : Closed w) (ha : Acyclic w) (o : Nat) (ho : o < w.ops.size) :
    Closed (w.copy o).1 ∧ Acyclic (w.copy o).1 ∧ Unref (w.copy o).1 (w.copy o).2 ∧
      w.ops.size ≤ (w.copy o).2 ∧ (w.copy o).2 < (w.copy o).1.ops.size := by
  have post := copyObj_post w.depthFuel w o [] hc ha (fun p hp => by cases hp) ho (depthOk_depthFuel hc ha o)
  unfold World.copy
  exact ⟨post.closed, post.acyclic, post.unref_new, post.new_ge, post.new_lt⟩

/-- **`addSub`**: the copy is certified; the final `add c cp` keeps the certificate provided the copy does not
    depend on `c` (it can only do so through the lookup entry `sub ↦ c`, i.e. when an object inside `sub` refers to
    something value-equal to `sub` — the conflation R3). -/
theorem addSub_certified {w : World} (hc : Closed w) (ha : Acyclic w) (c sub : Nat) (hcl : c < w.ops.size)
    (hsub : sub < w.ops.size) (hcomp : (w.op c).isComp = true)
    (hnc : ¬ Reach (w.copyObj w.depthFuel sub [(w.eqKey sub, c)]).1
      (w.copyObj w.depthFuel sub [(w.eqKey sub, c)]).2.1 c) :
    Closed (w.addSub c sub).1 ∧ Acyclic (w.addSub c sub).1 := by
  have post := copyObj_post w.depthFuel w sub [(w.eqKey sub, c)] hc ha
    (fun p hp => by simp only [List.mem_singleton] at hp; subst hp; exact hcl) hsub (depthOk_depthFuel hc ha sub)
  unfold World.addSub
  simp only
  have hcomp' : ((w.copyObj w.depthFuel sub [(w.eqKey sub, c)]).1.op c).isComp = true := by
    rw [post.op_old c hcl]; exact hcomp
  exact ⟨add_closed post.closed c _ post.new_lt,
    add_acyclic_of_unref post.closed post.acyclic c _ hcomp' post.unref_new hnc⟩

theorem reach_closed {w : World} {S : Nat → Prop} (hS : ∀ x y, S x → Dep w x y → S y) {x y : Nat} (hx : S x)
    (h : Reach w x y) : S y := by
  have key : ∀ a b, ReachE (Dep w) a b → S a → S b := by
    intro a b hab
    induction hab with
    | refl _ => exact id
    | step he _ ih => exact fun ha => ih (hS _ _ ha he)
  exact key x y h hx

/-- **`addSub` preserves the certificate on heaps without group links** — no side condition: the nodes of the copy
    depend on new objects only, and a plain link of the copy ends up referring to nodes of `c`. -/
theorem addSub_certified_single {w : World} (hc : Closed w) (ha : Acyclic w) (hs : SingleLinks w) (c sub : Nat)
    (hcl : c < w.ops.size) (hsub : sub < w.ops.size) (hcomp : (w.op c).isComp = true) :
    Closed (w.addSub c sub).1 ∧ Acyclic (w.addSub c sub).1 ∧ SingleLinks (w.addSub c sub).1 := by
  have post := copyObj_post w.depthFuel w sub [(w.eqKey sub, c)] hc ha
    (fun p hp => by simp only [List.mem_singleton] at hp; subst hp; exact hcl) hsub (depthOk_depthFuel hc ha sub)
  unfold World.addSub
  simp only
  generalize w.copyObj w.depthFuel sub [(w.eqKey sub, c)] = r at post
  obtain ⟨w', cp, lk'⟩ := r
  have p_closed : Closed w' := post.closed
  have p_new_ge : w.ops.size ≤ cp := post.new_ge
  have p_new_lt : cp < w'.ops.size := post.new_lt
  have p_unref : Unref w' cp := post.unref_new
  have p_single : SingleLinks w' := post.single hs
  have p_inner : ∀ x y, w.ops.size ≤ x → x < w'.ops.size → x ≠ cp → Dep w' x y → w.ops.size ≤ y := post.inner hs
  have p_graph : ∀ e ∈ (w'.op cp).graph, w.ops.size ≤ e.node := post.inner_graph hs
  have hcomp' : (w'.op c).isComp = true := by
    have : w'.op c = w.op c := post.op_old c hcl
    rw [this]; exact hcomp
  refine ⟨add_closed p_closed c cp p_new_lt, ?_, add_singleLinks p_closed p_single c cp⟩
  apply add_acyclic_single p_closed post.acyclic c cp p_new_lt hcomp' (p_single _) (by omega)
  · rintro y ⟨hcc, e, he, rfl⟩ hr
    have hS : ∀ x y, (w.ops.size ≤ x ∧ x < w'.ops.size ∧ x ≠ cp) → Dep w' x y →
        (w.ops.size ≤ y ∧ y < w'.ops.size ∧ y ≠ cp) := by
      intro x y ⟨h1, h2, h3⟩ hxy
      refine ⟨p_inner x y h1 h2 h3 hxy, ?_, fun hy => p_unref x (hy ▸ hxy)⟩
      rcases hxy with hr' | ⟨_, e', he', rfl⟩
      · exact p_closed.ref x y hr'
      · exact p_closed.node x e' he'
    have hstart : w.ops.size ≤ e.node ∧ e.node < w'.ops.size ∧ e.node ≠ cp :=
      ⟨p_graph e he, p_closed.node cp e he, fun hy => p_unref cp (Or.inr ⟨hcc, e, he, hy⟩)⟩
    have := (reach_closed (S := fun x => w.ops.size ≤ x ∧ x < w'.ops.size ∧ x ≠ cp) hS hstart hr).1
    omega
  · intro e he hr
    have : e.node = cp := reach_unref p_unref hr
    exact p_unref c (Or.inr ⟨hcomp', e, he, this⟩)

/-! ### the build steps of the driver on heaps without group links -/

/-- closed, acyclic, no group links. -/
structure Certified (w : World) : Prop where
  closed : Closed w
  acyclic : Acyclic w
  single : SingleLinks w

theorem singleLinks_empty : SingleLinks ({} : World) := by
  intro l
  have : ({} : World).lnk l = default := by
    unfold World.lnk
    cases l with
    | zero => rfl
    | succ n => simp [Array.getD]
  rw [this]; exact singleLink_default

theorem certified_empty : Certified ({} : World) :=
  ⟨empty_closed, ⟨fun _ => 0, empty_ranked _⟩, singleLinks_empty⟩

theorem newCircuit_certified {w : World} (h : Certified w) (rep : Rep) : Certified (w.newCircuit rep).1 :=
  ⟨newCircuit_closed h.closed rep, newCircuit_acyclic h.acyclic rep, singleLinks_congr rfl h.single⟩

theorem copy_certified_single {w : World} (h : Certified w) (o : Nat) (ho : o < w.ops.size) :
    Certified (w.copy o).1 := by
  have post := copyObj_post w.depthFuel w o [] h.closed h.acyclic (fun p hp => by cases hp) ho
    (depthOk_depthFuel h.closed h.acyclic o)
  unfold World.copy
  exact ⟨post.closed, post.acyclic, post.single h.single⟩

theorem addSub_certified' {w : World} (h : Certified w) (c sub : Nat) (hcl : c < w.ops.size)
    (hsub : sub < w.ops.size) (hcomp : (w.op c).isComp = true) : Certified (w.addSub c sub).1 := by
  obtain ⟨h1, h2, h3⟩ := addSub_certified_single h.closed h.acyclic h.single c sub hcl hsub hcomp
  exact ⟨h1, h2, h3⟩

/-- **the driver's `op` step** (`newLink L`, `newOp op` with that link, `add c` the new object): a plain link `L` to
    existing objects and an operation without graph — no condition on what `L` refers to, nor on where `c` sits. -/
theorem opStep_certified {w : World} (h : Certified w) (L : Link) (op : Op) (c : Nat) (hL : SingleLink L)
    (hLr : ∀ r ∈ L.refs, r < w.ops.size) (hopl : op.link = w.links.size) (hopg : op.graph = [])
    (hcl : c < w.ops.size) (hcomp : (w.op c).isComp = true) :
    Certified (((w.newLink L).1.newOp op).1.add c w.ops.size) := by
  have hc1 : Closed (w.newLink L).1 := newLink_closed h.closed L
  have ha1 : Acyclic (w.newLink L).1 := by
    obtain ⟨rk, hrk⟩ := h.acyclic
    exact ⟨rk, newLink_ranked h.closed hrk L⟩
  have hs1 : SingleLinks (w.newLink L).1 := singleLinks_newLink h.single hL
  have hsz1 : (w.newLink L).1.ops.size = w.ops.size := rfl
  have hrefs : ((w.newLink L).1.lnk op.link).refs = L.refs := by
    rw [hopl]; exact congrArg Link.refs (lnk_newLink_new w L)
  have h1 : ∀ r ∈ ((w.newLink L).1.lnk op.link).refs, r < (w.newLink L).1.ops.size := by
    intro r hr; rw [hrefs] at hr; exact hLr r hr
  have h2 : ∀ e ∈ op.graph, e.node < (w.newLink L).1.ops.size := by
    intro e he; rw [hopg] at he; cases he
  have hlsz : (w.newLink L).1.links.size = w.links.size + 1 := by unfold World.newLink; simp
  have hc2 : Closed ((w.newLink L).1.newOp op).1 := newOp_closed hc1 op (by rw [hopl, hlsz]; omega) h1 h2
  have ha2 : Acyclic ((w.newLink L).1.newOp op).1 := newOp_acyclic hc1 ha1 op h1 h2
  have hs2 : SingleLinks ((w.newLink L).1.newOp op).1 := singleLinks_congr rfl hs1
  have hsz2 : ((w.newLink L).1.newOp op).1.ops.size = w.ops.size + 1 := by rw [newOp_size, hsz1]
  have hu : Unref ((w.newLink L).1.newOp op).1 w.ops.size := by
    intro y hy
    rcases dep_newOp _ op hy with hd | ⟨_, hr | ⟨_, e, he, _⟩⟩
    · rcases hd with hd | ⟨_, e, he, hen⟩
      · exact Nat.lt_irrefl _ (hc1.ref y _ hd)
      · have := hc1.node y e he; rw [hen] at this; exact Nat.lt_irrefl _ this
    · rw [hrefs] at hr; exact Nat.lt_irrefl _ (hLr _ hr)
    · rw [hopg] at he; cases he
  have hopc : ((w.newLink L).1.newOp op).1.op c = w.op c := by
    rw [op_newOp, if_neg (by rw [hsz1]; omega)]; rfl
  have hopo : ((w.newLink L).1.newOp op).1.op w.ops.size = op := by
    rw [op_newOp, if_pos hsz1.symm]
  have hcomp2 : (((w.newLink L).1.newOp op).1.op c).isComp = true := by rw [hopc]; exact hcomp
  refine ⟨add_closed hc2 c _ (by rw [hsz2]; omega), ?_, add_singleLinks hc2 hs2 c _⟩
  apply add_acyclic_single hc2 ha2 c _ (by rw [hsz2]; omega) hcomp2 (hs2 _) (by omega)
  · rintro y ⟨_, e, he, _⟩
    rw [hopo, hopg] at he; cases he
  · intro e he hr
    have : e.node = w.ops.size := reach_unref hu hr
    exact hu c (Or.inr ⟨hcomp2, e, he, this⟩)

/-- Boolean check of `SingleLinks` on a literal heap. -/
def singleCheck (w : World) : Bool := w.links.toList.all fun L => !L.multi && decide (L.refs.length ≤ 1)

theorem singleLinks_of_check (w : World) (h : singleCheck w = true) : SingleLinks w := by
  unfold singleCheck at h
  rw [List.all_eq_true] at h
  intro l
  by_cases hl : l < w.links.size
  · have hmem : w.lnk l ∈ w.links.toList := by
      unfold World.lnk
      simp only [Array.getD_eq_getD_getElem?, Array.getElem?_eq_getElem hl, Option.getD_some]
      exact Array.getElem_mem_toList hl
    have := h _ hmem
    simp only [Bool.and_eq_true, Bool.not_eq_true', decide_eq_true_eq] at this
    exact this
  · have : w.lnk l = default := by
      unfold World.lnk
      simp [Array.getD, hl]
    rw [this]; exact singleLink_default

end Qco.Defined
