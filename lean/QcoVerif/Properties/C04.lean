import QcoVerif.Model.Builder
namespace Qco.C04
end Qco.C04
