#!/usr/bin/env python3
"""Applies a seeded change (a patch file) to /repo, runs checks, and undoes the change straight afterwards.

usage: tools/run_seeded.py <patch.diff | seeded/<id> | revert:<commit>> [--props C01,C05 | --all] [--tier quick] [--seed N]

Prints one line per check: property, exit code, verdict lines.  /repo must be clean before; it is restored with
`git -C /repo checkout -- .` (and new files of the patch removed) even when a check crashes.  Never commits."""
import argparse
import json
import os
import subprocess
import sys
import time
from pathlib import Path

VERIF = Path(__file__).resolve().parent.parent
REPO = '/repo'
ALL = [f'C{i:02d}' for i in range(1, 20)]


def sh(cmd, **kw):
    return subprocess.run(cmd, capture_output=True, text=True, **kw)


def main():
    ap = argparse.ArgumentParser()
    ap.add_argument('what')
    ap.add_argument('--props', default=None)
    ap.add_argument('--all', action='store_true')
    ap.add_argument('--tier', default='quick')
    ap.add_argument('--seed', default='0')
    a = ap.parse_args()

    st = sh(['git', '-C', REPO, 'status', '--porcelain', '--untracked-files=no']).stdout.strip()
    if st:
        print('refusing: /repo has uncommitted changes:\n' + st)
        return 2
    props = None
    if a.what.startswith('revert:'):
        c = a.what.split(':', 1)[1]
        patch = sh(['git', '-C', REPO, 'diff', c, c + '^']).stdout
        label = a.what
    else:
        p = Path(a.what)
        if p.is_dir():
            meta = json.loads((p / 'meta.json').read_text())
            props = meta.get('run_props') or [meta['property']]
            p = p / 'patch.diff'
        patch = p.read_text()
        label = str(p)
    if a.all:
        props = ALL
    elif a.props:
        props = a.props.split(',')
    elif props is None:
        props = ALL
    ap_ = subprocess.run(['git', '-C', REPO, 'apply', '--whitespace=nowarn', '-'], input=patch, text=True, capture_output=True)
    if ap_.returncode != 0:
        print('patch does not apply:', ap_.stderr)
        return 2
    results = {}
    # evidence written while a seeded change is applied must never be committed: keep the clean-tree files
    import shutil, tempfile
    keep = Path(tempfile.mkdtemp(prefix='evkeep_'))
    shutil.copytree(VERIF / 'evidence', keep / 'evidence')
    try:
        for pr in props:
            t0 = time.time()
            env = dict(os.environ, VERIF_SEED=str(a.seed))
            r = subprocess.run(['./check', pr, '--tier', a.tier], cwd=str(VERIF), capture_output=True, text=True, env=env)
            lines = [l for l in r.stdout.splitlines() if l.startswith(('VIOLATION', 'KNOWN-FINDING'))]
            results[pr] = {'exit': r.returncode, 'lines': lines, 's': round(time.time() - t0, 1)}
            v = [l for l in lines if l.startswith('VIOLATION')]
            print(f'{label} {pr} exit={r.returncode} {results[pr]["s"]}s ' + (' | '.join(v) if v else ''), flush=True)
            if r.returncode == 2:
                print('   stderr tail:', r.stderr[-600:].replace('\n', ' / '))
    finally:
        shutil.rmtree(VERIF / 'evidence', ignore_errors=True)
        shutil.copytree(keep / 'evidence', VERIF / 'evidence')
        shutil.rmtree(keep, ignore_errors=True)
        subprocess.run(['git', '-C', REPO, 'checkout', '--', '.'])
        new = sh(['git', '-C', REPO, 'status', '--porcelain']).stdout
        for l in new.splitlines():
            if l.startswith('?? '):
                f = Path(REPO) / l[3:]
                if f.is_file() and f.suffix == '.py':
                    f.unlink()
    caught = [p for p, r in results.items() if r['exit'] == 1]
    print(f'SUMMARY {label}: caught by {caught or "NOTHING"}')
    return 0


if __name__ == '__main__':
    sys.exit(main())
