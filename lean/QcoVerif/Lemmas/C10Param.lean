import QcoVerif.Lemmas.C10Sched
/-
  C10, parametric layer lemmas (namespace `Qco.C10Param`).

  The library circuits are overlap-free for one uniform reason, independent of the number of qubits:
  between two synchronisation points (an all-qubit barrier, the start of a block, the last operation of the
  previous gate layer) every qubit (group) carries ONE FOLLOWED_BY path of operations, and what comes next hangs
  below the LAST operation of a path that ends LATEST.  This file proves that statement about the evaluator
  `evStart / evEnd / evDur` (QcoVerif/Model/Timing.lean) for an arbitrary number of paths, arbitrary path
  lengths, an arbitrary number of layers and arbitrary non-negative durations.

  * `FbPath`, `PathDur`      a FOLLOWED_BY path of single links below an operation; its total duration;
  * `fbPath_times`           EXACT schedule of a path: start of the k-th element = end of the anchor + sum of the
                             durations before it;
  * `layerAt_le`             one layer: every operation of every path has ended when the dominating path ends;
  * `Layers`, `layers_ordered`   a sequence of layers: two distinct operations are ordered in time unless they sit on
                             two different paths of the SAME layer;
  * `HeadLayerOk`, `block_ordered`  the same for a block whose first layer has no opening operation (its paths start
                             with the block: their first operations carry one common link);
  * `dominated_uniform`, `dominated_refocus`   the two kinds of layers of the library rounds are dominated for every
                             number of qubits and all non-negative durations.
-/
namespace Qco.C10Param

open Qco Qco.C10

/-! ### reachability through FOLLOWED_BY links -/

/-- `b` is reachable from `a` through FOLLOWED_BY links (single links, or the group links made by `extend`). -/
inductive Reach (w : World) : Nat → Nat → Prop
  | step {a b} : FbStep w a b → Reach w a b
  | tail {a m b} : Reach w a m → FbStep w m b → Reach w a b

theorem Reach.head {w : World} {a m b : Nat} (h1 : FbStep w a m) (h2 : Reach w m b) : Reach w a b := by
  induction h2 with
  | step h => exact .tail (.step h1) h
  | tail _ h ih => exact .tail ih h

theorem Reach.trans {w : World} {a m b : Nat} (h1 : Reach w a m) (h2 : Reach w m b) : Reach w a b := by
  induction h2 with
  | step h => exact .tail h1 h
  | tail _ h ih => exact .tail ih h

/-- `a` has ended when `b` starts, whenever the evaluator answers both. -/
def Before (w : World) (a b : Nat) : Prop := ∀ ea sb, End w a ea → Start w b sb → ea ≤ sb

/-- if the start of `b` is defined then so are start, duration and end of everything it is reachable from. -/
theorem Reach.end_defined {w : World} {a b : Nat} (h : Reach w a b) {sb : Int} (hb : Start w b sb) :
    ∃ ea, End w a ea := by
  induction h generalizing sb with
  | step hs =>
    obtain ⟨ea, hea, _⟩ := fbStep_end_le_start hs hb
    exact ⟨ea, hea⟩
  | tail _ hs ih =>
    obtain ⟨em, hem, _⟩ := fbStep_end_le_start hs hb
    obtain ⟨sm, _, hsm, _, _⟩ := hem.decompose
    exact ih hsm

/-- **two operations on one FOLLOWED_BY path never overlap** (same statement as
    `C10.followed_by_chain_no_overlap`, about `Reach`). -/
theorem Reach.before {w : World} (hd : LeafDurNonneg w) {a b : Nat} (h : Reach w a b) : Before w a b := by
  intro ea sb ha hb
  induction h generalizing sb with
  | step hs =>
    obtain ⟨ea', hea', hle⟩ := fbStep_end_le_start hs hb
    rw [ha.unique hea']; exact hle
  | tail _ hs ih =>
    obtain ⟨em, hem, hle⟩ := fbStep_end_le_start hs hb
    obtain ⟨sm, dm, hsm, hdm, heq⟩ := hem.decompose
    have h0 : 0 ≤ dm := dur_nonneg hd hdm
    have := ih _ hsm
    omega

theorem start_le_end {w : World} (hd : LeafDurNonneg w) {a : Nat} {sa ea : Int} (hs : Start w a sa)
    (he : End w a ea) : sa ≤ ea := by
  obtain ⟨s, d, hs', hd', heq⟩ := he.decompose
  have := hs.unique hs'
  have := dur_nonneg hd hd'
  omega

/-! ### a FOLLOWED_BY link with exactly one reference -/

/-- `x` is FOLLOWED_BY-linked to exactly `a`: through a single link, or through a group link (as made by `extend`
    when repetitions are unrolled) whose only reference is `a`. -/
def DirectFb (w : World) (a x : Nat) : Prop :=
  (w.lnk (w.op x).link).rel = .fb ∧
  (((w.lnk (w.op x).link).multi = false ∧ (w.lnk (w.op x).link).refs.head? = some a) ∨
   ((w.lnk (w.op x).link).multi = true ∧ (w.lnk (w.op x).link).refs = [a]))

theorem DirectFb.fbStep {w : World} {a x : Nat} (h : DirectFb w a x) : FbStep w a x := by
  refine ⟨h.1, ?_⟩
  rcases h.2 with ⟨h1, h2⟩ | ⟨h1, h2⟩
  · exact Or.inl ⟨h1, h2⟩
  · exact Or.inr ⟨h1, by rw [h2]; exact List.mem_cons_self⟩

theorem DirectFb.of_directRel {w : World} {a x : Nat} (h : DirectRel w .fb a x) : DirectFb w a x :=
  ⟨h.2.2, Or.inl ⟨h.1, h.2.1⟩⟩

/-- the reference of a group link with a single reference is that reference. -/
theorem refV_multi_singleton {w : World} {l : Nat} {r : Option Nat} {a : Nat} (h : RefV w l r)
    (hm : (w.lnk l).multi = true) (hr : (w.lnk l).refs = [a]) : r = some a := by
  obtain ⟨f, hf⟩ := h
  cases f with
  | zero => rw [evRef.eq_1] at hf; cases hf
  | succ f =>
    rw [evRef.eq_2, hm, hr] at hf
    simp only [Bool.not_true, Bool.false_eq_true, if_false] at hf
    cases h2 : evEnd w f a with
    | none => simp [h2] at hf
    | some e0 =>
      simp only [List.mapM_cons, List.mapM_nil, h2, Option.map_some, Option.pure_def, Option.bind_eq_bind,
        Option.bind_some, Option.some.injEq] at hf
      rw [← hf]
      simp only [pickLatest, List.foldl_cons, List.foldl_nil]
      split <;> rfl

/-- the successor of such a link starts exactly when the reference ends. -/
theorem direct_fb_start {w : World} {a x : Nat} (h : DirectFb w a x) {sx : Int} (hx : Start w x sx) :
    End w a sx := by
  rcases h.2 with ⟨h1, h2⟩ | ⟨h1, h2⟩
  · obtain ⟨sa, ea, d, _, hea, _, heq⟩ := start_of_direct (rel := .fb) ⟨h1, h2, h.1⟩ hx
    have : sx = ea := by rw [heq]; rfl
    rw [this]; exact hea
  · obtain ⟨d, r, _, hr, hcase⟩ := hx.decompose
    have hra := refV_multi_singleton hr h1 h2
    rcases hcase with ⟨hnone, _⟩ | ⟨r', sr, er, hsome, _, he, heq⟩
    · rw [hnone] at hra; cases hra
    · rw [hsome] at hra
      cases hra
      have : sx = er := by rw [heq, h.1]; rfl
      rw [this]; exact he

/-! ### FOLLOWED_BY paths -/

/-- `xs = [x₁, x₂, …]` hangs below `a` as a path of single FOLLOWED_BY links: `a ← x₁ ← x₂ ← …`. -/
def FbPath (w : World) : Nat → List Nat → Prop
  | _, [] => True
  | a, x :: xs => DirectFb w a x ∧ FbPath w x xs

/-- last element of `a :: xs`. -/
def lastOf : Nat → List Nat → Nat
  | a, [] => a
  | _, x :: xs => lastOf x xs

@[simp] theorem lastOf_nil (a : Nat) : lastOf a [] = a := rfl
@[simp] theorem lastOf_cons (a x : Nat) (xs : List Nat) : lastOf a (x :: xs) = lastOf x xs := rfl

theorem lastOf_append_singleton (a : Nat) (xs : List Nat) (z : Nat) : lastOf a (xs ++ [z]) = z := by
  induction xs generalizing a with
  | nil => simp
  | cons x xs ih => simp [ih]

theorem lastOf_mem {a : Nat} {xs : List Nat} (h : xs ≠ []) : lastOf a xs ∈ xs := by
  induction xs generalizing a with
  | nil => exact absurd rfl h
  | cons x xs ih =>
    rw [lastOf_cons]
    cases xs with
    | nil => simp
    | cons y ys => exact List.mem_cons_of_mem _ (ih (by simp))

theorem eq_append_lastOf {a : Nat} {xs : List Nat} (h : xs ≠ []) : ∃ pre, xs = pre ++ [lastOf a xs] := by
  induction xs generalizing a with
  | nil => exact absurd rfl h
  | cons x xs ih =>
    cases xs with
    | nil => exact ⟨[], by simp⟩
    | cons y ys =>
      obtain ⟨pre, hpre⟩ := ih (a := x) (by simp)
      refine ⟨x :: pre, ?_⟩
      rw [lastOf_cons, List.cons_append, ← hpre]

theorem FbPath.prefix {w : World} {a : Nat} {l1 l2 : List Nat} (h : FbPath w a (l1 ++ l2)) : FbPath w a l1 := by
  induction l1 generalizing a with
  | nil => trivial
  | cons x xs ih => exact ⟨h.1, ih h.2⟩

theorem FbPath.suffix {w : World} {a : Nat} {l1 l2 : List Nat} (h : FbPath w a (l1 ++ l2)) :
    FbPath w (lastOf a l1) l2 := by
  induction l1 generalizing a with
  | nil => exact h
  | cons x xs ih => rw [lastOf_cons]; exact ih h.2

theorem FbPath.reach {w : World} {a : Nat} {xs : List Nat} (h : FbPath w a xs) {y : Nat} (hy : y ∈ xs) :
    Reach w a y := by
  induction xs generalizing a with
  | nil => cases hy
  | cons x xs ih =>
    cases hy with
    | head => exact .step h.1.fbStep
    | tail _ hy' => exact .head h.1.fbStep (ih h.2 hy')

/-- an element of a path reaches every later element. -/
theorem FbPath.reach_later {w : World} {a : Nat} {l1 l2 : List Nat} {x : Nat} (h : FbPath w a (l1 ++ x :: l2))
    {y : Nat} (hy : y ∈ l2) : Reach w x y := by
  have h' : FbPath w a ((l1 ++ [x]) ++ l2) := by simpa using h
  have := h'.suffix
  rw [lastOf_append_singleton] at this
  exact this.reach hy

/-! ### total duration of a list of operations -/

/-- `D` is the sum of the (defined) durations of `xs`. -/
def PathDur (w : World) : List Nat → Int → Prop
  | [], D => D = 0
  | x :: xs, D => ∃ d D', DurV w x d ∧ PathDur w xs D' ∧ D = d + D'

theorem PathDur.unique {w : World} {xs : List Nat} {D D' : Int} (h : PathDur w xs D) (h' : PathDur w xs D') :
    D = D' := by
  induction xs generalizing D D' with
  | nil => simp only [PathDur] at h h'; omega
  | cons x xs ih =>
    obtain ⟨d, E, hd, hE, rfl⟩ := h
    obtain ⟨d', E', hd', hE', rfl⟩ := h'
    rw [hd.unique hd', ih hE hE']

theorem pathDur_append {w : World} {l1 l2 : List Nat} {D : Int} :
    PathDur w (l1 ++ l2) D ↔ ∃ D1 D2, PathDur w l1 D1 ∧ PathDur w l2 D2 ∧ D = D1 + D2 := by
  induction l1 generalizing D with
  | nil =>
    constructor
    · intro h; exact ⟨0, D, rfl, h, by omega⟩
    · rintro ⟨D1, D2, h1, h2, rfl⟩
      simp only [PathDur] at h1
      subst h1
      simpa using h2
  | cons x xs ih =>
    constructor
    · rintro ⟨d, E, hd, hE, rfl⟩
      obtain ⟨D1, D2, h1, h2, rfl⟩ := ih.mp hE
      exact ⟨d + D1, D2, ⟨d, D1, hd, h1, rfl⟩, h2, by omega⟩
    · rintro ⟨D1, D2, ⟨d, E, hd, hE, rfl⟩, h2, rfl⟩
      exact ⟨d, E + D2, hd, ih.mpr ⟨E, D2, hE, h2, rfl⟩, by omega⟩

theorem PathDur.nonneg {w : World} (hd : LeafDurNonneg w) {xs : List Nat} {D : Int} (h : PathDur w xs D) :
    0 ≤ D := by
  induction xs generalizing D with
  | nil => simp only [PathDur] at h; omega
  | cons x xs ih =>
    obtain ⟨d, E, hd', hE, rfl⟩ := h
    have := dur_nonneg hd hd'
    have := ih hE
    omega

theorem pathDur_singleton {w : World} {x : Nat} {d : Int} : PathDur w [x] d ↔ DurV w x d := by
  constructor
  · rintro ⟨d', E, hd, hE, rfl⟩
    simp only [PathDur] at hE
    subst hE
    simpa using hd
  · intro h; exact ⟨d, 0, h, rfl, by omega⟩

/-! ### the exact schedule of a path -/

/-- **Exact schedule of a path.**  If `pre ++ [y]` hangs below `a` and the start of `y` is defined, then the end
    of `a` and the durations of `pre` are defined and `start y = end a + Σ durations of pre`. -/
theorem fbPath_times {w : World} : ∀ (pre : List Nat) (a y : Nat), FbPath w a (pre ++ [y]) →
    ∀ sy, Start w y sy → ∃ ea D, End w a ea ∧ PathDur w pre D ∧ sy = ea + D := by
  intro pre
  induction pre with
  | nil =>
    intro a y h sy hsy
    exact ⟨sy, 0, direct_fb_start h.1 hsy, rfl, by omega⟩
  | cons x pre ih =>
    intro a y h sy hsy
    obtain ⟨ex, D', hex, hD', rfl⟩ := ih x y h.2 sy hsy
    obtain ⟨sx, dx, hsx, hdx, rfl⟩ := hex.decompose
    exact ⟨sx, dx + D', direct_fb_start h.1 hsx, ⟨dx, D', hdx, hD', rfl⟩, by omega⟩

/-- a path whose first element starts at the time `t0` (the time origin of a layer). -/
def ChainAt (w : World) (t0 : Int) : List Nat → Prop
  | [] => True
  | x :: xs => (∀ s, Start w x s → s = t0) ∧ FbPath w x xs

theorem FbPath.chainAt {w : World} {b : Nat} {c : List Nat} (h : FbPath w b c) {e : Int} (he : End w b e) :
    ChainAt w e c := by
  cases c with
  | nil => trivial
  | cons x xs =>
    refine ⟨?_, h.2⟩
    intro s hs
    exact (direct_fb_start h.1 hs).unique he

/-- start of an element of a chain = time origin + durations of the elements before it. -/
theorem chainAt_start {w : World} {t0 : Int} {pre suf : List Nat} {y : Nat}
    (h : ChainAt w t0 (pre ++ y :: suf)) {sy : Int} (hsy : Start w y sy) :
    ∃ D, PathDur w pre D ∧ sy = t0 + D := by
  cases pre with
  | nil => exact ⟨0, rfl, by have := h.1 sy hsy; omega⟩
  | cons x pre =>
    have hp : FbPath w x ((pre ++ [y]) ++ suf) := by simpa using h.2
    obtain ⟨ex, D', hex, hD', rfl⟩ := fbPath_times pre x y hp.prefix sy hsy
    obtain ⟨sx, dx, hsx, hdx, rfl⟩ := hex.decompose
    have := h.1 sx hsx
    exact ⟨dx + D', ⟨dx, D', hdx, hD', rfl⟩, by omega⟩

/-- end of an element of a chain = time origin + durations up to and including it. -/
theorem chainAt_end {w : World} {t0 : Int} {pre suf : List Nat} {y : Nat}
    (h : ChainAt w t0 (pre ++ y :: suf)) {ey : Int} (hey : End w y ey) :
    ∃ D, PathDur w (pre ++ [y]) D ∧ ey = t0 + D := by
  obtain ⟨sy, dy, hsy, hdy, rfl⟩ := hey.decompose
  obtain ⟨D, hD, rfl⟩ := chainAt_start h hsy
  exact ⟨D + dy, pathDur_append.mpr ⟨D, dy, hD, pathDur_singleton.mpr hdy, rfl⟩, by omega⟩

/-- the head of a chain has a defined start as soon as one of its elements has. -/
theorem chain_head_defined {w : World} {x : Nat} {xs : List Nat} (h : FbPath w x xs) {y : Nat}
    (hy : y ∈ x :: xs) {sy : Int} (hsy : Start w y sy) : ∃ sx, Start w x sx := by
  cases hy with
  | head => exact ⟨sy, hsy⟩
  | tail _ hy' =>
    obtain ⟨ex, hex⟩ := (h.reach hy').end_defined hsy
    obtain ⟨sx, _, hsx, _, _⟩ := hex.decompose
    exact ⟨sx, hsx⟩

/-! ### one layer -/

/-- the path `main` is (one of) the last to end: every prefix of every path of the layer is at most as long
    (in time) as `main`, whenever both durations are defined. -/
def Dominated (w : World) (chains : List (List Nat)) (main : List Nat) : Prop :=
  ∀ c ∈ chains, ∀ pre suf, c = pre ++ suf → ∀ D Dm, PathDur w pre D → PathDur w main Dm → D ≤ Dm

/-- **One layer.**  All paths start at `t0`; then every operation of every path has ended at
    `t0 + duration of the dominating path`. -/
theorem layerAt_le {w : World} {t0 : Int} {chains : List (List Nat)} {main : List Nat}
    (hch : ∀ c ∈ chains, ChainAt w t0 c) (hdom : Dominated w chains main)
    {c : List Nat} (hc : c ∈ chains) {y : Nat} (hy : y ∈ c) {ey : Int} (hey : End w y ey)
    {Dm : Int} (hDm : PathDur w main Dm) : ey ≤ t0 + Dm := by
  obtain ⟨pre, suf, rfl⟩ := List.append_of_mem hy
  obtain ⟨D, hD, rfl⟩ := chainAt_end (hch _ hc) hey
  have := hdom _ hc (pre ++ [y]) suf (by simp) D Dm hD hDm
  omega

/-- the end of the last element of the dominating path is `t0 + its duration`. -/
theorem main_end {w : World} {t0 : Int} {main : List Nat} (hm : ChainAt w t0 main) (hne : main ≠ []) {a : Nat}
    {em : Int} (hem : End w (lastOf a main) em) : ∃ Dm, PathDur w main Dm ∧ em = t0 + Dm := by
  obtain ⟨pre, hpre⟩ := eq_append_lastOf (a := a) hne
  rw [hpre] at hm
  obtain ⟨D, hD, rfl⟩ := chainAt_end (suf := []) hm hem
  exact ⟨D, by rw [hpre]; exact hD, rfl⟩

/-! ### first operations of a block: one common link -/

/-- two operations that carry the same link object (not JOINED_END) start together. -/
theorem same_link_same_start {w : World} {x y : Nat} (hl : (w.op x).link = (w.op y).link)
    (hje : (w.lnk (w.op y).link).rel ≠ .je) {sx sy : Int} (hx : Start w x sx) (hy : Start w y sy) : sx = sy := by
  obtain ⟨d1, r1, _, hr1, hcase1⟩ := hx.decompose
  obtain ⟨d2, r2, _, hr2, hcase2⟩ := hy.decompose
  rw [hl] at hr1 hcase1
  have hr : r1 = r2 := hr1.unique hr2
  subst hr
  rcases hcase1 with ⟨hn1, e1⟩ | ⟨r', sr, er, hs1, hsr, her, e1⟩
  · rcases hcase2 with ⟨_, e2⟩ | ⟨r'', _, _, hs2, _, _, _⟩
    · rw [e1, e2]; rfl
    · rw [hn1] at hs2; cases hs2
  · rcases hcase2 with ⟨hn2, _⟩ | ⟨r'', sr', er', hs2, hsr', her', e2⟩
    · rw [hn2] at hs1; cases hs1
    · rw [hs1] at hs2; cases hs2
      have := hsr.unique hsr'; have := her.unique her'
      subst_vars
      cases hrel : (w.lnk (w.op y).link).rel with
      | fb => simp [linkStart]
      | js => simp [linkStart]
      | je => exact absurd hrel hje

/-! ### the core of a layer: paths that start together -/

/-- paths of one layer and the path below whose last operation the next layer hangs. -/
structure LayerData where
  chains : List (List Nat)
  main : List Nat
  deriving Repr, Inhabited, DecidableEq

/-- The core of a (non-empty) layer: every path is a path of single FOLLOWED_BY links, the first operations of all
    paths start at the same time (whenever defined), `main` is one of the paths, not empty, and one of the last to
    end. -/
structure LayerCore (w : World) (L : LayerData) : Prop where
  internal : ∀ c ∈ L.chains, ∀ x xs, c = x :: xs → FbPath w x xs
  sync : ∀ c ∈ L.chains, ∀ c' ∈ L.chains, ∀ x xs x' xs', c = x :: xs → c' = x' :: xs' →
    ∀ s s', Start w x s → Start w x' s' → s = s'
  main_ne : L.main ≠ []
  main_mem : L.main ∈ L.chains
  dom : Dominated w L.chains L.main

theorem LayerCore.chainAt {w : World} {L : LayerData} (hL : LayerCore w L) {c : List Nat} (hc : c ∈ L.chains)
    {x : Nat} {xs : List Nat} (hcx : c = x :: xs) {t0 : Int} (ht0 : Start w x t0) :
    ∀ c' ∈ L.chains, ChainAt w t0 c' := by
  intro c' hc'
  cases c' with
  | nil => trivial
  | cons x' xs' =>
    exact ⟨fun s hs => hL.sync _ hc' _ hc x' xs' x xs rfl hcx s t0 hs ht0, hL.internal _ hc' x' xs' rfl⟩

/-- **Layer lemma.**  Every operation of the layer has ended when the last operation of the dominating path
    ends. -/
theorem core_before_next {w : World} {L : LayerData} (hL : LayerCore w L) {a : Nat}
    {c : List Nat} (hc : c ∈ L.chains) {y : Nat} (hy : y ∈ c) {ey : Int} (hey : End w y ey)
    {em : Int} (hem : End w (lastOf a L.main) em) : ey ≤ em := by
  cases c with
  | nil => cases hy
  | cons x xs =>
    obtain ⟨sy, _, hsy, _, _⟩ := hey.decompose
    obtain ⟨t0, ht0⟩ := chain_head_defined (hL.internal _ hc x xs rfl) hy hsy
    have hch := hL.chainAt hc rfl ht0
    obtain ⟨Dm, hDm, rfl⟩ := main_end (hch _ hL.main_mem) hL.main_ne hem
    exact layerAt_le hch hL.dom hc hy hey hDm

/-- two distinct members of a list: one occurs strictly before the other. -/
theorem split_two {α} {l : List α} {a b : α} (ha : a ∈ l) (hb : b ∈ l) (hab : a ≠ b) :
    (∃ l1 l2 l3, l = l1 ++ a :: l2 ++ b :: l3) ∨ (∃ l1 l2 l3, l = l1 ++ b :: l2 ++ a :: l3) := by
  obtain ⟨l1, l2, rfl⟩ := List.append_of_mem ha
  rw [List.mem_append, List.mem_cons] at hb
  rcases hb with hb | hb | hb
  · obtain ⟨m1, m2, rfl⟩ := List.append_of_mem hb
    right; exact ⟨m1, m2, l2, by simp⟩
  · exact absurd hb.symm hab
  · obtain ⟨m1, m2, rfl⟩ := List.append_of_mem hb
    left; exact ⟨l1, m1, m2, by simp⟩

/-- in `x :: xs` with `xs` a path below `x`, an element reaches every later element. -/
theorem cons_path_reach_later {w : World} {x : Nat} {xs : List Nat} (h : FbPath w x xs) {l1 l2 : List Nat}
    {u : Nat} (hsplit : x :: xs = l1 ++ u :: l2) {v : Nat} (hv : v ∈ l2) : Reach w u v := by
  cases l1 with
  | nil =>
    simp only [List.nil_append, List.cons.injEq] at hsplit
    obtain ⟨rfl, rfl⟩ := hsplit
    exact h.reach hv
  | cons z l1 =>
    simp only [List.cons_append, List.cons.injEq] at hsplit
    obtain ⟨rfl, rfl⟩ := hsplit
    exact h.reach_later hv

/-- two distinct operations of one path are ordered. -/
theorem core_path_ordered {w : World} (hd : LeafDurNonneg w) {L : LayerData} (hL : LayerCore w L)
    {c : List Nat} (hc : c ∈ L.chains) {u v : Nat} (hu : u ∈ c) (hv : v ∈ c) (huv : u ≠ v) :
    Before w u v ∨ Before w v u := by
  cases c with
  | nil => cases hu
  | cons x xs =>
    have hp := hL.internal _ hc x xs rfl
    rcases split_two hu hv huv with ⟨l1, l2, l3, h⟩ | ⟨l1, l2, l3, h⟩
    · left
      have h' : x :: xs = l1 ++ u :: (l2 ++ v :: l3) := by simpa using h
      exact (cons_path_reach_later hp h' (by simp)).before hd
    · right
      have h' : x :: xs = l1 ++ v :: (l2 ++ u :: l3) := by simpa using h
      exact (cons_path_reach_later hp h' (by simp)).before hd

/-- the last operation of `main` is reachable from every other operation of `main`. -/
theorem core_main_last_mem {L : LayerData} {w : World} (hL : LayerCore w L) (a : Nat) :
    lastOf a L.main ∈ L.main := lastOf_mem hL.main_ne

/-! ### a layer opened by an operation -/

/-- A layer opened by operation `b`: the first operation of every path is FOLLOWED_BY-linked to `b` — all of them
    with exactly the one reference `b`, or all of them through one common link object that names `b` (the group link
    `extend` gives to an appended copy) —, the rest of every path hangs below its first operation; `main` is one of
    the paths (or there are no paths at all) and is one of the last to end. -/
structure LayerOk (w : World) (b : Nat) (L : LayerData) : Prop where
  internal : ∀ c ∈ L.chains, ∀ x xs, c = x :: xs → FbPath w x xs
  step : ∀ c ∈ L.chains, ∀ x xs, c = x :: xs → FbStep w b x
  sync : (∀ c ∈ L.chains, ∀ x xs, c = x :: xs → DirectFb w b x) ∨
    (∀ c ∈ L.chains, ∀ c' ∈ L.chains, ∀ x xs x' xs', c = x :: xs → c' = x' :: xs' →
      (w.op x).link = (w.op x').link)
  main_ok : (L.main = [] ∧ L.chains = []) ∨ (L.main ≠ [] ∧ L.main ∈ L.chains)
  dom : Dominated w L.chains L.main

/-- the operation the next layer hangs below. -/
def LayerData.next (L : LayerData) (b : Nat) : Nat := lastOf b L.main

theorem LayerOk.core {w : World} {b : Nat} {L : LayerData} (hL : LayerOk w b L) (hne : L.main ≠ [])
    (hmem : L.main ∈ L.chains) : LayerCore w L where
  internal := hL.internal
  sync := by
    intro c hc c' hc' x xs x' xs' hcx hcx' s s' hs hs'
    rcases hL.sync with h | h
    · exact (direct_fb_start (h c hc x xs hcx) hs).unique (direct_fb_start (h c' hc' x' xs' hcx') hs')
    · have hje : (w.lnk (w.op x').link).rel ≠ .je := by
        rw [(hL.step c' hc' x' xs' hcx').1]; decide
      exact same_link_same_start (h c hc c' hc' x xs x' xs' hcx hcx') hje hs hs'
  main_ne := hne
  main_mem := hmem
  dom := hL.dom

/-- every operation of an opened layer is reachable from the opener. -/
theorem LayerOk.reach {w : World} {b : Nat} {L : LayerData} (hL : LayerOk w b L) {c : List Nat}
    (hc : c ∈ L.chains) {y : Nat} (hy : y ∈ c) : Reach w b y := by
  cases c with
  | nil => cases hy
  | cons x xs =>
    have h1 := hL.step _ hc x xs rfl
    cases hy with
    | head => exact .step h1
    | tail _ hy' => exact .head h1 ((hL.internal _ hc x xs rfl).reach hy')

/-- **Layer lemma (opened layer).**  Every operation of the layer has ended when the last operation of the
    dominating path ends. -/
theorem layer_before_next {w : World} {b : Nat} {L : LayerData} (hL : LayerOk w b L)
    {c : List Nat} (hc : c ∈ L.chains) {y : Nat} (hy : y ∈ c) {ey : Int} (hey : End w y ey)
    {em : Int} (hem : End w (L.next b) em) : ey ≤ em := by
  rcases hL.main_ok with ⟨_, hnil⟩ | ⟨hne, hmem⟩
  · rw [hnil] at hc; cases hc
  · exact core_before_next (hL.core hne hmem) hc hy hey hem

/-! ### a sequence of layers -/

/-- layers hanging one below the other: the next layer is opened by the last operation of `main`. -/
def Layers (w : World) : Nat → List LayerData → Prop
  | _, [] => True
  | b, L :: rest => LayerOk w b L ∧ Layers w (L.next b) rest

/-- the operations of a sequence of layers. -/
def layerOps : List LayerData → List Nat
  | [] => []
  | L :: rest => L.chains.flatten ++ layerOps rest

/-- two operations sit on two different paths of one layer. -/
def DiffChains (Ls : List LayerData) (a b : Nat) : Prop :=
  ∃ L ∈ Ls, ∃ c ∈ L.chains, ∃ c' ∈ L.chains, c ≠ c' ∧ a ∈ c ∧ b ∈ c'

theorem DiffChains.symm {Ls : List LayerData} {a b : Nat} (h : DiffChains Ls a b) : DiffChains Ls b a := by
  obtain ⟨L, hL, c, hc, c', hc', hne, ha, hb⟩ := h
  exact ⟨L, hL, c', hc', c, hc, Ne.symm hne, hb, ha⟩

theorem DiffChains.cons {Ls : List LayerData} {L : LayerData} {a b : Nat} (h : DiffChains Ls a b) :
    DiffChains (L :: Ls) a b := by
  obtain ⟨L', hL', rest⟩ := h
  exact ⟨L', List.mem_cons_of_mem _ hL', rest⟩

theorem next_reach {w : World} {b : Nat} {L : LayerData} (hL : LayerOk w b L) :
    L.next b = b ∨ Reach w b (L.next b) := by
  rcases hL.main_ok with ⟨hnil, _⟩ | ⟨hne, hmem⟩
  · left; simp [LayerData.next, hnil]
  · right; exact hL.reach hmem (lastOf_mem hne)

/-- every operation of the layers is reachable from the opener. -/
theorem layers_reach {w : World} : ∀ (Ls : List LayerData) (b : Nat), Layers w b Ls →
    ∀ z ∈ layerOps Ls, Reach w b z := by
  intro Ls
  induction Ls with
  | nil => intro b _ z hz; cases hz
  | cons L rest ih =>
    intro b h z hz
    simp only [layerOps, List.mem_append, List.mem_flatten] at hz
    rcases hz with ⟨c, hc, hzc⟩ | hz
    · exact h.1.reach hc hzc
    · have := ih _ h.2 z hz
      rcases next_reach h.1 with heq | hr
      · rw [heq] at this; exact this
      · exact hr.trans this

/-- two distinct operations of one path of an opened layer are ordered. -/
theorem path_ordered {w : World} (hd : LeafDurNonneg w) {b : Nat} {L : LayerData} (hL : LayerOk w b L)
    {c : List Nat} (hc : c ∈ L.chains) {x y : Nat} (hx : x ∈ c) (hy : y ∈ c) (hxy : x ≠ y) :
    Before w x y ∨ Before w y x := by
  rcases hL.main_ok with ⟨_, hnil⟩ | ⟨hne, hmem⟩
  · rw [hnil] at hc; cases hc
  · exact core_path_ordered hd (hL.core hne hmem) hc hx hy hxy

/-- an operation of a layer has ended when anything of a later layer starts. -/
theorem layer_before_later {w : World} (hd : LeafDurNonneg w) {b : Nat} {L : LayerData} {rest : List LayerData}
    (hL : LayerOk w b L) (hrest : Layers w (L.next b) rest) {c : List Nat} (hc : c ∈ L.chains) {y : Nat}
    (hy : y ∈ c) {z : Nat} (hz : z ∈ layerOps rest) : Before w y z := by
  intro ey sz hey hsz
  have hr := layers_reach rest _ hrest z hz
  obtain ⟨em, hem⟩ := hr.end_defined hsz
  have h1 := layer_before_next hL hc hy hey hem
  have h2 := hr.before hd em sz hem hsz
  omega

/-- **Sequence of layers.**  Any two distinct operations of a sequence of layers are ordered in time (one has ended
    when the other starts) unless they sit on two different paths of the same layer — for every number of
    layers, paths and path lengths and all non-negative durations. -/
theorem layers_ordered {w : World} (hd : LeafDurNonneg w) : ∀ (Ls : List LayerData) (b : Nat), Layers w b Ls →
    ∀ x ∈ layerOps Ls, ∀ y ∈ layerOps Ls, x ≠ y → Before w x y ∨ Before w y x ∨ DiffChains Ls x y := by
  intro Ls
  induction Ls with
  | nil => intro b _ x hx; cases hx
  | cons L rest ih =>
    intro b h x hx y hy hxy
    simp only [layerOps, List.mem_append, List.mem_flatten] at hx hy
    rcases hx with ⟨c, hc, hxc⟩ | hx
    · rcases hy with ⟨c', hc', hyc'⟩ | hy
      · by_cases hcc : c = c'
        · subst hcc
          rcases path_ordered hd h.1 hc hxc hyc' hxy with h1 | h1
          · exact Or.inl h1
          · exact Or.inr (Or.inl h1)
        · exact Or.inr (Or.inr ⟨L, List.mem_cons_self, c, hc, c', hc', hcc, hxc, hyc'⟩)
      · exact Or.inl (layer_before_later hd h.1 h.2 hc hxc hy)
    · rcases hy with ⟨c', hc', hyc'⟩ | hy
      · exact Or.inr (Or.inl (layer_before_later hd h.1 h.2 hc' hyc' hx))
      · rcases ih _ h.2 x hx y hy hxy with h1 | h1 | h1
        · exact Or.inl h1
        · exact Or.inr (Or.inl h1)
        · exact Or.inr (Or.inr h1.cons)

/-- the opener has ended when anything of the layers starts. -/
theorem opener_before {w : World} (hd : LeafDurNonneg w) {Ls : List LayerData} {b : Nat} (h : Layers w b Ls)
    {z : Nat} (hz : z ∈ layerOps Ls) : Before w b z :=
  (layers_reach Ls b h z hz).before hd

/-! ### a block: a first layer of paths that start together, then layers hanging below it -/

/-- an operation of the first layer has ended when anything of a later layer starts. -/
theorem core_before_later {w : World} (hd : LeafDurNonneg w) {L : LayerData} {rest : List LayerData} {a : Nat}
    (hL : LayerCore w L) (hrest : Layers w (lastOf a L.main) rest) {c : List Nat} (hc : c ∈ L.chains) {y : Nat}
    (hy : y ∈ c) {z : Nat} (hz : z ∈ layerOps rest) : Before w y z := by
  intro ey sz hey hsz
  have hr := layers_reach rest _ hrest z hz
  obtain ⟨em, hem⟩ := hr.end_defined hsz
  have h1 := core_before_next hL hc hy hey hem
  have h2 := hr.before hd em sz hem hsz
  omega

/-- **Block theorem.**  A first layer whose paths start together (`LayerCore`: e.g. the first operations of a
    sub-circuit, which carry the sub-circuit's link; or the paths below a barrier) followed by any number of layers
    hanging one below the other: any two distinct operations are ordered in time unless they sit on two different
    paths of the same layer. -/
theorem block_ordered {w : World} (hd : LeafDurNonneg w) {L : LayerData} {rest : List LayerData} {a : Nat}
    (hL : LayerCore w L) (hrest : Layers w (lastOf a L.main) rest) :
    ∀ x ∈ layerOps (L :: rest), ∀ y ∈ layerOps (L :: rest), x ≠ y →
      Before w x y ∨ Before w y x ∨ DiffChains (L :: rest) x y := by
  intro x hx y hy hxy
  simp only [layerOps, List.mem_append, List.mem_flatten] at hx hy
  rcases hx with ⟨c, hc, hxc⟩ | hx
  · rcases hy with ⟨c', hc', hyc'⟩ | hy
    · by_cases hcc : c = c'
      · subst hcc
        rcases core_path_ordered hd hL hc hxc hyc' hxy with h1 | h1
        · exact Or.inl h1
        · exact Or.inr (Or.inl h1)
      · exact Or.inr (Or.inr ⟨L, List.mem_cons_self, c, hc, c', hc', hcc, hxc, hyc'⟩)
    · exact Or.inl (core_before_later hd hL hrest hc hxc hy)
  · rcases hy with ⟨c', hc', hyc'⟩ | hy
    · exact Or.inr (Or.inl (core_before_later hd hL hrest hc' hyc' hx))
    · rcases layers_ordered hd rest _ hrest x hx y hy hxy with h1 | h1 | h1
      · exact Or.inl h1
      · exact Or.inr (Or.inl h1)
      · exact Or.inr (Or.inr h1.cons)

/-! ### the first layer of a block -/

/-- The first layer of a block: the first operations of all paths carry one common link object (what the listing
    establishes for the first operations of a sub-circuit; what `extend` establishes for an appended copy). -/
structure HeadLayerOk (w : World) (L : LayerData) : Prop where
  internal : ∀ c ∈ L.chains, ∀ x xs, c = x :: xs → FbPath w x xs
  link : ∀ c ∈ L.chains, ∀ c' ∈ L.chains, ∀ x xs x' xs', c = x :: xs → c' = x' :: xs' →
    (w.op x).link = (w.op x').link
  notJe : ∀ c ∈ L.chains, ∀ x xs, c = x :: xs → (w.lnk (w.op x).link).rel ≠ .je
  main_ne : L.main ≠ []
  main_mem : L.main ∈ L.chains
  dom : Dominated w L.chains L.main

theorem HeadLayerOk.core {w : World} {L : LayerData} (hL : HeadLayerOk w L) : LayerCore w L where
  internal := hL.internal
  sync := by
    intro c hc c' hc' x xs x' xs' hcx hcx' s s' hs hs'
    exact same_link_same_start (hL.link c hc c' hc' x xs x' xs' hcx hcx') (hL.notJe c' hc' x' xs' hcx') hs hs'
  main_ne := hL.main_ne
  main_mem := hL.main_mem
  dom := hL.dom

/-! ### leaf operations: durations and dominance by sums -/

theorem durV_leaf {w : World} {x : Nat} (h : (w.op x).isComp = false) : DurV w x (w.leafDur (w.op x).dur) := by
  refine ⟨2, ?_⟩
  rw [evDur.eq_2, evLeadSpan.eq_2, h]
  rfl

/-- sum of the leaf durations of a list of operations. -/
def durSum (w : World) : List Nat → Int
  | [] => 0
  | x :: xs => w.leafDur (w.op x).dur + durSum w xs

theorem durSum_append (w : World) (l1 l2 : List Nat) : durSum w (l1 ++ l2) = durSum w l1 + durSum w l2 := by
  induction l1 with
  | nil => simp [durSum]
  | cons x xs ih => simp only [List.cons_append, durSum, ih]; omega

theorem durSum_nonneg {w : World} (hd : LeafDurNonneg w) {l : List Nat} (hl : ∀ x ∈ l, (w.op x).isComp = false) :
    0 ≤ durSum w l := by
  induction l with
  | nil => simp [durSum]
  | cons x xs ih =>
    have h1 := hd x (hl x List.mem_cons_self)
    have h2 := ih (fun y hy => hl y (List.mem_cons_of_mem _ hy))
    simp only [durSum]; omega

theorem pathDur_leaves {w : World} {l : List Nat} (hl : ∀ x ∈ l, (w.op x).isComp = false) :
    PathDur w l (durSum w l) := by
  induction l with
  | nil => rfl
  | cons x xs ih =>
    exact ⟨_, _, durV_leaf (hl x List.mem_cons_self), ih (fun y hy => hl y (List.mem_cons_of_mem _ hy)), rfl⟩

/-- for paths of leaf operations, dominance is an inequality between sums of leaf durations. -/
theorem dominated_of_sums {w : World} (hd : LeafDurNonneg w) {chains : List (List Nat)} {main : List Nat}
    (hleaf : ∀ c ∈ chains, ∀ x ∈ c, (w.op x).isComp = false) (hmain : ∀ x ∈ main, (w.op x).isComp = false)
    (hle : ∀ c ∈ chains, durSum w c ≤ durSum w main) : Dominated w chains main := by
  intro c hc pre suf hsplit D Dm hD hDm
  have hpre : ∀ x ∈ pre, (w.op x).isComp = false := fun x hx => hleaf c hc x (by rw [hsplit]; simp [hx])
  have hsuf : ∀ x ∈ suf, (w.op x).isComp = false := fun x hx => hleaf c hc x (by rw [hsplit]; simp [hx])
  have h1 := hD.unique (pathDur_leaves hpre)
  have h2 := hDm.unique (pathDur_leaves hmain)
  have h3 := hle c hc
  rw [hsplit, durSum_append] at h3
  have h4 := durSum_nonneg hd hsuf
  omega

/-! ### the layers of the library rounds are dominated, for every number of qubits -/

/-- duration strategies along a path. -/
def durs (w : World) (c : List Nat) : List Dur := c.map (fun x => (w.op x).dur)

theorem durSum_eq_map (w : World) (c : List Nat) : durSum w c = ((durs w c).map w.leafDur).sum := by
  induction c with
  | nil => rfl
  | cons x xs ih => simp only [durSum, durs, List.map_cons, List.sum_cons, ih]

/-- **Uniform layer** (all Ry90 / all CPhase and parking / all virtual phases / reset – measurement per qubit …):
    every path carries the same sequence of duration strategies as `main`.  Dominated for all durations. -/
theorem dominated_uniform {w : World} (hd : LeafDurNonneg w) {chains : List (List Nat)} {main : List Nat}
    (hleaf : ∀ c ∈ chains, ∀ x ∈ c, (w.op x).isComp = false) (hmain : ∀ x ∈ main, (w.op x).isComp = false)
    (h : ∀ c ∈ chains, durs w c = durs w main) : Dominated w chains main := by
  apply dominated_of_sums hd hleaf hmain
  intro c hc
  rw [durSum_eq_map, durSum_eq_map, h c hc]
  exact Int.le_refl _

/-- **Refocusing layer** of a QEC round with dynamical decoupling: every path is a measurement (readout duration) or
    wait – pulse – wait (decoupling wait, microwave duration, decoupling wait) and `main` is of the second kind.
    Dominated for every number of paths and all non-negative durations (readout − microwave even when non-negative:
    the decoupling wait is half the difference). -/
theorem dominated_refocus {w : World} (hd : LeafDurNonneg w) {chains : List (List Nat)} {main : List Nat}
    (hleaf : ∀ c ∈ chains, ∀ x ∈ c, (w.op x).isComp = false) (hmainleaf : ∀ x ∈ main, (w.op x).isComp = false)
    (hmain : durs w main = [.decoupling, .glob .mw, .decoupling])
    (h : ∀ c ∈ chains, durs w c = [.glob .ro] ∨ durs w c = durs w main)
    (heven : w.gMw ≤ w.gRo → (w.gRo - w.gMw) % 2 = 0) : Dominated w chains main := by
  apply dominated_of_sums hd hleaf hmainleaf
  intro c hc
  rw [durSum_eq_map, durSum_eq_map]
  rcases h c hc with h1 | h1
  · rw [h1, hmain]
    simp only [List.map_cons, List.map_nil, List.sum_cons, List.sum_nil, World.leafDur, World.gdur]
    by_cases hle : w.gMw ≤ w.gRo
    · have := heven hle
      omega
    · omega
  · rw [h1]; exact Int.le_refl _

/-! ### from the order to channels: no double booking of a block of leaf operations -/

/-- a sub-circuit all of whose nodes are leaf operations contains exactly its nodes. -/
theorem contents_flat {w : World} {c : Nat} (h : ∀ e ∈ (w.op c).graph, (w.op e.node).isComp = false) (f : Nat) :
    contents w (f + 1) c = (w.op c).graph.map (·.node) := by
  show ((w.op c).graph.flatMap (fun e => if (w.op e.node).isComp then contents w f e.node else [e.node])) = _
  generalize (w.op c).graph = g at h
  induction g with
  | nil => rfl
  | cons e es ih =>
    simp only [List.flatMap_cons, List.map_cons]
    rw [h e List.mem_cons_self, ih (fun e' he' => h e' (List.mem_cons_of_mem _ he'))]
    rfl

/-- paths of different qubits: operations on two different paths of one layer share no channel. -/
def Separated (w : World) (Ls : List LayerData) : Prop :=
  ∀ L ∈ Ls, ∀ c ∈ L.chains, ∀ c' ∈ L.chains, c ≠ c' → ∀ x ∈ c, ∀ y ∈ c', sharesChannel (w.op x) (w.op y) = false

/-- **No double booking of a layered block** — for every number of paths (qubits), path lengths and layers and all
    non-negative durations: if the operations below `c` are those of a block of layers (`LayerCore` first layer,
    `Layers` below it) whose paths within one layer share no channel, then no two distinct channel-sharing
    operations of `c` overlap (`C10.NoDoubleBooking`, the predicate of the library clause). -/
theorem block_no_double_booking {w : World} (hd : LeafDurNonneg w) {L : LayerData} {rest : List LayerData} {a c : Nat}
    (hL : LayerCore w L) (hrest : Layers w (lastOf a L.main) rest)
    (hcont : ∀ x ∈ contents w (w.ops.size + 2) c, x ∈ layerOps (L :: rest))
    (hsep : Separated w (L :: rest)) : NoDoubleBooking w c := by
  intro x hx y hy hxy hsh sx ex sy ey hsx hex hsy hey _
  rcases block_ordered hd hL hrest x (hcont x hx) y (hcont y hy) hxy with h | h | h
  · have := h ex sy hex hsy; omega
  · have := h ey sx hey hsx; omega
  · obtain ⟨L', hL', c1, hc1, c2, hc2, hne, hx1, hy2⟩ := h
    rw [hsep L' hL' c1 hc1 c2 hc2 hne x hx1 y hy2] at hsh
    cases hsh

end Qco.C10Param
