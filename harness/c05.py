"""C05 — copies are faithful and independent."""
from . import progs, streamcheck

PROP = 'C05'


def nontrivial(prog, f):
    return (f['sub'] + f['copy'] + f['apply']) >= 1 and len(f['rel']) >= 2 and f['ops'] >= 4


SPEC = streamcheck.StreamSpec(
    PROP, probes=['C05', 'C02m'],
    cfg=progs.GenConfig(static_durations=True, n_cmds=(6, 40), p_list=0.0, p_sub=0.16, p_copy=0.08, p_apply=0.06, p_flatten=0.03, p_newrel=0.12,
                        p_gdur=0.0, p_setreg=0.02, p_rel=0.5),
    n_quick=1200, n_thorough=40000,
    nontrivial=nontrivial,
    pysem=dict(groups=['facade'], effects=True),
    rule='random build programs over all 26 operation classes and all relation types WITHOUT intermediate observations '
         '(histories are C03), with explicit copies, nestings and unrollings followed by further mutations of either side; '
         'at every copy: operation sequence (kind, qubits, channels, duration strategy, tag, extra fields), repetition '
         'counts, relation types and positional relation targets and the relative schedule of original and copy are '
         'compared; before/after every later mutation the untouched side is fingerprinted; non-trivial = a copy/nesting/'
         'unrolling with >= 2 relation types and >= 4 operations; distinct = distinct program text',
    assumptions=['outside relations of a nested circuit are dropped by design (documented "excluding relation details")'])


def run(tier, seed):
    return streamcheck.run(SPEC, tier, seed)
