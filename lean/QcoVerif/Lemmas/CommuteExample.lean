import QcoVerif.Lemmas.CommuteSub
import QcoVerif.Lemmas.CopyGraphExample
/-
  Non-vacuity of the hypotheses of the commutation theorem `Commute.listing_then_add` (`AddOk`): a circuit `top` holding a
  sub-circuit `sub` holding one rotation with its own (reference-less) link, and a fresh rotation on the same qubit — all
  built by the model's own `newCircuit / newLink / newOp / add`.  The heap is evaluated step by step (the merge-sort
  based `listing` does not reduce in the kernel).  Core Lean only.
-/
namespace Qco.Commute

open Qco

/-- `top = DeclarativeCircuit(); sub = DeclarativeCircuit(); a = Rx180(0)` (each operation gets its own link object, as
    in the driver). -/
def exBuild0 : World :=
  let w0 : World := {}
  let (w, _) := w0.newCircuit (.fixed 1)
  let (w, _) := w.newCircuit (.fixed 1)
  let (w, l1) := w.newLink {}
  let (w, _) := w.newOp { cls := .rx180, qs := [0], dur := .glob .mw, link := l1 }
  w

/-- `sub.add(a)`. -/
def exBuild1 : World := exBuild0.add 1 2
/-- `top.add(sub)`. -/
def exBuild2 : World := exBuild1.add 0 1
/-- `o = Ry180(0)` with its own link object. -/
def exBuild : World :=
  ((exBuild2.newLink {}).1.newOp { cls := .ry180, qs := [0], dur := .glob .mw, link := (exBuild2.newLink {}).2 }).1

def exA : Op := { cls := .rx180, qs := [0], dur := .glob .mw, link := 1 }
def exO : Op := { cls := .ry180, qs := [0], dur := .glob .mw, link := 2 }

def exT1 : World := { ops := #[{ cls := .comp }, { cls := .comp }, exA], links := #[{}, {}] }
def exT2 : World :=
  { ops := #[{ cls := .comp }, { cls := .comp, graph := [⟨2, none, [0]⟩] }, exA], links := #[{}, {}] }
def exT3 : World :=
  { ops := #[{ cls := .comp, graph := [⟨1, none, [0]⟩] }, { cls := .comp, graph := [⟨2, none, [0]⟩] }, exA],
    links := #[{}, {}] }

/-- the heap the build program produces: objects `0 = top`, `1 = sub`, `2 = a`, `3 = o`. -/
def exLit : World :=
  { ops := #[{ cls := .comp, graph := [⟨1, none, [0]⟩] }, { cls := .comp, graph := [⟨2, none, [0]⟩] }, exA, exO],
    links := #[{}, {}, {}] }

theorem leafAtAny_nil (w : World) (chs : List ChId) : w.leafAtAny [] chs = none := by
  unfold World.leafAtAny
  rw [listing_lit [] (by decide)]
  rfl

theorem exStepA : exT1.add 1 2 = exT2 := by
  rw [add_root_eq exT1 1 2 (by decide) (leafAtAny_nil _ _)]
  rfl

theorem exStepB : exT2.add 0 1 = exT3 := by
  rw [add_root_eq exT2 0 1 (by decide) (leafAtAny_nil _ _)]
  rfl

theorem exBuild0_eq : exBuild0 = exT1 := rfl

theorem exBuild_eq : exBuild = exLit := by
  unfold exBuild exBuild2 exBuild1
  rw [exBuild0_eq, exStepA, exStepB]
  rfl

theorem exLit_tree : TreeBelow exLit 3 0 := by
  have t2 : TreeBelow exLit 1 2 := TreeBelow.leaf_intro (by decide) (by decide) (by unfold Op.CopyStable; decide)
  have k1 : exLit.kids 1 = [2] := rfl
  have k0 : exLit.kids 0 = [1] := rfl
  have t1 : TreeBelow exLit 2 1 := by
    refine TreeBelow.comp_intro (by decide) (by decide) (by rw [k1]; decide) ?_ ?_ ?_
    · intro n hn; rw [k1, List.mem_singleton] at hn; rw [hn]; exact t2
    · intro n hn; rw [k1, List.mem_singleton] at hn; rw [hn]; decide
    · intro a ha b hb hab
      rw [k1, List.mem_singleton] at ha hb
      exact absurd (ha.trans hb.symm) hab
  refine TreeBelow.comp_intro (by decide) (by decide) (by rw [k0]; decide) ?_ ?_ ?_
  · intro n hn; rw [k0, List.mem_singleton] at hn; rw [hn]; exact t1
  · intro n hn; rw [k0, List.mem_singleton] at hn; rw [hn]; decide
  · intro a ha b hb hab
    rw [k0, List.mem_singleton] at ha hb
    exact absurd (ha.trans hb.symm) hab

theorem exLit_range : ∀ j, (exLit.op j).link < exLit.links.size := by
  intro j
  have := Flat.forall_op exLit (fun o => decide (o.link < 3)) (by decide) (by decide) j
  have h3 : exLit.links.size = 3 := rfl
  rw [h3]
  simpa using this

theorem exLit_built : Built (exLit.op 0).graph := by
  show Built (attach [] none 1)
  apply built_attach built_nil
  · intro q h; cases h
  · decide

theorem exLit_ok : AddOk exLit 3 0 3 :=
  AddOk.of_leaf exLit_tree (by decide) (by decide) (by decide) (by decide) exLit_range exLit_built (by decide)

theorem exBuild_ok : AddOk exBuild 3 0 3 := by
  rw [exBuild_eq]; exact exLit_ok

/-! ### the same circuit and a separate one-operation circuit that is added as a whole -/

/-- `s2 = DeclarativeCircuit(); b = Ry180(0); s2.add(b)` next to `top ⊃ sub ⊃ a`. -/
def exBuildS : World :=
  (((exBuild2.newCircuit (.fixed 1)).1.newLink {}).1.newOp
    { cls := .ry180, qs := [0], dur := .glob .mw, link := 2 }).1.add 3 4

def exB' : Op := { cls := .ry180, qs := [0], dur := .glob .mw, link := 2 }

def exT4 : World :=
  { ops := #[{ cls := .comp, graph := [⟨1, none, [0]⟩] }, { cls := .comp, graph := [⟨2, none, [0]⟩] }, exA,
             { cls := .comp }, exB'],
    links := #[{}, {}, {}] }

/-- objects `0 = top ⊃ 1 = sub ⊃ 2 = a` and `3 = s2 ⊃ 4 = b`. -/
def exLitS : World :=
  { ops := #[{ cls := .comp, graph := [⟨1, none, [0]⟩] }, { cls := .comp, graph := [⟨2, none, [0]⟩] }, exA,
             { cls := .comp, graph := [⟨4, none, [0]⟩] }, exB'],
    links := #[{}, {}, {}] }

theorem exBuildS_eq : exBuildS = exLitS := by
  unfold exBuildS exBuild2 exBuild1
  rw [exBuild0_eq, exStepA, exStepB]
  have h : (((exT3.newCircuit (.fixed 1)).1.newLink {}).1.newOp
      { cls := .ry180, qs := [0], dur := .glob .mw, link := 2 }).1 = exT4 := rfl
  rw [h, add_root_eq exT4 3 4 (by decide) (leafAtAny_nil _ _)]
  rfl

theorem exLitS_ok : AddOk exLitS 3 0 3 := by
  have t2 : TreeBelow exLitS 1 2 := TreeBelow.leaf_intro (by decide) (by decide) (by unfold Op.CopyStable; decide)
  have t4 : TreeBelow exLitS 1 4 := TreeBelow.leaf_intro (by decide) (by decide) (by unfold Op.CopyStable; decide)
  have k1 : exLitS.kids 1 = [2] := rfl
  have k0 : exLitS.kids 0 = [1] := rfl
  have k3 : exLitS.kids 3 = [4] := rfl
  have single : ∀ (f p q : Nat), exLitS.kids p = [q] → p < exLitS.ops.size → (exLitS.op p).isComp = true →
      TreeBelow exLitS f q → p ∉ exLitS.below f q → TreeBelow exLitS (f + 1) p := by
    intro f p q hk hp hc ht hn
    refine TreeBelow.comp_intro hp hc (by rw [hk]; simp) ?_ ?_ ?_
    · intro n hn'; rw [hk, List.mem_singleton] at hn'; rw [hn']; exact ht
    · intro n hn'; rw [hk, List.mem_singleton] at hn'; rw [hn']; exact hn
    · intro a ha b hb hab
      rw [hk, List.mem_singleton] at ha hb
      exact absurd (ha.trans hb.symm) hab
  have t1 : TreeBelow exLitS 2 1 := single 1 1 2 k1 (by decide) (by decide) t2 (by decide)
  have t0 : TreeBelow exLitS 3 0 := single 2 0 1 k0 (by decide) (by decide) t1 (by decide)
  have t3 : TreeBelow exLitS 2 3 := single 1 3 4 k3 (by decide) (by decide) t4 (by decide)
  refine AddOk.of_tree t0 (by decide) (by decide) t3 (by decide) (by decide) ?_ ?_ (by decide)
  · intro j
    have := Flat.forall_op exLitS (fun o => decide (o.link < 3)) (by decide) (by decide) j
    have h3 : exLitS.links.size = 3 := rfl
    rw [h3]
    simpa using this
  · show Built (attach [] none 1)
    apply built_attach built_nil
    · intro q h; cases h
    · decide

theorem exBuildS_ok : AddOk exBuildS 3 0 3 := by
  rw [exBuildS_eq]; exact exLitS_ok

/-! ### the two separate circuits satisfy the hypotheses of `listing_then_addSub` (real keys, `identKeys = false`) -/

theorem exLitS_subOk : SubOk exLitS 3 2 0 3 := by
  have hS := exLitS_ok
  have k3 : exLitS.kids 3 = [4] := rfl
  have t4 : TreeBelow exLitS 1 4 := TreeBelow.leaf_intro (by decide) (by decide) (by unfold Op.CopyStable; decide)
  have t3 : TreeBelow exLitS 2 3 := by
    refine TreeBelow.comp_intro (by decide) (by decide) (by rw [k3]; simp) ?_ ?_ ?_
    · intro n hn; rw [k3, List.mem_singleton] at hn; rw [hn]; exact t4
    · intro n hn; rw [k3, List.mem_singleton] at hn; rw [hn]; decide
    · intro a ha b hb hab
      rw [k3, List.mem_singleton] at ha hb
      exact absurd (ha.trans hb.symm) hab
  refine ⟨hS.tree, by decide, by decide, t3, by decide, by decide, ⟨?_, hS.range⟩, hS.built, ?_⟩
  · intro l
    have := Flat.forall_lnk exLitS (fun L => !L.multi) (by decide) (by decide) l
    simpa using this
  · intro j hj
    have hb : exLitS.below 2 3 = [3, 4] := rfl
    rw [hb] at hj
    simp only [List.mem_cons, List.mem_nil_iff, or_false] at hj
    right
    rcases hj with rfl | rfl
    · refine ⟨fun r hr => ?_, fun hm => absurd hm (by decide)⟩
      have h0 : (exLitS.lnk (exLitS.op 3).link).refs.head? = none := by decide
      rw [h0] at hr; cases hr
    · refine ⟨fun r hr => ?_, fun hm => absurd hm (by decide)⟩
      have h0 : (exLitS.lnk (exLitS.op 4).link).refs.head? = none := by decide
      rw [h0] at hr; cases hr

theorem exBuildS_subOk : SubOk exBuildS 3 2 0 3 := by
  rw [exBuildS_eq]; exact exLitS_subOk

theorem exBuildS_real : exBuildS.identKeys = false := by
  rw [exBuildS_eq]; rfl

/-! ### a cyclic heap on which a second listing still writes -/

/-- `0 ⊃ 1 ⊃ 2 ⊃ 3 ⊃ 4 ⊃ 0`: five nested composites closed to a cycle; composite `4` carries a link with a reference,
    the others the default link `0`.  The recursion of the listing is cut by its fuel (`ops.size + 2 = 7`) half-way through
    the second round, so object `3` keeps link `0` below an enclosing composite that meanwhile got link `1`. -/
def exCyc : World :=
  { ops := #[{ cls := .comp, graph := [⟨1, none, [0]⟩] },
             { cls := .comp, graph := [⟨2, none, [0]⟩] },
             { cls := .comp, graph := [⟨3, none, [0]⟩] },
             { cls := .comp, graph := [⟨4, none, [0]⟩] },
             { cls := .comp, link := 1, graph := [⟨0, none, [0]⟩] }],
    links := #[{}, { refs := [0] }] }

theorem exCyc_second_listing_writes :
    ((exCyc.operations 0).1.op 3).link = 0 ∧ (((exCyc.operations 0).1.operations 0).1.op 3).link = 1 := by
  decide +kernel

/-! ### the R3 witness: a listing before nesting changes an acquisition index -/

/-- `c0 = DeclarativeCircuit(); c1 = DeclarativeCircuit(); c2 = CircuitCompositeOperation(relation = own empty link);
    m = DispersiveMeasure(0, acquisition registry of c2)`. -/
def exR3Build0 : World :=
  let w0 : World := {}
  let (w, _) := w0.newCircuit (.fixed 1)
  let (w, _) := w.newCircuit (.fixed 1)
  let (w, l1) := w.newLink {}
  let (w, c2) := w.newOp { cls := .comp, link := l1 }
  let (w, l2) := w.newLink {}
  let (w, _) := w.newOp { cls := .measure, qs := [0], dur := .glob .ro, link := l2, reg := c2, tag := 7 }
  w

/-- `c2.add(m); c1.add(c2)`. -/
def exR3Build : World := (exR3Build0.add 2 3).add 1 2

def exR3M : Op := { cls := .measure, qs := [0], dur := .glob .ro, link := 2, reg := 2, tag := 7 }

def exR3a : World := { ops := #[{ cls := .comp }, { cls := .comp }, { cls := .comp, link := 1 }, exR3M], links := #[{}, {}, {}] }
def exR3b : World :=
  { ops := #[{ cls := .comp }, { cls := .comp }, { cls := .comp, link := 1, graph := [⟨3, none, [0]⟩] }, exR3M],
    links := #[{}, {}, {}] }

/-- the heap of the witness: `0 = c0` (empty), `1 = c1 ⊃ 2 = c2 ⊃ 3 = m`, the registry of `m` is `c2`. -/
def exR3 : World :=
  { ops := #[{ cls := .comp }, { cls := .comp, graph := [⟨2, none, [0]⟩] },
             { cls := .comp, link := 1, graph := [⟨3, none, [0]⟩] }, exR3M],
    links := #[{}, {}, {}] }

theorem exR3Build_eq : exR3Build = exR3 := by
  unfold exR3Build
  have h0 : exR3Build0 = exR3a := rfl
  have h1 : exR3a.add 2 3 = exR3b := by
    rw [add_root_eq exR3a 2 3 (by decide) (leafAtAny_nil _ _)]; rfl
  have h2 : exR3b.add 1 2 = exR3 := by
    rw [add_root_eq exR3b 1 2 (by decide) (leafAtAny_nil _ _)]; rfl
  rw [h0, h1, h2]

/-- in both histories the copy of `m` is object `6`; listing `c1` first makes `c2` value-equal to `c1` (both carry link
    `0` and count 1), so the lookup entry `c1 ↦ c0` answers for `c2` and the registry of the copy is re-targeted to `c0`:
    index `(0, 0)`; without the listing the registry stays `c2`, which does not list the copy: index `(-1, -1)`. -/
theorem exR3_indices :
    (((exR3.operations 1).1.addSub 0 1).1.acq 6).2 = (0, 0) ∧ ((exR3.addSub 0 1).1.acq 6).2 = (-1, -1) ∧
    (((exR3.operations 1).1.addSub 0 1).1.operations 0).2 = [6] ∧ ((exR3.addSub 0 1).1.operations 0).2 = [6] ∧
    ((exR3.operations 1).1.addSub 0 1).1.collisions = 1 ∧ (exR3.addSub 0 1).1.collisions = 0 := by
  decide +kernel

/-- the identity-keyed twin answers the same with and without the listing. -/
theorem exR3_twin_indices :
    (((({ exR3 with identKeys := true } : World).operations 1).1.addSub 0 1).1.acq 6).2 = (-1, -1) ∧
    ((({ exR3 with identKeys := true } : World).addSub 0 1).1.acq 6).2 = (-1, -1) := by
  decide +kernel

end Qco.Commute
