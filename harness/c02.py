"""C02 — the operation listing is complete, causal and stable."""
from . import progs, streamcheck

PROP = 'C02'


def nontrivial(prog, f):
    return f['sub'] >= 1 and f['ops'] >= 4 and sum(f['rel'].values()) >= 1


SPEC = streamcheck.StreamSpec(
    PROP, probes=['C02'],
    cfg=progs.GenConfig(static_durations=True, n_cmds=(4, 36), p_list=0.12, p_sub=0.14),
    n_quick=1200, n_thorough=40000,
    nontrivial=nontrivial,
    pysem=dict(groups=['facade'], effects=True),
    rule='random build programs (all classes, explicit/implicit/foreign relations, nesting, apply/flatten/copy); every '
         'listing is compared with a shadow multiset of the added leaves kept by the harness, checked for causality '
         '(reference listed earlier) and listed a second time; return values of add()/get_last_entry() are asserted; '
         'non-trivial = nesting and >= 4 operations and >= 1 explicit relation; distinct = distinct program text',
    assumptions=['MAX_GRAPH_DEPTH = 5000 and Python\'s recursion limit are not modelled; programs stay below depth 150'])


def run(tier, seed):
    return streamcheck.run(SPEC, tier, seed)
