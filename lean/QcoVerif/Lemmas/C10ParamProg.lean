import QcoVerif.Lemmas.C10ParamBuild
import QcoVerif.Lemmas.Commute
/-
  C10, parametric layer lemmas: BUILD PROGRAMS.  One program step, as the driver executes `["op", c, …, "-"]`
  (an operation created without relation and added to circuit `c`): a fresh link without reference, a fresh
  operation carrying it, `World.add`.  `addNew_spec`: what the step does to the heap when `c` is a flat block
  (all nodes leaf operations).
-/
namespace Qco.C10Param

open Qco Qco.C10

/-- one program step: create the leaf operation described by `d` (a fresh link without reference) and add it to `c`. -/
def addNew (c : Nat) (w : World) (d : Op) : World :=
  ((w.newLink {}).1.newOp { d with link := w.links.size }).1.add c w.ops.size

/-- the node `add` will hang the new operation below: the last node of the listing sharing a channel with it. -/
def pickParent (w : World) (c : Nat) (d : Op) : Option Nat :=
  (listing (w.op c).graph).reverse.find? (fun n => sharesChannel d (w.op n))

/-- the nodes of `c` are leaf operations of the heap (a flat block). -/
def FlatBlock (w : World) (c : Nat) : Prop :=
  c < w.ops.size ∧ ∀ e ∈ (w.op c).graph, e.node < w.ops.size ∧ e.node ≠ c ∧ (w.op e.node).isComp = false

theorem chansOf_leaf (w : World) (x : Nat) (h : (w.op x).isComp = false) : w.chansOf x = (w.op x).leafChans := by
  unfold World.chansOf World.depthFuel
  rw [World.chans, h]
  rfl

/-- what one program step does. -/
structure AddNewSpec (w : World) (c : Nat) (d : Op) (W : World) : Prop where
  size : W.ops.size = w.ops.size + 1
  lnkOld : ∀ l, l < w.links.size → W.lnk l = w.lnk l
  opOld : ∀ x, x < w.ops.size → x ≠ c → W.op x = w.op x
  gRo : W.gRo = w.gRo
  gMw : W.gMw = w.gMw
  gFl : W.gFl = w.gFl
  gRs : W.gRs = w.gRs
  dreg : W.dreg = w.dreg
  compCls : (W.op c).cls = (w.op c).cls
  graph : (W.op c).graph = attach (w.op c).graph (pickParent w c d) w.ops.size
  newOp : ∃ l, W.op w.ops.size = { d with link := l } ∧ w.links.size ≤ l ∧ l < W.links.size ∧
    (W.lnk l).multi = false ∧ (W.lnk l).rel = .fb ∧ (W.lnk l).refs = (pickParent w c d).toList
  linksGrow : w.links.size ≤ W.links.size

theorem addNew_spec (w : World) (c : Nat) (d : Op) (hflat : FlatBlock w c) (hd : d.isComp = false) :
    AddNewSpec w c d (addNew c w d) := by
  obtain ⟨hc, hnodes⟩ := hflat
  -- the intermediate world: link and operation created
  let w2 : World := ((w.newLink {}).1.newOp { d with link := w.links.size }).1
  have hw2ops : w2.ops = w.ops.push { d with link := w.links.size } := rfl
  have hw2links : w2.links = w.links.push {} := rfl
  have hop2 : ∀ x, x < w.ops.size → w2.op x = w.op x := by
    intro x hx
    simp [World.op, hw2ops, Array.getD_eq_getD_getElem?, Array.getElem?_push, Nat.ne_of_lt hx, hx]
  have hopo : w2.op w.ops.size = { d with link := w.links.size } := by
    simp [World.op, hw2ops, Array.getD_eq_getD_getElem?]
  have hlnk2 : ∀ l, l < w.links.size → w2.lnk l = w.lnk l := by
    intro l hl
    simp [World.lnk, hw2links, Array.getD_eq_getD_getElem?, Array.getElem?_push, Nat.ne_of_lt hl, hl]
  have hlnkl : w2.lnk w.links.size = {} := by
    simp [World.lnk, hw2links, Array.getD_eq_getD_getElem?]
  have hgraph2 : (w2.op c).graph = (w.op c).graph := by rw [hop2 c hc]
  have hrel : w2.hasRel w.ops.size = false := by
    unfold World.hasRel
    rw [hopo]
    show (!(w2.lnk w.links.size).refs.isEmpty) = false
    rw [hlnkl]; rfl
  have hoc : w.ops.size ≠ c := Nat.ne_of_gt hc
  have hleafo : (w2.op w.ops.size).isComp = false := by rw [hopo]; exact hd
  -- the leaf test of `add` is the channel test on the descriptions
  have hleaf : w2.leafAtAny (w.op c).graph (w2.chansOf w.ops.size) = pickParent w c d := by
    rw [leafAtAny_eq]
    unfold pickParent
    apply Qco.find?_congr'
    intro n hn
    have hn' : n ∈ listing (w.op c).graph := by simpa using hn
    obtain ⟨e, he, rfl⟩ := mem_listing.mp hn'
    obtain ⟨hlt, _, hl⟩ := hnodes e he
    unfold matchesNode
    rw [chansOf_leaf w2 _ hleafo, hopo, chansOf_leaf w2 e.node (by rw [hop2 _ hlt]; exact hl), hop2 _ hlt]
    rfl
  have hsz2 : w2.ops.size = w.ops.size + 1 := by simp [hw2ops]
  have hc2 : c < w2.ops.size := by omega
  have ho2 : w.ops.size < w2.ops.size := by omega
  show AddNewSpec w c d (w2.add c w.ops.size)
  cases hp : pickParent w c d with
  | none =>
    -- attached under the root, the link is kept
    have hadd : w2.add c w.ops.size = w2.setGraph c (attach (w.op c).graph none w.ops.size) := by
      unfold World.add World.addToGraph
      simp only [hrel, Bool.not_false, if_true, hgraph2, hleaf, hp]
    rw [hadd]
    refine ⟨?_, ?_, ?_, rfl, rfl, rfl, rfl, rfl, ?_, ?_, ?_, ?_⟩
    · simp [World.setGraph, World.setOp, hsz2]
    · intro l hl
      show w2.lnk l = w.lnk l
      exact hlnk2 l hl
    · intro x hx hxc
      simp only [World.setGraph]
      rw [op_setOp]
      have : ¬ (c = x ∧ c < w2.ops.size) := fun h => hxc h.1.symm
      simp only [this, if_false]
      exact hop2 x hx
    · simp only [World.setGraph]
      rw [op_setOp]
      simp only [hc2, and_self, if_true]
      rw [hop2 c hc]
    · simp only [World.setGraph]
      rw [op_setOp]
      simp only [hc2, and_self, if_true]
      rw [hp]
    · refine ⟨w.links.size, ?_, Nat.le_refl _, by (show w.links.size < w2.links.size); simp [hw2links], ?_, ?_, ?_⟩
      · simp only [World.setGraph]
        rw [op_setOp]
        have : ¬ (c = w.ops.size ∧ c < w2.ops.size) := fun h => hoc h.1.symm
        simp only [this, if_false]
        exact hopo
      · show (w2.lnk w.links.size).multi = false
        rw [hlnkl]
      · show (w2.lnk w.links.size).rel = .fb
        rw [hlnkl]
      · show (w2.lnk w.links.size).refs = _
        rw [hlnkl, hp]; rfl
    · show w.links.size ≤ w2.links.size
      simp [hw2links]
  | some lf =>
    have hleaf' : w2.leafAtAny (w.op c).graph (w2.chansOf w.ops.size) = some lf := by rw [hleaf, hp]
    have hadd : w2.add c w.ops.size =
        (((w2.newLink { refs := [lf] }).1.setLink w.ops.size w2.links.size).setGraph c
          (attach (w.op c).graph (some lf) w.ops.size)) := by
      unfold World.add World.addToGraph
      simp only [hrel, Bool.not_false, if_true, hgraph2, hleaf']
      rfl
    rw [hadd]
    have hl2 : w2.links.size = w.links.size + 1 := by simp [hw2links]
    refine ⟨?_, ?_, ?_, rfl, rfl, rfl, rfl, rfl, ?_, ?_, ?_, ?_⟩
    · simp [World.setGraph, World.setLink, World.setOp, World.newLink, hsz2]
    · intro l hl
      have : (((w2.newLink { refs := [lf] }).1.setLink w.ops.size w2.links.size).setGraph c
          (attach (w.op c).graph (some lf) w.ops.size)).lnk l = w2.lnk l := by
        simp [World.setGraph, World.setLink, World.setOp, World.lnk, World.newLink, Array.getD_eq_getD_getElem?,
          Array.getElem?_push, hl2, Nat.ne_of_lt (Nat.lt_succ_of_lt hl)]
      rw [this]; exact hlnk2 l hl
    · intro x hx hxc
      simp only [World.setGraph]
      rw [op_setOp]
      have h1 : ¬ (c = x ∧ c < ((w2.newLink { refs := [lf] }).1.setLink w.ops.size w2.links.size).ops.size) :=
        fun h => hxc h.1.symm
      simp only [h1, if_false]
      rw [setLink_op_other _ _ _ _ (Nat.ne_of_lt hx)]
      exact hop2 x hx
    · simp only [World.setGraph]
      rw [op_setOp]
      have h1 : c < ((w2.newLink { refs := [lf] }).1.setLink w.ops.size w2.links.size).ops.size := by
        simp [World.setLink, World.setOp, World.newLink, hsz2]; omega
      simp only [h1, and_self, if_true]
      rw [setLink_op_other _ _ _ _ (Ne.symm hoc)]
      show (w2.op c).cls = _
      rw [hop2 c hc]
    · simp only [World.setGraph]
      rw [op_setOp]
      have h1 : c < ((w2.newLink { refs := [lf] }).1.setLink w.ops.size w2.links.size).ops.size := by
        simp [World.setLink, World.setOp, World.newLink, hsz2]; omega
      simp only [h1, and_self, if_true]
      rw [hp]
    · refine ⟨w2.links.size, ?_, by omega,
        by simp [World.setGraph, World.setLink, World.setOp, World.newLink], ?_, ?_, ?_⟩
      · simp only [World.setGraph]
        rw [op_setOp]
        have h1 : ¬ (c = w.ops.size ∧
            c < ((w2.newLink { refs := [lf] }).1.setLink w.ops.size w2.links.size).ops.size) :=
          fun h => hoc h.1.symm
        simp only [h1, if_false]
        unfold World.setLink
        rw [op_setOp]
        have h2 : w.ops.size < (w2.newLink { refs := [lf] }).1.ops.size := by
          show w.ops.size < w2.ops.size
          exact ho2
        simp only [h2, and_self, if_true]
        show { (w2.op w.ops.size) with link := w2.links.size } = _
        rw [hopo]
      · simp [World.setGraph, World.setLink, World.setOp, World.lnk, World.newLink, Array.getD_eq_getD_getElem?]
      · simp [World.setGraph, World.setLink, World.setOp, World.lnk, World.newLink, Array.getD_eq_getD_getElem?]
      · rw [hp]
        simp [World.setGraph, World.setLink, World.setOp, World.lnk, World.newLink, Array.getD_eq_getD_getElem?]
    · simp only [World.setGraph, World.setLink, World.setOp, World.newLink, Array.size_push, hl2]
      omega

/-! ### which node `add` picks: the matching node with the greatest path key -/

open Qco.Commute in
/-- in a graph built by `attach`, `add` hangs the new operation below the matching node whose path key is greatest
    (listing order = order of the keys; keys are pairwise different). -/
theorem pickParent_of_max {w : World} {c : Nat} {d : Op} (hb : Built (w.op c).graph) {e : Entry}
    (he : e ∈ (w.op c).graph) (hm : sharesChannel d (w.op e.node) = true)
    (hmax : ∀ e' ∈ (w.op c).graph, sharesChannel d (w.op e'.node) = true → keyLe e'.key e.key = true) :
    pickParent w c d = some e.node := by
  unfold pickParent listing
  rw [← List.map_reverse, List.find?_map]
  cases hf : (sortedEntries (w.op c).graph).reverse.find? ((fun n => sharesChannel d (w.op n)) ∘ fun e => e.node) with
  | none =>
    rw [List.find?_eq_none] at hf
    have := hf e (by simpa using mem_sortedEntries.mpr he)
    simp [hm] at this
  | some r =>
    simp only [Option.map_some, Option.some.injEq]
    obtain ⟨hp, as, bs, hsplit, hnone⟩ := List.find?_eq_some_iff_append.mp hf
    have hes : sortedEntries (w.op c).graph = bs.reverse ++ r :: as.reverse := by
      have := congrArg List.reverse hsplit
      simpa using this
    have hr : r ∈ (w.op c).graph := mem_sortedEntries.mp (by rw [hes]; simp)
    have hpr : sharesChannel d (w.op r.node) = true := by simpa using hp
    -- `e` is not listed after `r`
    have hmem : e ∈ bs.reverse ++ r :: as.reverse := by rw [← hes]; exact mem_sortedEntries.mpr he
    have hle : entryLe e r = true := by
      rcases List.mem_append.mp hmem with h1 | h1
      · have hs := sortedEntries_pairwise (w.op c).graph
        rw [hes, List.pairwise_append] at hs
        exact hs.2.2 e h1 r (by simp)
      · rcases List.mem_cons.mp h1 with h2 | h2
        · rw [h2]
          have := entryLe_total r r
          simpa using this
        · have : e ∈ as := by simpa using h2
          have := hnone e this
          simp [hm] at this
    have hge : entryLe r e = true := hmax r hr hpr
    have hk : r.key = e.key := keyLe_antisymm hge hle
    rw [built_key_inj hb _ r hr e he rfl hk]

theorem pickParent_none {w : World} {c : Nat} {d : Op}
    (h : ∀ e ∈ (w.op c).graph, sharesChannel d (w.op e.node) = false) : pickParent w c d = none := by
  unfold pickParent
  rw [List.find?_eq_none]
  intro n hn
  have hn' : n ∈ listing (w.op c).graph := by simpa using hn
  obtain ⟨e, he, rfl⟩ := mem_listing.mp hn'
  simp [h e he]

/-! ### path keys of a layer: `kb ++ i :: 0 … 0` -/

/-- the key of the `j`-th operation of the `i`-th path below an opener with key `kb`. -/
def layerKey (kb : List Nat) (i j : Nat) : List Nat := kb ++ i :: List.replicate j 0

theorem layerKey_length (kb : List Nat) (i j : Nat) : (layerKey kb i j).length = kb.length + 1 + j := by
  simp [layerKey]; omega

theorem layerKey_succ (kb : List Nat) (i j : Nat) : layerKey kb i (j + 1) = layerKey kb i j ++ [0] := by
  simp [layerKey, List.replicate_succ']

theorem lexLt_append_left (p a b : List Nat) : lexLt (p ++ a) (p ++ b) = lexLt a b := by
  induction p with
  | nil => rfl
  | cons x xs ih => simp [lexLt, ih]

theorem lexLt_self (a : List Nat) : lexLt a a = false := lexLt_irrefl a

theorem keyLe_of_shorter {a b : List Nat} (h : a.length < b.length) : keyLe a b = true := by
  simp [keyLe, h]

theorem keyLe_layerKey (kb : List Nat) (i j i' j' : Nat) (h : j < j' ∨ (j = j' ∧ i ≤ i')) :
    keyLe (layerKey kb i j) (layerKey kb i' j') = true := by
  rcases h with h | ⟨rfl, h⟩
  · apply keyLe_of_shorter
    rw [layerKey_length, layerKey_length]; omega
  · simp only [keyLe, layerKey_length, Nat.lt_irrefl, decide_false, beq_self_eq_true, Bool.true_and, Bool.false_or,
      Bool.not_eq_true']
    unfold layerKey
    rw [lexLt_append_left]
    simp only [lexLt, Bool.or_eq_false_iff, decide_eq_false_iff_not, Bool.and_eq_false_iff]
    refine ⟨by omega, Or.inr (lexLt_self _)⟩

end Qco.C10Param
