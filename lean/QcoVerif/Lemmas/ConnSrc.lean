import QcoVerif.Lemmas.BuilderSrc
/-
  Source tie of `GateSequenceGenerator.get_mutually_allowed` (C16): the nested loops with early return compute the model's
  `mutuallyAllowed` (ordered pairs).  Core Lean only.
-/
set_option linter.unusedSimpArgs false
namespace Qco.ConnSrc
open Qco Qco.Py Qco.Gen.PySrc Qco.TimingSrc Qco.ScanSrc Qco.BuilderSrc

/-- operations are compared by value: identifiers.  `allowed t` = what `get_allowed_operations` answers for target `t`. -/
def connEnv (allowed : Nat → List Nat) : Env :=
  { func := fun f args => match f, args with
      | "GateSequenceGenerator.construct_operation_constraints", [.int t, _] =>
          some (.obj "OperationConstraint" t.toNat [("get_allowed_operations()", nats (allowed t.toNat))])
      | _, _ => Option.none
    method := fun recv m _ => match recv with | .obj _ _ fs => lookupField fs (m ++ "()") | _ => Option.none }

def innerBody : List Stmt :=
  [.ifs (.cmp .notIn (.name "simultaneous_operation") (.name "allowed_operations")) [.ret (.bool false)] []]

def outerBody : List Stmt :=
  [.assign "operation_constraint" (.call "GateSequenceGenerator.construct_operation_constraints" [.name "target_operation", .name "connectivity"]),
   .assign "allowed_operations" (.mcall (.name "operation_constraint") "get_allowed_operations" [.name "connectivity"]),
   .for_ "simultaneous_operation" (.name "operations") innerBody]

theorem inner_loop (allowed : Nat → List Nat) (al : List Nat) : ∀ (l : List Nat) (vs : Vars),
    vs.get "allowed_operations" = nats al →
    (if l.all (fun s => decide (s ∈ al)) then
       ∃ vs', forLoop (fun vs' v => execBlock (connEnv allowed) (vs'.set "simultaneous_operation" v) innerBody) (l.map (fun (n : Nat) => Val.int n)) vs = .cont vs' ∧
         (∀ x, x ≠ "simultaneous_operation" → vs'.get x = vs.get x)
     else forLoop (fun vs' v => execBlock (connEnv allowed) (vs'.set "simultaneous_operation" v) innerBody) (l.map (fun (n : Nat) => Val.int n)) vs = .ret (.bool false)) := by
  intro l
  induction l with
  | nil => intro vs _; exact ⟨vs, rfl, fun _ _ => rfl⟩
  | cons s rest ih =>
    intro vs ha
    have ha' : (vs.set "simultaneous_operation" (Val.int s)).get "allowed_operations" = nats al := by
      rw [get_set_ne _ _ _ _ (by decide)]; exact ha
    by_cases hs : s ∈ al
    · have hstep : execBlock (connEnv allowed) (vs.set "simultaneous_operation" (Val.int s)) innerBody =
          .cont (vs.set "simultaneous_operation" (Val.int s)) := by
        simp [innerBody, execBlock, exec, eval, vars_get_set_same, ha', evalCmp, nats, Val.elems?, hs, Val.truthy]
      have := ih (vs.set "simultaneous_operation" (Val.int s)) ha'
      simp only [List.map_cons, forLoop, hstep, List.all_cons, hs, decide_true, Bool.true_and]
      split at this
      · rename_i hall
        simp only [hall, if_true]
        obtain ⟨vs', h1, h2⟩ := this
        exact ⟨vs', h1, fun x hx => by rw [h2 x hx, get_set_ne _ _ _ _ (fun h => hx h.symm)]⟩
      · rename_i hall
        simp only [hall, Bool.false_eq_true, if_false]
        exact this
    · have hstep : execBlock (connEnv allowed) (vs.set "simultaneous_operation" (Val.int s)) innerBody = .ret (.bool false) := by
        simp [innerBody, execBlock, exec, eval, vars_get_set_same, ha', evalCmp, nats, Val.elems?, hs, Val.truthy]
      simp only [List.map_cons, forLoop, hstep, List.all_cons, hs, decide_false, Bool.false_and, Bool.false_eq_true, if_false]

/-- **`get_mutually_allowed`**: every operation of the step is among the operations allowed by EVERY operation of the step
    (ordered pairs, the operation itself included) — the model's `mutuallyAllowed`. -/
theorem mutually_allowed_matches_source (allowed : Nat → List Nat) (ops : List Nat) (conn : Val) (hc : conn = .obj "Layer" 0 []) :
    callFn (connEnv allowed) Gen_get_mutually_allowed [nats ops, conn] =
      .bool (ops.all (fun t => ops.all (fun s => decide (s ∈ allowed t)))) := by
  subst hc
  have outer : ∀ (l : List Nat) (vs : Vars), vs.get "operations" = nats ops → vs.get "connectivity" = .obj "Layer" 0 [] →
      (if l.all (fun t => ops.all (fun s => decide (s ∈ allowed t))) then
         ∃ vs', forLoop (fun vs' v => execBlock (connEnv allowed) (vs'.set "target_operation" v) outerBody)
            (l.map (fun (n : Nat) => Val.int n)) vs = .cont vs'
       else forLoop (fun vs' v => execBlock (connEnv allowed) (vs'.set "target_operation" v) outerBody)
            (l.map (fun (n : Nat) => Val.int n)) vs = .ret (.bool false)) := by
    intro l
    induction l with
    | nil => intro vs _ _; exact ⟨vs, rfl⟩
    | cons t rest ih =>
      intro vs ho hcn
      let vs2 := ((vs.set "target_operation" (Val.int t)).set "operation_constraint"
        (.obj "OperationConstraint" t [("get_allowed_operations()", nats (allowed t))])).set "allowed_operations" (nats (allowed t))
      have hpre : execBlock (connEnv allowed) (vs.set "target_operation" (Val.int t)) outerBody =
          execBlock (connEnv allowed) vs2 [.for_ "simultaneous_operation" (.name "operations") innerBody] := by
        simp [vs2, outerBody, execBlock, exec, eval, evalList, vars_get_set_same, get_set_ne, hcn, connEnv, builtin, lookupField,
          Val.isErr, nats]
      have ho2 : vs2.get "operations" = nats ops := by simp [vs2, get_set_ne, ho]
      have hc2 : vs2.get "connectivity" = .obj "Layer" 0 [] := by simp [vs2, get_set_ne, hcn]
      have ha2 : vs2.get "allowed_operations" = nats (allowed t) := by simp [vs2, vars_get_set_same]
      have hiter : (eval (connEnv allowed) vs2 (.name "operations")).elems? = some (ops.map (fun (n : Nat) => Val.int n)) := by
        simp [eval, ho2, nats, Val.elems?]
      have IL := inner_loop allowed (allowed t) ops vs2 ha2
      simp only [List.map_cons, forLoop, hpre, List.all_cons]
      rw [execBlock_for _ _ _ _ _ _ _ hiter]
      split at IL
      · rename_i hin
        obtain ⟨vs3, i1, i2⟩ := IL
        rw [i1]
        simp only [execBlock, hin, Bool.true_and]
        exact ih vs3 (by rw [i2 _ (by decide)]; exact ho2) (by rw [i2 _ (by decide)]; exact hc2)
      · rename_i hin
        rw [IL]
        simp only [hin, Bool.false_and, Bool.false_eq_true, if_false]
  have hbodyEq : Gen_get_mutually_allowed.body = [.for_ "target_operation" (.name "operations") outerBody, .ret (.bool true)] := rfl
  let vs0 : Vars := bindParams Gen_get_mutually_allowed.params [nats ops, .obj "Layer" 0 []] []
  have ho0 : vs0.get "operations" = nats ops := by simp [vs0, Gen_get_mutually_allowed, bindParams, Vars.get, Vars.set]
  have hc0 : vs0.get "connectivity" = .obj "Layer" 0 [] := by simp [vs0, Gen_get_mutually_allowed, bindParams, Vars.get, Vars.set]
  have hiter : (eval (connEnv allowed) vs0 (.name "operations")).elems? = some (ops.map (fun (n : Nat) => Val.int n)) := by
    simp [eval, ho0, nats, Val.elems?]
  unfold callFn
  rw [show (Gen_get_mutually_allowed.params.length != [nats ops, Val.obj "Layer" 0 []].length) = false from rfl, hbodyEq]
  show (match execBlock (connEnv allowed) vs0 _ with | .ret v => v | .cont _ => Val.none | .raised what => _) = _
  rw [execBlock_for _ _ _ _ _ _ _ hiter]
  have O := outer ops vs0 ho0 hc0
  split at O
  · rename_i hall
    obtain ⟨vs', h1⟩ := O
    rw [h1]
    simp [execBlock, exec, eval, hall]
  · rename_i hall
    rw [O]
    simp [hall]

end Qco.ConnSrc
