import QcoVerif.Model.Draw
/-
  Helper lemmas for C18: the mutating listing touches nothing but `link` fields, and does not look at
  the global durations.
-/
namespace Qco.Draw

open Qco

theorem op_setOp (w : World) (i j : Nat) (o : Op) :
    (w.setOp i o).op j = if i = j ∧ i < w.ops.size then o else w.op j := by
  simp only [World.op, World.setOp, Array.getD_eq_getD_getElem?, Array.getElem?_setIfInBounds]
  by_cases h : i = j
  · subst h
    by_cases hi : i < w.ops.size
    · simp [hi]
    · simp [hi]
  · simp [h]

/-- `w'` differs from `w` at most in the `link` field of operations. -/
structure LinkOnly (w w' : World) : Prop where
  size : w'.ops.size = w.ops.size
  links : w'.links = w.links
  g : getG w' = getG w
  dreg : w'.dreg = w.dreg
  rreg : w'.rreg = w.rreg
  warnings : w'.warnings = w.warnings
  ops : ∀ i, w'.op i = { w.op i with link := (w'.op i).link }

theorem LinkOnly.refl (w : World) : LinkOnly w w :=
  ⟨rfl, rfl, rfl, rfl, rfl, rfl, fun _ => rfl⟩

theorem LinkOnly.trans {a b c : World} (h1 : LinkOnly a b) (h2 : LinkOnly b c) : LinkOnly a c :=
  ⟨h2.size.trans h1.size, h2.links.trans h1.links, h2.g.trans h1.g, h2.dreg.trans h1.dreg,
   h2.rreg.trans h1.rreg, h2.warnings.trans h1.warnings, fun i => by
     rw [h2.ops i, h1.ops i]⟩

theorem LinkOnly.setLink (w : World) (n l : Nat) : LinkOnly w (w.setLink n l) := by
  refine ⟨?_, rfl, rfl, rfl, rfl, rfl, ?_⟩
  · simp [World.setLink, World.setOp]
  · intro i
    simp only [World.setLink, op_setOp]
    by_cases h : n = i ∧ n < w.ops.size
    · obtain ⟨rfl, hn⟩ := h
      simp [hn]
    · simp only [h, if_false]


/-- one step of the fold in `World.decomposed`. -/
def decompStep (f : Nat) (cl : Nat) (acc : World × List Nat) (n : Nat) : World × List Nat :=
  let w := if !acc.1.hasRel n then acc.1.setLink n cl else acc.1
  if (w.op n).isComp then
    ((w.decomposed f n).1, acc.2 ++ (w.decomposed f n).2)
  else (w, acc.2 ++ [n])

theorem decomposed_succ (w : World) (f c : Nat) :
    w.decomposed (f+1) c = (listing (w.op c).graph).foldl (decompStep f (w.op c).link) (w, []) := by
  rfl

theorem foldl_inv {α β} (P : α → Prop) (g : α → β → α) (hg : ∀ a b, P a → P (g a b)) :
    ∀ (l : List β) (a : α), P a → P (l.foldl g a)
  | [], _, h => h
  | b :: l, a, h => foldl_inv P g hg l (g a b) (hg a b h)

/-- the mutating listing changes nothing but `link` fields. -/
theorem decomposed_linkOnly : ∀ (f : Nat) (w : World) (c : Nat), LinkOnly w (w.decomposed f c).1
  | 0, w, c => LinkOnly.refl w
  | f+1, w, c => by
    rw [decomposed_succ]
    refine foldl_inv (fun (acc : World × List Nat) => LinkOnly w acc.1) _ ?_ _ _ (LinkOnly.refl w)
    intro acc n h
    have h1 : LinkOnly w (if !acc.1.hasRel n then acc.1.setLink n (w.op c).link else acc.1) := by
      split
      · exact h.trans (LinkOnly.setLink _ _ _)
      · exact h
    have key : ∀ w1 : World, LinkOnly w w1 →
        LinkOnly w (if (w1.op n).isComp then
          ((w1.decomposed f n).1, acc.2 ++ (w1.decomposed f n).2) else (w1, acc.2 ++ [n])).1 := by
      intro w1 h1
      split
      · exact h1.trans (decomposed_linkOnly f _ n)
      · exact h1
    exact key _ h1

theorem operations_linkOnly (w : World) (c : Nat) : LinkOnly w (w.operations c).1 :=
  decomposed_linkOnly _ w c


/-! ### the listing does not look at the global durations -/

theorem setG_setLink (w : World) (d : Durs) (n l : Nat) :
    (setG w d).setLink n l = setG (w.setLink n l) d := rfl

theorem setG_getG (w : World) : setG w (getG w) = w := rfl

theorem setG_setG (w : World) (d e : Durs) : setG (setG w d) e = setG w e := rfl

theorem getG_setG (w : World) (d : Durs) : getG (setG w d) = d := rfl

theorem decompStep_setG (f : Nat)
    (ih : ∀ (w : World) (d : Durs) (c : Nat),
      (setG w d).decomposed f c = (setG (w.decomposed f c).1 d, (w.decomposed f c).2))
    (cl : Nat) (d : Durs) (acc : World × List Nat) (n : Nat) :
    decompStep f cl (setG acc.1 d, acc.2) n
      = (setG (decompStep f cl acc n).1 d, (decompStep f cl acc n).2) := by
  unfold decompStep
  have e1 : (setG acc.1 d).hasRel n = acc.1.hasRel n := rfl
  have key : ∀ w1 : World,
      (if ((setG w1 d).op n).isComp then
        (((setG w1 d).decomposed f n).1, acc.2 ++ ((setG w1 d).decomposed f n).2)
       else (setG w1 d, acc.2 ++ [n]))
      = (setG (if (w1.op n).isComp then ((w1.decomposed f n).1, acc.2 ++ (w1.decomposed f n).2)
               else (w1, acc.2 ++ [n])).1 d,
         (if (w1.op n).isComp then ((w1.decomposed f n).1, acc.2 ++ (w1.decomposed f n).2)
               else (w1, acc.2 ++ [n])).2) := by
    intro w1
    have e2 : ((setG w1 d).op n).isComp = (w1.op n).isComp := rfl
    rw [e2]
    split
    · rw [ih]
    · rfl
  cases hb : acc.1.hasRel n
  · simp only [e1, hb, Bool.not_false, if_true, setG_setLink]
    exact key _
  · simp only [e1, hb, Bool.not_true, Bool.false_eq_true, if_false]
    exact key _

theorem decomposed_setG : ∀ (f : Nat) (w : World) (d : Durs) (c : Nat),
    (setG w d).decomposed f c = (setG (w.decomposed f c).1 d, (w.decomposed f c).2)
  | 0, w, d, c => rfl
  | f+1, w, d, c => by
    rw [decomposed_succ, decomposed_succ]
    have e : ((setG w d).op c) = w.op c := rfl
    rw [e]
    have key : ∀ (L : List Nat) (acc : World × List Nat),
        L.foldl (decompStep f (w.op c).link) (setG acc.1 d, acc.2)
          = (setG (L.foldl (decompStep f (w.op c).link) acc).1 d,
             (L.foldl (decompStep f (w.op c).link) acc).2) := by
      intro L
      induction L with
      | nil => intro acc; rfl
      | cons n L ihL =>
        intro acc
        simp only [List.foldl_cons]
        rw [decompStep_setG f (decomposed_setG f) _ d acc n]
        exact ihL _
    exact key _ (w, [])

theorem operations_setG (w : World) (d : Durs) (c : Nat) :
    (setG w d).operations c = (setG (w.operations c).1 d, (w.operations c).2) :=
  decomposed_setG _ w d c


/-! ### a settled circuit is a fixed point of the listing -/

theorem setOp_self (w : World) (n : Nat) : w.setOp n (w.op n) = w := by
  have : w.ops.setIfInBounds n (w.op n) = w.ops := by
    apply Array.ext
    · simp
    · intro i h1 h2
      simp only [World.op]
      rw [Array.getElem_setIfInBounds]
      split
      · next h => subst h; simp [Array.getD, h2]
      · rfl
  simp only [World.setOp, this]

theorem setLink_self (w : World) (n l : Nat) (h : (w.op n).link = l) : w.setLink n l = w := by
  subst h
  exact setOp_self w n

theorem decomposed_of_settled : ∀ (f : Nat) (w : World) (c : Nat),
    settled w f c = true → w.decomposed f c = (w, flat w f c)
  | 0, w, c, _ => rfl
  | f+1, w, c, h => by
    rw [decomposed_succ]
    simp only [settled, List.all_eq_true, Bool.and_eq_true, Bool.or_eq_true, beq_iff_eq] at h
    have key : ∀ (L : List Nat), (∀ n ∈ L, (w.hasRel n = true ∨ (w.op n).link = (w.op c).link) ∧
          ((!(w.op n).isComp) = true ∨ settled w f n = true)) → ∀ out : List Nat,
        L.foldl (decompStep f (w.op c).link) (w, out)
          = (w, out ++ L.flatMap (fun n => if (w.op n).isComp then flat w f n else [n])) := by
      intro L
      induction L with
      | nil => intro _ out; simp
      | cons n L ih =>
        intro hL out
        have hn := hL n List.mem_cons_self
        simp only [List.foldl_cons, List.flatMap_cons]
        have hw1 : (if !w.hasRel n then w.setLink n (w.op c).link else w) = w := by
          rcases hn.1 with h1 | h1
          · simp [h1]
          · split
            · exact setLink_self w n _ h1
            · rfl
        have hstep : decompStep f (w.op c).link (w, out) n
            = (w, out ++ (if (w.op n).isComp then flat w f n else [n])) := by
          unfold decompStep
          simp only [hw1]
          by_cases hc : (w.op n).isComp = true
          · have hs : settled w f n = true := by
              rcases hn.2 with h2 | h2
              · simp [hc] at h2
              · exact h2
            simp only [hc, if_true, decomposed_of_settled f w n hs]
          · simp only [hc]
            rfl
        rw [hstep, ih (fun m hm => hL m (List.mem_cons_of_mem _ hm)), List.append_assoc]
    have := key (listing (w.op c).graph) h []
    simpa [flat] using this


/-! ### occupied channels do not depend on the global durations -/

theorem chans_setG (w : World) (d : Durs) : ∀ (f o : Nat), (setG w d).chans f o = w.chans f o
  | 0, _ => rfl
  | f+1, o => by
    simp only [World.chans]
    have e : (setG w d).op o = w.op o := rfl
    rw [e]
    have : (fun n => (setG w d).chans f n) = (fun n => w.chans f n) := funext (chans_setG w d f)
    rw [this]

theorem occupied_setG (w : World) (d : Durs) (c : Nat) : occupied (setG w d) c = occupied w c := by
  unfold occupied World.chansOf
  have : (setG w d).depthFuel = w.depthFuel := rfl
  rw [this, chans_setG]

/-- the world in which the description is computed: the listed world under the drawing's durations
    (compact mode) or the ambient ones. -/
def drawWorld (w : World) (c : Nat) (a : Args) : World :=
  setG (w.operations c).1 (a.compact.getD (getG w))

theorem plot_eq (w : World) (c : Nat) (a : Args) :
    plot w c a =
      match reorder (occupied w c) a.order with
      | none => (w, .reject)
      | some rows =>
        ((w.operations c).1,
         describe (drawWorld w c a) rows a.labels (timesOf (drawWorld w c a)) (w.operations c).2
           (subComps (drawWorld w c a) (drawWorld w c a).depthFuel c)) := by
  have hg : getG (w.operations c).1 = getG w := (operations_linkOnly w c).g
  unfold plot drawWorld
  cases hc : a.compact with
  | none =>
    simp only [Option.getD_none]
    cases hr : reorder (occupied w c) a.order with
    | none => simp only [setG_getG]
    | some rows =>
      simp only
      rw [← hg, setG_getG]
  | some d =>
    simp only [Option.getD_some, occupied_setG]
    cases hr : reorder (occupied w c) a.order with
    | none => simp only [setG_setG, setG_getG]
    | some rows =>
      simp only [operations_setG, setG_setG]
      rw [← hg, setG_getG]


/-! ### every component draws a listed operation -/

theorem mapM_some_inv {α β} (f : α → Option β) : ∀ (l : List α) (ys : List β), l.mapM f = some ys →
    ∀ y ∈ ys, ∃ x ∈ l, f x = some y
  | [], ys, h, y, hy => by simp at h; subst h; simp at hy
  | a :: l, ys, h, y, hy => by
    rw [List.mapM_cons] at h
    cases ha : f a with
    | none => simp [ha] at h
    | some b =>
      cases hl : l.mapM f with
      | none => simp [ha, hl] at h
      | some bs =>
        simp [ha, hl] at h
        subst h
        rcases List.mem_cons.mp hy with rfl | hy
        · exact ⟨a, List.mem_cons_self, ha⟩
        · obtain ⟨x, hx, hf⟩ := mapM_some_inv f l bs hl y hy
          exact ⟨x, List.mem_cons_of_mem _ hx, hf⟩

theorem foldl_inv_mem {α β} (P : α → Prop) (g : α → β → α) :
    ∀ (l : List β) (a : α), P a → (∀ a b, b ∈ l → P a → P (g a b)) → P (l.foldl g a)
  | [], _, h, _ => h
  | b :: l, a, h, hg =>
    foldl_inv_mem P g l (g a b) (hg a b List.mem_cons_self h)
      (fun a' b' hb' => hg a' b' (List.mem_cons_of_mem _ hb'))

theorem spaceStep_mem (S : List TwoInfo) (gs : List (List TwoInfo × Nat)) (a : TwoInfo) (ha : a ∈ S)
    (h : ∀ g ∈ gs, ∀ x ∈ g.1, x ∈ S) : ∀ g ∈ spaceStep gs a, ∀ x ∈ g.1, x ∈ S := by
  unfold spaceStep
  split
  · intro g hg x hx
    obtain ⟨p, hp, rfl⟩ := List.mem_map.mp hg
    have hp1 : p.1 ∈ gs := by
      have := List.mem_zipIdx hp
      rcases p with ⟨p1, p2⟩
      simp only at this ⊢
      have h3 := this.2.2
      rw [h3]
      exact List.getElem_mem _
    split at hx
    · rcases List.mem_append.mp hx with hx | hx
      · exact h _ hp1 x hx
      · simp at hx; subst hx; exact ha
    · exact h _ hp1 x hx
  · intro g hg x hx
    rcases List.mem_append.mp hg with hg | hg
    · exact h g hg x hx
    · simp at hg; subst hg; simp at hx; subst hx; exact ha

theorem spaceGroups_mem (xs : List TwoInfo) : ∀ sg ∈ spaceGroups xs, ∀ a ∈ sg, a ∈ xs := by
  intro sg hsg a ha
  unfold spaceGroups at hsg
  obtain ⟨g, hg, rfl⟩ := List.mem_map.mp hsg
  have inv := foldl_inv_mem (fun gs : List (List TwoInfo × Nat) => ∀ g ∈ gs, ∀ x ∈ g.1, x ∈ xs) spaceStep
    (xs.mergeSort (fun a b => decide (b.maxRow ≤ a.maxRow))) [] (by simp)
    (fun gs b hb hgs => spaceStep_mem xs gs b (List.mem_mergeSort.mp hb) hgs)
  exact inv g hg a ha

theorem timeGroups_mem (xs : List TwoInfo) : ∀ tg ∈ timeGroups xs, ∀ a ∈ tg, a ∈ xs := by
  intro tg htg a ha
  unfold timeGroups at htg
  obtain ⟨t, _, rfl⟩ := List.mem_map.mp htg
  exact (List.mem_filter.mp ha).1

theorem twoComps_sound (w : World) (xs : List TwoInfo) (c : Comp) (hc : c ∈ twoComps w xs) :
    ∃ a ∈ xs, ∃ g n j, twoGlyph (w.op a.op).cls = some g ∧ j < n ∧
      c = ⟨a.op, g, [(twoX a.s a.d n j, a.r0), (twoX a.s a.d n j, a.r1)], a.d⟩ := by
  unfold twoComps at hc
  obtain ⟨tg, htg, hc⟩ := List.mem_flatMap.mp hc
  obtain ⟨sg, hsg, hc⟩ := List.mem_flatMap.mp hc
  obtain ⟨p, hp, hpc⟩ := List.mem_filterMap.mp hc
  rcases p with ⟨a, j⟩
  have hz := List.mem_zipIdx hp
  simp only at hz hpc
  have ha_sg : a ∈ sg := by
    have h3 := hz.2.2
    rw [h3]; exact List.getElem_mem _
  have ha : a ∈ xs := timeGroups_mem xs tg htg a (spaceGroups_mem tg sg hsg a ha_sg)
  cases hg : twoGlyph (w.op a.op).cls with
  | none => simp [hg] at hpc
  | some g =>
    simp only [hg, Option.map_some, Option.some.injEq] at hpc
    refine ⟨a, ha, g, sg.length, j, hg, by omega, hpc.symm⟩

theorem twoInfo_spec (w : World) (rows : List Int) (tm : Times) (o : Nat) (a : TwoInfo)
    (h : twoInfo w rows tm o = some a) :
    a.op = o ∧ tm o = some (a.s, a.d) ∧ rowOf rows ((w.op o).qs.headD 0) = some a.r0 ∧
    rowOf rows (((w.op o).qs.drop 1).headD 0) = some a.r1 := by
  unfold twoInfo at h
  simp only at h
  split at h
  · next s d r0 r1 h1 h2 h3 =>
    simp only [Option.some.injEq] at h
    subst h
    exact ⟨rfl, h1, h2, h3⟩
  · cases h

theorem singleComp_op (w : World) (rows : List Int) (tm : Times) (o : Nat) (c : Comp)
    (h : singleComp w rows tm o = some c) : c.op = o := by
  unfold singleComp at h
  simp only at h
  split at h
  · simp only [Option.map_eq_some_iff] at h
    obtain ⟨rs, _, rfl⟩ := h
    rfl
  · cases h

theorem bulkKey_ne_two (c : Cls) (h : bulkKey c ≠ .two) : isTwo c = false ∧ bulkKey c = c := by
  unfold bulkKey at h ⊢
  cases hc : isTwo c
  · simp
  · simp [hc] at h

theorem mem_uniqueInOrder' {α} [BEq α] [LawfulBEq α] (l : List α) (a : α) (h : a ∈ uniqueInOrder l) : a ∈ l := by
  induction l with
  | nil => simp [uniqueInOrder] at h
  | cons x xs ih =>
    simp only [uniqueInOrder, List.mem_cons, List.mem_filter] at h
    rcases h with h | ⟨h, _⟩
    · exact List.mem_cons.mpr (Or.inl h)
    · exact List.mem_cons_of_mem _ (ih h)

/-- every component is the component of a listed operation: either the individual one, or the
    two-qubit one with some element index `j` of some space-shared group of size `n`. -/
theorem componentsOf_sound (w : World) (rows : List Int) (tm : Times) (ops : List Nat) (cs : List Comp)
    (h : componentsOf w rows tm ops = some cs) (c : Comp) (hc : c ∈ cs) :
    c.op ∈ ops ∧
    ((isTwo (w.op c.op).cls = false ∧ singleComp w rows tm c.op = some c) ∨
     (isTwo (w.op c.op).cls = true ∧ ∃ s d r0 r1 g n j,
        tm c.op = some (s, d) ∧ rowOf rows ((w.op c.op).qs.headD 0) = some r0 ∧
        rowOf rows (((w.op c.op).qs.drop 1).headD 0) = some r1 ∧
        twoGlyph (w.op c.op).cls = some g ∧ j < n ∧
        c = ⟨c.op, g, [(twoX s d n j, r0), (twoX s d n j, r1)], d⟩)) := by
  unfold componentsOf at h
  simp only [Option.map_eq_some_iff] at h
  obtain ⟨ls, hls, rfl⟩ := h
  obtain ⟨l, hl, hcl⟩ := List.mem_flatten.mp hc
  obtain ⟨k, hk, hkl⟩ := mapM_some_inv _ _ _ hls l hl
  by_cases h2 : (k == Cls.two) = true
  · simp only [h2, if_true, Option.map_eq_some_iff] at hkl
    obtain ⟨infos, hinf, rfl⟩ := hkl
    obtain ⟨a, ha, g, n, j, hg, hj, rfl⟩ := twoComps_sound w infos c hcl
    obtain ⟨o, ho, hoa⟩ := mapM_some_inv _ _ _ hinf a ha
    obtain ⟨e1, e2, e3, e4⟩ := twoInfo_spec w rows tm o a hoa
    have hof := List.mem_filter.mp ho
    simp only at e1 ⊢
    subst e1
    refine ⟨hof.1, Or.inr ⟨hof.2, a.s, a.d, a.r0, a.r1, g, n, j, e2, e3, e4, hg, hj, rfl⟩⟩
  · simp only [h2] at hkl
    obtain ⟨o, ho, hoc⟩ := mapM_some_inv _ _ _ hkl c hcl
    have hof := List.mem_filter.mp ho
    have e := singleComp_op w rows tm o c hoc
    subst e
    have hk' := mem_uniqueInOrder' _ _ hk
    obtain ⟨o', _, ho'⟩ := List.mem_map.mp hk'
    have hcls : (w.op c.op).cls = k := by simpa using hof.2
    have hne : bulkKey (w.op o').cls ≠ .two := by
      rw [ho']; intro hh; rw [hh] at h2; exact h2 rfl
    have := bulkKey_ne_two _ hne
    refine ⟨hof.1, Or.inl ⟨?_, hoc⟩⟩
    rw [hcls, ← ho', this.2]
    exact this.1


/-- every component of a listing is the component of a listed operation that occupies a channel. -/
theorem components_sound (w : World) (rows : List Int) (tm : Times) (ops : List Nat) (cs : List Comp)
    (h : components w rows tm ops = some cs) (c : Comp) (hc : c ∈ cs) :
    (c.op ∈ ops ∧ (w.op c.op).leafChans ≠ []) ∧
    ((isTwo (w.op c.op).cls = false ∧ singleComp w rows tm c.op = some c) ∨
     (isTwo (w.op c.op).cls = true ∧ ∃ s d r0 r1 g n j,
        tm c.op = some (s, d) ∧ rowOf rows ((w.op c.op).qs.headD 0) = some r0 ∧
        rowOf rows (((w.op c.op).qs.drop 1).headD 0) = some r1 ∧
        twoGlyph (w.op c.op).cls = some g ∧ j < n ∧
        c = ⟨c.op, g, [(twoX s d n j, r0), (twoX s d n j, r1)], d⟩)) := by
  obtain ⟨hm, hrest⟩ := componentsOf_sound w rows tm _ cs h c hc
  have := List.mem_filter.mp hm
  refine ⟨⟨this.1, ?_⟩, hrest⟩
  intro he
  have h2 := this.2
  rw [he] at h2
  simp at h2

/-! ### list helpers -/

theorem mem_uniqueInOrder {α} [BEq α] [LawfulBEq α] (l : List α) (a : α) :
    a ∈ uniqueInOrder l ↔ a ∈ l := by
  induction l with
  | nil => simp [uniqueInOrder]
  | cons x xs ih =>
    simp only [uniqueInOrder, List.mem_cons, List.mem_filter, ih]
    constructor
    · rintro (h | ⟨h, _⟩)
      · exact Or.inl h
      · exact Or.inr h
    · rintro (h | h)
      · exact Or.inl h
      · by_cases e : a = x
        · exact Or.inl e
        · exact Or.inr ⟨h, by simpa using e⟩

theorem nodup_uniqueInOrder {α} [BEq α] [LawfulBEq α] (l : List α) : (uniqueInOrder l).Nodup := by
  induction l with
  | nil => simp [uniqueInOrder]
  | cons x xs ih =>
    simp only [uniqueInOrder, List.nodup_cons, List.mem_filter]
    refine ⟨?_, ih.filter _⟩
    rintro ⟨_, h⟩
    simp at h

theorem foldl_latest (l : List Int) : ∀ (m : Int),
    let F := l.foldl (fun m e => if e > m then e else m) m
    m ≤ F ∧ (∀ e ∈ l, e ≤ F) ∧ (F = m ∨ F ∈ l) := by
  induction l with
  | nil => intro m; simp
  | cons x xs ih =>
    intro m
    simp only [List.foldl_cons]
    by_cases hx : x > m
    · simp only [hx, if_true]
      obtain ⟨h1, h2, h3⟩ := ih x
      refine ⟨by omega, ?_, ?_⟩
      · intro e he
        rcases List.mem_cons.mp he with rfl | he
        · exact h1
        · exact h2 e he
      · rcases h3 with h3 | h3
        · exact Or.inr (by rw [h3]; exact List.mem_cons_self)
        · exact Or.inr (List.mem_cons_of_mem _ h3)
    · simp only [hx, if_false]
      obtain ⟨h1, h2, h3⟩ := ih m
      refine ⟨h1, ?_, ?_⟩
      · intro e he
        rcases List.mem_cons.mp he with rfl | he
        · omega
        · exact h2 e he
      · rcases h3 with h3 | h3
        · exact Or.inl h3
        · exact Or.inr (List.mem_cons_of_mem _ h3)

theorem mapM_some_mem {α β} (f : α → Option β) : ∀ (l : List α) (ys : List β), l.mapM f = some ys →
    ∀ x ∈ l, ∃ y ∈ ys, f x = some y
  | [], ys, h, x, hx => by simp at hx
  | a :: l, ys, h, x, hx => by
    rw [List.mapM_cons] at h
    cases ha : f a with
    | none => simp [ha] at h
    | some b =>
      cases hl : l.mapM f with
      | none => simp [ha, hl] at h
      | some bs =>
        simp [ha, hl] at h
        subst h
        rcases List.mem_cons.mp hx with rfl | hx
        · exact ⟨b, List.mem_cons_self, ha⟩
        · obtain ⟨y, hy, hf⟩ := mapM_some_mem f l bs hl x hx
          exact ⟨y, List.mem_cons_of_mem _ hy, hf⟩


end Qco.Draw
