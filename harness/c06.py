"""C06 — applying repetition modifiers unrolls n back-to-back copies, once."""
from . import progs, streamcheck, libclause

PROP = 'C06'


def nontrivial(prog, f):
    return f['apply'] >= 1 and f['rep_gt1'] >= 1 and f['sub'] >= 1


def forced(rng, tier):
    """repeated blocks (n >= 3) whose content starts with two PARALLEL sub-circuits on disjoint qubits with equal counts, one of
    them followed inside the block, the other one the last to end (seeded change C06-m4: a node lookup keyed by operation
    equality conflates the two value-equal sub-circuits of the later copies, the copies then overlap)."""
    out = []
    gates = ['Rx90', 'Ry90', 'Rx180', 'Hadamard']
    for i in range(30 if tier == 'quick' else 600):
        n = rng.choice([3, 3, 4])
        k = rng.choice([1, 1, 2])
        qa, qb = rng.sample(range(3), 2)
        p = [['new', 'f1'], ['new', f'f{n}'], ['new', f'f{k}'], ['new', f'f{k}']]
        for _ in range(rng.randint(1, 2)):
            p.append(['op', 2, rng.choice(gates), [qa], 'M', None, 0, 0, [], None])
        for _ in range(rng.randint(2, 4)):
            p.append(['op', 3, rng.choice(gates), [qb], 'M', None, 0, 0, [], None])
        first, second = (2, 3) if rng.random() < 0.7 else (3, 2)
        p += [['sub', 1, first], ['sub', 1, second]]
        p.append(['op', 1, rng.choice(gates), [qa], 'M', None, 0, 0, [], None])      # follows the short sub-circuit
        if rng.random() < 0.3:
            p.append(['op', 1, rng.choice(gates), [qa], 'M', None, 0, 0, [], None])
        p += [['sub', 0, 1], ['list', 0], ['apply', 0], ['list', 0], ['apply', 0], ['list', 0]]
        out.append(p)
    # the caller keeps the handle of a nested sub-circuit, unrolls, adds a REPEATED block through the handle, unrolls again
    # (seeded change C06-m5: `apply_modifiers` skipped when nothing was added through the circuit's own `add` since the last call)
    for i in range(20 if tier == 'quick' else 300):
        n = rng.choice([2, 3])
        q = rng.randrange(3)
        p = [['new', 'f1'], ['new', f'f{rng.choice([1, 2])}'], ['new', f'f{n}']]
        p.append(['op', 1, rng.choice(gates), [q], 'M', None, 0, 0, [], None])
        for _ in range(rng.randint(1, 2)):
            p.append(['op', 2, rng.choice(gates), [rng.randrange(3)], 'M', None, 0, 0, [], None])
        if rng.random() < 0.5:
            p.append(['op', 0, rng.choice(gates), [q], 'M', None, 0, 0, [], None])
        nh = sum(1 for c in p if c[0] in ('op', 'sub'))
        p += [['sub', 0, 1], ['apply', 0], ['list', 0], ['adopt', nh], ['sub', 3, 2], ['list', 0], ['apply', 0], ['list', 0],
              ['reps', 0], ['apply', 0], ['list', 0]]
        out.append(p)
    # repeated block with two parallel leaves whose ends are 1/8 … 1 apart at times around 10^5 (seeded change C06-m6: the latest
    # leaf of a group chosen with a floating-point tolerance — `np.isclose` — so that a near-tie goes to the first listed leaf
    # and the next copy starts before the latest leaf has ended)
    for i in range(20 if tier == 'quick' else 300):
        n = rng.choice([2, 3])
        qa, qb = rng.sample(range(3), 2)
        big = rng.choice([800000, 1600000, 4000000])
        gap = rng.choice([1, 2, 4, 8])
        p = [['new', 'f1'], ['new', f'f{n}']]
        if rng.random() < 0.5:
            p.append(['op', 0, 'Wait', [qa], 'M', f'f{big}', 0, 0, [], None])        # the block starts late
            da, db = rng.choice([(8, 8 + gap), (16, 16 + gap)])
        else:
            da, db = big, big + gap                                               # the leaves themselves are long
        p.append(['op', 1, 'Wait', [qa], 'M', f'f{da}', 0, 0, [], None])           # first listed, ends EARLIER
        p.append(['op', 1, 'Wait', [qb], 'M', f'f{db}', 0, 0, [], None])           # latest by `gap`/8
        if rng.random() < 0.5:
            p.append(['op', 1, rng.choice(gates), [qa], 'M', None, 0, 0, [], [len([c for c in p if c[0] == 'op']) - 2, 'JS']])
        p += [['sub', 0, 1], ['list', 0], ['apply', 0], ['list', 0]]
        out.append(p)
    return out


SPEC = streamcheck.StreamSpec(
    PROP, probes=['C06', 'C02m'],
    cfg=progs.GenConfig(static_durations=True, n_cmds=(6, 36), p_list=0.05, p_new=0.16, p_sub=0.16, p_apply=0.10, p_flatten=0.0, p_copy=0.0,
                        reps=[1, 2, 2, 3], p_regrep=0.25, p_setreg=0.06, p_huge=0.04),
    n_quick=1200, n_thorough=40000,
    nontrivial=nontrivial,
    pysem=dict(groups=['facade'], effects=True),
    extra_check=libclause.c06_library,
    extra_programs=forced,
    rule='random build programs with nesting <= 4 and counts 1-3 at every level (fixed and registry-provided); at every '
         'apply_modifiers: all counts 1 afterwards, operations outside repeated blocks untouched (identity, signature, '
         'link), a block whose last-ending operation is a relation leaf occupies n*T, second application changes nothing; '
         'every listing is compared with the unrolled shadow multiset (content x product of enclosing counts); '
         'non-trivial = an unrolling of a nested count > 1; distinct = distinct program text',
    assumptions=['counts >= 1 (a count of 0 is outside the quantifier)'])


def run(tier, seed):
    return streamcheck.run(SPEC, tier, seed)
