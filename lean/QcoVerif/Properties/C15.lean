import QcoVerif.Lemmas.OpenQL
import QcoVerif.Generated.GateTables
/-
  C15 — OpenQL export is the in-order image of the circuit.

  Objects: `World.qlCalls`, `World.qlWalk/openql`, `qlExec` (Model/OpenQL.lean) — the definitions the driver
  executes for `heap openql / openqlexec / openqlinorder`, tied to `to_openql` by harness/c15.py (recorded calls).

  Statement (properties.jsonl): the exported program executes, in listing order, exactly the gates of the circuit's
  operations; each supported operation becomes the documented instruction (controlled phase = cz, barrier on the
  pair, phase update on both); waits keep their duration; sub-circuits appear where they were added, count times;
  unsupported operations are omitted; the same circuit always yields the same names.

  Proved:
    openql_table, openql_unsupported, waitCycles_floor   the 13-entry table, `int(duration)` is the floor
    openql_flat                                          flat circuit: trace and execution = image of `operations`
    names_deterministic                                  names are a function of the class-name sequence
    openql_nested_partial                                every (sub-)program: its kernel is the in-order image of
                                                         the block's own operations, a sub-circuit's trace sits at
                                                         the position of the sub-circuit, added `count` times
    C15_witness_order                                    `x180; sub{y90}; x90` executes `y90` first — the in-order
                                                         statement is FALSE for nested circuits (finding R6)
  Full statement, not provable because false of the code (R6):
      ∀ w c, qlExec (w.openql c) = w.qlInOrder c
  Not modelled: OpenQL's `duplicate kernel name` check (count ≥ 2, equal class sequences) — the harness predicts it
  from the recorded names and compares with the real library.
-/
namespace Qco.C15

open Qco

/-! ### the instruction table -/

def gateNames : List (Cls × String) :=
  [(.reset, "prepz"), (.hadamard, "h"), (.identity, "i"), (.measure, "measure"), (.rx180, "x180"), (.rx90, "x90"),
   (.rxm90, "mx90"), (.ry180, "y180"), (.ry90, "y90"), (.rym90, "my90")]

/-- the entry of a class in the model's OpenQL table, in the vocabulary of the generated table. -/
def qlEntry (c : Cls) : String :=
  match c with
  | .barrier => "*BarrierOperationsFactory"
  | .wait => "*WaitOperationsFactory"
  | .cphase => "*CompositeCPhaseOperationsFactory"
  | c => c.qlName.getD ""

/-- **the model's instruction table is the live `OpenQLFactoryManager` table** (regenerated from the code on every run). -/
theorem openql_table_matches_source :
    Gen.openqlTable = Cls.all.map (fun c => (c.name, qlEntry c)) := by decide +kernel

/-- ten classes become `gate(name, [q])`; a barrier `barrier(qubits)`; a wait `wait([q], int(duration))`;
    a controlled phase `cz c t; barrier [c, t]; update_ph c; update_ph t`. -/
theorem openql_table (w : World) (o : Op) :
    (∀ p ∈ gateNames, ∀ q, o.cls = p.1 → o.qs = [q] → w.qlCalls o = [.gate p.2 [q]]) ∧
    (o.cls = .barrier → w.qlCalls o = [.barrier (uniqueInOrder o.qs)]) ∧
    (∀ q, o.cls = .wait → o.qs = [q] → w.qlCalls o = [.wait [q] (waitCycles (w.leafDur o.dur))]) ∧
    (∀ c t, o.cls = .cphase → o.qs = [c, t] → c ≠ t →
        w.qlCalls o = [.cz c t, .barrier [c, t], .gate1 "update_ph" c, .gate1 "update_ph" t]) := by
  refine ⟨?_, ?_, ?_, ?_⟩
  · intro p hp q hc hq
    simp only [gateNames, List.mem_cons, List.mem_nil_iff, or_false] at hp
    rcases hp with rfl | rfl | rfl | rfl | rfl | rfl | rfl | rfl | rfl | rfl <;>
      simp [World.qlCalls, Cls.qlName, Op.exportQubits, Op.leafChans, uniqueInOrder, hc, hq]
  · intro hc
    simp [World.qlCalls, Op.exportQubits, Op.leafChans, hc, List.map_map, Function.comp_def]
  · intro q hc hq
    simp [World.qlCalls, Op.exportQubits, Op.leafChans, uniqueInOrder, hc, hq]
  · intro c t hc hq hct
    have htc : (t == c) = false := by simpa using fun h : t = c => hct h.symm
    simp [World.qlCalls, Op.exportQubits, Op.leafChans, uniqueInOrder, hc, hq, htc]

/-- the table has 13 entries and every other class is omitted. -/
theorem openql_unsupported (w : World) (o : Op) :
    (o.cls.qlSupported = false → w.qlCalls o = []) ∧ (Cls.all.filter Cls.qlSupported).length = 13 := by
  constructor
  · intro h
    unfold World.qlCalls
    generalize o.cls = c at h
    cases c <;> first | rfl | (simp [Cls.qlSupported, Cls.qlName] at h)
  · decide

/-- `int(duration)`: for a non-negative duration the number of whole units (the floor). -/
theorem waitCycles_floor (d : Int) (h : 0 ≤ d) : 8 * waitCycles d ≤ d ∧ d < 8 * (waitCycles d + 1) := by
  unfold waitCycles
  rw [Int.tdiv_eq_ediv_of_nonneg h]
  omega

example : waitCycles 20 = 2 ∧ waitCycles 4 = 0 ∧ waitCycles 168 = 21 := by decide

/-! ### flat circuits -/

/-- **Flat circuits.** The trace is: program and kernel named after the class sequence of the listing, the
    kernel calls of `operations` (the mutating listing) in order — unsupported operations contribute nothing —
    then `add_kernel`; and the exported program executes exactly those calls in that order. -/
theorem openql_flat (w : World) (c : Nat) (h : flat w c) :
    let ops := (w.operations c).2
    let seq := ops.map (fun n => (w.op n).cls)
    w.openql c = [.opn 0 seq seq] ++ (ops.flatMap (fun n => (w.qlCalls (w.op n)).map .call)) ++ [.close] ∧
    qlExec (w.openql c) = ops.flatMap (fun n => w.qlCalls (w.op n)) ∧
    qlExec (w.openql c) = w.qlInOrder c := by
  have hops : (w.operations c).2 = listing (w.op c).graph := by
    rw [operations_eq_leafListing]; exact leafListing_flat w c h _
  have hseq : w.qlSeq c = (listing (w.op c).graph).map (fun n => (w.op n).cls) := by
    unfold World.qlSeq; rw [show w.depthFuel = (w.ops.size + 1) + 1 from rfl, leafListing_flat w c h]
  have hwalk : w.openql c = [.opn 0 (w.qlSeq c) (w.qlSeq c)] ++
      ((listing (w.op c).graph).flatMap (fun n => (w.qlCalls (w.op n)).map .call)) ++ [.close] := by
    unfold World.openql
    rw [show w.depthFuel = (w.ops.size + 1) + 1 from rfl]
    simp only [World.qlWalk, beq_self_eq_true, if_true]
    congr 2
    apply flatMap_congr'
    intro n hn
    simp [h n hn]
  have hexp : w.expanded w.depthFuel c = listing (w.op c).graph := by
    rw [show w.depthFuel = (w.ops.size + 1) + 1 from rfl]
    simp only [World.expanded]
    rw [flatMap_congr' (g := fun n => [n])]
    · simp [List.flatMap_singleton']
    · intro n hn
      simp [h n hn]
  have hcalls : (listing (w.op c).graph).flatMap (fun n => (w.qlCalls (w.op n)).map QTok.call) =
      ((listing (w.op c).graph).flatMap (fun n => w.qlCalls (w.op n))).map QTok.call := by
    rw [List.map_flatMap]
  have hexec : qlExec (w.openql c) = (listing (w.op c).graph).flatMap (fun n => w.qlCalls (w.op n)) := by
    rw [hwalk, hcalls]
    unfold qlExec
    simp only [List.foldl_append, List.foldl_cons, List.foldl_nil, qlStep]
    rw [foldl_calls]
    simp
  refine ⟨?_, ?_, ?_⟩
  · simp only [hops]; rw [hwalk, hseq]
  · simp only [hops]; exact hexec
  · rw [hexec]; unfold World.qlInOrder; rw [hexp]

/-! ### names -/

/-- **Deterministic names.** Program and kernel name are a function of the class-name sequence of the
    listing: two circuits (in any two heaps) with the same sequence open with the same token, and that token is
    `opn 0 seq seq` — program `program_<uuid5(seq)>`, kernel `kernel_<uuid5(seq)>`. -/
theorem names_deterministic (w w' : World) (c c' : Nat)
    (h : (w.operations c).2.map (fun n => (w.op n).cls) = (w'.operations c').2.map (fun n => (w'.op n).cls)) :
    (w.openql c).head? = (w'.openql c').head? ∧
    (w.openql c).head? = some (.opn 0 ((w.operations c).2.map (fun n => (w.op n).cls))
                                     ((w.operations c).2.map (fun n => (w.op n).cls))) := by
  have key : ∀ (v : World) (d : Nat), (v.openql d).head? =
      some (.opn 0 ((v.operations d).2.map (fun n => (v.op n).cls)) ((v.operations d).2.map (fun n => (v.op n).cls))) := by
    intro v d
    unfold World.openql
    rw [show v.depthFuel = (v.ops.size + 1) + 1 from rfl]
    simp only [World.qlWalk, beq_self_eq_true, if_true, List.cons_append, List.nil_append, List.head?_cons]
    rw [operations_eq_leafListing]
    rfl
  exact ⟨by rw [key w c, key w' c', h], key w c⟩

/-! ### nested circuits: what does hold -/

/-- what a node contributes to the trace of its parent: a sub-circuit its own complete trace followed by
    `count` × `add_program`, a leaf its kernel calls. -/
def contribution (w : World) (f depth : Nat) (top : List Cls) (n : Nat) : List QTok :=
  if (w.op n).isComp then
    w.qlWalk f n (depth + 1) top ++ List.replicate (w.repCount (w.op n).rep) .addProgram
  else (w.qlCalls (w.op n)).map .call

/-- **Nested circuits, the part that holds.** For every (sub-)circuit `c`, at any depth:
    (1) its trace is `open`, then — in listing order — the contribution of each node (a sub-circuit: its own
        complete trace at the position of the sub-circuit, followed by exactly `count` × `add_program`), then
        `add_kernel`;
    (2) the calls made on its own kernel are the in-order image of the block's own (non-composite) operations.
    What fails (R6) is the position of the own kernel: it is added after all sub-programs. -/
theorem openql_nested_partial (w : World) (f c depth : Nat) (top : List Cls) :
    let top' := if depth == 0 then w.qlSeq c else top
    w.qlWalk (f + 1) c depth top =
      [.opn depth top' (w.qlSeq c)] ++ (listing (w.op c).graph).flatMap (contribution w f depth top') ++ [.close] ∧
    ownCalls 0 (w.qlWalk (f + 1) c depth top) =
      (listing (w.op c).graph).flatMap (fun n => if (w.op n).isComp then [] else w.qlCalls (w.op n)) := by
  refine ⟨rfl, ?_⟩
  simp only [World.qlWalk, List.cons_append, List.nil_append, ownCalls]
  generalize (if (depth == 0) = true then w.qlSeq c else top) = top'
  generalize listing (w.op c).graph = L
  induction L with
  | nil => simp [ownCalls]
  | cons n ns ihL =>
    simp only [List.flatMap_cons, List.append_assoc]
    by_cases hc : (w.op n).isComp = true
    · simp only [hc, if_true, List.append_assoc, List.nil_append, Nat.zero_add] at ihL ⊢
      rw [ownCalls_skip w f n (depth + 1) top' 1 (by omega), ownCalls_adds, ihL]
    · have hc' : (w.op n).isComp = false := by simpa using hc
      simp only [hc', Bool.false_eq_true, if_false, Nat.zero_add] at ihL ⊢
      have : ∀ (cs : List QCall) (rest : List QTok), ownCalls 1 (cs.map .call ++ rest) = cs ++ ownCalls 1 rest := by
        intro cs rest
        induction cs with
        | nil => rfl
        | cons x xs ihx => simp [ownCalls, ihx]
      rw [this, ihL]

/-! ### the witness: nested circuits are not exported in order (R6) -/

/-- `x180 q0 ; sub{ y90 q0 } ; x90 q0` as a heap literal (the sub-circuit hangs under the `x180`, the `x90`
    under the sub-circuit). -/
def wOrder : World :=
  { ops := #[
      { cls := .comp, graph := [⟨1, none, [0]⟩, ⟨2, some 1, [0, 0]⟩, ⟨4, some 2, [0, 0, 0]⟩] },
      { cls := .rx180, qs := [0] },
      { cls := .comp, graph := [⟨3, none, [0]⟩] },
      { cls := .ry90, qs := [0] },
      { cls := .rx90, qs := [0] }] }

/-- The exported program executes `y90` FIRST, the in-order image has it second: the in-order statement is
    false of the exporter (and of this model, which mirrors it) as soon as a sub-circuit is not the first node. -/
theorem C15_witness_order :
    qlExec (wOrder.openql 0) = [.gate "y90" [0], .gate "x180" [0], .gate "x90" [0]] ∧
    wOrder.qlInOrder 0 = [.gate "x180" [0], .gate "y90" [0], .gate "x90" [0]] ∧
    qlExec (wOrder.openql 0) ≠ wOrder.qlInOrder 0 := by
  have hl := listing_of_graphsSorted wOrder (by decide)
  have hf : wOrder.depthFuel = 7 := rfl
  have h1 : qlExec (wOrder.openql 0) = [.gate "y90" [0], .gate "x180" [0], .gate "x90" [0]] := by
    simp only [World.openql, hf, World.qlWalk, World.qlSeq, World.leafListing, hl]
    decide
  have h2 : wOrder.qlInOrder 0 = [.gate "x180" [0], .gate "y90" [0], .gate "x90" [0]] := by
    simp only [World.qlInOrder, hf, World.expanded, hl]
    decide
  refine ⟨h1, h2, ?_⟩
  rw [h1, h2]
  decide

/-- hypothesis of `openql_flat` is satisfiable by a circuit with supported and unsupported operations. -/
def wFlat : World :=
  { ops := #[
      { cls := .comp, graph := [⟨1, none, [0]⟩, ⟨2, some 1, [0, 0]⟩, ⟨3, some 2, [0, 0, 0]⟩] },
      { cls := .cphase, qs := [0, 1] }, { cls := .vphase, qs := [0] }, { cls := .wait, qs := [1], dur := .fixed 20 }] }

example : flat wFlat 0 ∧
    qlExec (wFlat.openql 0) =
      [.cz 0 1, .barrier [0, 1], .gate1 "update_ph" 0, .gate1 "update_ph" 1, .wait [1] 2] := by
  have hl := listing_of_graphsSorted wFlat (by decide)
  have hf : wFlat.depthFuel = 6 := rfl
  constructor
  · intro n hn
    rw [hl] at hn
    revert n
    decide
  · simp only [World.openql, hf, World.qlWalk, World.qlSeq, World.leafListing, hl]
    decide

end Qco.C15
