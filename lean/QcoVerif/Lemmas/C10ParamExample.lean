import QcoVerif.Lemmas.C10ParamCheck
import QcoVerif.Lemmas.C10ParamBuild
import QcoVerif.Lemmas.GraphBuilt
/-
  C10, parametric layer lemmas: a concrete non-trivial world that satisfies the hypothesis bundles
  (non-vacuity of the theorems of Properties/C10.lean, section "Parametric layer theorems").

  `ddDemo`: the refocusing layer of a QEC round on one ancilla (qubit 1) and one data qubit (qubit 0), as
  `get_circuit_qec_round_with_dynamical_decoupling` lays it out: a barrier on both qubits; below it the ancilla
  measurement (readout duration) and, on the data qubit, wait – Rx180 – wait (decoupling wait, microwave duration,
  decoupling wait); a closing barrier below the LAST wait.  Sub-circuit 0 contains the six operations.
-/
namespace Qco.C10Param.Example

open Qco Qco.C10 Qco.C10Param

def ddDemo : World :=
  { ops := #[ { cls := .comp, link := 0, graph := [⟨1, none, [0]⟩, ⟨2, some 1, [0, 0]⟩, ⟨3, some 1, [0, 1]⟩,
                  ⟨4, some 3, [0, 1, 0]⟩, ⟨5, some 4, [0, 1, 0, 0]⟩, ⟨6, some 5, [0, 1, 0, 0, 0]⟩] },
              { cls := .barrier, qs := [0, 1], dur := .fixed 4, link := 0 },
              { cls := .measure, qs := [1], dur := .glob .ro, link := 1 },
              { cls := .wait, qs := [0], dur := .decoupling, link := 2 },
              { cls := .rx180, qs := [0], dur := .glob .mw, link := 3 },
              { cls := .wait, qs := [0], dur := .decoupling, link := 4 },
              { cls := .barrier, qs := [0, 1], dur := .fixed 4, link := 5 } ],
    links := #[ {}, { refs := [1] }, { refs := [1] }, { refs := [3] }, { refs := [4] }, { refs := [5] } ] }

/-- first layer: the opening barrier (it carries the sub-circuit's link). -/
def ddL0 : LayerData := ⟨[[1]], [1]⟩
/-- below the barrier: the measurement and the refocusing path, which dominates; below its last wait: the closing
    barrier. -/
def ddRest : List LayerData := [⟨[[2], [3, 4, 5]], [3, 4, 5]⟩, ⟨[[6]], [6]⟩]

/-- readout 16, microwave 8 (decoupling wait 4), flux 8, reset 16 — the defaults, in units of 1/8. -/
def vDemo : Vars := ⟨4, 8, 8, 16⟩

theorem vDemo_nonneg : vDemo.Nonneg := ⟨by decide, by decide, by decide, by decide⟩

/-- the world under these durations. -/
abbrev ddWorld : World := regimeA.world ddDemo vDemo

/-- the layers are what `autoCert` reads off the relation tree. -/
theorem ddDemo_cert : autoCert ddDemo 0 = [ddL0 :: ddRest] := by decide +kernel

theorem ddDemo_durs : LeafDurNonneg ddWorld :=
  dursNonnegB_sound (by decide +kernel) vDemo_nonneg (regimeA_valid vDemo_nonneg)

theorem ddDemo_block : BlockOk ddWorld 0 [ddL0 :: ddRest] 8 :=
  blockOkB_sound (w := ddDemo) (R := regimeA) (by decide +kernel) vDemo_nonneg (regimeA_valid vDemo_nonneg) ddDemo_durs

theorem ddDemo_seq : SeqOk ddWorld 0 ddL0 ddRest 8 :=
  seqOkB_sound (w := ddDemo) (R := regimeA) (by decide +kernel) vDemo_nonneg (regimeA_valid vDemo_nonneg) ddDemo_durs

theorem ddDemo_core : LayerCore ddWorld ddL0 := (ddDemo_seq.head ddDemo_block.notJe).core

theorem ddDemo_layers : Layers ddWorld 1 ddRest := ddDemo_seq.layers

theorem ddDemo_nested : Nested ddWorld (autoCert ddDemo) (ddWorld.ops.size + 2) 0 :=
  nestedB_sound vDemo_nonneg (regimeA_valid vDemo_nonneg) ddDemo_durs _ 0 (by decide +kernel)

theorem ddDemo_ok : layeredOk ddDemo regimeA (autoCert ddDemo) 0 = true ∧
    layeredOk ddDemo regimeB (autoCert ddDemo) 0 = true := ⟨by decide +kernel, by decide +kernel⟩

/-- the paths of the second layer are genuinely different in length: measurement 16, refocusing 4 + 8 + 4. -/
theorem ddDemo_times : End ddWorld 2 20 ∧ End ddWorld 5 20 ∧ Start ddWorld 6 20 ∧ End ddWorld 1 4 ∧
    Start ddWorld 4 8 := by
  refine ⟨⟨20, ?_⟩, ⟨20, ?_⟩, ⟨20, ?_⟩, ⟨20, ?_⟩, ⟨20, ?_⟩⟩ <;> decide +kernel

/-! ### the builder step that closes the layer -/

/-- `ddDemo` before the closing barrier is added: object 6 exists (no relation yet), sub-circuit 0 has five nodes. -/
def ddOpen : World :=
  { ops := #[ { cls := .comp, link := 0, graph := [⟨1, none, [0]⟩, ⟨2, some 1, [0, 0]⟩, ⟨3, some 1, [0, 1]⟩,
                  ⟨4, some 3, [0, 1, 0]⟩, ⟨5, some 4, [0, 1, 0, 0]⟩] },
              { cls := .barrier, qs := [0, 1], dur := .fixed 4, link := 0 },
              { cls := .measure, qs := [1], dur := .glob .ro, link := 1 },
              { cls := .wait, qs := [0], dur := .decoupling, link := 2 },
              { cls := .rx180, qs := [0], dur := .glob .mw, link := 3 },
              { cls := .wait, qs := [0], dur := .decoupling, link := 4 },
              { cls := .barrier, qs := [0, 1], dur := .fixed 4, link := 5 } ],
    links := #[ {}, { refs := [1] }, { refs := [1] }, { refs := [3] }, { refs := [4] }, {} ] }

/-- the listing of its relation tree (the literal is stored in listing order). -/
theorem ddOpen_listing : listing (ddOpen.op 0).graph = [1, 2, 3, 4, 5] := by
  have h : sortedEntries (ddOpen.op 0).graph = (ddOpen.op 0).graph :=
    sortedEntries_eq_of_perm (List.Perm.refl _) (by decide +kernel) (by decide +kernel)
  unfold listing
  rw [h]
  decide +kernel

/-- the model's `add` hangs the closing barrier below the last wait (the last node of the listing, a deepest node),
    and the relation tree becomes that of `ddDemo`. -/
theorem ddOpen_add : DirectFb (ddOpen.add 0 6) 5 6 ∧ ((ddOpen.add 0 6).op 0).graph = (ddDemo.op 0).graph := by
  have hlast : (listing (ddOpen.op 0).graph).getLast? = some 5 := by rw [ddOpen_listing]; rfl
  have hall : ∀ n ∈ listing (ddOpen.op 0).graph, matchesNode ddOpen (ddOpen.chansOf 6) n = true := by
    rw [ddOpen_listing]; decide +kernel
  obtain ⟨h1, h2, _⟩ := add_all_matching_below_last (w := ddOpen) (c := 0) (o := 6) (by decide +kernel)
    (by decide +kernel) (by decide) (by decide +kernel) hlast hall
  refine ⟨h1, ?_⟩
  rw [h2]
  decide +kernel

end Qco.C10Param.Example
