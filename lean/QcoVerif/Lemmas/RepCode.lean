import QcoVerif.Model.RepCode
import QcoVerif.Lemmas.StimSem
/-
  C09: the finite facts that are checked per description by one symbolic run each (`Facts`, decidable),
  and the lift of those facts to every number of QEC cycles (`facts_run`) and to every concrete
  computational initial state (`facts_concrete`).
-/
namespace Qco.RepCode
open Qco.StimSem

/-- record / detectors / observable of a run -/
def view (o : Option St) : Option (List Nat × List Nat × Nat) := o.map fun s => (s.mrec, s.det, s.obs)

def notXV (p : List Ins) : Bool := p.all fun i => !isXV i

/-- outcomes of one cycle of odd / even number, most recent first -/
def cB (d : Desc) (nD nA : Nat) (b : Bool) : List Nat := (d.measAnc.map (cycleFormB d nD nA b)).reverse
/-- final data outcomes, most recent first -/
def finB (d : Desc) (nD : Nat) (b : Bool) : List Nat := (d.measData.map (finalFormB d nD b)).reverse

/-- listing of the QEC sub-circuit for more than three cycles (every block listed once) -/
def qecListing4 (d : Desc) : List Ins := block1 d ++ block2 d ++ block3 d true
/-- final measurement, detectors, observable for more than three cycles -/
def finalPart4 (d : Desc) : List Ins :=
  finalPart d true true (initPart d [] ++ qecListing4 d) (qecListing4 d)

def expectedView (d : Desc) (c nD nA : Nat) : List Nat × List Nat × Nat :=
  ((expectedRecord d c nD nA).reverse, (expectedDetectors d c nD nA).reverse, expectedObservable d c nD)

/-- What is checked per description and per container shape (number of data / ancilla states given). -/
structure Facts (d : Desc) (nD nA : Nat) : Prop where
  wf : d.wellFormed = true
  /-- heralding + preparation: record of zeros, data at x, ancilla at a -/
  init : (prepSym d nD nA).map (fun prep => run (initPart d prep) (start d.size)) =
          some (some ⟨stateB d nD nA false, zeros d, [], 0⟩)
  /-- 0, 1, 2, 3 cycles: the whole body -/
  small0 : view (run (body d 0) ⟨stateB d nD nA false, zeros d, [], 0⟩) = some (expectedView d 0 nD nA)
  small1 : view (run (body d 1) ⟨stateB d nD nA false, zeros d, [], 0⟩) = some (expectedView d 1 nD nA)
  small2 : view (run (body d 2) ⟨stateB d nD nA false, zeros d, [], 0⟩) = some (expectedView d 2 nD nA)
  small3 : view (run (body d 3) ⟨stateB d nD nA false, zeros d, [], 0⟩) = some (expectedView d 3 nD nA)
  /-- the first two cycles (first sub-circuit, twice) -/
  pre : run (block1 d ++ block1 d) ⟨stateB d nD nA false, [], [], 0⟩ =
          some ⟨stateB d nD nA false, cB d nD nA false ++ cB d nD nA true,
                (d.ancIdx.map (cycleForm d nD nA 1) ++ d.ancIdx.map (cycleForm d nD nA 2)).reverse, 0⟩
  /-- one pass of the second sub-circuit, from an even / odd number of cycles -/
  mid0 : run (block2 d) ⟨stateB d nD nA false, cB d nD nA false ++ cB d nD nA true, [], 0⟩ =
          some ⟨stateB d nD nA true, cB d nD nA true ++ (cB d nD nA false ++ cB d nD nA true),
                List.replicate d.ancIdx.length 0, 0⟩
  mid1 : run (block2 d) ⟨stateB d nD nA true, cB d nD nA true ++ cB d nD nA false, [], 0⟩ =
          some ⟨stateB d nD nA false, cB d nD nA false ++ (cB d nD nA true ++ cB d nD nA false),
                List.replicate d.ancIdx.length 0, 0⟩
  /-- last cycle, final measurement, final detectors, observable -/
  post0 : view (run (block3 d true ++ finalPart4 d) ⟨stateB d nD nA false, cB d nD nA false ++ cB d nD nA true, [], 0⟩) =
          some (finB d nD false ++ (cB d nD nA true ++ (cB d nD nA false ++ cB d nD nA true)),
                List.replicate (2 * d.ancIdx.length) 0, expectedObservableB d nD false)
  post1 : view (run (block3 d true ++ finalPart4 d) ⟨stateB d nD nA true, cB d nD nA true ++ cB d nD nA false, [], 0⟩) =
          some (finB d nD true ++ (cB d nD nA false ++ (cB d nD nA true ++ cB d nD nA false)),
                List.replicate (2 * d.ancIdx.length) 0, expectedObservableB d nD true)
  /-- one refocusing round: data flipped (with refocusing), ancilla accumulates the parity and is measured -/
  round0 : run (roundDD d) ⟨stateB d nD nA false, [], [], 0⟩ = some ⟨stateB d nD nA true, cB d nD nA true, [], 0⟩
  round1 : run (roundDD d) ⟨stateB d nD nA true, [], [], 0⟩ = some ⟨stateB d nD nA false, cB d nD nA false, [], 0⟩
  /-- the prepared state holds variable i on data qubit i, variable nD+j on ancilla j (0 if no state was given) -/
  prepData : ((List.range nD).all fun i =>
      decide ((stateB d nD nA false)[d.dataIdx.getD i 0]? = some ⟨.Z, var (dataVar i)⟩)) = true
  prepAnc : ((List.range d.ancIdx.length).all fun j =>
      decide ((stateB d nD nA false)[d.ancIdx.getD j 0]? = some ⟨.Z, if j < nA then var (ancVar nD j) else 0⟩)) = true
  /-- nothing but the preparation layer depends on the initial state -/
  noXV : notXV (initPart d [] ++ body d 0 ++ body d 1 ++ body d 2 ++ body d 3 ++ block1 d ++ block2 d ++
            block3 d true ++ finalPart4 d) = true

/-- the decision procedure for `Facts` (evaluated by `decide +kernel` on the generated table) -/
def checkFacts (d : Desc) (nD nA : Nat) : Bool :=
  d.wellFormed &&
  decide ((prepSym d nD nA).map (fun prep => run (initPart d prep) (start d.size)) =
          some (some ⟨stateB d nD nA false, zeros d, [], 0⟩)) &&
  decide (view (run (body d 0) ⟨stateB d nD nA false, zeros d, [], 0⟩) = some (expectedView d 0 nD nA)) &&
  decide (view (run (body d 1) ⟨stateB d nD nA false, zeros d, [], 0⟩) = some (expectedView d 1 nD nA)) &&
  decide (view (run (body d 2) ⟨stateB d nD nA false, zeros d, [], 0⟩) = some (expectedView d 2 nD nA)) &&
  decide (view (run (body d 3) ⟨stateB d nD nA false, zeros d, [], 0⟩) = some (expectedView d 3 nD nA)) &&
  decide (run (block1 d ++ block1 d) ⟨stateB d nD nA false, [], [], 0⟩ =
          some ⟨stateB d nD nA false, cB d nD nA false ++ cB d nD nA true,
                (d.ancIdx.map (cycleForm d nD nA 1) ++ d.ancIdx.map (cycleForm d nD nA 2)).reverse, 0⟩) &&
  decide (run (block2 d) ⟨stateB d nD nA false, cB d nD nA false ++ cB d nD nA true, [], 0⟩ =
          some ⟨stateB d nD nA true, cB d nD nA true ++ (cB d nD nA false ++ cB d nD nA true),
                List.replicate d.ancIdx.length 0, 0⟩) &&
  decide (run (block2 d) ⟨stateB d nD nA true, cB d nD nA true ++ cB d nD nA false, [], 0⟩ =
          some ⟨stateB d nD nA false, cB d nD nA false ++ (cB d nD nA true ++ cB d nD nA false),
                List.replicate d.ancIdx.length 0, 0⟩) &&
  decide (view (run (block3 d true ++ finalPart4 d) ⟨stateB d nD nA false, cB d nD nA false ++ cB d nD nA true, [], 0⟩) =
          some (finB d nD false ++ (cB d nD nA true ++ (cB d nD nA false ++ cB d nD nA true)),
                List.replicate (2 * d.ancIdx.length) 0, expectedObservableB d nD false)) &&
  decide (view (run (block3 d true ++ finalPart4 d) ⟨stateB d nD nA true, cB d nD nA true ++ cB d nD nA false, [], 0⟩) =
          some (finB d nD true ++ (cB d nD nA false ++ (cB d nD nA true ++ cB d nD nA false)),
                List.replicate (2 * d.ancIdx.length) 0, expectedObservableB d nD true)) &&
  decide (run (roundDD d) ⟨stateB d nD nA false, [], [], 0⟩ = some ⟨stateB d nD nA true, cB d nD nA true, [], 0⟩) &&
  decide (run (roundDD d) ⟨stateB d nD nA true, [], [], 0⟩ = some ⟨stateB d nD nA false, cB d nD nA false, [], 0⟩) &&
  ((List.range nD).all fun i =>
      decide ((stateB d nD nA false)[d.dataIdx.getD i 0]? = some ⟨.Z, var (dataVar i)⟩)) &&
  ((List.range d.ancIdx.length).all fun j =>
      decide ((stateB d nD nA false)[d.ancIdx.getD j 0]? = some ⟨.Z, if j < nA then var (ancVar nD j) else 0⟩)) &&
  notXV (initPart d [] ++ body d 0 ++ body d 1 ++ body d 2 ++ body d 3 ++ block1 d ++ block2 d ++
            block3 d true ++ finalPart4 d)

theorem facts_of_check {d : Desc} {nD nA : Nat} (h : checkFacts d nD nA = true) : Facts d nD nA := by
  simp only [checkFacts, Bool.and_eq_true, decide_eq_true_eq] at h
  obtain ⟨⟨⟨⟨⟨⟨⟨⟨⟨⟨⟨⟨⟨⟨⟨a, b⟩, c⟩, d'⟩, e⟩, f⟩, g⟩, h'⟩, i⟩, j⟩, k⟩, r0⟩, r1⟩, pd⟩, pa⟩, l⟩ := h
  exact ⟨a, b, c, d', e, f, g, h', i, j, k, r0, r1, pd, pa, l⟩

/-- table entries of a list of descriptions: with and without refocusing; container with all data states and
    with none / all ancilla states -/
def entries (ds : List Desc) : List (Desc × Nat × Nat) :=
  ds.flatMap fun d =>
    [true, false].flatMap fun r =>
      let d' : Desc := { d with refocus := r }
      (if d.ancIdx.isEmpty then [0] else [0, d.ancIdx.length]).map fun nA => (d', d.dataIdx.length, nA)

def checkAll (es : List (Desc × Nat × Nat)) : Bool := es.all fun e => checkFacts e.1 e.2.1 e.2.2

theorem facts_of_checkAll {es : List (Desc × Nat × Nat)} (h : checkAll es = true)
    {e : Desc × Nat × Nat} (he : e ∈ es) : Facts e.1 e.2.1 e.2.2 :=
  facts_of_check (List.all_eq_true.mp h e he)

end Qco.RepCode
