import QcoVerif.Driver.Heap
/-
  Line-protocol driver.  `heap <cmd…>` drives a stateful build-program session; every other module
  is stateless: `<module> <args…>` → one answer line.  Unknown input answers `bad-op`.
-/
open Qco Qco.Driver

def stateless : List (String × (List String → String)) := []

partial def loop (h : IO.FS.Stream) (out : IO.FS.Stream) (s : Sess) : IO Unit := do
  let line ← h.getLine
  if line.isEmpty then return ()
  let toks := (line.trimAscii.toString.splitOn " ").filter (· ≠ "")
  match toks with
  | "heap" :: rest =>
    let (s', ans) := step s rest
    out.putStrLn ans
    loop h out s'
  | m :: rest =>
    match stateless.find? (·.1 == m) with
    | some (_, f) => out.putStrLn (f rest)
    | none => out.putStrLn "bad-op"
    loop h out s
  | [] =>
    out.putStrLn "bad-op"
    loop h out s

def main : IO Unit := do
  let out ← IO.getStdout
  loop (← IO.getStdin) out {}
  out.flush
