"""Check skeleton shared by the properties decided over build programs (C01–C07, C11 …)."""
from __future__ import annotations
import json
import time
from collections import Counter

from . import common, progs, stream, findings


class StreamSpec:
    def __init__(self, prop, probes, cfg, n_quick, n_thorough, nontrivial, rule, assumptions=None,
                 extra_programs=None, clear_cache=False, design_ref='', extra_check=None, evalcheck=False, pysem=None):
        self.prop = prop
        self.probes = probes
        self.cfg = cfg
        self.n_quick = n_quick
        self.n_thorough = n_thorough
        self.nontrivial = nontrivial
        self.rule = rule
        self.assumptions = assumptions or []
        self.extra_programs = extra_programs or (lambda rng, tier: [])
        self.clear_cache = clear_cache
        self.evalcheck = evalcheck       # cross-check the driver's memoised evaluator against the specification evaluator
        self.pysem = pysem               # dict(groups=[…], effects=bool): semantics check of the translated source functions (common.pysem_stage)
        self.extra_check = extra_check   # (oc, tier, seed) -> dict merged into the coverage (clauses not decided over build programs)


def load_corpus(prop):
    d = common.CORPUS / prop
    out = []
    if d.exists():
        for f in sorted(d.glob('*.json')):
            try:
                doc = json.loads(f.read_text())
                out.append(doc['program'])
            except Exception:
                common.log(f'corpus file unreadable: {f}')
    return out


def canon(prog):
    return json.dumps(prog, separators=(',', ':'))


def evaluate(spec, programs, ambient):
    """Runs implementation (with probes) and model on the programs.
    Returns list of dicts: prog, impl, model, disagreement, fails."""
    impl = stream.run_impl_many(programs, spec.probes, clear_cache=spec.clear_cache)
    model = stream.run_model_many(programs, ambient)
    res = []
    for p, (out, fails), mo in zip(programs, impl, model):
        dis = stream.compare(p, out, mo)
        res.append({'prog': p, 'impl': out, 'model': mo, 'dis': dis, 'fails': fails})
    return res


def run(spec: StreamSpec, tier: str, seed: int) -> int:
    t0 = time.time()
    prop = spec.prop
    oc = common.Outcome(prop)
    lean = common.proof_obligations(prop)
    proof_ok = lean['build_ok'] and not lean['failed']
    if not common.driver_available():
        print(f'model driver missing: {lean.get("build_output", "")[-800:]}')
        return 2
    ambient = progs.ambient_durations()
    rng = common.rng_for(seed, prop)
    n = spec.n_quick if tier == 'quick' else spec.n_thorough
    corpus = load_corpus(prop)
    programs = list(corpus) + list(spec.extra_programs(rng, tier))
    n_fixed = len(programs)
    import random
    for k in range(n):
        programs.append(progs.gen_program(random.Random(rng.getrandbits(64)), spec.cfg))
    programs = [p + [['collisions']] for p in programs]     # model-only diagnostic used by the R3 matcher
    if spec.evalcheck:
        programs = [p + [['evalcheck', c] for c in range(sum(1 for x in p if x[0] in ('new', 'copy')))] for p in programs]
    results = evaluate(spec, programs, ambient)

    feats = {}
    distinct = set()
    nontrivial = set()
    n_dis = 0
    undef_both = 0
    exc = Counter()
    for r in results:
        f = progs.features(r['prog'])
        progs.merge_features(feats, f)
        key = canon(r['prog'])
        distinct.add(key)
        if spec.nontrivial(r['prog'], f):
            nontrivial.add(key)
        if any(x == 'undef' for x in r['impl'] if x):
            undef_both += 1
        for x in r['impl']:
            if x and x.startswith('EXC:'):
                exc[x.split(':')[1]] += 1

    def still_fails_probe(what):
        def f(cand):
            rr = evaluate(spec, [cand], ambient)[0]
            return any(x['what'] == what for x in rr['fails'])
        return f

    def still_disagrees(cand):
        rr = evaluate(spec, [cand], ambient)[0]
        # a candidate the model rejects as malformed ('bad-op': the deletion left a dangling circuit/handle index) is not a
        # smaller failing program — both sides refuse it
        return rr['dis'] is not None and rr['dis'][2] != 'bad-op'

    reported = set()
    for r in results:
        # 1. the property predicate fails on the implementation's own answers
        for fl in r['fails']:
            kf = findings.attribute(prop, r, fl)
            if kf is not None:
                oc.known_finding(kf)
                continue
            if fl['what'] in reported:
                continue
            reported.add(fl['what'])
            small = stream.shrink(r['prog'][:fl['at'] + 1], still_fails_probe(fl['what']))
            rr = evaluate(spec, [small], ambient)[0]
            oc.violation({'property': prop, 'kind': 'predicate-fails-on-implementation', 'failure': fl,
                          'program': small, 'implementation_answers': rr['impl'], 'model_answers': rr['model'],
                          'replay': f'./check replay <this file>'})
        # 2. model and implementation disagree
        if r['dis'] is not None:
            n_dis += 1
            kf = findings.attribute_disagreement(prop, r)
            if kf is not None:
                oc.known_finding(kf)
                continue
            if 'dis' in reported or r['fails']:
                continue
            reported.add('dis')
            i, io, mo = r['dis']
            small = stream.shrink(r['prog'][:i + 1], still_disagrees)
            rr = evaluate(spec, [small], ambient)[0]
            # search: does the implementation violate the property on this or related inputs?
            found = bool(rr['fails'])
            oc.violation({'property': prop, 'kind': 'correspondence-broken',
                          'unchecked': 'correspondence model<->implementation on build programs',
                          'program': small, 'first_difference': rr['dis'],
                          'implementation_answers': rr['impl'], 'model_answers': rr['model'],
                          'predicate_failures': rr['fails']}, found_input=found)
    n_same = n_objs = 0
    if spec.evalcheck:
        for r in results:
            for cmd, mo in zip(r['prog'], r['model']):
                if cmd[0] != 'evalcheck' or not mo:
                    continue
                if mo.startswith('same'):
                    n_same += 1
                    n_objs += int(mo.split()[1])
                elif mo.startswith('MISMATCH') and 'evalcheck' not in reported:
                    reported.add('evalcheck')
                    oc.violation({'property': prop, 'kind': 'evaluator-cross-check-broken',
                                  'unchecked': "the driver's memoised evaluator (Eval.query) no longer agrees with the "
                                               'specification evaluator evStart/evDur/evEnd the theorems are about',
                                  'program': r['prog'], 'answer': mo[:2000]}, found_input=False)
    extra = {}
    if spec.extra_check is not None:
        extra = spec.extra_check(oc, tier, seed) or {}
    if spec.pysem is not None:
        extra.update(common.pysem_stage(oc, prop, spec.pysem.get('groups', []), seed, tier, effects=spec.pysem.get('effects', False)))
    if not proof_ok:
        # a proof obligation no longer checks; the run above was the search for a failing input
        if not oc.violations:
            oc.violation({'property': prop, 'kind': 'proof-obligation-broken', 'unchecked': lean.get('failed'),
                          'build_output': lean.get('build_output', '')[-3000:], 'axioms': lean.get('axioms')},
                         found_input=False)

    wall = time.time() - t0
    samples = [r['prog'] for r in results[n_fixed:n_fixed + 2]] or [r['prog'] for r in results[:2]]
    coverage = {}
    if lean['obligations']:
        coverage.update({'obligations': lean['obligations'], 'discharged': lean['discharged']})
    coverage.update({
        'checker_cmd': lean['checker_cmd'],
        'trusted_base': common.TRUSTED_BASE,
        'theorems': lean.get('theorems', []),
        'axioms': lean.get('axioms', {}),
        'evaluations': len(results) + len(extra.get('library_cases', [])),
        'distinct_nontrivial': len(nontrivial),
        'rule': spec.rule,
        'samples': samples,
        'traces_validated_against_impl': len(results) - n_dis,
        'disagreements': n_dis,
        'corpus_programs': len(corpus),
        'evaluator_crosschecks': {'circuits_compared': n_same, 'objects_compared': n_objs,
                                  'what': 'memoised evaluator of the driver = specification evaluator of the theorems, heaps of <= 30 objects'},
        'input_distribution': feats,
        'undefined_runs': undef_both,
        'implementation_exceptions': dict(exc),
        'known_findings_printed': oc.known,
        'lean': {k: lean.get(k) for k in ('build_ok', 'build_s', 'lean_s', 'failed', 'forbidden_hits', 'translator')},
    })
    coverage.update(extra)
    common.write_evidence(prop, tier, seed, coverage, wall, len(oc.violations), spec.assumptions)
    return oc.emit()
