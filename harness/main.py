"""Entry point of every registered check."""
from __future__ import annotations
import argparse
import importlib
import os
import sys
import traceback

from . import common


def main():
    ap = argparse.ArgumentParser()
    ap.add_argument('prop')
    ap.add_argument('path', nargs='?')
    ap.add_argument('--tier', default=os.environ.get('VERIF_TIER', 'quick'))
    ap.add_argument('--seed', type=int, default=None)
    a = ap.parse_args()
    seed = a.seed if a.seed is not None else common.seed_from_env(0)
    tier = a.tier if a.tier in ('quick', 'thorough') else 'quick'
    if a.prop == 'replay':
        from . import replay
        sys.exit(replay.run(a.path))
    try:
        mod = importlib.import_module(f'harness.{a.prop.lower()}')
    except ModuleNotFoundError:
        print(f'no check for {a.prop}')
        sys.exit(2)
    try:
        rc = mod.run(tier, seed)
    except Exception as e:
        tb = traceback.format_exc()
        traceback.print_exc()
        # The harness never crashes on the unchanged tree (soaked over many seeds).  An exception that comes out of the
        # implementation (a frame inside the package, also through a worker's remote traceback) where the harness expects an
        # answer means the code no longer behaves as the model says: the correspondence is broken, no failing input isolated.
        # Any other exception while the check digests what the implementation answered (an assertion of the harness about the
        # code's tables, a parse of an unexpected answer, …) equally means "the code no longer behaves as the machinery was
        # validated against" — except failures of the machine itself (I/O, memory, time-outs), which stay exit 2.
        import subprocess
        infra = isinstance(e, (OSError, MemoryError, subprocess.TimeoutExpired, KeyboardInterrupt, common.LeanFailure))
        if not infra:
            oc = common.Outcome(a.prop)
            oc.violation({'property': a.prop, 'kind': 'correspondence-broken',
                          'unchecked': 'the check could not digest what the implementation answered (exception below); '
                                       'correspondence run aborted',
                          'traceback': tb[-4000:]}, found_input=False)
            sys.exit(oc.emit())
        sys.exit(2)
    sys.exit(rc)


if __name__ == '__main__':
    main()
