import QcoVerif.Properties.C18
import QcoVerif.Lemmas.DrawSrc
/-
  C18 — tie to the SOURCE TEXT (DESIGN.md §2.3b).  Kept in a file of its own that nothing imports: a change of the translated
  source function breaks THESE obligations only, not the build of Properties/C18.lean.
-/
namespace Qco.C18
open Qco Qco.Py Qco.Gen.PySrc

/-- **row order as written**: the mini-Python syntax of `reorder_indices` (display_circuit.py; regenerated from the source text on
    every run) evaluates, for ALL lists of occupied indices and ALL requested orders, to the model's `Draw.reorder` —
    `ValueError` exactly where the model rejects. -/
theorem reorder_matches_source (orig order : List Int) :
    callFn {} Draw_reorder_indices [ints orig, ints order] =
      (match Draw.reorder orig order with
       | some r => ints r
       | none => .err "raised: ValueError") :=
  DrawSrc.reorder_matches_source orig order

/-- corollary in the property's own terms: what the source function returns is the requested order followed by the remaining
    occupied rows in their own order, and it raises iff the order names a row that is not occupied. -/
theorem reorder_source_value (orig order : List Int) :
    (callFn {} Draw_reorder_indices [ints orig, ints order] = .err "raised: ValueError" ↔ ∃ x ∈ order, x ∉ orig) ∧
    ((∀ x ∈ order, x ∈ orig) →
      callFn {} Draw_reorder_indices [ints orig, ints order] = ints (order ++ orig.filter (fun x => !order.contains x))) := by
  rw [reorder_matches_source]
  unfold Draw.reorder
  cases hh : order.all (fun x => orig.contains x)
  · have hex : ∃ x ∈ order, x ∉ orig := by
      have := hh
      rw [List.all_eq_false] at this
      obtain ⟨x, hx, hn⟩ := this
      exact ⟨x, hx, by simpa using hn⟩
    refine ⟨⟨fun _ => hex, fun _ => by simp⟩, fun hall => ?_⟩
    obtain ⟨x, hx, hn⟩ := hex
    exact absurd (hall x hx) hn
  · have hall : ∀ x ∈ order, x ∈ orig := fun x hx => by simpa using (List.all_eq_true.mp hh) x hx
    refine ⟨⟨fun h => ?_, fun ⟨x, hx, hn⟩ => absurd (hall x hx) hn⟩, fun _ => by simp⟩
    simp [ints] at h

/-- the hypotheses are satisfiable and both branches occur. -/
example : callFn {} Draw_reorder_indices [ints [0, 1, 2], ints [2, 0]] = ints [2, 0, 1] := by
  rw [reorder_matches_source]; rfl
example : callFn {} Draw_reorder_indices [ints [0, 1, 2], ints [5]] = .err "raised: ValueError" := by
  rw [reorder_matches_source]; rfl

end Qco.C18
