import QcoVerif.Properties.C08
import QcoVerif.Lemmas.ExportSrc
/-
  C08 — tie to the SOURCE TEXT (DESIGN.md §2.3b).  Kept in a file of its own that nothing imports: a change of the translated
  source functions breaks THESE obligations only, not the build of the property files that import Properties/C08.lean.
-/
namespace Qco.C08
open Qco
open Qco.ExportUnroll

/-! ### tie to the SOURCE TEXT (DESIGN.md §2.3b)

The mini-Python syntax of `DetectorOperation / LogicalObservableOperation / CoordinateShiftOperation.to_stim_instruction`
(regenerated from the source text on every run) evaluates, for ALL field values, to the instruction the model's
`detectorRecs / observableRecs` describe (`stim.CircuitInstruction` and `stim.target_rec` are uninterpreted constructors); where
the model says the code raises (`None + 1`), the interpreter raises. -/

section SourceTie
open Qco.Py Qco.Gen.PySrc Qco.ExportSrc

theorem detector_matches_source (q : Int) (last main sec refOff secOff : Option Int) (recs : List Int)
    (h : detectorRecs last main sec refOff secOff = some recs) :
    callFn structEnv Detector_to_stim [detSelf q last main sec refOff secOff] =
      instrVal "DETECTOR" recs (if main.isSome then some [q, 0] else none) := by
  cases last <;> cases main <;> cases sec <;> cases refOff <;> cases secOff <;>
  simp only [detectorRecs, Option.some.injEq, reduceCtorEq] at h <;>
  (try subst h) <;>
  py_simp [Detector_to_stim, detSelf, optVal, structEnv, instrVal, recVal]

theorem detector_raises_matches_source (q : Int) (last main sec refOff secOff : Option Int)
    (h : detectorRecs last main sec refOff secOff = none) :
    (callFn structEnv Detector_to_stim [detSelf q last main sec refOff secOff]).isErr = true := by
  cases last <;> cases main <;> cases sec <;> cases refOff <;> cases secOff <;>
  simp only [detectorRecs, reduceCtorEq] at h <;>
  py_simp [Detector_to_stim, detSelf, optVal, structEnv]

theorem observable_matches_source (q : Int) (last main : Option Int) :
    callFn structEnv Observable_to_stim
        [.obj "LogicalObservableOperation" 0 [("qubit_index", .int q), ("last_acquisition_index", optVal last), ("main_target", optVal main)]] =
      (match observableRecs last main with
       | some recs => instrVal "OBSERVABLE_INCLUDE" recs (some [0])
       | none => instrVal "OBSERVABLE_INCLUDE" [] none) := by
  cases last <;> cases main <;>
  py_simp [Observable_to_stim, optVal, structEnv, instrVal, recVal, observableRecs]

theorem coordinate_shift_matches_source (time space : Int) :
    callFn structEnv CoordinateShift_to_stim
        [.obj "CoordinateShiftOperation" 0 [("time_shift", .int time), ("space_shift", .int space)]] =
      instrVal "SHIFT_COORDS" [] (some [space, time]) := by
  py_simp [CoordinateShift_to_stim, structEnv, instrVal]

end SourceTie


end Qco.C08
