import QcoVerif.Properties.C16
/-
  C17 — declared and derived gate-sequence layouts are executable.

  Shipped layouts = the generated table `Gen.Layouts.layouts` (every `GenericSurfaceCode` subclass of
  `repetition_code_connectivity.py`) and the parity groups of `Surface17Layer` (which ships no gate sequence).
  Layer properties are the Boolean predicates `Spec.layer…` of `Model/Connectivity.lean`; `layerOk_sound` turns
  them into statements about the model functions (`allowedGates`, `requiresParking`) by C16's theorems.
  Derived descriptions: `fromConnectivity` (= `RepetitionCodeDescription.from_connectivity`) for EVERY list of
  involved qubits; composite descriptions: `compositeLayers` (= `CompositeRepetitionCodeDescription.gate_sequences`)
  for every exclusion list.
-/
namespace Qco.C17
open Qco.Conn

/-! ## What an executable layer means in terms of the model -/

/-- an executable layer (Boolean predicate) is: gates are device edges, gated qubits pairwise distinct, no parked
qubit is gated, every qubit for which `get_requires_parking` holds is parked, `get_mutually_allowed` accepts -/
theorem layerOk_sound (layer : Layer) (h : Spec.layerOk layer = true) :
    (∀ e ∈ layer.1, e ∈ orientedEdges) ∧ (Spec.gateQubits layer.1).Nodup ∧
    (∀ q ∈ layer.2, q ∉ Spec.gateQubits layer.1) ∧
    (∀ q ∈ qubitIds, requiresParking q layer.1 = true → q ∈ layer.2) ∧ allowedGates layer.1 = true := by
  simp only [Spec.layerOk, Bool.and_eq_true] at h
  obtain ⟨⟨⟨⟨h1, h2⟩, h3⟩, h4⟩, h5⟩ := h
  have hE : ∀ e ∈ layer.1, e ∈ orientedEdges := by
    intro e he
    exact (isDeviceEdge_iff e).mp (List.all_eq_true.mp h1 e he)
  refine ⟨hE, (nodupB_iff _).mp h2, ?_, ?_, ?_⟩
  · intro q hq
    have := List.all_eq_true.mp h3 q hq
    simpa using this
  · intro q hq hr
    have := List.all_eq_true.mp h4 q hq
    rw [C16.parking_iff q hq layer.1 hE] at hr
    simpa [hr] using this
  · rw [C16.allowed_iff layer.1 hE]; exact h5

/-! ## Shipped layouts (generated tables) -/

/-- table: every layer of every shipped layout is executable -/
theorem table_layouts_executable : ∀ L ∈ layouts, ∀ layer ∈ L.layers, Spec.layerOk layer = true := by
  decide +kernel

/-- every layer of every shipped layout: device edges, distinct qubits, parked ∩ gated = ∅, requiresParking ⊆
parked, accepted — in terms of the model of the code's own functions -/
theorem layouts_executable (L : Layout) (hL : L ∈ layouts) (layer : Layer) (hl : layer ∈ L.layers) :
    (∀ e ∈ layer.1, e ∈ orientedEdges) ∧ (Spec.gateQubits layer.1).Nodup ∧
    (∀ q ∈ layer.2, q ∉ Spec.gateQubits layer.1) ∧
    (∀ q ∈ qubitIds, requiresParking q layer.1 = true → q ∈ layer.2) ∧ allowedGates layer.1 = true :=
  layerOk_sound layer (table_layouts_executable L hL layer hl)

/-- table: over one full sequence every ancilla–data edge of every parity group is exercised exactly once -/
theorem table_layouts_parity_covered : ∀ L ∈ layouts, Spec.parityCovered L.parity L.layers = true := by
  decide +kernel

/-- table: in every shipped layout no qubit is both data and ancilla, every gated or parked qubit is a device
qubit, every gated qubit has a role, and no layout names an unknown qubit -/
theorem table_layouts_roles : ∀ L ∈ layouts,
    (∀ q ∈ L.dataIds, q ∉ L.ancillaIds) ∧
    (∀ layer ∈ L.layers, (∀ q ∈ Spec.gateQubits layer.1, q ∈ L.dataIds ∨ q ∈ L.ancillaIds) ∧ ∀ q ∈ layer.2, q ∈ qubitIds) ∧
    Gen.Layouts.extraNames = [] := by
  decide +kernel

/-- table (Surface-17 itself; it ships parity groups but no gate sequence): every parity-group edge is a device
edge and every device edge belongs to exactly one parity group -/
theorem table_surface17_parity :
    let groups := Gen.Surface17.parityX ++ Gen.Surface17.parityZ
    (∀ p ∈ groups, ∀ e ∈ parityEdges p, Spec.isDeviceEdge e = true) ∧
    (∀ d ∈ deviceEdges, ((groups.flatMap parityEdges).filter (fun e => e.same d)).length = 1) := by
  decide +kernel

/-- non-vacuity: some shipped layer has gates and parked qubits -/
example : ∃ L ∈ layouts, ∃ layer ∈ L.layers, layer.1 ≠ [] ∧ layer.2 ≠ [] := by decide +kernel

/-! ## Derived descriptions, for every list of involved qubits -/

/-- the gate filter is "both ends involved" -/
theorem keepGate_iff (involved : List Qubit) (e : Edge) :
    keepGate involved e = true ↔ e.1 ∈ involved ∧ e.2 ∈ involved := by
  simp [keepGate, Edge.qubits, memBy_qEq_iff]

/-- derived gates = filter (both ends involved), layer by layer, whatever index map is supplied -/
theorem derived_gates (L : Layout) (involved : List Qubit) (m : Option (List (Qubit × Nat))) :
    (fromConnectivity L involved m).layers.map (·.1) = L.layers.map (fun l => l.1.filter (keepGate involved)) := by
  simp [fromConnectivity, deriveLayer, Function.comp_def]

/-- filter lemma: any sub-selection of an executable layer's gates, with the parking recomputed from
`get_requires_parking`, is an executable layer -/
theorem filtered_layer_ok (p : Edge → Bool) (layer : Layer)
    (h1 : Spec.layerGatesAreEdges layer = true) (h2 : Spec.layerQubitsDistinct layer = true)
    (h3 : Spec.layerAccepted layer = true) :
    Spec.layerOk (layer.1.filter p, dynamicParks (layer.1.filter p)) = true := by
  have hsub : ∀ e ∈ layer.1.filter p, e ∈ layer.1 := fun e he => (List.mem_filter.mp he).1
  have hE : ∀ e ∈ layer.1.filter p, e ∈ orientedEdges := fun e he =>
    (isDeviceEdge_iff e).mp (List.all_eq_true.mp h1 e (hsub e he))
  simp only [Spec.layerOk, Bool.and_eq_true]
  refine ⟨⟨⟨⟨?_, ?_⟩, ?_⟩, ?_⟩, ?_⟩
  · exact List.all_eq_true.mpr (fun e he => List.all_eq_true.mp h1 e (hsub e he))
  · exact (nodupB_iff _).mpr (((nodupB_iff _).mp h2).sublist (gateQubits_filter_sublist p layer.1))
  · simp only [Spec.layerParkedNotGated, List.all_eq_true, dynamicParks, List.mem_filter]
    intro q hq
    have := requiresParking_not_mem_gateQubits q _ hq.2
    simpa using this
  · simp only [Spec.layerRequiredParked, List.all_eq_true, dynamicParks]
    intro q hq
    rw [← C16.parking_iff q hq _ hE]
    cases hr : requiresParking q (layer.1.filter p)
    · rfl
    · simp [hq, hr]
  · exact accepted_of_subset hsub h3

/-- filter lemma, parking kept: a sub-selection of an executable layer's gates with the ORIGINAL parking keeps
device edges, distinct qubits, parked ∩ gated = ∅ and acceptance (`requiresParking ⊆ parked` needs the newly
required qubits to be added, see `composite_layer_ok`) -/
theorem filtered_layer_keep_parks (p : Edge → Bool) (layer : Layer) (h : Spec.layerOk layer = true) :
    Spec.layerGatesAreEdges (layer.1.filter p, layer.2) = true ∧ Spec.layerQubitsDistinct (layer.1.filter p, layer.2) = true ∧
    Spec.layerParkedNotGated (layer.1.filter p, layer.2) = true ∧ Spec.layerAccepted (layer.1.filter p, layer.2) = true := by
  simp only [Spec.layerOk, Bool.and_eq_true] at h
  obtain ⟨⟨⟨⟨h1, h2⟩, h3⟩, _⟩, h5⟩ := h
  have hsub : ∀ e ∈ layer.1.filter p, e ∈ layer.1 := fun e he => (List.mem_filter.mp he).1
  refine ⟨?_, ?_, ?_, accepted_of_subset hsub h5⟩
  · exact List.all_eq_true.mpr (fun e he => List.all_eq_true.mp h1 e (hsub e he))
  · exact (nodupB_iff _).mpr (((nodupB_iff _).mp h2).sublist (gateQubits_filter_sublist p layer.1))
  · simp only [Spec.layerParkedNotGated, List.all_eq_true] at h3 ⊢
    intro q hq
    have h' := h3 q hq
    simp only [Bool.not_eq_eq_eq_not, Bool.not_true, List.contains_eq_mem, decide_eq_false_iff_not] at h' ⊢
    exact fun hm => h' ((gateQubits_filter_sublist p layer.1).subset hm)

/-- **Derived descriptions are executable**: every layer of `from_connectivity(involved, layout)` — for every
shipped layout, EVERY list of involved qubits (any subset, order, repetition) and any supplied index map — has
device-edge gates on distinct qubits, parked ∩ gated = ∅, requiresParking ⊆ parked, and is accepted -/
theorem derived_executable (L : Layout) (hL : L ∈ layouts) (involved : List Qubit) (m : Option (List (Qubit × Nat)))
    (layer : Layer) (hl : layer ∈ (fromConnectivity L involved m).layers) : Spec.layerOk layer = true := by
  simp only [fromConnectivity, List.mem_map] at hl
  obtain ⟨base, hb, rfl⟩ := hl
  have hok := table_layouts_executable L hL base hb
  simp only [Spec.layerOk, Bool.and_eq_true] at hok
  exact filtered_layer_ok (keepGate involved) base hok.1.1.1.1 hok.1.1.1.2 hok.2

/-- non-vacuity: with all of a layout's qubits involved some derived layer has gates and dynamic parking -/
example : ∃ L ∈ layouts, ∃ layer ∈ (fromConnectivity L (L.dataIds ++ L.ancillaIds)).layers, layer.1 ≠ [] ∧ layer.2 ≠ [] := by
  decide +kernel

/-- the derived description keeps the number of layers of the layout (empty layers stay in place) -/
theorem derived_layer_count (L : Layout) (involved : List Qubit) (m : Option (List (Qubit × Nat))) :
    (fromConnectivity L involved m).layers.length = L.layers.length := by
  simp [fromConnectivity]

/-! ## The index map -/

/-- the description's own qubit ids are involved qubits, each once (needs: no qubit is both data and ancilla) -/
theorem derived_qubitIds (L : Layout) (hL : L ∈ layouts) (involved : List Qubit) (hnd : involved.Nodup)
    (m : Option (List (Qubit × Nat))) :
    (fromConnectivity L involved m).qubitIds.Nodup ∧ ∀ q ∈ (fromConnectivity L involved m).qubitIds, q ∈ involved := by
  have hdis := (table_layouts_roles L hL).1
  have hperm := interleave_perm (involved.filter (fun q => memBy qEq q L.dataIds))
    (involved.filter (fun q => memBy qEq q L.ancillaIds))
  have hids : (fromConnectivity L involved m).qubitIds = interleave (involved.filter (fun q => memBy qEq q L.dataIds))
      (involved.filter (fun q => memBy qEq q L.ancillaIds)) := rfl
  rw [hids]
  constructor
  · rw [hperm.nodup_iff, List.nodup_append]
    refine ⟨hnd.filter _, hnd.filter _, ?_⟩
    intro a ha b hb hab
    subst hab
    have h1 := (memBy_qEq_iff _ _).mp (List.mem_filter.mp ha).2
    have h2 := (memBy_qEq_iff _ _).mp (List.mem_filter.mp hb).2
    exact hdis a h1 h2
  · intro q hq
    have : q ∈ _ ++ _ := hperm.mem_iff.mp hq
    rcases List.mem_append.mp this with h | h <;> exact (List.mem_filter.mp h).1

/-- **Default index map = position map**: for a duplicate-free list of involved qubits the i-th one gets circuit
index i (hence injective on all involved qubits) -/
theorem index_map_position (L : Layout) (involved : List Qubit) (hnd : involved.Nodup) (i : Nat) (h : i < involved.length) :
    (fromConnectivity L involved).index involved[i] = some i := by
  have := lookupLast_enumFrom 0 involved hnd i h
  simpa [fromConnectivity, Desc.index, defaultIndexMap] using this

/-- **Bijectivity, any index map**: if the (supplied or default) map is defined and injective on the description's
duplicate-free qubit ids, `circuit_channel_map` exists, has exactly one entry per qubit id and sends every qubit's
index back to that qubit -/
theorem channel_map_bijective_of_injective (d : Desc) (hnd : d.qubitIds.Nodup)
    (hdef : ∀ q ∈ d.qubitIds, ∃ i, d.index q = some i)
    (hinj : ∀ q ∈ d.qubitIds, ∀ q' ∈ d.qubitIds, d.index q = d.index q' → q = q') :
    ∃ cm, d.channelMap = some cm ∧ cm.length = d.qubitIds.length ∧
      ∀ q ∈ d.qubitIds, ∃ i, d.index q = some i ∧ dictGet cm i = some q := by
  obtain ⟨cm, h1, h2, h3, _⟩ := buildChannelMap_spec d.index d.qubitIds [] hdef hnd hinj (by intros; rfl)
  exact ⟨cm, h1, by simpa using h2, h3⟩

/-- **Bijectivity, default map**: for every shipped layout and every duplicate-free list of involved qubits the
circuit channel map of the derived description is a bijection between its qubit ids and their positions in the
involved list -/
theorem index_map_bijective (L : Layout) (hL : L ∈ layouts) (involved : List Qubit) (hnd : involved.Nodup) :
    let d := fromConnectivity L involved
    ∃ cm, d.channelMap = some cm ∧ cm.length = d.qubitIds.length ∧
      ∀ q ∈ d.qubitIds, ∃ i, ∃ h : i < involved.length, involved[i] = q ∧ d.index q = some i ∧ dictGet cm i = some q := by
  intro d
  obtain ⟨hq1, hq2⟩ := derived_qubitIds L hL involved hnd none
  have hpos : ∀ q ∈ d.qubitIds, ∃ i, ∃ h : i < involved.length, involved[i] = q ∧ d.index q = some i := by
    intro q hq
    obtain ⟨i, hi, rfl⟩ := List.getElem_of_mem (hq2 q hq)
    exact ⟨i, hi, rfl, index_map_position L involved hnd i hi⟩
  obtain ⟨cm, h1, h2, h3⟩ := channel_map_bijective_of_injective d hq1
    (fun q hq => let ⟨i, _, _, h⟩ := hpos q hq; ⟨i, h⟩)
    (by
      intro q hq q' hq' heq
      obtain ⟨i, hi, rfl, h⟩ := hpos q hq
      obtain ⟨j, hj, rfl, h'⟩ := hpos q' hq'
      rw [h, h'] at heq
      cases heq
      rfl)
  refine ⟨cm, h1, h2, ?_⟩
  intro q hq
  obtain ⟨i, hi, hqi, h⟩ := hpos q hq
  obtain ⟨j, hj, hcm⟩ := h3 q hq
  rw [h] at hj
  cases hj
  exact ⟨i, hi, hqi, h, hcm⟩

/-- non-vacuity: the hypotheses are met by the full qubit list of a shipped layout -/
example : ∃ L ∈ layouts, (L.dataIds ++ L.ancillaIds).Nodup ∧ (L.dataIds ++ L.ancillaIds) ≠ [] ∧
    ((fromConnectivity L (L.dataIds ++ L.ancillaIds)).channelMap).isSome = true := by decide +kernel

/-! ## Composite descriptions with exclusions -/

/-- composite gates = base gates minus the excluded edges and the gates touching an excluded qubit -/
theorem composite_gates (base : List Layer) (xe : List Edge) (xq : List Qubit) (r : Bool) :
    (compositeLayers base xe xq r).map (·.1) = base.map (fun l => l.1.filter (keepComposite xe xq)) := by
  simp [compositeLayers, Function.comp_def]

theorem keepComposite_iff (xe : List Edge) (xq : List Qubit) (e : Edge) :
    keepComposite xe xq e = true ↔ (∀ x ∈ xe, x.same e = false) ∧ e.1 ∉ xq ∧ e.2 ∉ xq := by
  simp [keepComposite, Edge.qubits, memBy, qEq]
  intro _
  constructor
  · rintro ⟨h1, h2⟩
    exact ⟨fun h => h1 _ h rfl, fun h => h2 _ h rfl⟩
  · rintro ⟨h1, h2⟩
    exact ⟨fun x hx hxe => h1 (hxe ▸ hx), fun x hx hxe => h2 (hxe ▸ hx)⟩

/-- filter lemma for composite layers: a sub-selection of an executable layer's gates, parked by `compositeParks`
(recomputed, or base list + newly required qubits), is executable -/
theorem composite_layer_ok (p : Edge → Bool) (layer : Layer) (h : Spec.layerOk layer = true) (r : Bool) :
    Spec.layerOk (layer.1.filter p, compositeParks layer.2 (layer.1.filter p) r) = true := by
  have hfull := h
  simp only [Spec.layerOk, Bool.and_eq_true] at h
  obtain ⟨⟨⟨⟨h1, h2⟩, _⟩, _⟩, h5⟩ := h
  cases r
  · -- base parking kept, newly required qubits appended
    obtain ⟨k1, k2, k3, k4⟩ := filtered_layer_keep_parks p layer hfull
    have hreq := filtered_layer_ok p layer h1 h2 h5
    simp only [Spec.layerOk, Bool.and_eq_true] at hreq
    obtain ⟨⟨⟨⟨_, _⟩, r3⟩, r4⟩, _⟩ := hreq
    have hparks : compositeParks layer.2 (layer.1.filter p) false =
        layer.2 ++ (dynamicParks (layer.1.filter p)).filter (fun q => !memBy qEq q layer.2) := rfl
    rw [hparks]
    simp only [Spec.layerOk, Bool.and_eq_true]
    refine ⟨⟨⟨⟨k1, k2⟩, ?_⟩, ?_⟩, k4⟩
    · simp only [Spec.layerParkedNotGated, List.all_eq_true] at k3 r3 ⊢
      intro q hq
      rcases List.mem_append.mp hq with hq | hq
      · exact k3 q hq
      · exact r3 q (List.mem_filter.mp hq).1
    · simp only [Spec.layerRequiredParked, List.all_eq_true] at r4 ⊢
      intro q hq
      have := r4 q hq
      cases hn : Spec.needsParking q (List.filter p layer.1)
      · rfl
      · rw [hn] at this
        simp only [Bool.not_true, Bool.false_or, List.contains_eq_mem, decide_eq_true_eq] at this ⊢
        by_cases hb : q ∈ layer.2
        · exact List.mem_append_left _ hb
        · refine List.mem_append_right _ (List.mem_filter.mpr ⟨this, ?_⟩)
          have : memBy qEq q layer.2 = false := by
            cases hm : memBy qEq q layer.2
            · rfl
            · exact absurd ((memBy_qEq_iff _ _).mp hm) hb
          simp [this]
  · exact filtered_layer_ok p layer h1 h2 h5

/-- **Composite descriptions are executable** (after the repair 9bbfc50 of /repo; before it the statement was false
for `_only_required_parking_operations = False`: Repetition9Code, involved D8 X3 Z1 D5, X3-D8 excluded left X3
idle and unparked next to the moving D5 — kept in corpus/C17): for every exclusion list and both values of the
flag, every layer of `gate_sequences` over executable base layers is executable -/
theorem composite_executable (base : List Layer) (hb : ∀ l ∈ base, Spec.layerOk l = true)
    (xe : List Edge) (xq : List Qubit) (r : Bool) (layer : Layer) (hl : layer ∈ compositeLayers base xe xq r) :
    Spec.layerOk layer = true := by
  simp only [compositeLayers, List.mem_map] at hl
  obtain ⟨b, hbm, rfl⟩ := hl
  exact composite_layer_ok _ b (hb b hbm) r

/-- in particular over a description derived from a shipped layout, for every involved list -/
theorem composite_of_derived_executable (L : Layout) (hL : L ∈ layouts) (involved : List Qubit)
    (xe : List Edge) (xq : List Qubit) (r : Bool) (layer : Layer)
    (hl : layer ∈ compositeLayers (fromConnectivity L involved).layers xe xq r) : Spec.layerOk layer = true :=
  composite_executable _ (fun l h => derived_executable L hL involved none l h) xe xq r layer hl

/-- non-vacuity + regression of the repaired defect on a hand-made executable base layer (Z1-D4 and X3-D7 with D8, Z3
parked): excluding the gates that touch D7 now parks X3 — appended to the base list, or recomputed -/
example : (∀ l ∈ [(([(10, 14), (9, 7)], [1, 12]) : Layer)], Spec.layerOk l = true) ∧
    compositeLayers [([(10, 14), (9, 7)], [1, 12])] [] [7] false = [([(10, 14)], [1, 12, 9])] ∧
    compositeLayers [([(10, 14), (9, 7)], [1, 12])] [] [7] true = [([(10, 14)], [9, 12])] := by decide +kernel

end Qco.C17
