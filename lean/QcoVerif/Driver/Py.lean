import QcoVerif.Generated.PySrc
/-
  Line-protocol handler for the mini-Python interpreter:
    py call <LeanName> <value>*     → runs `Py.callFn` of the translated function on the argument values
    py effects <LeanName> <value>*  → the effects `Py.callEffects` records (attribute/item assignments, calls made as statements)
    py digest                       → `Gen.PySrc.sourceDigest`
    py names                        → translated function names
  Values are prefix-coded token streams:
    I <int> | B 0|1 | N | S <token> | L <k> v1..vk | T <k> v1..vk | A <k> v1..vk | E <cls> <member>
    | O <cls> <ident> <k> name1 v1 .. namek vk | X
  Method calls are answered from the receiver's pseudo-field "<method>()" (the harness records the value the real
  method returned); unknown free functions from the pseudo-variable table given as an extra leading object (none here).
-/
namespace Qco.Driver.Py
open Qco.Py

mutual
def parseVal : Nat → List String → Option (Val × List String)
  | 0, _ => none
  | f+1, toks =>
    match toks with
    | "I" :: n :: rest => n.toInt?.map (fun i => (Val.int i, rest))
    | "B" :: b :: rest => some (Val.bool (b == "1"), rest)
    | "N" :: rest => some (Val.none, rest)
    | "S" :: s :: rest => some (Val.str s, rest)
    | "X" :: rest => some (Val.err "given", rest)
    | "E" :: c :: m :: rest => some (Val.enum c m, rest)
    | "L" :: k :: rest => do
        let n ← k.toNat?
        let (vs, rest') ← parseVals f n rest
        some (Val.list vs, rest')
    | "T" :: k :: rest => do
        let n ← k.toNat?
        let (vs, rest') ← parseVals f n rest
        some (Val.tuple vs, rest')
    | "A" :: k :: rest => do
        let n ← k.toNat?
        let (vs, rest') ← parseVals f n rest
        some (Val.arr vs, rest')
    | "O" :: c :: i :: k :: rest => do
        let ident ← i.toNat?
        let n ← k.toNat?
        let (fs, rest') ← parseFields f n rest
        some (Val.obj c ident fs, rest')
    | _ => none
def parseVals : Nat → Nat → List String → Option (List Val × List String)
  | 0, _, _ => none
  | _+1, 0, toks => some ([], toks)
  | f+1, n+1, toks => do
    let (v, rest) ← parseVal f toks
    let (vs, rest') ← parseVals f n rest
    some (v :: vs, rest')
def parseFields : Nat → Nat → List String → Option (List (String × Val) × List String)
  | 0, _, _ => none
  | _+1, 0, toks => some ([], toks)
  | f+1, n+1, toks =>
    match toks with
    | name :: rest => do
      let (v, rest1) ← parseVal f rest
      let (fs, rest2) ← parseFields f n rest1
      some ((name, v) :: fs, rest2)
    | [] => none
end

partial def showVal : Val → String
  | .int i => s!"I {i}"
  | .bool b => if b then "B 1" else "B 0"
  | .none => "N"
  | .str s => s!"S {s}"
  | .list xs => s!"L {xs.length}" ++ String.join (xs.map (fun x => " " ++ showVal x))
  | .tuple xs => s!"T {xs.length}" ++ String.join (xs.map (fun x => " " ++ showVal x))
  | .arr xs => s!"A {xs.length}" ++ String.join (xs.map (fun x => " " ++ showVal x))
  | .enum c m => s!"E {c} {m}"
  | .obj c i _ => s!"O {c} {i} 0"
  | .err _ => "X"

/-- methods and computed attributes are answered from recorded pseudo-fields of the receiver. -/
def recordedEnv0 : Env :=
  { method := fun recv m args => match recv with
      | .obj _ _ fs =>
          -- a call with one plain argument is looked up under that argument first ("<method>(<arg>)"), then "<method>()"
          let keyed := match args with
            | .str k :: _ => lookupField fs (m ++ "(" ++ k ++ ")")
            | .int i :: _ => lookupField fs (m ++ "(" ++ toString i ++ ")")
            | .obj _ i _ :: _ => lookupField fs (m ++ "(#" ++ toString i ++ ")")
            | _ => Option.none
          match keyed with
          | some v => some v
          | none => lookupField fs (m ++ "()")
      | _ => Option.none
    func := fun f args => match f, args with
      | "isinstance", [.obj c _ fs, .str want] =>
          some (.bool (c == want || (match lookupField fs ("isinstance:" ++ want) with | some (.bool true) => true | _ => false)))
      | "isinstance", [_, .str _] => some (.bool false)
      | "OperationGraphNode", [.tuple [.str "operation", op]] => some (.obj "OperationGraphNode" 999999 [("operation", op)])
      -- a constructor / module function the fragment does not know: the structural value (name, arguments…)
      | f, args => if f.contains '.' || (f.front.isUpper) then some (.tuple (.str f :: args)) else Option.none }

/-- a module-level function that is itself translated is RUN (one level: the callee sees `recordedEnv0`). -/
def recordedEnv : Env :=
  { recordedEnv0 with
    func := fun f args => match recordedEnv0.func f args with
      | some v => some v
      | none => match Qco.Gen.PySrc.all.find? (fun p => p.2.name == f) with
        | some (_, fn) => some (callFn recordedEnv0 fn args)
        | none => Option.none }

/-- free functions of the module that are not translated are answered from the table of recorded calls `gfs`
    ("<function>(<first argument>)": a qubit / name / int, or `#<ident>` for an object). -/
def recordedEnvG (gfs : List (String × Val)) : Env :=
  { recordedEnv with
    func := fun f args => match recordedEnv.func f args with
      | some v => some v
      | none =>
        let key := match args with
          | .str k :: _ => "(" ++ k ++ ")"
          | .int i :: _ => "(" ++ toString i ++ ")"
          | .obj _ i _ :: _ => "(#" ++ toString i ++ ")"
          | _ => "()"
        lookupField gfs (f ++ key) }

partial def parseAll (toks : List String) : Option (List Val) :=
  match toks with
  | [] => some []
  | _ => do
    let (v, rest) ← parseVal (toks.length + 1) toks
    let vs ← parseAll rest
    some (v :: vs)

def handle (args : List String) : String :=
  match args with
  | ["digest"] => Qco.Gen.PySrc.sourceDigest
  | ["names"] => " ".intercalate (Qco.Gen.PySrc.all.map (·.1))
  | "effects" :: name :: rest =>
    match Qco.Gen.PySrc.all.find? (·.1 == name), parseAll rest with
    | some (_, fn), some vals => showVal (.list (callEffects recordedEnv fn vals))
    | _, _ => "bad-op"
  | "callg" :: name :: rest =>
    match Qco.Gen.PySrc.all.find? (·.1 == name), parseAll rest with
    | some (_, fn), some (.obj _ _ gfs :: vals) => showVal (callFn (recordedEnvG gfs) fn vals)
    | _, _ => "bad-op"
  | "call" :: name :: rest =>
    match Qco.Gen.PySrc.all.find? (·.1 == name), parseAll rest with
    | some (_, fn), some vals => showVal (callFn recordedEnv fn vals)
    | _, _ => "bad-op"
  | _ => "bad-op"

end Qco.Driver.Py
