import QcoVerif.Lemmas.Graph
import QcoVerif.Lemmas.Export
/-
  Relation trees that were built by `attach` only (`Built`): every prefix step of the entry list is an `attach`
  under the root or under a node already present, of a node not yet present.  This is the reachable invariant of the
  graphs of the model (every graph is produced by `World.addToGraph`, i.e. by `attach`).

  Main results (pure, no heap):
   * `built_sortedEntries` — the listing order of a built tree is again a build order: re-attaching the nodes in
     listing order reproduces exactly the same path keys;
   * `attach_image` / `built_image` — re-attaching the image of the nodes under a node map that is injective on the
     nodes reproduces the image of the entries (same keys, parents mapped).
  Core Lean only.
-/
namespace Qco

/-! ### small list facts -/

theorem snoc_induction {α} {P : List α → Prop} (hnil : P []) (hsnoc : ∀ l a, P l → P (l ++ [a])) :
    ∀ l, P l := by
  have : ∀ l : List α, P l.reverse := by
    intro l
    induction l with
    | nil => exact hnil
    | cons a l ih => rw [List.reverse_cons]; exact hsnoc _ _ ih
  intro l
  have h := this l.reverse
  rwa [List.reverse_reverse] at h

/-- decompositions of a snoc. -/
theorem snoc_eq_append_cons {α} {l g1 g2 : List α} {a e : α} (h : l ++ [a] = g1 ++ e :: g2) :
    (g2 = [] ∧ g1 = l ∧ e = a) ∨ (∃ g2', g2 = g2' ++ [a] ∧ l = g1 ++ e :: g2') := by
  induction g2 using snoc_induction with
  | hnil =>
    left
    have h' : l ++ [a] = g1 ++ [e] := h
    have := List.append_inj' h' rfl
    refine ⟨rfl, this.1.symm, ?_⟩
    have := this.2
    simp only [List.cons.injEq, and_true] at this
    exact this.symm
  | hsnoc g2' b _ =>
    right
    have h' : l ++ [a] = (g1 ++ e :: g2') ++ [b] := by rw [h]; simp
    have := List.append_inj' h' rfl
    have hb : a = b := by
      have := this.2
      simp only [List.cons.injEq, and_true] at this
      exact this
    exact ⟨g2', by rw [hb], this.1⟩

/-! ### `baseKey`, `attach` -/

/-- the path key of the parent (`[]` for the root) as `attach` computes it. -/
def baseKey (g : List Entry) (p : Option Nat) : List Nat :=
  match p with
  | none => []
  | some q => ((entryOf? g q).map (·.key)).getD []

theorem attach_def (g : List Entry) (p : Option Nat) (n : Nat) :
    attach g p n = g ++ [{ node := n, parent := p, key := baseKey g p ++ [sibCount g p] }] := by
  cases p <;> rfl

theorem inGraph_iff {g : List Entry} {n : Nat} : inGraph g n = true ↔ ∃ e ∈ g, e.node = n := by
  simp [inGraph]

theorem inGraph_false_iff {g : List Entry} {n : Nat} : inGraph g n = false ↔ ∀ e ∈ g, e.node ≠ n := by
  simp [inGraph]

theorem inGraph_append (g h : List Entry) (n : Nat) : inGraph (g ++ h) n = (inGraph g n || inGraph h n) := by
  simp [inGraph]

theorem sibCount_append (g h : List Entry) (p : Option Nat) : sibCount (g ++ h) p = sibCount g p + sibCount h p := by
  simp [sibCount]

theorem baseKey_append {g : List Entry} {q : Nat} (h : inGraph g q = true) (g' : List Entry) :
    baseKey (g ++ g') (some q) = baseKey g (some q) := by
  simp only [baseKey, entryOf?, List.find?_append]
  obtain ⟨e, he, hq⟩ := inGraph_iff.mp h
  cases hf : g.find? (fun e => e.node == q) with
  | none =>
    rw [List.find?_eq_none] at hf
    have := hf e he
    simp [hq] at this
  | some x => simp

/-- the graph was built by `attach` only. -/
def Built (g : List Entry) : Prop :=
  ∀ g1 e g2, g = g1 ++ e :: g2 →
    inGraph g1 e.node = false ∧ (∀ q, e.parent = some q → inGraph g1 q = true) ∧
    e.key = baseKey g1 e.parent ++ [sibCount g1 e.parent]

theorem built_nil : Built [] := by
  intro g1 e g2 h
  simp at h

theorem Built.prefix {g h : List Entry} (hb : Built (g ++ h)) : Built g := by
  intro g1 e g2 heq
  exact hb g1 e (g2 ++ h) (by rw [heq]; simp)

theorem Built.last {g : List Entry} {e : Entry} (hb : Built (g ++ [e])) :
    inGraph g e.node = false ∧ (∀ q, e.parent = some q → inGraph g q = true) ∧
    e.key = baseKey g e.parent ++ [sibCount g e.parent] := hb g e [] rfl

theorem built_snoc {g : List Entry} {e : Entry} (hb : Built g) (h1 : inGraph g e.node = false)
    (h2 : ∀ q, e.parent = some q → inGraph g q = true)
    (h3 : e.key = baseKey g e.parent ++ [sibCount g e.parent]) : Built (g ++ [e]) := by
  intro g1 x g2 heq
  rcases snoc_eq_append_cons heq with ⟨_, h', hx⟩ | ⟨g2', _, h'⟩
  · subst h'; subst hx; exact ⟨h1, h2, h3⟩
  · exact hb g1 x g2' h'

/-- `attach` of a new node under the root or under a present node keeps `Built`. -/
theorem built_attach {g : List Entry} (hb : Built g) (p : Option Nat) (n : Nat)
    (hp : ∀ q, p = some q → inGraph g q = true) (hn : inGraph g n = false) : Built (attach g p n) := by
  rw [attach_def]
  exact built_snoc hb hn hp rfl

theorem Built.mem_cond {g : List Entry} (hb : Built g) {e : Entry} (he : e ∈ g) :
    ∃ g1 g2, g = g1 ++ e :: g2 ∧ inGraph g1 e.node = false ∧ (∀ q, e.parent = some q → inGraph g1 q = true) ∧
      e.key = baseKey g1 e.parent ++ [sibCount g1 e.parent] := by
  obtain ⟨g1, g2, h⟩ := List.append_of_mem he
  exact ⟨g1, g2, h, hb g1 e g2 h⟩

theorem Built.nodup {g : List Entry} (hb : Built g) : (g.map (·.node)).Nodup := by
  induction g using snoc_induction with
  | hnil => simp
  | hsnoc g e ih =>
    have h1 := (Built.last hb).1
    rw [List.map_append, List.nodup_append]
    refine ⟨ih hb.prefix, by simp, ?_⟩
    intro a ha b hb'
    simp only [List.map_cons, List.map_nil, List.mem_singleton] at hb'
    subst hb'
    obtain ⟨x, hx, hxa⟩ := List.mem_map.mp ha
    have := inGraph_false_iff.mp h1 x hx
    intro heq; exact this (hxa.trans heq)

/-- an entry is determined by its node. -/
theorem node_unique {g : List Entry} (hn : (g.map (·.node)).Nodup) {a b : Entry} (ha : a ∈ g) (hb : b ∈ g)
    (h : a.node = b.node) : a = b := by
  induction g with
  | nil => cases ha
  | cons x xs ih =>
    simp only [List.map_cons, List.nodup_cons, List.mem_map, not_exists, not_and] at hn
    rcases List.mem_cons.mp ha with rfl | ha' <;> rcases List.mem_cons.mp hb with rfl | hb'
    · rfl
    · exact absurd h.symm (hn.1 b hb')
    · exact absurd h (hn.1 a ha')
    · exact ih hn.2 ha' hb'

theorem entryOf_of_mem {g : List Entry} {sub : List Entry} (hn : (g.map (·.node)).Nodup)
    (hsub : ∀ x ∈ sub, x ∈ g) {pe : Entry} (hpe : pe ∈ sub) : entryOf? sub pe.node = some pe := by
  unfold entryOf?
  cases hf : sub.find? (fun e => e.node == pe.node) with
  | none =>
    rw [List.find?_eq_none] at hf
    have := hf pe hpe
    simp at this
  | some x =>
    have hx : x ∈ sub := List.mem_of_find?_eq_some hf
    have hxn : x.node = pe.node := by simpa using List.find?_some hf
    rw [node_unique hn (hsub x hx) (hsub pe hpe) hxn]

theorem baseKey_of_mem {g : List Entry} {sub : List Entry} (hn : (g.map (·.node)).Nodup)
    (hsub : ∀ x ∈ sub, x ∈ g) {pe : Entry} (hpe : pe ∈ sub) : baseKey sub (some pe.node) = pe.key := by
  simp only [baseKey]
  rw [entryOf_of_mem hn hsub hpe]
  rfl

/-- parents are nodes of the graph. -/
theorem Built.parent_mem {g : List Entry} (hb : Built g) {e : Entry} (he : e ∈ g) {q : Nat}
    (hq : e.parent = some q) : ∃ pe ∈ g, pe.node = q ∧ e.key = pe.key ++ [e.key.getLast?.getD 0] ∧
      pe.key.length < e.key.length := by
  obtain ⟨g1, g2, hg, _, h2, h3⟩ := hb.mem_cond he
  obtain ⟨pe, hpe, hpq⟩ := inGraph_iff.mp (h2 q hq)
  have hsub : ∀ x ∈ g1, x ∈ g := by intro x hx; rw [hg]; simp [hx]
  have hk : baseKey g1 (some q) = pe.key := by
    rw [← hpq]; exact baseKey_of_mem hb.nodup hsub hpe
  rw [hq, hk] at h3
  refine ⟨pe, hsub pe hpe, hpq, ?_, ?_⟩
  · rw [h3]; simp
  · rw [h3]; simp

theorem Built.key_ne_nil {g : List Entry} (hb : Built g) {e : Entry} (he : e ∈ g) : e.key ≠ [] := by
  obtain ⟨g1, g2, _, _, _, h3⟩ := hb.mem_cond he
  rw [h3]; simp

/-- roots are exactly the entries whose key has length one. -/
theorem Built.root_iff {g : List Entry} (hb : Built g) {e : Entry} (he : e ∈ g) :
    e.parent = none ↔ e.key.length = 1 := by
  constructor
  · intro h
    obtain ⟨g1, g2, _, _, _, h3⟩ := hb.mem_cond he
    rw [h3, h]; simp [baseKey]
  · intro h
    cases hp : e.parent with
    | none => rfl
    | some q =>
      obtain ⟨pe, hpe, _, _, hlt⟩ := hb.parent_mem he hp
      have := hb.key_ne_nil hpe
      have : 0 < pe.key.length := List.length_pos_iff.mpr this
      omega

/-! ### siblings carry the keys `base ++ [0], base ++ [1], …` in insertion order -/

theorem Built.sibKeys {g : List Entry} (hb : Built g) (P : Option Nat) :
    (g.filter (fun e => e.parent == P)).map (·.key) =
      (List.range (sibCount g P)).map (fun j => baseKey g P ++ [j]) := by
  induction g using snoc_induction with
  | hnil => simp [sibCount]
  | hsnoc g e ih =>
    have ih := ih hb.prefix
    obtain ⟨h1, h2, h3⟩ := Built.last hb
    -- the base key of `P` is stable unless `P` has no child yet
    have hbase : baseKey (g ++ [e]) P = baseKey g P ∨ sibCount g P = 0 := by
      cases P with
      | none => left; rfl
      | some q =>
        by_cases hq : inGraph g q = true
        · left; exact baseKey_append hq _
        · right
          unfold sibCount
          rw [List.length_eq_zero_iff, List.filter_eq_nil_iff]
          intro x hx hxp
          have hxp' : x.parent = some q := by simpa using hxp
          obtain ⟨pe, hpe, hpq, _⟩ := hb.prefix.parent_mem hx hxp'
          exact hq (inGraph_iff.mpr ⟨pe, hpe, hpq⟩)
    by_cases hP : e.parent = P
    · have hf : (g ++ [e]).filter (fun e => e.parent == P) = g.filter (fun e => e.parent == P) ++ [e] := by
        rw [List.filter_append]; simp [hP]
      have hc : sibCount (g ++ [e]) P = sibCount g P + 1 := by
        unfold sibCount; rw [hf]; simp
      have hbk : baseKey (g ++ [e]) P = baseKey g P := by
        cases P with
        | none => rfl
        | some q => exact baseKey_append (h2 q hP) _
      rw [hf, hc, List.range_succ, List.map_append, List.map_append, ih, hbk]
      simp only [List.map_cons, List.map_nil]
      rw [h3, hP]
    · have hf : (g ++ [e]).filter (fun e => e.parent == P) = g.filter (fun e => e.parent == P) := by
        rw [List.filter_append]; simp [hP]
      have hc : sibCount (g ++ [e]) P = sibCount g P := by
        unfold sibCount; rw [hf]
      rw [hf, hc, ih]
      rcases hbase with hbase | hbase
      · rw [hbase]
      · rw [hbase]; rfl

/-! ### the order on keys is antisymmetric -/

theorem keyLe_antisymm {a b : List Nat} (h1 : keyLe a b = true) (h2 : keyLe b a = true) : a = b := by
  simp only [keyLe, Bool.or_eq_true, decide_eq_true_eq, Bool.and_eq_true, beq_iff_eq, Bool.not_eq_true'] at h1 h2
  have hl : a.length = b.length := by
    rcases h1 with h1 | ⟨h1, _⟩ <;> rcases h2 with h2 | ⟨h2, _⟩ <;> omega
  have hba : lexLt b a = false := by
    rcases h1 with h1 | ⟨_, h1⟩
    · omega
    · exact h1
  have hab : lexLt a b = false := by
    rcases h2 with h2 | ⟨_, h2⟩
    · omega
    · exact h2
  rcases lexLt_total a b hl with h | h | h
  · rw [hab] at h; cases h
  · exact h
  · rw [hba] at h; cases h

theorem lexLt_snoc (pre : List Nat) (i j : Nat) : lexLt (pre ++ [i]) (pre ++ [j]) = decide (i < j) := by
  induction pre with
  | nil => simp [lexLt]
  | cons x xs ih => simp [lexLt, ih]

theorem keyLe_snoc (pre : List Nat) (i j : Nat) : keyLe (pre ++ [i]) (pre ++ [j]) = decide (i ≤ j) := by
  simp only [keyLe, List.length_append, List.length_cons, List.length_nil, Nat.lt_irrefl, decide_false, beq_self_eq_true,
    lexLt_snoc, Bool.true_and, Bool.false_or]
  by_cases h : i ≤ j
  · simp [h, Nat.not_lt.mpr h]
  · simp [h, Nat.lt_of_not_le h]

/-! ### the listing order of a built tree is a build order -/

theorem mem_sortedEntries {g : List Entry} {e : Entry} : e ∈ sortedEntries g ↔ e ∈ g :=
  (sortedEntries_perm g).mem_iff

theorem sortedEntries_nodup {g : List Entry} (h : (g.map (·.node)).Nodup) :
    ((sortedEntries g).map (·.node)).Nodup :=
  ((sortedEntries_perm g).map _).nodup_iff.mpr h

/-- in the sorted entries, everything after `e` is at least as deep as `e`. -/
theorem sorted_split_depth {g A B : List Entry} {e : Entry} (hs : sortedEntries g = A ++ e :: B) :
    (∀ a ∈ A, a.key.length ≤ e.key.length) ∧ (∀ b ∈ B, e.key.length ≤ b.key.length) := by
  have := sortedEntries_depth_sorted g
  rw [hs, List.pairwise_append] at this
  refine ⟨fun a ha => this.2.2 a ha e (by simp), fun b hb => ?_⟩
  have h2 := this.2.1
  rw [List.pairwise_cons] at h2
  exact h2.1 b hb

theorem getElem?_append_cons_length {α} (l1 l2 : List α) (x : α) : (l1 ++ x :: l2)[l1.length]? = some x := by
  simp

/-- **the listing order is a build order**: re-attaching in listing order gives every entry the key it has. -/
theorem built_sortedEntries {g : List Entry} (hb : Built g) : Built (sortedEntries g) := by
  intro A e B hs
  have hperm := sortedEntries_perm g
  have hnd : ((sortedEntries g).map (·.node)).Nodup := sortedEntries_nodup hb.nodup
  have heS : e ∈ sortedEntries g := by rw [hs]; simp
  have heg : e ∈ g := mem_sortedEntries.mp heS
  have hAsub : ∀ x ∈ A, x ∈ g := by
    intro x hx; apply mem_sortedEntries.mp; rw [hs]; simp [hx]
  obtain ⟨hdA, hdB⟩ := sorted_split_depth hs
  -- (1) the node is new
  have c1 : inGraph A e.node = false := by
    rw [hs, List.map_append, List.nodup_append] at hnd
    rw [inGraph_false_iff]
    intro x hx hxe
    exact hnd.2.2 x.node (List.mem_map.mpr ⟨x, hx, rfl⟩) e.node (by simp) hxe
  -- (2) the parent is listed before
  have c2 : ∀ q, e.parent = some q → ∃ pe ∈ A, pe.node = q ∧ pe ∈ g := by
    intro q hq
    obtain ⟨pe, hpe, hpq, _, hlt⟩ := hb.parent_mem heg hq
    have hpeS : pe ∈ sortedEntries g := mem_sortedEntries.mpr hpe
    rw [hs, List.mem_append, List.mem_cons] at hpeS
    rcases hpeS with h | h | h
    · exact ⟨pe, h, hpq, hpe⟩
    · subst h; omega
    · have := hdB pe h; omega
  -- the key of `e` in `g`
  obtain ⟨g1, g2, hg, _, k2, k3⟩ := hb.mem_cond heg
  have hg1sub : ∀ x ∈ g1, x ∈ g := by intro x hx; rw [hg]; simp [hx]
  -- base keys agree
  have hbase : baseKey A e.parent = baseKey g1 e.parent := by
    cases hp : e.parent with
    | none => rfl
    | some q =>
      obtain ⟨pe, hpeA, hpq, _⟩ := c2 q hp
      obtain ⟨pe', hpe', hpq'⟩ := inGraph_iff.mp (k2 q hp)
      have : pe = pe' := node_unique hb.nodup (hAsub pe hpeA) (hg1sub pe' hpe') (hpq.trans hpq'.symm)
      subst this
      rw [← hpq, baseKey_of_mem hb.nodup hAsub hpeA, baseKey_of_mem hb.nodup hg1sub hpe']
  -- (3) the sibling index is the number of siblings listed before
  have hcount : sibCount A e.parent = sibCount g1 e.parent := by
    have hsk := hb.sibKeys e.parent
    -- the siblings in listing order are a sorted permutation of the siblings in insertion order
    have hp2 : ((sortedEntries g).filter (fun x => x.parent == e.parent)).map (·.key) =
        (List.range (sibCount g e.parent)).map (fun j => baseKey g e.parent ++ [j]) := by
      apply List.Perm.eq_of_pairwise (le := fun a b => keyLe a b = true)
      · intro a b _ _ h1 h2; exact keyLe_antisymm h1 h2
      · rw [List.pairwise_map]
        exact ((sortedEntries_pairwise g).sublist List.filter_sublist).imp (fun h => h)
      · rw [List.pairwise_map]
        refine (List.pairwise_lt_range (n := sibCount g e.parent)).imp ?_
        intro i j hij
        rw [keyLe_snoc]; simp; omega
      · rw [← hsk]; exact (hperm.filter _).map _
    rw [hs, List.filter_append, List.filter_cons] at hp2
    simp only [beq_self_eq_true, if_true, List.map_append, List.map_cons] at hp2
    have hget := getElem?_append_cons_length ((A.filter (fun x => x.parent == e.parent)).map (·.key))
      ((B.filter (fun x => x.parent == e.parent)).map (·.key)) e.key
    rw [hp2, List.length_map] at hget
    rw [List.getElem?_map] at hget
    have hlt : (A.filter (fun x => x.parent == e.parent)).length < sibCount g e.parent := by
      rcases Nat.lt_or_ge (A.filter (fun x => x.parent == e.parent)).length (sibCount g e.parent) with hge | hge
      · exact hge
      · rw [List.getElem?_eq_none (by simp; omega)] at hget
        simp at hget
    rw [List.getElem?_range hlt] at hget
    simp only [Option.map_some, Option.some.injEq] at hget
    -- compare with the key computed in insertion order
    have hbg : baseKey g e.parent = baseKey g1 e.parent := by
      cases hp : e.parent with
      | none => rfl
      | some q => rw [hg]; exact baseKey_append (k2 q hp) _
    rw [k3, hbg] at hget
    have := List.append_inj' hget rfl
    have h2 := this.2
    simp only [List.cons.injEq, and_true] at h2
    unfold sibCount at h2 ⊢
    exact h2
  refine ⟨c1, ?_, ?_⟩
  · intro q hq
    obtain ⟨pe, hpeA, hpq, _⟩ := c2 q hq
    exact inGraph_iff.mpr ⟨pe, hpeA, hpq⟩
  · rw [hbase, hcount]; exact k3

/-! ### images under a node map -/

theorem find?_congr' {α} {l : List α} {p q : α → Bool} (h : ∀ a ∈ l, p a = q a) : l.find? p = l.find? q := by
  induction l with
  | nil => rfl
  | cons x xs ih =>
    simp only [List.find?_cons]
    rw [h x (by simp), ih (fun a ha => h a (by simp [ha]))]

/-- image of an entry under a node map: node and parent mapped, same key. -/
def Entry.image (φ : Nat → Nat) (e : Entry) : Entry :=
  { node := φ e.node, parent := e.parent.map φ, key := e.key }

@[simp] theorem Entry.image_node (φ : Nat → Nat) (e : Entry) : (e.image φ).node = φ e.node := rfl
@[simp] theorem Entry.image_parent (φ : Nat → Nat) (e : Entry) : (e.image φ).parent = e.parent.map φ := rfl
@[simp] theorem Entry.image_key (φ : Nat → Nat) (e : Entry) : (e.image φ).key = e.key := rfl

/-- `φ` is injective on the nodes of `S`. -/
def InjOn (φ : Nat → Nat) (S : List Entry) : Prop :=
  ∀ a ∈ S, ∀ b ∈ S, φ a.node = φ b.node → a.node = b.node

/-- re-attaching the image of the next entry to the image of a prefix of a built list gives the image of the longer
    prefix — **the copy's `add` computes the same path key**. -/
theorem attach_image {S A B : List Entry} {e : Entry} (hb : Built S) (hs : S = A ++ e :: B) (φ : Nat → Nat)
    (hφ : InjOn φ S) :
    attach (A.map (Entry.image φ)) (e.parent.map φ) (φ e.node) = (A ++ [e]).map (Entry.image φ) ∧
    inGraph (A.map (Entry.image φ)) (φ e.node) = false ∧
    (∀ q, e.parent = some q → inGraph (A.map (Entry.image φ)) (φ q) = true) := by
  obtain ⟨h1, h2, h3⟩ := hb A e B hs
  have hAS : ∀ x ∈ A, x ∈ S := by intro x hx; rw [hs]; simp [hx]
  have heS : e ∈ S := by rw [hs]; simp
  -- parents of entries are nodes of S
  have hpar : ∀ x ∈ S, ∀ q, x.parent = some q → ∃ pe ∈ S, pe.node = q := by
    intro x hx q hq
    obtain ⟨pe, hpe, hpq, _⟩ := hb.parent_mem hx hq
    exact ⟨pe, hpe, hpq⟩
  have hsib : sibCount (A.map (Entry.image φ)) (e.parent.map φ) = sibCount A e.parent := by
    unfold sibCount
    rw [List.filter_map, List.length_map]
    congr 1
    apply List.filter_congr
    intro x hx
    simp only [Function.comp, Entry.image_parent]
    cases hxp : x.parent with
    | none => cases e.parent <;> simp
    | some a =>
      cases hep : e.parent with
      | none => simp
      | some b =>
        obtain ⟨pa, hpa, hpan⟩ := hpar x (hAS x hx) a hxp
        obtain ⟨pb, hpb, hpbn⟩ := hpar e heS b hep
        simp only [Option.map_some, Option.some.injEq, Bool.beq_eq_decide_eq, decide_eq_decide]
        constructor
        · intro h
          have := hφ pa hpa pb hpb (by rw [hpan, hpbn]; exact h)
          rw [hpan, hpbn] at this; exact this
        · intro h; rw [h]
  have hbase : baseKey (A.map (Entry.image φ)) (e.parent.map φ) = baseKey A e.parent := by
    cases hep : e.parent with
    | none => rfl
    | some b =>
      obtain ⟨pb, hpb, hpbn⟩ := hpar e heS b hep
      simp only [Option.map_some, baseKey, entryOf?]
      rw [List.find?_map]
      have : A.find? ((fun x => x.node == φ b) ∘ Entry.image φ) = A.find? (fun x => x.node == b) := by
        apply find?_congr'
        intro x hx
        simp only [Function.comp, Entry.image_node]
        have : (φ x.node = φ b) ↔ x.node = b := by
          constructor
          · intro h
            have := hφ x (hAS x hx) pb hpb (by rw [hpbn]; exact h)
            rw [hpbn] at this; exact this
          · intro h; rw [h]
        rw [Bool.eq_iff_iff]
        simp only [beq_iff_eq]
        exact this
      rw [this]
      cases A.find? (fun x => x.node == b) <;> simp
  refine ⟨?_, ?_, ?_⟩
  · rw [attach_def, hsib, hbase, List.map_append, ← h3]
    rfl
  · rw [inGraph_false_iff]
    intro x hx hxe
    obtain ⟨y, hy, hyx⟩ := List.mem_map.mp hx
    subst hyx
    simp only [Entry.image_node] at hxe
    have := hφ y (hAS y hy) e heS hxe
    exact inGraph_false_iff.mp h1 y hy this
  · intro q hq
    obtain ⟨pe, hpe, hpq⟩ := inGraph_iff.mp (h2 q hq)
    exact inGraph_iff.mpr ⟨pe.image φ, List.mem_map.mpr ⟨pe, hpe, rfl⟩, by simp [hpq]⟩

/-- the image of a built list under a node map injective on its nodes is built. -/
theorem built_image {S : List Entry} (hb : Built S) (φ : Nat → Nat) (hφ : InjOn φ S) :
    Built (S.map (Entry.image φ)) := by
  intro g1 x g2 heq
  obtain ⟨A, R, hS, hA, hR⟩ := List.map_eq_append_iff.mp heq
  obtain ⟨e, B, hR', he, _⟩ := List.map_eq_cons_iff.mp hR
  subst hR'
  subst hA
  subst he
  obtain ⟨a1, a2, a3⟩ := attach_image hb hS φ hφ
  refine ⟨a2, ?_, ?_⟩
  · intro q hq
    simp only [Entry.image_parent] at hq
    cases hep : e.parent with
    | none => rw [hep] at hq; simp at hq
    | some b =>
      rw [hep] at hq
      simp only [Option.map_some, Option.some.injEq] at hq
      subst hq
      exact a3 b hep
  · rw [attach_def, List.map_append] at a1
    have := List.append_inj' a1 rfl
    have h2 := this.2
    simp only [List.map_cons, List.map_nil, List.cons.injEq, and_true] at h2
    have := congrArg Entry.key h2
    simp only [Entry.image_key, Entry.image_parent] at this ⊢
    exact this.symm

/-- the image has the same keys, so it is sorted if the original is: listing commutes with the image. -/
theorem sortedEntries_image (S : List Entry) (φ : Nat → Nat) (h : S.Pairwise (fun a b => entryLe a b = true)) :
    sortedEntries (S.map (Entry.image φ)) = S.map (Entry.image φ) := by
  unfold sortedEntries
  apply List.mergeSort_of_pairwise
  rw [List.pairwise_map]
  exact h.imp (fun h => h)

theorem listing_image (g : List Entry) (φ : Nat → Nat) :
    listing ((sortedEntries g).map (Entry.image φ)) = (listing g).map φ := by
  unfold listing
  rw [sortedEntries_image _ φ (sortedEntries_pairwise g)]
  simp [List.map_map, Function.comp]

theorem heads_image (g : List Entry) (φ : Nat → Nat) :
    heads ((sortedEntries g).map (Entry.image φ)) = (heads g).map φ := by
  unfold heads
  rw [sortedEntries_image _ φ (sortedEntries_pairwise g), List.filter_map, List.map_map, List.map_map]
  congr 1
  apply List.filter_congr
  intro x _
  cases h : x.parent <;> simp [h]

/-- the sorted entry list is THE sorted permutation when the path keys are pairwise different (lets one evaluate the
    listing of a graph literal that is not stored in listing order). -/
theorem sortedEntries_eq_of_perm {g L : List Entry} (hp : L.Perm g) (hs : L.Pairwise (fun a b => entryLe a b = true))
    (hk : ∀ a ∈ g, ∀ b ∈ g, a.key = b.key → a = b) : sortedEntries g = L := by
  apply List.Perm.eq_of_pairwise (le := fun a b => entryLe a b = true)
  · intro a b ha hb h1 h2
    exact hk a (mem_sortedEntries.mp ha) b (hp.mem_iff.mp hb) (keyLe_antisymm h1 h2)
  · exact sortedEntries_pairwise g
  · exact hs
  · exact (sortedEntries_perm g).trans hp.symm

end Qco
