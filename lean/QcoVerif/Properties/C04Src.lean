import QcoVerif.Properties.C04
import QcoVerif.Lemmas.SpanSrc
/-
  C04 — tie to the SOURCE TEXT (DESIGN.md §2.3b).  Kept in a file of its own that nothing imports.
-/
namespace Qco.C04
open Qco Qco.Py Qco.Gen.PySrc Qco.SpanSrc

/-- **`_lead_and_span`: the source text computes the model's `leadSpan`** of the head starts and the node intervals (a nested
    block's interval shifted by its own lead, a leaf's lead 0), for every non-empty block with at least one depth-1 node among
    its nodes (`hd`: the depth-1 nodes, a sub-list of `nodes` by identity). -/
theorem lead_and_span_matches_source (nodes hd : List SNode) (hne : nodes ≠ [])
    (hhead : (nodes.filter (isHead hd)).map (·.start) ≠ []) :
    callFn spanEnv Composite_lead_and_span
        [.obj "CircuitCompositeOperation" 1
          [("empty_composite", .bool false),
           ("_circuit_graph", .obj "Graph" 2 [("get_nodes_at()", .list (hd.map spanNode)),
                                               ("get_node_iterator()", .list (nodes.map spanNode))])]] =
      .tuple [.int (leadSpan ((nodes.filter (isHead hd)).map (·.start))
                      (nodes.map (fun n => (n.start - n.leadEff, n.start - n.leadEff + n.span)))).1,
              .int (leadSpan ((nodes.filter (isHead hd)).map (·.start))
                      (nodes.map (fun n => (n.start - n.leadEff, n.start - n.leadEff + n.span)))).2] :=
  SpanSrc.lead_and_span_matches_source nodes hd hne hhead

/-- an empty block has lead and span 0. -/
theorem lead_and_span_empty_matches_source :
    callFn spanEnv Composite_lead_and_span [.obj "CircuitCompositeOperation" 1 [("empty_composite", .bool true)]] =
      .tuple [.int 0, .int 0] := SpanSrc.lead_and_span_empty_matches_source

/-- the memo of `_lead_and_span` is the query-scoped one (a longer-lived cache: finding R1, seeded change C04-m4). -/
theorem lead_and_span_decorated : Composite_lead_and_span.decorators = ["query_scoped_cache"] := by decide

/-- non-vacuity: a block of two nodes (a leaf at 0 of span 8, a nested block at 8 with lead 2, span 10), one head. -/
example : ([⟨1, false, 0, 8, 0⟩, ⟨2, true, 2, 10, 8⟩] : List SNode) ≠ [] ∧
    (([⟨1, false, 0, 8, 0⟩, ⟨2, true, 2, 10, 8⟩] : List SNode).filter (isHead [⟨1, false, 0, 8, 0⟩])).map (·.start) ≠ [] := by
  decide

end Qco.C04
