"""Shared machinery of the checks: paths, Lean build + axiom audit, driver runner, evidence, findings."""
from __future__ import annotations
import hashlib
import json
import os
import random
import re
import subprocess
import sys
import time
from pathlib import Path

VERIF = Path(__file__).resolve().parent.parent
LEAN = VERIF / 'lean'
REPO = Path(os.environ.get('QCO_REPO', '/repo'))
DRIVER = LEAN / '.lake' / 'build' / 'bin' / 'qcodriver'
EVIDENCE = VERIF / 'evidence'
REPLAYS = VERIF / 'replays'
CORPUS = VERIF / 'corpus'
FINDINGS_FILE = VERIF / 'known_findings.json'
ALLOWED_AXIOMS = {'propext', 'Classical.choice', 'Quot.sound'}

TRUSTED_BASE = [
    'Lean 4.33.0 kernel (lake build); axioms of every property theorem audited ⊆ {propext, Classical.choice, Quot.sound}',
    'hand-written Lean model of the code (QcoVerif/Model), tied to /repo by this run\'s correspondence check only',
    'tools/extract_tables.py (code → QcoVerif/Generated/*.lean), plain data',
    'Python semantics (dict/set, dataclass __eq__/__hash__, float arithmetic on dyadic values)',
]


def log(*a):
    print(*a, file=sys.stderr, flush=True)


def seed_from_env(default: int = 0) -> int:
    try:
        return int(os.environ.get('VERIF_SEED', default))
    except ValueError:
        return default


def rng_for(seed: int, label: str) -> random.Random:
    h = hashlib.sha256(f'{seed}:{label}'.encode()).digest()
    return random.Random(int.from_bytes(h[:8], 'big'))


# ----------------------------------------------------------------------------- Lean side

class LeanFailure(Exception):
    def __init__(self, what: str, output: str):
        super().__init__(what)
        self.what = what
        self.output = output


def run(cmd, cwd=None, timeout=3600, env=None):
    p = subprocess.run(cmd, cwd=cwd, capture_output=True, text=True, timeout=timeout, env=env)
    return p.returncode, p.stdout + p.stderr


def regenerate_tables() -> dict:
    """Runs the translator (code → Lean tables). Returns its report."""
    rc, out = run(['/venv/bin/python', str(VERIF / 'tools' / 'extract_tables.py')], cwd=str(VERIF), timeout=600)
    try:
        rep = json.loads(out.strip().splitlines()[-1])
    except Exception:
        if rc != 0:
            raise LeanFailure('translator failed', out)
        return {'raw': out[-2000:]}
    if rc != 0 and not rep.get('errors'):
        raise LeanFailure('translator failed', out)
    return rep


def lake_build(targets: list[str]) -> tuple[bool, str, float]:
    t0 = time.time()
    rc, out = run(['lake', 'build'] + targets, cwd=str(LEAN), timeout=7200)
    return rc == 0, out, time.time() - t0


_THEOREM_RE = re.compile(r'^\s*(?:@\[[^\]]*\]\s*)?(?:private\s+|protected\s+)?theorem\s+([^\s:({\[]+)', re.M)
_NS_RE = re.compile(r'^\s*namespace\s+(\S+)', re.M)


def property_theorems(prop: str) -> list[str]:
    """Fully qualified names of the theorems stated in Properties/<prop>.lean (one namespace per file)."""
    out = []
    for f in property_files(prop):
        src = strip_comments(f.read_text())
        ns = _NS_RE.search(src)
        prefix = (ns.group(1) + '.') if ns else ''
        out += [prefix + m.group(1) for m in _THEOREM_RE.finditer(src)]
    return out


def property_files(prop: str) -> list:
    """Properties/<prop>.lean and, if present, Properties/<prop>Src.lean (the ties to the source text, kept in a file nothing
    imports so that a changed source function breaks the obligations of ITS property only)."""
    d = LEAN / 'QcoVerif' / 'Properties'
    return [f for f in (d / f'{prop}.lean', d / f'{prop}Src.lean') if f.exists()]


def property_modules(prop: str) -> list:
    return [f'QcoVerif.Properties.{f.stem}' for f in property_files(prop)]


def strip_comments(src: str) -> str:
    out = []
    i = 0
    depth = 0
    while i < len(src):
        if src.startswith('/-', i):
            depth += 1
            i += 2
        elif depth and src.startswith('-/', i):
            depth -= 1
            i += 2
        elif depth:
            i += 1
        elif src.startswith('--', i):
            j = src.find('\n', i)
            i = len(src) if j < 0 else j
        else:
            out.append(src[i])
            i += 1
    return ''.join(out)


FORBIDDEN = re.compile(r'\b(sorry|admit|native_decide|bv_decide|implemented_by|unsafe)\b|^\s*axiom\s|maxHeartbeats\s+0\b', re.M)


def grep_forbidden() -> list[str]:
    hits = []
    for f in sorted((LEAN / 'QcoVerif').rglob('*.lean')) + [LEAN / 'Main.lean']:
        src = strip_comments(f.read_text())
        for m in FORBIDDEN.finditer(src):
            hits.append(f'{f.relative_to(LEAN)}: {m.group(0).strip()}')
    return hits


def audit_axioms(prop: str) -> dict:
    """`#print axioms` on every theorem of Properties/<prop>.lean. Returns {theorem: [axioms]}."""
    names = property_theorems(prop)
    if not names:
        return {}
    audit_dir = LEAN / '.audit'
    audit_dir.mkdir(exist_ok=True)
    f = audit_dir / f'{prop}.lean'
    f.write_text(''.join(f'import {m}\n' for m in property_modules(prop)) + ''.join(f'#print axioms {n}\n' for n in names))
    rc, out = run(['lake', 'env', 'lean', str(f)], cwd=str(LEAN), timeout=1800)
    res: dict[str, list[str]] = {}
    # messages look like: 'Qco.C19.match_symm' depends on axioms: [propext]   /  does not depend on any axioms
    flat = re.sub(r'\s+', ' ', out)
    for n in names:
        m = re.search(r"'" + re.escape(n) + r"' (does not depend on any axioms|depends on axioms: \[([^\]]*)\])", flat)
        if not m:
            res[n] = ['<not reported>']
        elif m.group(2) is None:
            res[n] = []
        else:
            res[n] = [a.strip() for a in m.group(2).split(',') if a.strip()]
    if rc != 0:
        for n in names:
            res.setdefault(n, ['<audit failed>'])
        res['<audit>'] = ['<lean exited %d: %s>' % (rc, out[-400:])]
    return res


def proof_obligations(prop: str, extra_targets: list[str] | None = None) -> dict:
    """Regenerate tables, build the property's closure and the driver, audit axioms.

    Returns a dict with obligations/discharged/failed/details. Never raises on a failed build:
    the caller turns failure into a search for a failing input."""
    t0 = time.time()
    info: dict = {'property': prop}
    try:
        info['translator'] = regenerate_tables()
    except LeanFailure as e:
        info['translator_error'] = e.output[-3000:]
    targets = property_modules(prop) + ['qcodriver'] + (extra_targets or [])
    ok, out, dt = lake_build(targets)
    info['build_ok'] = ok
    info['build_s'] = round(dt, 1)
    info['checker_cmd'] = 'cd lean && lake build ' + ' '.join(targets) + f' && lake env lean .audit/{prop}.lean  (#print axioms)'
    names = property_theorems(prop)
    info['theorems'] = names
    info['obligations'] = len(names)
    if not ok:
        info['build_output'] = out[-6000:]
        info['discharged'] = 0
        info['failed'] = ['<build>'] + _failed_theorems(out)
        return info
    forb = grep_forbidden()
    info['forbidden_hits'] = forb
    ax = audit_axioms(prop)
    info['axioms'] = ax
    bad = [n for n in names if not set(ax.get(n, ['<missing>'])) <= ALLOWED_AXIOMS]
    if '<audit>' in ax:
        bad.append('<audit>')
    if forb:
        bad.append('<forbidden constructs>')
    # a translator section that could not read the code leaves a STALE generated file behind: the theorems that compiled are
    # then about the old code — that is a broken obligation, not a pass
    if info.get('translator_error') or (isinstance(info.get('translator'), dict) and info['translator'].get('errors')):
        bad.append('<translator>')
    info['failed'] = bad
    info['discharged'] = len(names) - len([b for b in bad if not b.startswith('<')])
    info['lean_s'] = round(time.time() - t0, 1)
    return info


def _failed_theorems(build_output: str) -> list[str]:
    """names of the declarations lake reports an error in (best effort: `error: File.lean:LINE:COL` → enclosing theorem)."""
    names = []
    for m in re.finditer(r'error: (QcoVerif/[\w/]+\.lean):(\d+):', build_output):
        f, line = LEAN / m.group(1), int(m.group(2))
        try:
            src = f.read_text().splitlines()
        except OSError:
            continue
        for i in range(min(line, len(src)) - 1, -1, -1):
            mm = re.match(r'\s*(?:@\[[^\]]*\]\s*)?(?:private\s+|protected\s+)?(?:theorem|def|example)\s+([^\s:({\[]+)?', src[i])
            if mm:
                nm = f'{f.stem}:{mm.group(1) or "example"}'
                if nm not in names:
                    names.append(nm)
                break
    return names[:12]


def pysem_stage(oc, prop: str, groups: list, seed: int, tier: str, effects: bool = False) -> dict:
    """semantics check of the mini-Python interpreter against CPython on the translated functions of `groups`
    (harness/pysem.py).  A disagreement means the meaning Model/PyLang.lean gives to the translated source is not CPython's:
    the `…_matches_source` theorems then say nothing about the code — reported as a broken correspondence."""
    from . import pysem
    try:
        rep = pysem.check(groups, seed, 25 if tier == 'quick' else 400) if groups else {'cases': 0, 'mismatch_count': 0, 'mismatches': []}
        if effects:
            # the builder functions act on objects: the effects `Py.callEffects` records vs the effects the real functions perform
            # on recording proxies
            er = pysem.check_effects(seed, 20 if tier == 'quick' else 300)
            rep.update({k: v for k, v in er.items() if k != 'effect_mismatches'})
            rep['mismatch_count'] += er['effect_mismatch_count']
            rep['mismatches'] = rep.get('mismatches', []) + er['effect_mismatches']
    except LeanFailure as e:
        rep = {'cases': 0, 'mismatch_count': 1, 'mismatches': [{'driver': e.output[-600:]}]}
    if rep['mismatch_count']:
        oc.violation({'property': prop, 'kind': 'correspondence-broken',
                      'unchecked': 'mini-Python interpreter (Model/PyLang.lean) vs CPython on the translated source functions',
                      'first_differences': rep['mismatches'][:5], 'count': rep['mismatch_count']}, found_input=False)
    return {'source_semantics_check': {k: rep[k] for k in ('cases', 'skipped_not_encodable', 'per_function', 'raising_cases',
                                                             'mismatch_count', 'effect_cases', 'effect_events', 'effect_skipped',
                                                             'effect_per_function') if k in rep}}


def driver_available() -> bool:
    return DRIVER.exists()


def run_driver(lines: list[str], timeout: int = 1800) -> list[str]:
    """Pipes lines to the model driver, returns its answer lines (one per input line)."""
    if not lines:
        return []
    p = subprocess.run([str(DRIVER)], input='\n'.join(lines) + '\n', capture_output=True, text=True, timeout=timeout)
    out = p.stdout.split('\n')
    if out and out[-1] == '':
        out.pop()
    if p.returncode != 0 or len(out) != len(lines):
        raise LeanFailure('driver', f'rc={p.returncode} lines in={len(lines)} out={len(out)} stderr={p.stderr[-2000:]}')
    return out


# ----------------------------------------------------------------------------- findings / evidence / replays

def load_findings() -> list[dict]:
    if not FINDINGS_FILE.exists():
        return []
    return json.loads(FINDINGS_FILE.read_text())['findings']


def write_replay(prop: str, payload: dict) -> str:
    REPLAYS.mkdir(exist_ok=True)
    blob = json.dumps(payload, sort_keys=True, default=str)
    h = hashlib.sha256(blob.encode()).hexdigest()[:12]
    path = REPLAYS / f'{prop}-{h}.json'
    path.write_text(json.dumps(payload, indent=1, sort_keys=True, default=str))
    return str(path.relative_to(VERIF))


def write_evidence(prop: str, tier: str, seed: int, coverage: dict, wall_s: float, violations: int,
                   assumptions: list[str] | None = None, extra: dict | None = None):
    EVIDENCE.mkdir(exist_ok=True)
    doc = {
        'property_id': prop,
        'tier': tier,
        'seed': seed,
        'level': 'proof',
        'coverage': coverage,
        'assumptions': assumptions or [],
        'wall_s': round(wall_s, 2),
        'violations': violations,
    }
    if extra:
        doc.update(extra)
    (EVIDENCE / f'{prop}.json').write_text(json.dumps(doc, indent=1, sort_keys=True, default=str) + '\n')


class Outcome:
    """Collects what a check saw and renders verdict lines."""

    def __init__(self, prop: str):
        self.prop = prop
        self.violations: list[tuple[str, bool]] = []   # (replay path, found_input)
        self.known: list[str] = []

    def violation(self, replay_payload: dict, found_input: bool = True):
        path = write_replay(self.prop, replay_payload)
        self.violations.append((path, found_input))

    def known_finding(self, what: str):
        if what not in self.known:
            self.known.append(what)

    def emit(self) -> int:
        for k in self.known:
            print(f'KNOWN-FINDING: property={self.prop} {k}')
        seen = set()
        for path, found in self.violations:
            if path in seen:
                continue
            seen.add(path)
            tail = '' if found else ' no-failing-input-found'
            print(f'VIOLATION property={self.prop} replay={path}{tail}')
        sys.stdout.flush()
        return 1 if self.violations else 0
