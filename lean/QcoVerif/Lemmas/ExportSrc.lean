import QcoVerif.Lemmas.PyBridge
/-
  `self` objects and the uninterpreted-constructor environment for the translated `to_stim_instruction` methods.  Core Lean only.
-/
namespace Qco.ExportSrc
open Qco Qco.Py

def optVal : Option Int → Val
  | none => .none
  | some i => .int i

/-- constructors and module functions are uninterpreted: the structural value (name, arguments…), as in the driver. -/
def structEnv : Env := { func := fun f args => some (.tuple (.str f :: args)) }

def recVal (k : Int) : Val := .tuple [.str "stim.target_rec", .int k]

def instrVal (name : String) (recs : List Int) (args : Option (List Int)) : Val :=
  .tuple ([Val.str "stim.CircuitInstruction", .tuple [.str "name", .str name], .tuple [.str "targets", .list (recs.map recVal)]] ++
    (match args with | some a => [Val.tuple [.str "gate_args", .list (a.map Val.int)]] | none => []))

def detSelf (q : Int) (last main sec refOff secOff : Option Int) : Val :=
  .obj "DetectorOperation" 0 [("qubit_index", .int q), ("last_acquisition_index", optVal last), ("main_target", optVal main),
    ("secondary_target", optVal sec), ("reference_offset", optVal refOff), ("secondary_offset", optVal secOff)]

end Qco.ExportSrc
