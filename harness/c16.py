"""C16 — simultaneous two-qubit gates are accepted iff they cannot collide in frequency.

Proof side: Properties/C16.lean (allowed_iff, parking_iff, generator_sound over the generated Surface-17 tables).
Correspondence side (this file): the implementation's `GateSequenceGenerator.get_mutually_allowed`,
`get_requires_parking` and `construct_allowed_gate_sequences(...).construct_operation_sequences()` are compared
(i) with the Lean model through the `conn` driver module, (ii) with the specification predicate evaluated by the
driver, and (iii) with the same predicate written independently in Python over the live tables.
"""
from __future__ import annotations
import itertools
import json
import time
from collections import Counter

from . import common, connlib
from .connlib import b

PROP = 'C16'
MATCHERS: dict = {}          # name -> f(payload, finding) for known_findings.json entries of this property

RULE = ('edge lists over the 24 Surface-17 edges: every subset of <= K edges in table orientation (K = 3 quick, 4 '
        'thorough; exhaustive), random lists of 4-8 edges, lists with flipped orientations / shuffled order / a '
        'repeated gate, a malformed stream with pairs of qubits that are not device edges; for each list the '
        'acceptance verdict and the parking verdict of all 17 qubits are compared with the model and with the '
        'specification predicate (driver and independent Python); generator: lists of 4-8 edges x subgroup sizes 1-4 '
        '(+ combination-limit and non-dividing sizes), every emitted sequence checked for soundness. A case is '
        'non-trivial when it has >= 2 gates (acceptance is a statement about pairs) or a non-empty parking set, or '
        '(generator) emits >= 1 sequence; distinct = distinct as (kind, ordered edge list, parameters).')


# ----------------------------------------------------------------------------------------------- workers

def _eval_subset(es):
    L = connlib.live()
    try:
        with connlib.quiet():
            return (L.impl_allowed(es), L.impl_parkset(es))
    except Exception as e:  # noqa
        return f'EXC:{type(e).__name__}:{str(e)[:100]}'


def _eval_mix(ops):
    """ops: list of ('i'|'p', qubit) | ('g', (a, b))"""
    L = connlib.live()
    from qce_circuit.connectivity.mapping.gate_sequence_generator import GateSequenceGenerator
    from qce_circuit.connectivity.intrf_connectivity_gate_sequence import Operation
    mk = {'i': lambda x: Operation.type_idle(L.q(x)), 'p': lambda x: Operation.type_park(L.q(x)),
          'g': lambda x: Operation.type_gate(L.e(x))}
    try:
        with connlib.quiet():
            return bool(GateSequenceGenerator.get_mutually_allowed([mk[t](x) for t, x in ops], L.layer))
    except Exception as e:  # noqa
        return f'EXC:{type(e).__name__}:{str(e)[:100]}'


def _eval_gen(case):
    """Returns dict(pointers=sorted index pointers | 'exceed', failures=[...], n_sequences)."""
    L = connlib.live()
    es, k, mx = case['edges'], case['k'], case.get('max')
    from qce_circuit.connectivity.mapping.gate_sequence_generator import GateSequenceGenerator
    from qce_circuit.utilities.custom_exceptions import ExceedingCombinationCountException
    edge_ids = [L.e(p) for p in es]
    try:
        with connlib.quiet():
            gen = GateSequenceGenerator(included_edge_ids=edge_ids, connectivity=L.layer)
            try:
                ident = gen.construct_allowed_gate_sequences(subgroup_size=k, **({} if mx is None else {'max_combinations': mx}))
            except ExceedingCombinationCountException:
                return {'pointers': 'exceed', 'failures': [], 'n': 0}
            ptrs = [[list(map(int, st)) for st in seq] for seq in ident.index_pointers]
            seqs = list(ident.construct_operation_sequences())
            fails = []
            if len(seqs) != len(ptrs):
                fails.append({'what': 'sequence-count', 'expected': len(ptrs), 'observed': len(seqs)})
            for seq_ptr, seq in zip(ptrs, seqs):
                steps = [[L.pair_of(op.identifier) for op in st] for st in seq.operations]
                # the operation sequence is the index pointers resolved against the requested list
                if steps != [[es[i] for i in st] for st in seq_ptr]:
                    fails.append({'what': 'pointers-do-not-resolve-to-requested-gates', 'sequence': seq_ptr, 'steps': steps})
                # property: steps of the subgroup size, each requested gate exactly once, every step accepted
                if any(len(st) != k for st in seq_ptr):
                    fails.append({'what': 'step-size', 'sequence': seq_ptr})
                if sorted(i for st in seq_ptr for i in st) != list(range(len(es))):
                    fails.append({'what': 'not-each-gate-exactly-once', 'sequence': seq_ptr})
                if Counter(frozenset(p) for st in steps for p in st) != Counter(frozenset(p) for p in es):
                    fails.append({'what': 'gates-of-sequence-differ-from-requested', 'sequence': seq_ptr})
                for st in steps:
                    if all(L.is_device_edge(p) for p in st) and not L.accepted(st):
                        fails.append({'what': 'step-not-collision-free', 'sequence': seq_ptr, 'step': st})
                    if not L.impl_allowed(st):
                        fails.append({'what': 'step-not-accepted-by-get_mutually_allowed', 'sequence': seq_ptr, 'step': st})
            return {'pointers': sorted(sorted(sorted(st) for st in seq) for seq in ptrs), 'failures': fails[:5], 'n': len(ptrs)}
    except Exception as e:  # noqa
        return {'pointers': f'EXC:{type(e).__name__}:{str(e)[:100]}', 'failures': [], 'n': 0}


# ----------------------------------------------------------------------------------------------- case generation

def flip(p):
    return (p[1], p[0])


def subset_cases(L, tier, rng, corpus):
    E = L.edges
    cases = []
    for doc in corpus:
        if doc.get('kind') == 'subset':
            cases.append({'edges': [tuple(x.split('-')) for x in doc['edges']], 'origin': 'corpus'})
    kmax = 3 if tier == 'quick' else 4
    for k in range(kmax + 1):
        for sub in itertools.combinations(E, k):
            cases.append({'edges': list(sub), 'origin': f'exhaustive{k}'})
    n_rand = 500 if tier == 'quick' else 6000
    for _ in range(n_rand):
        k = rng.choice([4, 4, 5, 5, 6, 7, 8]) if tier == 'quick' else rng.choice([5, 5, 6, 6, 7, 8, 9, 10, 12])
        cases.append({'edges': rng.sample(E, k), 'origin': 'random'})
    # accepted larger sets are rare among uniform draws: grow some greedily so that both verdicts are exercised
    for _ in range(120 if tier == 'quick' else 1500):
        cur = []
        for e in rng.sample(E, len(E)):
            if L.accepted(cur + [e]):
                cur.append(e)
            if len(cur) >= rng.choice([3, 4, 5, 6]):
                break
        if rng.random() < 0.4:
            cur.append(rng.choice(E))
        cases.append({'edges': cur, 'origin': 'grown'})
    # orientation / order / repetition variants (the theorems quantify over lists of oriented edges)
    for _ in range(250 if tier == 'quick' else 3000):
        k = rng.choice([1, 2, 2, 3, 3, 4])
        sub = [flip(p) if rng.random() < 0.5 else p for p in rng.sample(E, k)]
        if rng.random() < 0.35:
            d = rng.choice(sub)
            sub.insert(rng.randrange(len(sub) + 1), flip(d) if rng.random() < 0.5 else d)
        cases.append({'edges': sub, 'origin': 'variant'})
    # malformed: pairs of known qubits that are not device edges (outside the quantifier: correspondence only)
    for _ in range(60 if tier == 'quick' else 600):
        sub = rng.sample(E, rng.choice([0, 1, 2]))
        for _ in range(rng.choice([1, 1, 2])):
            while True:
                a, c = rng.sample(L.qubits, 2)
                if frozenset((a, c)) not in L.adj:
                    break
            sub.insert(rng.randrange(len(sub) + 1), (a, c))
        cases.append({'edges': sub, 'origin': 'nondevice'})
    return cases


def mix_cases(L, tier, rng):
    out = []
    for _ in range(250 if tier == 'quick' else 3000):
        ops = []
        for _ in range(rng.choice([1, 2, 2, 3, 4])):
            r = rng.random()
            if r < 0.5:
                ops.append(('g', rng.choice(L.edges)))
            elif r < 0.75:
                ops.append(('i', rng.choice(L.qubits)))
            else:
                ops.append(('p', rng.choice(L.qubits)))
        out.append(ops)
    return out


def gen_cases(L, tier, rng, corpus):
    E = L.edges
    cases = [{'edges': [tuple(x.split('-')) for x in d['edges']], 'k': d['k'], 'max': d.get('max'), 'origin': 'corpus'}
             for d in corpus if d.get('kind') == 'gen']
    # the chain of the repository's own test
    chain = [('D5', 'Z1'), ('Z1', 'D1'), ('D1', 'X1'), ('X1', 'D2'), ('D2', 'X2'), ('X2', 'D3'), ('D3', 'Z2'), ('Z2', 'D6')]
    cases.append({'edges': chain, 'k': 2, 'max': None, 'origin': 'repo-test'})
    n = 44 if tier == 'quick' else 520
    for _ in range(n):
        size = rng.choice([4, 4, 5, 6, 6, 7, 8, 8])
        k = rng.choice([1, 2, 2, 3, 4])
        r = rng.random()
        if r < 0.45:       # spread-out lists (grown to be pairwise compatible as far as possible): sequences exist
            cur = []
            for e in rng.sample(E, len(E)):
                if sum(1 for f in cur if not L.pair_ok(e, f)) <= rng.choice([0, 0, 1]):
                    cur.append(e)
                if len(cur) == size:
                    break
            es = cur if len(cur) >= 4 else rng.sample(E, size)
        else:
            es = rng.sample(E, size)
        if rng.random() < 0.3:
            es = [flip(p) if rng.random() < 0.5 else p for p in es]
        mx = None
        if rng.random() < 0.12:
            mx = rng.choice([0, 1, 3, 10])
        cases.append({'edges': es, 'k': k, 'max': mx, 'origin': 'random'})
    if tier == 'thorough':
        for size, k in [(9, 3), (10, 2), (10, 5), (12, 6), (12, 4)]:
            cases.append({'edges': rng.sample(E, size), 'k': k, 'max': None, 'origin': 'large'})
    return cases


# ----------------------------------------------------------------------------------------------- table correspondence

def table_checks(L):
    """(driver line, what the live implementation says) for the generated tables and the small device functions."""
    from qce_circuit.connectivity.connectivity_surface_code import get_neighbors, on_moving_side
    from qce_circuit.connectivity.intrf_connectivity_surface_code import FrequencyGroup, FrequencyGroupIdentifier
    from qce_circuit.connectivity.mapping.gate_sequence_generator import OperationConstraint, GateSequenceGenerator
    from qce_circuit.connectivity.intrf_connectivity_gate_sequence import Operation, OperationType
    S = L.layer
    out = []
    out.append(('conn qubits', ','.join(L.qubits)))
    out.append(('conn edges', L.ecsv(L.edges)))
    out.append(('conn edgenames', ','.join(e.id for e in S.edge_ids)))
    out.append(('conn freq', ','.join(str(L.freq[q]) for q in L.qubits)))

    def par(groups):
        return ';'.join(f"{ {'STABILIZER_X': 0, 'STABILIZER_Z': 1}[g.parity_type.name] }:{L.qtok(g.ancilla_id.id)}:{L.qcsv([d.id for d in g.data_ids])}"
                        for g in groups) or '-'
    out.append(('conn parity', f'x={par(S.parity_group_x)} z={par(S.parity_group_z)}'))
    out.append(('conn feedlines', ';'.join(f'{f.id}:{L.qcsv([q.id for q in S.get_connected_qubits(f)])}' for f in S.feedline_ids)))
    groups = [FrequencyGroup.LOW, FrequencyGroup.MID, FrequencyGroup.HIGH]
    for i, x in enumerate(groups):
        for j, y in enumerate(groups):
            fx, fy = FrequencyGroupIdentifier(_id=x), FrequencyGroupIdentifier(_id=y)
            out.append((f'conn higher {i} {j}', b(fx.is_higher_than(fy))))
            out.append((f'conn lower {i} {j}', b(fx.is_lower_than(fy))))

    def opstr(op):
        if op.type == OperationType.GATE:
            return 'g:' + L.etok(L.pair_of(op.identifier))
        return ('i:' if op.type == OperationType.IDLE else 'p:') + L.qtok(op.identifier.id)

    def ops(l):
        return ','.join(opstr(o) for o in l) or '-'
    oriented = L.edges + [flip(p) for p in L.edges]
    for q in L.qubits:
        Q = L.q(q)
        out.append((f'conn getedges {L.qtok(q)}', L.ecsv([L.pair_of(e) for e in S.get_edges(Q)])))
        out.append((f'conn neighbors {L.qtok(q)}', L.qcsv([x.id for x in S.get_neighbors(Q)])))
        out.append((f'conn possible {L.qtok(q)}', ops(OperationConstraint.get_possible_operations(Q, S))))
        for p in oriented:
            out.append((f'conn moving {L.qtok(q)} {L.etok(p)}', b(on_moving_side(Q, L.e(p), S))))
            out.append((f'conn idle {L.qtok(q)} {L.etok(p)}', b(OperationConstraint.get_requires_idle(Q, [L.e(p)], S))))
    for p in oriented:
        out.append((f'conn eneighbors {L.etok(p)}', L.qcsv([x.id for x in get_neighbors(L.e(p), S)])))
    targets = [Operation.type_gate(L.e(p)) for p in L.edges] + [Operation.type_gate(L.e(flip(L.edges[0])))] + \
              [Operation.type_idle(L.q(q)) for q in L.qubits[:6]] + [Operation.type_park(L.q(q)) for q in L.qubits[6:12]]
    for t in targets:
        for q in L.qubits:
            out.append((f'conn forbidden {opstr(t)} {L.qtok(q)}', ops(OperationConstraint.get_forbidden_operations(t, L.q(q), S))))
        c = GateSequenceGenerator.construct_operation_constraints(t, S)
        out.append((f'conn allowedops {opstr(t)}', ops(c.get_allowed_operations(S))))
    for n in range(0, 13):
        for k in range(1, 7):
            out.append((f'conn combsize {n} {k}', str(GateSequenceGenerator.get_combination_size(n, k))))
    return out


def diagnose_tables(L):
    """Names the entries of the two decided tables (`table_pairs`, `table_parking`) on which the model and the
    specification differ — what a failed `decide` of Properties/C16.lean is about."""
    oriented = L.edges + [flip(p) for p in L.edges]
    lines = []
    keys = []
    for e in oriented:
        for f in oriented:
            lines += [f'conn allowedmix g:{L.etok(e)} g:{L.etok(f)}', f'conn spec-accepted {L.etok(e)} {L.etok(f)}']
            keys.append(('pair', e, f))
    for e in oriented:
        lines += [f'conn parkset {L.etok(e)}', f'conn spec-parkset {L.etok(e)}']
        keys.append(('parking', e))
    res = common.run_driver(lines)
    bad = []
    for i, key in enumerate(keys):
        if res[2 * i] != res[2 * i + 1]:
            bad.append({'table': key[0], 'entry': ['-'.join(p) for p in key[1:]], 'model': res[2 * i], 'spec': res[2 * i + 1]})
    return bad


# ----------------------------------------------------------------------------------------------- the check

def subset_lines(L, es, device):
    t = L.etoks(es)
    lines = [f'conn allowed {t}'.rstrip(), f'conn parkset {t}'.rstrip()]
    if device:
        lines += [f'conn spec-accepted {t}'.rstrip(), f'conn spec-parkset {t}'.rstrip()]
    return lines


def judge_subset(L, es, impl):
    """Property predicate (independent Python) on the implementation's answer. Returns list of failures."""
    if isinstance(impl, str):
        return [{'what': 'implementation-raised', 'observed': impl}]
    fails = []
    if not all(L.is_device_edge(p) for p in es):
        return fails
    allowed, parks = impl
    if allowed != L.accepted(es):
        fails.append({'what': 'acceptance', 'expected': L.accepted(es), 'observed': allowed})
    want = L.park_set(es)
    if parks != want:
        fails.append({'what': 'parking', 'expected': want, 'observed': parks})
    return fails


def shrink_subset(L, es, what):
    """Greedy: drop edges while the same predicate still fails on the implementation."""
    cur = list(es)
    changed = True
    while changed and len(cur) > 1:
        changed = False
        for i in range(len(cur)):
            cand = cur[:i] + cur[i + 1:]
            if any(f['what'] == what for f in judge_subset(L, cand, _eval_subset(cand))):
                cur = cand
                changed = True
                break
    return cur


def shrink_gen(case, what, budget=80):
    """Greedy: drop `k` requested gates at a time (the list must stay divisible) while the same failure remains."""
    cur = dict(case)
    k = max(1, cur['k'])
    changed = True
    while changed and len(cur['edges']) > k and budget > 0:
        changed = False
        for drop in itertools.combinations(range(len(cur['edges'])), k):
            budget -= 1
            if budget < 0:
                break
            cand = dict(cur)
            cand['edges'] = [e for i, e in enumerate(cur['edges']) if i not in drop]
            if any(f['what'] == what for f in _eval_gen(cand)['failures']):
                cur = cand
                changed = True
                break
    return cur


def names(es):
    return ['-'.join(p) for p in es]


def run(tier: str, seed: int) -> int:
    t0 = time.time()
    oc = common.Outcome(PROP)
    lean = common.proof_obligations(PROP)
    proof_ok = bool(lean['build_ok'] and not lean['failed'])
    if not connlib.ensure_driver(lean):
        print(f'model driver missing: {lean.get("build_output", "")[-800:]}')
        return 2
    L = connlib.live()
    rng = common.rng_for(seed, PROP)
    corpus = connlib.load_corpus(PROP)
    stats = Counter()
    dist = {'subset_size': Counter(), 'origin': Counter(), 'accepted': Counter(), 'parking_set_size': Counter(),
            'gen_emitted': Counter(), 'gen_k': Counter(), 'gen_n': Counter()}
    nontrivial = set()
    reported = set()
    disagreements = []

    def report_violation(kind, payload, found=True):
        kf = connlib.attribute(PROP, MATCHERS, payload)
        if kf is not None:
            oc.known_finding(kf)
            return
        if kind in reported:
            return
        reported.add(kind)
        oc.violation(payload, found_input=found)

    # ---- 1. tables + device functions
    tchecks = table_checks(L)
    tres = common.run_driver([l for l, _ in tchecks])
    tbad = [{'query': l, 'implementation': e, 'model': r} for (l, e), r in zip(tchecks, tres) if e != r]
    stats['table_queries'] = len(tchecks)
    for d in tbad[:1]:
        disagreements.append({'kind': 'table', **d})

    # ---- 2. edge lists: acceptance + parking
    cases = subset_cases(L, tier, rng, corpus)
    impl = connlib.pmap(_eval_subset, [c['edges'] for c in cases])
    lines, spans = [], []
    for c in cases:
        c['device'] = all(L.is_device_edge(p) for p in c['edges'])
        l = subset_lines(L, c['edges'], c['device'])
        spans.append((len(lines), len(l)))
        lines += l
    mres = common.run_driver(lines)
    for c, im, (a, k) in zip(cases, impl, spans):
        es = c['edges']
        key = ('subset', tuple(es))
        stats['subset_cases'] += 1
        dist['subset_size'][len(es)] += 1
        dist['origin'][c['origin']] += 1
        model = mres[a:a + k]
        if isinstance(im, str):
            impl_ans = [im, im]
        else:
            impl_ans = [b(im[0]), L.qcsv(im[1])]
            dist['accepted'][b(im[0])] += 1
            dist['parking_set_size'][len(im[1])] += 1
            if len(es) >= 2 or im[1]:
                nontrivial.add(key)
        # (iii) independent predicate on the implementation's answer
        fails = judge_subset(L, es, im)
        # (ii) the driver's specification predicate on the implementation's answer
        if c['device'] and not isinstance(im, str):
            if model[2] != impl_ans[0] and not any(f['what'] == 'acceptance' for f in fails):
                fails.append({'what': 'acceptance', 'expected(driver spec)': model[2], 'observed': impl_ans[0]})
            if model[3] != impl_ans[1] and not any(f['what'] == 'parking' for f in fails):
                fails.append({'what': 'parking', 'expected(driver spec)': model[3], 'observed': impl_ans[1]})
        for f in fails:
            stats['predicate_failures'] += 1
            if 'pred:' + f['what'] in reported:
                continue          # one shrunk replay per failure class
            small = shrink_subset(L, es, f['what']) if f['what'] in ('acceptance', 'parking') else es
            si = _eval_subset(small)
            report_violation('pred:' + f['what'], {
                'property': PROP, 'kind': 'predicate-fails-on-implementation', 'failure': f,
                'input': {'kind': 'subset', 'edges': names(small)},
                'implementation': None if isinstance(si, str) else {'allowed': si[0], 'requires_parking': si[1]},
                'specification': {'accepted': L.accepted(small), 'requires_parking': L.park_set(small)},
                'found_while_checking': names(es)})
        # (i) correspondence model <-> implementation
        if model[:2] != impl_ans:
            stats['disagreements'] += 1
            disagreements.append({'kind': 'subset', 'edges': es, 'implementation': impl_ans, 'model': model[:2],
                                  'predicate_failures': fails})

    # ---- 3. mixed operation lists (idle / park / gate): correspondence of get_mutually_allowed as a whole
    mixes = mix_cases(L, tier, rng)
    mimpl = connlib.pmap(_eval_mix, mixes)

    def optok(o):
        return f'{o[0]}:' + (L.etok(o[1]) if o[0] == 'g' else L.qtok(o[1]))
    mmod = common.run_driver(['conn allowedmix ' + ' '.join(optok(o) for o in ops) for ops in mixes])
    for ops, im, mo in zip(mixes, mimpl, mmod):
        stats['mixed_cases'] += 1
        ia = im if isinstance(im, str) else b(im)
        if ia != mo:
            stats['disagreements'] += 1
            disagreements.append({'kind': 'mixed-operations', 'operations': [[o[0], o[1]] for o in ops], 'implementation': ia, 'model': mo})

    # ---- 4. sequence generator
    gcases = gen_cases(L, tier, rng, corpus)
    gimpl = connlib.pmap(_eval_gen, gcases, min_parallel=2)
    glines = []
    for c in gcases:
        mx = '' if c['max'] is None else f' max={c["max"]}'
        glines.append(f'conn gen {c["k"]}{mx} {L.etoks(c["edges"])}')
    gmod = common.run_driver(glines)
    slines, sowner = [], []
    for c, gi, gm in zip(gcases, gimpl, gmod):
        stats['generator_cases'] += 1
        dist['gen_k'][c['k']] += 1
        dist['gen_n'][len(c['edges'])] += 1
        ptr = gi['pointers']
        if isinstance(ptr, str):
            canon = ptr
        else:
            canon = '|'.join(';'.join(','.join(map(str, st)) for st in seq) or '-' for seq in ptr) or 'none'
            dist['gen_emitted'][min(gi['n'], 20) if gi['n'] < 20 else '20+'] += 1
            stats['generator_sequences'] += gi['n']
            if gi['n'] >= 1:
                nontrivial.add(('gen', tuple(c['edges']), c['k'], c['max']))
            for seq in ptr[:40]:
                slines.append(f'conn spec-seq {c["k"]} ' + (';'.join(','.join(map(str, st)) for st in seq) or '-') + ' ' + L.etoks(c['edges']))
                sowner.append((c, seq))
        for f in gi['failures']:
            stats['predicate_failures'] += 1
            if 'gen:' + f['what'] in reported:
                continue
            small = shrink_gen(c, f['what'])
            sf = [x for x in _eval_gen(small)['failures'] if x['what'] == f['what']]
            report_violation('gen:' + f['what'], {
                'property': PROP, 'kind': 'predicate-fails-on-implementation', 'failure': (sf or [f])[0],
                'input': {'kind': 'gen', 'edges': names(small['edges']), 'k': small['k'], 'max': small['max']},
                'found_while_checking': names(c['edges'])})
        if canon != gm:
            stats['disagreements'] += 1
            disagreements.append({'kind': 'gen', 'edges': c['edges'], 'k': c['k'], 'max': c['max'],
                                  'implementation': canon[:400], 'model': gm[:400], 'predicate_failures': gi['failures']})
    if slines:
        sres = common.run_driver(slines)
        for (c, seq), r in zip(sowner, sres):
            stats['sequences_checked_by_driver_predicate'] += 1
            if r != '1':
                stats['predicate_failures'] += 1
                report_violation('gen:driver-soundness', {
                    'property': PROP, 'kind': 'predicate-fails-on-implementation',
                    'failure': {'what': 'emitted sequence is not sound (driver predicate)', 'sequence': seq},
                    'input': {'kind': 'gen', 'edges': names(c['edges']), 'k': c['k'], 'max': c['max']}})

    # ---- 5. model and implementation disagree / a proof obligation no longer checks  →  search
    def search(d):
        """Is there an input, near the disagreement, on which the implementation itself violates the property?"""
        if d.get('predicate_failures'):
            return True      # already reported above with its own replay
        if d['kind'] != 'subset':
            return False
        es = [p for p in d['edges'] if L.is_device_edge(p)]
        cands = [list(s) for k in (1, 2, 3) for s in itertools.combinations(es, k)]
        cands += [[flip(p) for p in s] for s in cands[:50]]
        for cand in cands:
            fl = judge_subset(L, cand, _eval_subset(cand))
            if fl:
                report_violation('pred:' + fl[0]['what'], {
                    'property': PROP, 'kind': 'predicate-fails-on-implementation', 'failure': fl[0],
                    'input': {'kind': 'subset', 'edges': names(cand)}, 'found_by': 'search after a model/implementation disagreement'})
                return True
        return False

    if disagreements:
        d = disagreements[0]
        found = any(search(x) for x in disagreements[:20])
        if not found:
            payload = {'property': PROP, 'kind': 'correspondence-broken',
                       'unchecked': 'correspondence Lean model <-> implementation (conn driver module)',
                       'first_difference': json.loads(json.dumps(d, default=str)), 'disagreements': len(disagreements)}
            report_violation('dis', payload, found=False)
    sem = common.pysem_stage(oc, PROP, ['conn'], seed, tier)
    if not proof_ok:
        bad = []
        try:
            bad = diagnose_tables(L)
        except Exception as e:  # noqa
            bad = [{'error': str(e)}]
        if not oc.violations:
            oc.violation({'property': PROP, 'kind': 'proof-obligation-broken', 'unchecked': lean.get('failed'),
                          'table_entries_where_model_and_specification_differ': bad[:40],
                          'note': 'the implementation agreed with the specification predicate on every explored input',
                          'build_output': lean.get('build_output', '')[-3000:], 'axioms': lean.get('axioms')},
                         found_input=False)

    # ---- evidence
    wall = time.time() - t0
    evaluations = stats['subset_cases'] * 18 + stats['mixed_cases'] + stats['generator_cases'] + stats['table_queries']
    coverage = {}
    if lean['obligations']:
        coverage.update({'obligations': lean['obligations'], 'discharged': lean['discharged']})
    kmax = 3 if tier == 'quick' else 4
    coverage.update({
        'checker_cmd': lean['checker_cmd'],
        'trusted_base': common.TRUSTED_BASE,
        'theorems': lean.get('theorems', []),
        'axioms': lean.get('axioms', {}),
        **sem,
        'evaluations': evaluations,
        'distinct_nontrivial': len(nontrivial),
        'rule': RULE,
        'exhaustive': True,
        'exhaustive_scope': f'all {sum(1 for c in cases if c["origin"].startswith("exhaustive"))} subsets of <= {kmax} of the 24 edges x 17 qubits',
        'samples': [{'kind': 'subset', 'edges': names(cases[len(cases) // 3]['edges'])},
                    {'kind': 'subset', 'edges': names(next(c for c in cases if c['origin'] == 'grown')['edges'])},
                    {'kind': 'gen', 'edges': names(gcases[-1]['edges']), 'k': gcases[-1]['k'], 'max': gcases[-1]['max']}],
        'traces_validated_against_impl': stats['subset_cases'] + stats['mixed_cases'] + stats['generator_cases'] + stats['table_queries']
                                         - stats['disagreements'] - len(tbad),
        'disagreements': stats['disagreements'] + len(tbad),
        'table_disagreements': tbad[:5],
        'counts': dict(stats),
        'corpus_cases': len(corpus),
        'input_distribution': {k: {str(a): n for a, n in sorted(v.items(), key=lambda x: str(x[0]))} for k, v in dist.items()},
        'known_findings_printed': oc.known,
        'lean': {k: lean.get(k) for k in ('build_ok', 'build_s', 'lean_s', 'failed', 'forbidden_hits', 'translator')},
    })
    common.write_evidence(PROP, tier, seed, coverage, wall, len(oc.violations),
                          ['device qubits/edges are the live Surface17Layer tables at the time of the run',
                           'edge identity is the unordered pair (EdgeIDObj.__eq__); degenerate edges q-q are outside the quantifier'])
    return oc.emit()


def replay(doc: dict) -> int:
    """Re-runs one replay file on the current implementation and model; 1 = still violates."""
    L = connlib.live()
    inp = doc.get('input') or {}
    if inp.get('kind') == 'subset':
        es = [tuple(x.split('-')) for x in inp['edges']]
        im = _eval_subset(es)
        fails = judge_subset(L, es, im)
        print(json.dumps({'input': inp, 'implementation': im, 'failures': fails}, default=str))
        return 1 if fails else 0
    if inp.get('kind') == 'gen':
        c = {'edges': [tuple(x.split('-')) for x in inp['edges']], 'k': inp['k'], 'max': inp.get('max')}
        r = _eval_gen(c)
        print(json.dumps({'input': inp, 'failures': r['failures'], 'sequences': r['n']}, default=str))
        return 1 if r['failures'] else 0
    print('replay names no input (a proof obligation or the correspondence broke): run ./check C16')
    return 1
