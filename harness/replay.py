"""./check replay <file>: re-runs one replay file against the current tree."""
from __future__ import annotations
import importlib
import json
import sys
from pathlib import Path

from . import common


def run(path) -> int:
    if not path:
        print('usage: ./check replay <file>')
        return 2
    p = Path(path)
    if not p.is_absolute():
        p = common.VERIF / p
    doc = json.loads(p.read_text())
    prop = doc.get('property') or p.name.split('-')[0]
    mod = importlib.import_module(f'harness.{prop.lower()}')
    if hasattr(mod, 'replay'):
        try:
            return mod.replay(doc)
        except TypeError:
            return mod.replay(str(p))
    # build-program replays of the stream checks
    from . import progs, stream, streamcheck
    spec = getattr(mod, 'SPEC', None)
    if spec is None or 'program' not in doc:
        print(json.dumps(doc, indent=1)[:4000])
        print('no replay routine for this file; content printed above')
        return 2
    amb = progs.ambient_durations()
    r = streamcheck.evaluate(spec, [doc['program']], amb)[0]
    print('implementation:', r['impl'])
    print('model         :', r['model'])
    print('disagreement  :', r['dis'])
    print('predicate failures:', r['fails'])
    from . import findings
    left = []
    for fl in r['fails']:
        kf = findings.attribute(prop, r, fl)
        if kf is not None:
            print(f'KNOWN-FINDING: property={prop} {kf}')
        else:
            left.append(fl)
    bad = r['dis'] is not None or bool(left)
    if bad:
        print(f'VIOLATION property={prop} replay={path}')
    return 1 if bad else 0
