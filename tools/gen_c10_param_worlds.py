"""Writes lean/QcoVerif/Lemmas/C10ParamWorlds{0..3}.lean — plain data for the LAYERED library clause of C10.

Same pipeline as tools/gen_c10_programs.py (real constructor under the recorder -> build program -> Lean model driver,
which must list the same circuit as the implementation -> `heap dump`), but
  * the certificate is not a schedule table but, per sub-circuit, its LAYERS (paths between synchronisation points and the
    path the next layer hangs below) — computed here by the heuristic of `Qco.C10Param.autoCertF` (an UNTRUSTED certificate;
    the verified checker `Qco.C10Param.layeredOk`, sound by `layeredOk_sound`, checks it);
  * the heap is written as two binary tries (`Qco.C10Param.BT`, look-ups in log n kernel steps; `mkWorld` is the heap);
  * larger inputs (the layered check is near-linear in the heap; the schedule check costs about n^2.6);
  * each chunk module ends with `theorem checked : cases.all TCase.ok = true := by decide +kernel` (the chunks are
    independent modules, so lake checks them in parallel; Properties/C10.lean only combines them);
  * inputs also AFTER `apply_modifiers` (the unrolled variants, which `scheduleOk` rejects because of their group links):
    the program gets `["apply", c]` appended before the dump.
Relation trees with several branches that have children (`cycles = 0`: the ancilla and the data measurement block below the
initialisation block) give several sequences of layers per sub-circuit.  Inputs that do not pass the pre-check are reported
under `not_layered` and left out.
Prints one JSON line (report).  Usage: python tools/gen_c10_param_worlds.py [--outdir DIR] [--max-objects N]
"""
from __future__ import annotations
import json
import os
import sys
from pathlib import Path

ROOT = Path(__file__).resolve().parent.parent
sys.path.insert(0, str(ROOT))
sys.path.insert(0, str(ROOT / 'tools'))
os.environ.setdefault('TQDM_DISABLE', '1')
sys.setrecursionlimit(200000)

from harness import common, progs, record  # noqa: E402
import gen_c10_programs as G  # noqa: E402

OUTDIR = ROOT / 'lean' / 'QcoVerif' / 'Lemmas'
COMP = 'CircuitCompositeOperation'
NCHUNKS = 4


def case_list():
    """(case, variants): variants ⊆ {'constructed', 'unrolled'}"""
    cs = []
    both = ('constructed', 'unrolled')
    con = ('constructed',)
    # the chain family, full constructor: distances 2..5 (3..9 qubits)
    for length, cycles in ((3, ((0, both), (2, both), (3, con), (4, both), (5, con))),
                           (5, ((0, con), (1, both), (2, both), (3, con), (4, con))),
                           (7, ((0, both), (1, con), (2, both), (4, con))),
                           (9, ((0, con), (1, con), (2, con), (4, con))),
                           (11, ((1, con),)), (13, ((2, con),)), (15, ((1, con),)), (17, ((0, con), (1, con), (2, con)))):
        nd = (length + 1) // 2
        for c, var in cycles:
            cs.append(({'kind': 'full', 'cycles': c, 'desc': ['chain', length, 1], 'data': ('10' * nd)[:nd]}, var))
    cs.append(({'kind': 'full', 'cycles': 3, 'desc': ['chain', 5, 0], 'data': '101'}, both))
    # simplified constructor: the unrolled variants (the constructed ones are in Generated/C10Worlds), larger chains
    for length, cyc in ((3, 3), (5, 3), (7, 4), (9, 4)):
        nd = (length + 1) // 2
        for refocus in (1, 0):
            cs.append(({'kind': 'simplified', 'cycles': cyc, 'desc': ['chain', length, refocus], 'data': ('10' * nd)[:nd]},
                       both if length >= 7 else ('unrolled',)))
    # Surface-17 layouts, full constructor
    for name in record.LAYOUTS:
        n = len(record.layout_chain(name))
        for start, length in ((0, 3), (2, 5), (n - 5, 5)):
            nd = (length + 1) // 2
            cs.append(({'kind': 'full', 'cycles': 2, 'desc': ['layout', name, start, length, 1], 'data': ('01' * nd)[:nd]},
                       con))
    cs.append(({'kind': 'calib', 'type': 'QUTRIT', 'n': 3}, ('unrolled',)))
    return cs


# ----------------------------------------------------------------------------- layers (certificate) and pre-check

REG = {'A': {'gR': (0, 2, 1, 0, 0), 'gM': (0, 0, 1, 0, 0), 'd': (0, 1, 0, 0, 0)},
       'B': {'gR': (0, 1, 0, 0, 0), 'gM': (1, 1, 1, 0, 0), 'd': (0, 0, 0, 0, 0)}}


class Heap:
    def __init__(self, world):
        self.ops, self.links = world['ops'], world['links']
        self.dreg = {k: v for k, v in world['dreg']}

    def iscomp(self, o): return self.ops[o]['cls'] == COMP

    def leaves(self, o):
        if not self.iscomp(o):
            return [o]
        r = []
        for e in self.ops[o]['graph']:
            r += self.leaves(e[0])
        return r

    def qubits(self, o): return set(q for a in self.leaves(o) for q, _ in G.chans(self.ops[a]))

    def durform(self, d, R):
        if d in REG[R]:
            return REG[R][d]
        if d[0] == 'f':
            return (int(d[1:]), 0, 0, 0, 0)
        if d[0] == 'r':
            return (self.dreg.get(int(d[1:]), 0), 0, 0, 0, 0)
        return {'gF': (0, 0, 0, 1, 0), 'gS': (0, 0, 0, 0, 1)}[d]

    def sumform(self, c, R):
        t = (0, 0, 0, 0, 0)
        for y in c:
            if not self.iscomp(y):
                t = G.add(t, self.durform(self.ops[y]['dur'], R))
        return t

    def conf(self, a, b, R):
        ca, cb = G.chans(self.ops[a]), G.chans(self.ops[b])
        if not any(x[0] == y[0] and (x[1] == y[1] or 'A' in (x[1], y[1])) for x in ca for y in cb):
            return False
        if 'Barrier' in (self.ops[a]['cls'], self.ops[b]['cls']):
            return True
        return self.durform(self.ops[a]['dur'], R) != G.ZERO and self.durform(self.ops[b]['dur'], R) != G.ZERO

    def direct_fb(self, a, x):
        m, refs, rel = self.links[self.ops[x]['link']]
        return rel == 'FB' and (((not m) and refs[:1] == [a]) or (m and refs == [a]))

    def fb_step(self, a, x):
        m, refs, rel = self.links[self.ops[x]['link']]
        return rel == 'FB' and (((not m) and refs[:1] == [a]) or (m and a in refs))

    def seqs(self, X):
        """the heuristic of `autoCertF`: sequences of layers [[(chains, main)]]"""
        g = self.ops[X]['graph']
        kids, roots = {}, []
        for e in g:
            if e[1] < 0:
                roots.append(e[0])
            else:
                kids.setdefault(e[1], []).append(e[0])

        def chain_from(x):
            c, hq = [x], self.qubits(x)
            while len(c) <= len(g):
                ks = kids.get(c[-1], [])
                if len(ks) != 1:
                    break
                y = ks[0]
                zero_leaf = (not self.iscomp(y)) and self.ops[y]['cls'] != 'Barrier' and self.ops[y]['dur'] == 'f0'
                if not (self.qubits(y) <= hq or zero_leaf):
                    break
                c.append(y)
            return c

        def seqs_from(fuel, heads):
            if fuel == 0 or not heads:
                return []
            chains = [chain_from(h) for h in heads]
            cont = [c for c in chains if kids.get(c[-1])]
            main = cont[0] if cont else chains[-1]
            free = [c for c in chains if c != main and (kids.get(c[-1]) or any(self.iscomp(x) for x in c))]
            here = ([c for c in chains if c not in free], main)

            def below(layer, c):
                ss = seqs_from(fuel - 1, kids.get(c[-1], []))
                return [[layer] + t for t in ss] if ss else [[layer]]
            out = below(here, main)
            for c in free:
                out += below(([c], c), c)
            return out
        return seqs_from(len(g), roots)

    def check(self, top):
        """the conditions of `layeredOk`, in Python (a failing case is reported here, not by lake); returns (cert, problems)"""
        cert, problems = {}, []

        def no_conflict(x, y):
            return not any(self.conf(a, b, R) for R in 'AB' for a in self.leaves(x) for b in self.leaves(y))

        def block(X):
            g = self.ops[X]['graph']
            ss = self.seqs(X)
            cert[X] = ss
            if not ss:
                problems.append((X, 'no layers'))
                return
            opsof = [[y for chs, _ in ls for c in chs for y in c] for ls in ss]
            if not all(any(e[0] in o for o in opsof) for e in g):
                problems.append((X, 'coverage'))
            if not any(any(e[1] < 0 and e[0] == ls[0][1][0] for e in g) for ls in ss):
                problems.append((X, 'main head'))
            if self.links[self.ops[X]['link']][2] == 'JE':
                problems.append((X, 'joined end'))
            if len(ss) > 1:
                for i, o1 in enumerate(opsof):
                    for j, o2 in enumerate(opsof):
                        for A in o1:
                            if A not in o2:
                                for B in o2:
                                    if B not in o1 and not no_conflict(A, B):
                                        problems.append((X, 'cross conflict', A, B))
            for ls in ss:
                opener = None
                for chs, main in ls:
                    if main not in chs:
                        problems.append((X, 'main'))
                    for c in chs:
                        if opener is None:
                            if self.ops[c[0]]['link'] != self.ops[X]['link']:
                                problems.append((X, 'head link', c[0]))
                        else:
                            if not self.fb_step(opener, c[0]):
                                problems.append((X, 'hang', opener, c[0]))
                            if not (all(self.direct_fb(opener, cc[0]) for cc in chs) or
                                    all(self.ops[cc[0]]['link'] == self.ops[c[0]]['link'] for cc in chs)):
                                problems.append((X, 'sync', opener))
                        for a, b in zip(c, c[1:]):
                            if not self.direct_fb(a, b):
                                problems.append((X, 'path', a, b))
                        if c != main:
                            if any(self.iscomp(y) for y in c):
                                problems.append((X, 'sub-circuit beside the dominating path', c))
                            for R in 'AB':
                                if not G.nonneg(G.sub(self.sumform(main, R), self.sumform(c, R))):
                                    problems.append((X, 'dominance', R, c, main))
                    for c1 in chs:
                        for c2 in chs:
                            if c1 != c2 and not all(no_conflict(x, y) for x in c1 for y in c2):
                                problems.append((X, 'conflict', c1, c2))
                    opener = main[-1]
            for e in g:
                if self.iscomp(e[0]):
                    block(e[0])
        if any(not G.nonneg(self.durform(o['dur'], R)) for o in self.ops for R in 'AB'):
            problems.append(('negative duration',))
        block(top)
        return cert, problems


# ----------------------------------------------------------------------------- Lean syntax

def li(x): return f'({x})' if x < 0 else str(x)


def lean_op(o):
    qs = '[' + ', '.join(li(q) for q in o['qs']) + ']'
    ints = '[' + ', '.join('none' if x is None else f'some {li(x)}' for x in o['ints']) + ']'
    rep = f'.fixed {o["rep"][1:]}' if o['rep'][0] == 'f' else f'.reg {o["rep"][1:]}'
    g = '[' + ', '.join('⟨%d, %s, [%s]⟩' % (e[0], 'none' if e[1] < 0 else f'some {e[1]}', ', '.join(map(str, e[2])))
                        for e in o['graph']) + ']'
    return (f"⟨.{G.CLS[o['cls']]}, {qs}, .{G.CHAN[o['chan']]}, {G.lean_dur(o['dur'])}, {o['link']}, {o['tag']}, "
            f"{o['reg']}, {ints}, {rep}, {g}⟩")


def lean_link(l):
    m, refs, rel = l
    return f"⟨{'true' if m else 'false'}, [{', '.join(map(str, refs))}], .{G.REL[rel]}⟩"


def lean_trie(items, show, ind):
    """items: [(index, value)]; index 0 at the root, odd i -> left at (i-1)/2, even i -> right at (i-2)/2"""
    if not items:
        return '.nil'
    root = [v for i, v in items if i == 0]
    if len(root) != 1:
        raise ValueError('trie layout')
    left = [((i - 1) // 2, v) for i, v in items if i % 2 == 1]
    right = [((i - 2) // 2, v) for i, v in items if i % 2 == 0 and i > 0]
    pad = ' ' * ind
    if not left and not right:
        return f'.node .nil {show(root[0])} .nil'
    return (f'.node\n{pad}({lean_trie(left, show, ind + 1)})\n{pad}{show(root[0])}\n'
            f'{pad}({lean_trie(right, show, ind + 1)})')


def lean_cert(cert):
    rows = []
    for X in sorted(cert):
        seqs = ', '.join('[' + ', '.join('⟨[%s], [%s]⟩' % (', '.join('[' + ', '.join(map(str, c)) + ']' for c in chs),
                                                            ', '.join(map(str, main))) for chs, main in ls) + ']'
                         for ls in cert[X])
        rows.append(f'({X}, [{seqs}])')
    return '[' + ',\n    '.join(rows) + ']'


def main():
    max_objects = int(sys.argv[sys.argv.index('--max-objects') + 1]) if '--max-objects' in sys.argv else 1300
    outdir = Path(sys.argv[sys.argv.index('--outdir') + 1]) if '--outdir' in sys.argv else OUTDIR
    report = {'generated': str(outdir), 'cases': 0, 'model_mismatch': [], 'objects': 0, 'skipped': [], 'too_large': [],
              'not_layered': []}
    ambient = progs.ambient_durations()
    items, lines, spans = [], [], []
    for c, variants in case_list():
        try:
            fn, kw = record.build_case(c)
            prog, idx, real = record.record(fn, **kw)
        except Exception as e:  # noqa
            report['skipped'].append(f'{G.case_name(c)}: {type(e).__name__}')
            continue
        want = record.real_listing(real)
        for v in variants:
            unrolled = v == 'unrolled'
            tail = [['list', idx]] + ([['apply', idx], ['list', idx]] if unrolled else [])
            l = progs.to_lines(prog + tail, ambient) + ['heap dump']
            spans.append((len(lines), len(l)))
            lines += l
            items.append((c, idx, want, unrolled))
    res = common.run_driver(lines)
    lean_cases = []
    for (c, idx, want, unrolled), (a, k) in zip(items, spans):
        first_list = res[a + k - (4 if unrolled else 2)]
        dump = res[a + k - 1]
        name = G.case_name(c) + (' UNROLLED' if unrolled else '')
        if first_list != want or not dump.startswith('{'):
            report['model_mismatch'].append(name)
            continue
        world = json.loads(dump)
        if len(world['ops']) > max_objects:
            report['too_large'].append(f'{name} ({len(world["ops"])} objects)')
            continue
        comp = world['circs'][idx]
        cert, problems = Heap(world).check(comp)
        if problems:
            report['not_layered'].append({'case': name, 'why': str(problems[0])[:200]})
            continue
        report['objects'] += len(world['ops'])
        lean_cases.append((name, world, comp, cert))
    # chunks of balanced size, one module each (built in parallel; one `decide +kernel` each in Properties/C10.lean)
    order = sorted(range(len(lean_cases)), key=lambda i: -len(lean_cases[i][1]['ops']))
    chunks = [[] for _ in range(NCHUNKS)]
    load = [0] * NCHUNKS
    for i in order:
        k = load.index(min(load))
        chunks[k].append(i)
        load[k] += len(lean_cases[i][1]['ops'])
    outdir.mkdir(parents=True, exist_ok=True)
    for k, idxs in enumerate(chunks):
        body = ['import QcoVerif.Lemmas.C10ParamFast',
                '/- GENERATED by tools/gen_c10_param_worlds.py from the live code (recorder + model driver). Plain data:',
                '   heaps the model builds for recorded library constructor calls (as constructed / after apply_modifiers),',
                '   written as binary tries, each with its layer certificate. -/',
                f'namespace Qco.C10Param.Worlds{k}', 'open Qco Qco.C10 Qco.C10Param', 'set_option maxRecDepth 1000000', '']
        for i in sorted(idxs):
            name, world, comp, cert = lean_cases[i]
            n, m = len(world['ops']), len(world['links'])
            dreg = ', '.join(f'({kk}, {li(v)})' for kk, v in world['dreg'])
            body.append(f'/-- {name} ({n} objects) -/')
            body.append(f'def ops{i} : BT Op :=\n  {lean_trie(list(enumerate(world["ops"])), lean_op, 2)}')
            body.append(f'def lnk{i} : BT Link :=\n  {lean_trie(list(enumerate(world["links"])), lean_link, 2)}')
            body.append(f'def cert{i} : List (Nat × List (List LayerData)) :=\n  {lean_cert(cert)}')
            body.append(f'def case{i} : TCase := ⟨{json.dumps(name)}, ops{i}, {n}, lnk{i}, {m}, [{dreg}], cert{i}, {comp}⟩')
            body.append('')
        body.append('def cases : List TCase := [' + ', '.join(f'case{i}' for i in sorted(idxs)) + ']')
        body.append('')
        body.append('/-- the verified layered checker (`TCase.sound`), evaluated by the kernel on this chunk -/')
        body.append('theorem checked : cases.all TCase.ok = true := by decide +kernel')
        body.append('')
        body.append(f'end Qco.C10Param.Worlds{k}')
        text = '\n'.join(body) + '\n'
        out = outdir / f'C10ParamWorlds{k}.lean'
        if not out.exists() or out.read_text() != text:
            out.write_text(text)
    report['cases'] = len(lean_cases)
    report['chunk_objects'] = load
    report['names'] = [f'{x[0]} ({len(x[1]["ops"])})' for x in lean_cases]
    print(json.dumps(report))
    return 0


if __name__ == '__main__':
    sys.exit(main())
